//@include prelude/header.rs
use rustpython_parser::ast::{Expr, Stmt, Keyword, Identifier, Constant, ExceptHandler, ExprCall, Alias};
use rustpython_parser::text_size::TextRange;
verus! {
pub mod pre {
use super::*;
//@include build/astspec.rs
//@include prelude/path.rs
//@include prelude/types.rs
//@include prelude/dashmap.rs
//@include prelude/hashset.rs
//@include prelude/hof.rs
//@include prelude/strings.rs
//@include prelude/iter_ext.rs
//@include prelude/iter_slice.rs
} // mod pre
use pre::*;

broadcast use axiom_string_to_string;

// ---- the documented decorator forms (README "Supported Fixture Patterns"), as functions of the AST ----
/// `fixture` | `pytest.fixture` | `pytest_asyncio.fixture` | any of these CALLED (any number of times)
pub open spec fn spec_is_fixture_decorator(e: &Expr) -> bool
    decreases e
{
    match e {
        Expr::Name(n) => idv(&n.id) == "fixture"@,
        Expr::Attribute(a) => match &*a.value {
            Expr::Name(v) => (idv(&v.id) == "pytest"@ || idv(&v.id) == "pytest_asyncio"@) && idv(&a.attr) == "fixture"@,
            _ => false,
        },
        Expr::Call(c) => spec_is_fixture_decorator(&*c.func),
        _ => false,
    }
}
/// `pytest.mark.<marker>` | `mark.<marker>` | any of these CALLED (any number of times)
pub open spec fn spec_is_mark(e: &Expr, marker: Seq<char>) -> bool
    decreases e
{
    match e {
        Expr::Call(c) => spec_is_mark(&*c.func, marker),
        Expr::Attribute(a) => idv(&a.attr) == marker && match &*a.value {
            Expr::Attribute(inner) => idv(&inner.attr) == "mark"@ && match &*inner.value {
                Expr::Name(n) => idv(&n.id) == "pytest"@,
                _ => false,
            },
            Expr::Name(n) => idv(&n.id) == "mark"@,
            _ => false,
        },
        _ => false,
    }
}

pub open spec fn kw_is(kw: Keyword, name: Seq<char>) -> bool {
    match kw.arg { Some(a) => idv(&a) == name, None => false }
}
pub open spec fn is_true_const(e: Expr) -> bool {
    match e { Expr::Constant(c) => (match c.value { Constant::Bool(b) => b, _ => false }), _ => false }
}
/// autouse: the decorator is a CALL of a fixture decorator with some keyword `autouse=True` (literal True)
pub open spec fn spec_autouse(e: &Expr) -> bool {
    match e {
        Expr::Call(c) => spec_is_fixture_decorator(&*c.func)
            && exists|i: int| 0 <= i < c.keywords@.len() && kw_is(#[trigger] c.keywords@[i], "autouse"@) && is_true_const(c.keywords@[i].value),
        _ => false,
    }
}

/// the text of a string literal, None for anything else (non-constant values are ignored)
pub open spec fn str_const(e: Expr) -> Option<Seq<char>> {
    match e { Expr::Constant(c) => (match c.value { Constant::Str(s) => Some(s@), _ => None }), _ => None }
}
pub open spec fn kw_str_fn(name: Seq<char>) -> spec_fn(Keyword) -> Option<Seq<char>> {
    |kw: Keyword| if kw_is(kw, name) { str_const(kw.value) } else { None }
}
/// `FixtureScope::parse` (src/fixtures/types.rs: `to_lowercase()` + literal match) as a function of the text
pub uninterp spec fn scope_parse(s: Seq<char>) -> Option<FixtureScope>;
pub assume_specification[ FixtureScope::parse ](s: &str) -> (r: Option<FixtureScope>)
    ensures r == scope_parse(s@);
pub open spec fn scope_of_value(e: Expr) -> Option<FixtureScope> {
    match str_const(e) { Some(s) => scope_parse(s), None => None }
}
pub open spec fn kw_scope_fn() -> spec_fn(Keyword) -> Option<FixtureScope> {
    |kw: Keyword| if kw_is(kw, "scope"@) { scope_of_value(kw.value) } else { None }
}
/// what the keyword extractors establish about their result (object level; lifted by lemma_kw_post)
pub open spec fn kw_post<V>(e: &Expr, g: spec_fn(Keyword) -> Option<V>, r: Option<V>) -> bool {
    match e {
        Expr::Call(c) => if spec_is_fixture_decorator(&*c.func) { find_map_post(c.keywords@.as_ref(), g, r) } else { r is None },
        _ => r is None,
    }
}
/// `name=`: the FIRST keyword called `name` whose value is a string literal
pub open spec fn spec_kw<V>(e: &Expr, g: spec_fn(Keyword) -> Option<V>) -> Option<V> {
    match e {
        Expr::Call(c) => if spec_is_fixture_decorator(&*c.func) { first_some(c.keywords@, g, 0) } else { None },
        _ => None,
    }
}
pub proof fn lemma_kw_post<V>(e: &Expr, g: spec_fn(Keyword) -> Option<V>, r: Option<V>)
    requires kw_post(e, g, r),
    ensures r == spec_kw(e, g),
{
    match e {
        Expr::Call(c) => { if spec_is_fixture_decorator(&*c.func) { lemma_find_map_post(c.keywords@, g, r); } }
        _ => {}
    }
}

pub open spec fn autouse_kw_fn() -> spec_fn(Keyword) -> bool { |kw: Keyword| kw_is(kw, "autouse"@) && is_true_const(kw.value) }
pub open spec fn autouse_post(e: &Expr, r: bool) -> bool {
    match e {
        Expr::Call(c) => if spec_is_fixture_decorator(&*c.func) { any_post(c.keywords@.as_ref(), autouse_kw_fn(), r) } else { !r },
        _ => !r,
    }
}
pub proof fn lemma_autouse_post(e: &Expr, r: bool)
    requires autouse_post(e, r),
    ensures r == spec_autouse(e),
{
    match e {
        Expr::Call(c) => { if spec_is_fixture_decorator(&*c.func) { lemma_any_post(c.keywords@, autouse_kw_fn(), r); } }
        _ => {}
    }
}

/// a string literal with its source range, None for anything else
pub open spec fn str_const_r(e: Expr) -> Option<(Seq<char>, TextRange)> {
    match e { Expr::Constant(c) => (match c.value { Constant::Str(s) => Some((s@, c.range)), _ => None }), _ => None }
}
pub open spec fn str_const_r_fn() -> spec_fn(Expr) -> Option<(Seq<char>, TextRange)> { |e: Expr| str_const_r(e) }
pub open spec fn pair_view_fn() -> spec_fn((String, TextRange)) -> (Seq<char>, TextRange) { |p: (String, TextRange)| (p.0@, p.1) }
pub open spec fn pairs_v(r: Seq<(String, TextRange)>) -> Seq<(Seq<char>, TextRange)> { r.map_values(pair_view_fn()) }
/// usefixtures: the decorator is a CALL of `pytest.mark.usefixtures` / `mark.usefixtures` (possibly itself called);
/// the names are its positional arguments that are string literals, in order, each with the literal's range
pub open spec fn spec_usefixtures(e: &Expr) -> Seq<(Seq<char>, TextRange)> {
    match e {
        Expr::Call(c) => if spec_is_mark(&*c.func, "usefixtures"@) { filter_map_spec(c.args@, str_const_r_fn()) } else { Seq::empty() },
        _ => Seq::empty(),
    }
}
pub open spec fn usefix_post(e: &Expr, r: Seq<(String, TextRange)>) -> bool {
    match e {
        Expr::Call(c) => if spec_is_mark(&*c.func, "usefixtures"@) { filter_map_post(c.args@.as_ref(), str_const_r_fn(), pair_view_fn(), r) } else { r.len() == 0 },
        _ => r.len() == 0,
    }
}
pub proof fn lemma_usefix_post(e: &Expr, r: Seq<(String, TextRange)>)
    requires usefix_post(e, r),
    ensures pairs_v(r) =~= spec_usefixtures(e),
{
    match e {
        Expr::Call(c) => { if spec_is_mark(&*c.func, "usefixtures"@) { lemma_filter_map_post(c.args@, str_const_r_fn(), pair_view_fn(), r); } }
        _ => {}
    }
}

/// pytestmark values: a usefixtures call, or a list / tuple whose elements are such values (any nesting)
pub open spec fn spec_usefixtures_from_expr(e: &Expr) -> Seq<(Seq<char>, TextRange)>
    decreases e, 0int
{
    match e {
        Expr::Call(_) => spec_usefixtures(e),
        Expr::List(l) => ufe_from(l.elts@, 0),
        Expr::Tuple(t) => ufe_from(t.elts@, 0),
        _ => Seq::empty(),
    }
}
pub open spec fn ufe_from(es: Seq<Expr>, k: int) -> Seq<(Seq<char>, TextRange)>
    decreases es, es.len() - k
{
    if k < 0 || k >= es.len() { Seq::empty() } else { spec_usefixtures_from_expr(&es[k]) + ufe_from(es, k + 1) }
}
pub open spec fn ufe_post(e: &Expr, r: Seq<(String, TextRange)>) -> bool
    decreases e, 0int
{
    match e {
        Expr::Call(_) => usefix_post(e, r),
        Expr::List(l) => ufe_list_post(l.elts@, r),
        Expr::Tuple(t) => ufe_list_post(t.elts@, r),
        _ => r.len() == 0,
    }
}
pub open spec fn ufe_list_post(es: Seq<Expr>, r: Seq<(String, TextRange)>) -> bool
    decreases es, 1int
{
    exists|o: Seq<Vec<(String, TextRange)>>| #![trigger flat(o)] o.len() == es.len()
        && (forall|j: int| 0 <= j < o.len() ==> ufe_post(&es[j], (#[trigger] o[j])@)) && r == flat(o)
}

/// L1 -> view level for extract_usefixtures_from_expr
pub proof fn lemma_ufe_post(e: &Expr, r: Seq<(String, TextRange)>)
    requires ufe_post(e, r),
    ensures pairs_v(r) =~= spec_usefixtures_from_expr(e),
    decreases e, 0int
{
    match e {
        Expr::Call(_) => { lemma_usefix_post(e, r); }
        Expr::List(l) => { lemma_ufe_list_post(l.elts@, r); }
        Expr::Tuple(t) => { lemma_ufe_list_post(t.elts@, r); }
        _ => {}
    }
}
pub proof fn lemma_ufe_list_post(es: Seq<Expr>, r: Seq<(String, TextRange)>)
    requires ufe_list_post(es, r),
    ensures pairs_v(r) =~= ufe_from(es, 0),
    decreases es, 1int
{
    let o = choose|o: Seq<Vec<(String, TextRange)>>| #![trigger flat(o)] o.len() == es.len()
        && (forall|j: int| 0 <= j < o.len() ==> ufe_post(&es[j], (#[trigger] o[j])@)) && r == flat(o);
    assert forall|j: int| 0 <= j < o.len() implies pairs_v((#[trigger] o[j])@) == spec_usefixtures_from_expr(&es[j]) by {
        lemma_ufe_post(&es[j], o[j]@);
    }
    lemma_ufe_flat(es, o, 0);
}
pub proof fn lemma_ufe_flat(es: Seq<Expr>, o: Seq<Vec<(String, TextRange)>>, k: int)
    requires o.len() == es.len(), 0 <= k <= es.len(),
        forall|j: int| 0 <= j < o.len() ==> pairs_v((#[trigger] o[j])@) == spec_usefixtures_from_expr(&es[j]),
    ensures pairs_v(flat_from(o, k)) =~= ufe_from(es, k),
    decreases es.len() - k
{
    if k < es.len() {
        lemma_ufe_flat(es, o, k + 1);
        assert(pairs_v(o[k]@ + flat_from(o, k + 1)) =~= pairs_v(o[k]@) + pairs_v(flat_from(o, k + 1)));
    }
}

// ---- parametrize(..., indirect=...) ---------------------------------------------------------------------------
pub open spec fn opt_deref<T>(o: Option<&T>) -> Option<T> { match o { Some(x) => Some(*x), None => None } }
/// the value of a keyword called `indirect`
pub open spec fn indirect_kw_fn() -> spec_fn(Keyword) -> Option<Expr> {
    |kw: Keyword| if kw_is(kw, "indirect"@) { Some(kw.value) } else { None }
}
/// "a, b" -> ["a", "b"]: split at ',' and trim (string functions left abstract)
pub open spec fn param_names_of(s: Seq<char>) -> Seq<Seq<char>> { split_v(s, ',').map_values(|p: Seq<char>| trim_v(p)) }
/// an element of `indirect=[...]`: a string literal that is one of the parameter names
pub open spec fn indirect_elt_fn(names: Seq<Seq<char>>) -> spec_fn(Expr) -> Option<(Seq<char>, TextRange)> {
    |e: Expr| match str_const_r(e) { Some(p) => if names.contains(p.0) { Some(p) } else { None }, None => None }
}
pub open spec fn with_range_fn(rg: TextRange) -> spec_fn(Seq<char>) -> (Seq<char>, TextRange) { |n: Seq<char>| (n, rg) }
/// indirect parametrize: a CALL of `pytest.mark.parametrize` / `mark.parametrize`; the FIRST keyword `indirect`;
/// the first positional argument must be a string literal "a, b": with `indirect=True` (literal) every name in it
/// (range: that of the literal), with `indirect=[...]` the listed string literals that are among the names (each
/// with its own range); anything else: nothing
pub open spec fn spec_parametrize_indirect(e: &Expr) -> Seq<(Seq<char>, TextRange)> {
    match e {
        Expr::Call(c) => if !spec_is_mark(&*c.func, "parametrize"@) { Seq::empty() } else {
            match first_some(c.keywords@, indirect_kw_fn(), 0) {
                None => Seq::empty(),
                Some(ind) => if c.args@.len() == 0 { Seq::empty() } else {
                    match str_const_r(c.args@[0]) {
                        None => Seq::empty(),
                        Some(p) => match ind {
                            Expr::Constant(k) => if is_true_const(ind) { param_names_of(p.0).map_values(with_range_fn(p.1)) } else { Seq::empty() },
                            Expr::List(l) => filter_map_spec(l.elts@, indirect_elt_fn(param_names_of(p.0))),
                            _ => Seq::empty(),
                        },
                    }
                },
            }
        },
        _ => Seq::empty(),
    }
}
pub open spec fn param_post(e: &Expr, r: Seq<(String, TextRange)>) -> bool {
    match e {
        Expr::Call(c) => if !spec_is_mark(&*c.func, "parametrize"@) { r.len() == 0 } else {
            match first_some(c.keywords@, indirect_kw_fn(), 0) {
                None => r.len() == 0,
                Some(ind) => if c.args@.len() == 0 { r.len() == 0 } else {
                    match str_const_r(c.args@[0]) {
                        None => r.len() == 0,
                        Some(p) => match ind {
                            Expr::Constant(k) => if is_true_const(ind) { pairs_v(r) =~= param_names_of(p.0).map_values(with_range_fn(p.1)) } else { r.len() == 0 },
                            Expr::List(l) => filter_map_post(l.elts@.as_ref(), indirect_elt_fn(param_names_of(p.0)), pair_view_fn(), r),
                            _ => r.len() == 0,
                        },
                    }
                },
            }
        },
        _ => r.len() == 0,
    }
}
pub proof fn lemma_param_post(e: &Expr, r: Seq<(String, TextRange)>)
    requires param_post(e, r),
    ensures pairs_v(r) =~= spec_parametrize_indirect(e),
{
    match e {
        Expr::Call(c) => if spec_is_mark(&*c.func, "parametrize"@) {
            match first_some(c.keywords@, indirect_kw_fn(), 0) {
                Some(ind) => if c.args@.len() > 0 {
                    match str_const_r(c.args@[0]) {
                        Some(p) => match ind {
                            Expr::List(l) => { lemma_filter_map_post(l.elts@, indirect_elt_fn(param_names_of(p.0)), pair_view_fn(), r); }
                            _ => {}
                        },
                        None => {}
                    }
                },
                None => {}
            }
        },
        _ => {}
    }
}

pub mod decorators {
use super::*;
broadcast use {axiom_string_to_string, vstd::std_specs::iter::map_postcondition, lemma_lits_contains};
/*@ extract src/fixtures/decorators.rs is_fixture_decorator
@tags C03 C12
@ret r
@sig
    ensures r == spec_is_fixture_decorator(expr),
    decreases expr,
@*/

/*@ extract src/fixtures/decorators.rs is_pytest_mark_decorator
@tags C03 C12
@ret r
@sig
    ensures r == spec_is_mark(expr, marker_name@),
    decreases expr,
@*/

/*@ extract src/fixtures/decorators.rs is_usefixtures_decorator
@tags C03
@ret r
@sig
    ensures r == spec_is_mark(expr, "usefixtures"@),
@*/

/*@ extract src/fixtures/decorators.rs is_parametrize_decorator
@tags C03
@ret r
@sig
    ensures r == spec_is_mark(expr, "parametrize"@),
@*/

/*@ extract src/fixtures/decorators.rs extract_fixture_autouse
@tags C03
@ret r
@rename filter vp_filter
@rename any vp_any
@closure 1 |kw: &&Keyword| -> (b: bool) ensures b == kw_is(**kw, "autouse"@)
@closure 2 |a: &Identifier| -> (b: bool) ensures b == (idv(a) == "autouse"@)
@closure 3 |kw: &Keyword| -> (b: bool) ensures b == is_true_const(kw.value)
@sig
    ensures autouse_post(expr, r),
@*/

/*@ extract src/fixtures/decorators.rs extract_fixture_name_from_decorator
@tags C03
@ret r
@rename filter vp_filter
@rename find_map vp_find_map
@closure 1 |kw: &&Keyword| -> (b: bool) ensures b == kw_is(**kw, "name"@)
@closure 2 |a: &Identifier| -> (b: bool) ensures b == (idv(a) == "name"@)
@closure 3 |kw: &Keyword| -> (o: Option<String>) ensures opt_sv(o) == str_const(kw.value)
@sig
    ensures kw_post(expr, kw_str_fn("name"@), opt_sv(r)),
@*/

/*@ extract src/fixtures/decorators.rs extract_fixture_scope
@tags C03
@ret r
@rename filter vp_filter
@rename find_map vp_find_map
@closure 1 |kw: &&Keyword| -> (b: bool) ensures b == kw_is(**kw, "scope"@)
@closure 2 |a: &Identifier| -> (b: bool) ensures b == (idv(a) == "scope"@)
@closure 3 |kw: &Keyword| -> (o: Option<FixtureScope>) ensures o == scope_of_value(kw.value)
@sig
    ensures kw_post(expr, kw_scope_fn(), r),
@*/

/*@ extract src/fixtures/decorators.rs extract_usefixtures_names
@tags C03
@ret r
@rename filter_map vp_filter_map
@closure 1 |arg: &Expr| -> (o: Option<(String, TextRange)>) ensures opt_map(o, pair_view_fn()) == str_const_r(*arg)
@sig
    ensures usefix_post(expr, r@),
@*/

/*@ extract src/fixtures/decorators.rs extract_usefixtures_from_expr
@tags C03 C12
@ret r
@replace 1 `flat_map(extract_usefixtures_from_expr)` => `vp_flat_map(|x: &Expr| -> (o: Vec<(String, TextRange)>) requires decreases_to!(expr => x) ensures ufe_post(x, o@) { extract_usefixtures_from_expr(x) })`
@replace 2 `flat_map(extract_usefixtures_from_expr)` => `vp_flat_map(|x: &Expr| -> (o: Vec<(String, TextRange)>) requires decreases_to!(expr => x) ensures ufe_post(x, o@) { extract_usefixtures_from_expr(x) })`
@sig
    ensures ufe_post(expr, r@),
    decreases expr,
@*/

/*@ extract src/fixtures/decorators.rs extract_parametrize_indirect_fixtures
@tags C03
@ret r
@rename find_map vp_find_map
@rename split vp_split
@rename filter_map vp_filter_map
@closure 1 |kw: &Keyword| -> (o: Option<&Expr>) ensures opt_deref(o) == indirect_kw_fn()(*kw)
@closure 2 |a: &Identifier| -> (b: bool) ensures b == (idv(a) == "indirect"@)
@closure 3 |s: &str| -> (t: &str) ensures t@ == trim_v(s@)
@closure 4 |name: &str| -> (p: (String, TextRange)) ensures p.0@ == name@, p.1 == param_const.range
@closure 5 |elt: &Expr| -> (o: Option<(String, TextRange)>) ensures opt_map(o, pair_view_fn()) == indirect_elt_fn(lit_views(param_names@))(*elt)
@sig
    ensures param_post(expr, r@),
@after indirect_value 1
    proof {
        assert(find_map_post(call.keywords@.as_ref(), indirect_kw_fn(), opt_deref(indirect_value)));
        lemma_find_map_post(call.keywords@, indirect_kw_fn(), opt_deref(indirect_value));
    }
@after param_names 1
    proof { assert(lit_views(param_names@) =~= param_names_of(param_str@)); }
@*/
} // mod decorators


// ---- yield search: the two hand-written searches as functions of the AST -----------------------------------
/// 1-based line of a byte offset (src/fixtures/analyzer.rs get_line_from_offset: binary search in the line index)
pub uninterp spec fn line_of_offset(offset: usize, line_index: Seq<usize>) -> usize;
pub open spec fn opt_or<T>(a: Option<T>, b: Option<T>) -> Option<T> { if a is Some { a } else { b } }

/// find_yield_line: the line of the FIRST `yield` / `yield from` expression STATEMENT met when the blocks of
/// if / for / while / with / try (body, handlers, else, finally) and their async forms are searched in source order
pub open spec fn fy_expr(e: Expr, li: Seq<usize>) -> Option<usize> {
    match e {
        Expr::Yield(y) => Some(line_of_offset(tsv(tr_start(y.range)), li)),
        Expr::YieldFrom(y) => Some(line_of_offset(tsv(tr_start(y.range)), li)),
        _ => None,
    }
}
pub open spec fn fy_from(b: Seq<Stmt>, k: int, li: Seq<usize>) -> Option<usize>
    decreases b, b.len() - k
{
    if k < 0 || k >= b.len() { None } else { opt_or(fy_stmt(b[k], li), fy_from(b, k + 1, li)) }
}
pub open spec fn fy_stmt(s: Stmt, li: Seq<usize>) -> Option<usize>
    decreases s, 0int
{
    match s {
        Stmt::Expr(x) => fy_expr(*x.value, li),
        Stmt::If(x) => opt_or(fy_from(x.body@, 0, li), fy_from(x.orelse@, 0, li)),
        Stmt::With(x) => fy_from(x.body@, 0, li),
        Stmt::AsyncWith(x) => fy_from(x.body@, 0, li),
        Stmt::Try(x) => opt_or(fy_from(x.body@, 0, li), opt_or(fy_handlers(x.handlers@, 0, li),
                        opt_or(fy_from(x.orelse@, 0, li), fy_from(x.finalbody@, 0, li)))),
        Stmt::For(x) => opt_or(fy_from(x.body@, 0, li), fy_from(x.orelse@, 0, li)),
        Stmt::AsyncFor(x) => opt_or(fy_from(x.body@, 0, li), fy_from(x.orelse@, 0, li)),
        Stmt::While(x) => opt_or(fy_from(x.body@, 0, li), fy_from(x.orelse@, 0, li)),
        _ => None,
    }
}
pub open spec fn fy_handlers(hs: Seq<ExceptHandler>, k: int, li: Seq<usize>) -> Option<usize>
    decreases hs, hs.len() - k
{
    if k < 0 || k >= hs.len() { None } else {
        match hs[k] { ExceptHandler::ExceptHandler(h) => opt_or(fy_from(h.body@, 0, li), fy_handlers(hs, k + 1, li)) }
    }
}

/// contains_yield ("is this fixture a generator": decides whether the return annotation is unwrapped)
pub open spec fn cy_from(b: Seq<Stmt>, k: int) -> bool
    decreases b, b.len() - k
{
    if k < 0 || k >= b.len() { false } else { cy_stmt(b[k]) || cy_from(b, k + 1) }
}
pub open spec fn cy_stmt(s: Stmt) -> bool
    decreases s, 0int
{
    match s {
        Stmt::Expr(x) => (*x.value) is Yield || (*x.value) is YieldFrom,
        Stmt::If(x) => cy_from(x.body@, 0) || cy_from(x.orelse@, 0),
        Stmt::For(x) => cy_from(x.body@, 0) || cy_from(x.orelse@, 0),
        Stmt::While(x) => cy_from(x.body@, 0) || cy_from(x.orelse@, 0),
        Stmt::AsyncFor(x) => cy_from(x.body@, 0) || cy_from(x.orelse@, 0),
        Stmt::With(x) => cy_from(x.body@, 0),
        Stmt::AsyncWith(x) => cy_from(x.body@, 0),
        Stmt::Try(x) => cy_from(x.body@, 0) || cy_from(x.orelse@, 0) || cy_from(x.finalbody@, 0) || cy_handlers(x.handlers@, 0),
        _ => false,
    }
}
pub open spec fn cy_handlers(hs: Seq<ExceptHandler>, k: int) -> bool
    decreases hs, hs.len() - k
{
    if k < 0 || k >= hs.len() { false } else {
        match hs[k] { ExceptHandler::ExceptHandler(h) => cy_from(h.body@, 0) || cy_handlers(hs, k + 1) }
    }
}

/// string_utils::format_docstring as a function of the text
pub uninterp spec fn format_docstring_v(s: Seq<char>) -> Seq<char>;
/// docstring.rs expr_to_string as a function of the annotation (and the source text it is handed)
pub uninterp spec fn expr_str(e: Expr, content: Seq<char>) -> Seq<char>;

/// docstring: the body's first statement, if it is an expression statement holding a string literal
pub open spec fn spec_docstring(body: Seq<Stmt>) -> Option<Seq<char>> {
    if body.len() == 0 { None } else {
        match body[0] {
            Stmt::Expr(x) => (match str_const(*x.value) { Some(s) => Some(format_docstring_v(s)), None => None }),
            _ => None,
        }
    }
}
/// the yielded type of a generator annotation: `X[T, ...]` -> T, `X[T]` -> T, anything else -> the annotation
pub open spec fn spec_yielded_type(e: Expr, content: Seq<char>) -> Seq<char> {
    match e {
        Expr::Subscript(sub) => match *sub.slice {
            Expr::Tuple(t) => if t.elts@.len() > 0 { expr_str(t.elts@[0], content) } else { expr_str(e, content) },
            _ => expr_str(*sub.slice, content),
        },
        _ => expr_str(e, content),
    }
}
/// return type: none without annotation; the yielded type iff the body is a generator body (contains_yield)
pub open spec fn spec_return_type(returns: Option<Box<Expr>>, body: Seq<Stmt>, content: Seq<char>) -> Option<Seq<char>> {
    match returns {
        None => None,
        Some(a) => if cy_from(body, 0) { Some(spec_yielded_type(*a, content)) } else { Some(expr_str(*a, content)) },
    }
}


// ---- module-level names (what an import / def / class / assignment binds) -------------------------------------
pub open spec fn alias_bound(a: Alias) -> Seq<char> { match a.asname { Some(n) => idv(&n), None => idv(&a.name) } }
pub open spec fn aliases_from(s: Seq<Alias>, k: int) -> Set<Seq<char>>
    decreases s.len() - k
{
    if k < 0 || k >= s.len() { Set::empty() } else { aliases_from(s, k + 1).insert(alias_bound(s[k])) }
}
/// assignment targets: a Name, or (recursively) the elements of a tuple / list target; nothing else
/// (attributes `a.b = ..`, subscripts `a[0] = ..`, starred `*rest` bind no module-level name here)
pub open spec fn target_names(e: Expr) -> Set<Seq<char>>
    decreases e, 0int
{
    match e {
        Expr::Name(n) => Set::empty().insert(idv(&n.id)),
        Expr::Tuple(t) => targets_from(t.elts@, 0),
        Expr::List(l) => targets_from(l.elts@, 0),
        _ => Set::empty(),
    }
}
pub open spec fn targets_from(es: Seq<Expr>, k: int) -> Set<Seq<char>>
    decreases es, es.len() - k
{
    if k < 0 || k >= es.len() { Set::empty() } else { target_names(es[k]).union(targets_from(es, k + 1)) }
}
pub open spec fn has_fixture_decorator(ds: Seq<Expr>) -> bool {
    exists|i: int| 0 <= i < ds.len() && spec_is_fixture_decorator(&#[trigger] ds[i])
}
/// the names a module-level statement binds: imports (asname, else name), functions that are NOT fixtures,
/// classes, assignment / annotated-assignment targets
pub open spec fn module_level_names(s: Stmt) -> Set<Seq<char>> {
    match s {
        Stmt::Import(x) => aliases_from(x.names@, 0),
        Stmt::ImportFrom(x) => aliases_from(x.names@, 0),
        Stmt::FunctionDef(f) => if has_fixture_decorator(f.decorator_list@) { Set::empty() } else { Set::empty().insert(idv(&f.name)) },
        Stmt::AsyncFunctionDef(f) => if has_fixture_decorator(f.decorator_list@) { Set::empty() } else { Set::empty().insert(idv(&f.name)) },
        Stmt::ClassDef(c) => Set::empty().insert(idv(&c.name)),
        Stmt::Assign(a) => targets_from(a.targets@, 0),
        Stmt::AnnAssign(a) => target_names(*a.target),
        _ => Set::empty(),
    }
}

// no field of the database is read by these methods (a field access would not compile: UNDECIDED)
pub struct FixtureDatabase {}

/// src/fixtures/string_utils.rs: string functions are left abstract here (bounded checking: Kani harnesses)
pub mod string_utils {
    use super::*;
    /// callee stub: dedent / trim of the docstring text
    #[verifier::external_body]
    pub(crate) fn format_docstring(docstring: String) -> (r: String)
        ensures r@ == format_docstring_v(docstring@)
    { unimplemented!() }
}

pub mod fixtures {
use super::*;
broadcast use {axiom_string_to_string, axiom_identifier_to_string};
impl FixtureDatabase {
    /// callee stub: the printer of annotation expressions (docstring.rs expr_to_string), result left abstract
    #[verifier::external_body]
    pub(crate) fn expr_to_string(&self, expr: &Expr, content: &str) -> (r: String)
        ensures r@ == expr_str(*expr, content@)
    { unimplemented!() }

    /// callee stub: binary search over the line index, result left abstract
    #[verifier::external_body]
    pub(crate) fn get_line_from_offset(&self, offset: usize, line_index: &[usize]) -> (r: usize)
        ensures r == line_of_offset(offset, line_index@)
    { unimplemented!() }

/*@ extract src/fixtures/analyzer.rs find_yield_in_expr
@tags C03
@ret r
@sig
    ensures r == fy_expr(*expr, line_index@),
@*/

/*@ extract src/fixtures/analyzer.rs find_yield_in_stmt
@tags C03 C12
@ret r
@sig
    ensures r == fy_stmt(*stmt, line_index@),
    decreases stmt,
@loopvar 1 it1
@loop 1
    invariant it1.seq() == if_stmt.body@.as_ref(),
        fy_from(if_stmt.body@, 0, line_index@) == fy_from(if_stmt.body@, it1.index@ as int, line_index@),
        *stmt == Stmt::If(*if_stmt),
@loopstart 1
    proof { let i = it1.index@ as int; assert(*s == if_stmt.body@[i]);
        assert(fy_from(if_stmt.body@, i, line_index@) == opt_or(fy_stmt(*s, line_index@), fy_from(if_stmt.body@, i + 1, line_index@))); }
@loopvar 2 it2
@loop 2
    invariant it2.seq() == if_stmt.orelse@.as_ref(),
        fy_from(if_stmt.orelse@, 0, line_index@) == fy_from(if_stmt.orelse@, it2.index@ as int, line_index@),
        *stmt == Stmt::If(*if_stmt),
        fy_from(if_stmt.body@, 0, line_index@) is None,
@loopstart 2
    proof { let i = it2.index@ as int; assert(*s == if_stmt.orelse@[i]);
        assert(fy_from(if_stmt.orelse@, i, line_index@) == opt_or(fy_stmt(*s, line_index@), fy_from(if_stmt.orelse@, i + 1, line_index@))); }
@loopvar 3 it3
@loop 3
    invariant it3.seq() == with_stmt.body@.as_ref(),
        fy_from(with_stmt.body@, 0, line_index@) == fy_from(with_stmt.body@, it3.index@ as int, line_index@),
        *stmt == Stmt::With(*with_stmt),
@loopstart 3
    proof { let i = it3.index@ as int; assert(*s == with_stmt.body@[i]);
        assert(fy_from(with_stmt.body@, i, line_index@) == opt_or(fy_stmt(*s, line_index@), fy_from(with_stmt.body@, i + 1, line_index@))); }
@loopvar 4 it4
@loop 4
    invariant it4.seq() == with_stmt.body@.as_ref(),
        fy_from(with_stmt.body@, 0, line_index@) == fy_from(with_stmt.body@, it4.index@ as int, line_index@),
        *stmt == Stmt::AsyncWith(*with_stmt),
@loopstart 4
    proof { let i = it4.index@ as int; assert(*s == with_stmt.body@[i]);
        assert(fy_from(with_stmt.body@, i, line_index@) == opt_or(fy_stmt(*s, line_index@), fy_from(with_stmt.body@, i + 1, line_index@))); }
@loopvar 5 it5
@loop 5
    invariant it5.seq() == try_stmt.body@.as_ref(),
        fy_from(try_stmt.body@, 0, line_index@) == fy_from(try_stmt.body@, it5.index@ as int, line_index@),
        *stmt == Stmt::Try(*try_stmt),
@loopstart 5
    proof { let i = it5.index@ as int; assert(*s == try_stmt.body@[i]);
        assert(fy_from(try_stmt.body@, i, line_index@) == opt_or(fy_stmt(*s, line_index@), fy_from(try_stmt.body@, i + 1, line_index@))); }
@loopvar 6 it6
@loop 6
    invariant it6.seq() == try_stmt.handlers@.as_ref(),
        fy_handlers(try_stmt.handlers@, 0, line_index@) == fy_handlers(try_stmt.handlers@, it6.index@ as int, line_index@),
        *stmt == Stmt::Try(*try_stmt), fy_from(try_stmt.body@, 0, line_index@) is None,
@loopstart 6
    let ghost hi = it6.index@ as int;
    proof { assert(*handler == try_stmt.handlers@[hi]); }
@loopvar 7 it7
@loop 7
    invariant it7.seq() == h.body@.as_ref(),
        fy_from(h.body@, 0, line_index@) == fy_from(h.body@, it7.index@ as int, line_index@),
        *stmt == Stmt::Try(*try_stmt),
        fy_from(try_stmt.body@, 0, line_index@) is None,
        0 <= hi < try_stmt.handlers@.len(),
        try_stmt.handlers@[hi] == ExceptHandler::ExceptHandler(*h),
        fy_handlers(try_stmt.handlers@, 0, line_index@) == fy_handlers(try_stmt.handlers@, hi, line_index@),
@loopstart 7
    proof { let i = it7.index@ as int; assert(*s == h.body@[i]);
        assert(fy_from(h.body@, i, line_index@) == opt_or(fy_stmt(*s, line_index@), fy_from(h.body@, i + 1, line_index@))); }
@loopvar 8 it8
@loop 8
    invariant it8.seq() == try_stmt.orelse@.as_ref(),
        fy_from(try_stmt.orelse@, 0, line_index@) == fy_from(try_stmt.orelse@, it8.index@ as int, line_index@),
        *stmt == Stmt::Try(*try_stmt),
        fy_from(try_stmt.body@, 0, line_index@) is None,
        fy_handlers(try_stmt.handlers@, 0, line_index@) is None,
@loopstart 8
    proof { let i = it8.index@ as int; assert(*s == try_stmt.orelse@[i]);
        assert(fy_from(try_stmt.orelse@, i, line_index@) == opt_or(fy_stmt(*s, line_index@), fy_from(try_stmt.orelse@, i + 1, line_index@))); }
@loopvar 9 it9
@loop 9
    invariant it9.seq() == try_stmt.finalbody@.as_ref(),
        fy_from(try_stmt.finalbody@, 0, line_index@) == fy_from(try_stmt.finalbody@, it9.index@ as int, line_index@),
        *stmt == Stmt::Try(*try_stmt),
        fy_from(try_stmt.body@, 0, line_index@) is None,
        fy_from(try_stmt.orelse@, 0, line_index@) is None,
        fy_handlers(try_stmt.handlers@, 0, line_index@) is None,
@loopstart 9
    proof { let i = it9.index@ as int; assert(*s == try_stmt.finalbody@[i]);
        assert(fy_from(try_stmt.finalbody@, i, line_index@) == opt_or(fy_stmt(*s, line_index@), fy_from(try_stmt.finalbody@, i + 1, line_index@))); }
@loopvar 10 it10
@loop 10
    invariant it10.seq() == for_stmt.body@.as_ref(),
        fy_from(for_stmt.body@, 0, line_index@) == fy_from(for_stmt.body@, it10.index@ as int, line_index@),
        *stmt == Stmt::For(*for_stmt),
@loopstart 10
    proof { let i = it10.index@ as int; assert(*s == for_stmt.body@[i]);
        assert(fy_from(for_stmt.body@, i, line_index@) == opt_or(fy_stmt(*s, line_index@), fy_from(for_stmt.body@, i + 1, line_index@))); }
@loopvar 11 it11
@loop 11
    invariant it11.seq() == for_stmt.orelse@.as_ref(),
        fy_from(for_stmt.orelse@, 0, line_index@) == fy_from(for_stmt.orelse@, it11.index@ as int, line_index@),
        *stmt == Stmt::For(*for_stmt),
        fy_from(for_stmt.body@, 0, line_index@) is None,
@loopstart 11
    proof { let i = it11.index@ as int; assert(*s == for_stmt.orelse@[i]);
        assert(fy_from(for_stmt.orelse@, i, line_index@) == opt_or(fy_stmt(*s, line_index@), fy_from(for_stmt.orelse@, i + 1, line_index@))); }
@loopvar 12 it12
@loop 12
    invariant it12.seq() == for_stmt.body@.as_ref(),
        fy_from(for_stmt.body@, 0, line_index@) == fy_from(for_stmt.body@, it12.index@ as int, line_index@),
        *stmt == Stmt::AsyncFor(*for_stmt),
@loopstart 12
    proof { let i = it12.index@ as int; assert(*s == for_stmt.body@[i]);
        assert(fy_from(for_stmt.body@, i, line_index@) == opt_or(fy_stmt(*s, line_index@), fy_from(for_stmt.body@, i + 1, line_index@))); }
@loopvar 13 it13
@loop 13
    invariant it13.seq() == for_stmt.orelse@.as_ref(),
        fy_from(for_stmt.orelse@, 0, line_index@) == fy_from(for_stmt.orelse@, it13.index@ as int, line_index@),
        *stmt == Stmt::AsyncFor(*for_stmt),
        fy_from(for_stmt.body@, 0, line_index@) is None,
@loopstart 13
    proof { let i = it13.index@ as int; assert(*s == for_stmt.orelse@[i]);
        assert(fy_from(for_stmt.orelse@, i, line_index@) == opt_or(fy_stmt(*s, line_index@), fy_from(for_stmt.orelse@, i + 1, line_index@))); }
@loopvar 14 it14
@loop 14
    invariant it14.seq() == while_stmt.body@.as_ref(),
        fy_from(while_stmt.body@, 0, line_index@) == fy_from(while_stmt.body@, it14.index@ as int, line_index@),
        *stmt == Stmt::While(*while_stmt),
@loopstart 14
    proof { let i = it14.index@ as int; assert(*s == while_stmt.body@[i]);
        assert(fy_from(while_stmt.body@, i, line_index@) == opt_or(fy_stmt(*s, line_index@), fy_from(while_stmt.body@, i + 1, line_index@))); }
@loopvar 15 it15
@loop 15
    invariant it15.seq() == while_stmt.orelse@.as_ref(),
        fy_from(while_stmt.orelse@, 0, line_index@) == fy_from(while_stmt.orelse@, it15.index@ as int, line_index@),
        *stmt == Stmt::While(*while_stmt),
        fy_from(while_stmt.body@, 0, line_index@) is None,
@loopstart 15
    proof { let i = it15.index@ as int; assert(*s == while_stmt.orelse@[i]);
        assert(fy_from(while_stmt.orelse@, i, line_index@) == opt_or(fy_stmt(*s, line_index@), fy_from(while_stmt.orelse@, i + 1, line_index@))); }
@*/

/*@ extract src/fixtures/analyzer.rs find_yield_line
@tags C03 C12
@ret r
@sig
    ensures r == fy_from(body@, 0, line_index@),
@loopvar 1 it
@loop 1
    invariant it.seq() == body@.as_ref(), fy_from(body@, 0, line_index@) == fy_from(body@, it.index@ as int, line_index@),
@loopstart 1
    proof { let i = it.index@ as int; assert(*stmt == body@[i]);
        assert(fy_from(body@, i, line_index@) == opt_or(fy_stmt(*stmt, line_index@), fy_from(body@, i + 1, line_index@))); }
@*/

/*@ extract src/fixtures/docstring.rs extract_docstring
@tags C03
@ret r
@sig
    ensures opt_sv(r) == spec_docstring(body@),
@*/

/*@ extract src/fixtures/docstring.rs extract_yielded_type
@tags C03
@ret r
@sig
    ensures opt_sv(r) == Some(spec_yielded_type(*expr, content@)),
@*/

/*@ extract src/fixtures/docstring.rs extract_return_type
@tags C03
@ret r
@sig
    ensures opt_sv(r) == spec_return_type(*returns, body@, content@),
@*/

/*@ extract src/fixtures/docstring.rs contains_yield
@tags C03 C12
@ret r
@sig
    ensures r == cy_from(body@, 0),
    decreases body@,
@loopvar 1 it
@loop 1
    invariant it.seq() == body@.as_ref(), cy_from(body@, 0) == cy_from(body@, it.index@ as int),
@loopstart 1
    let ghost oi = it.index@ as int;
    proof { assert(*stmt == body@[oi]); assert(cy_from(body@, oi) == (cy_stmt(*stmt) || cy_from(body@, oi + 1))); }
@loopvar 2 it2
@loop 2
    invariant it2.seq() == try_stmt.handlers@.as_ref(),
        cy_handlers(try_stmt.handlers@, 0) == cy_handlers(try_stmt.handlers@, it2.index@ as int),
        *stmt == Stmt::Try(*try_stmt), 0 <= oi < body@.len(), *stmt == body@[oi],
        cy_from(body@, 0) == cy_from(body@, oi), cy_from(body@, oi) == (cy_stmt(*stmt) || cy_from(body@, oi + 1)),
@loopstart 2
    proof { let i = it2.index@ as int; assert(*handler == try_stmt.handlers@[i]); }
@after h 1
    proof { let i = it2.index@ as int; assert(try_stmt.handlers@[i] == ExceptHandler::ExceptHandler(*h));
        assert(cy_handlers(try_stmt.handlers@, i) == (cy_from(h.body@, 0) || cy_handlers(try_stmt.handlers@, i + 1)));
        assert(decreases_to!(try_stmt.handlers => try_stmt.handlers@[i])); }
@*/

/*@ extract src/fixtures/analyzer.rs collect_names_from_expr
@tags C03 C12
@sig
    ensures final(names).s() =~= old(names).s().union(target_names(*expr)),
    decreases expr,
@start
    let ghost n0 = names.s();
@loopvar 1 it1
@loop 1
    invariant it1.seq() == tuple.elts@.as_ref(), *expr == Expr::Tuple(*tuple),
        names.s().union(targets_from(tuple.elts@, it1.index@ as int)) =~= n0.union(targets_from(tuple.elts@, 0)),
@loopstart 1
    proof { let i = it1.index@ as int; assert(*elt == tuple.elts@[i]); assert(decreases_to!(tuple.elts => tuple.elts@[i])); assert(match *expr { Expr::Tuple(t) => t == *tuple, _ => false });
        assert(targets_from(tuple.elts@, i) == target_names(*elt).union(targets_from(tuple.elts@, i + 1))); }
@loopvar 2 it2
@loop 2
    invariant it2.seq() == list.elts@.as_ref(), *expr == Expr::List(*list),
        names.s().union(targets_from(list.elts@, it2.index@ as int)) =~= n0.union(targets_from(list.elts@, 0)),
@loopstart 2
    proof { let i = it2.index@ as int; assert(*elt == list.elts@[i]); assert(decreases_to!(list.elts => list.elts@[i])); assert(match *expr { Expr::List(l) => l == *list, _ => false });
        assert(targets_from(list.elts@, i) == target_names(*elt).union(targets_from(list.elts@, i + 1))); }
@*/

/*@ extract src/fixtures/analyzer.rs collect_module_level_names
@tags C03
@sig
    ensures final(names).s() =~= old(names).s().union(module_level_names(*stmt)),
@start
    let ghost n0 = names.s();
@loopvar 1 it1
@loop 1
    invariant it1.seq() == import_stmt.names@.as_ref(),
        names.s().union(aliases_from(import_stmt.names@, it1.index@ as int)) =~= n0.union(aliases_from(import_stmt.names@, 0)),
@loopstart 1
    proof { let i = it1.index@ as int; assert(*alias == import_stmt.names@[i]);
        assert(aliases_from(import_stmt.names@, i) == aliases_from(import_stmt.names@, i + 1).insert(alias_bound(*alias))); }
@loopvar 2 it2
@loop 2
    invariant it2.seq() == import_from.names@.as_ref(),
        names.s().union(aliases_from(import_from.names@, it2.index@ as int)) =~= n0.union(aliases_from(import_from.names@, 0)),
@loopstart 2
    proof { let i = it2.index@ as int; assert(*alias == import_from.names@[i]);
        assert(aliases_from(import_from.names@, i) == aliases_from(import_from.names@, i + 1).insert(alias_bound(*alias))); }
@after is_fixture 1
    proof {
        let ds = func_def.decorator_list@;
        if !is_fixture {
            assert forall|i: int| 0 <= i < ds.len() implies !spec_is_fixture_decorator(&#[trigger] ds[i]) by { let y = ds.as_ref()[i]; }
        }
        assert(is_fixture == has_fixture_decorator(ds));
    }
@after is_fixture 3
    proof {
        let ds = func_def.decorator_list@;
        if !is_fixture {
            assert forall|i: int| 0 <= i < ds.len() implies !spec_is_fixture_decorator(&#[trigger] ds[i]) by { let y = ds.as_ref()[i]; }
        }
        assert(is_fixture == has_fixture_decorator(ds));
    }
@loopvar 3 it3
@loop 3
    invariant it3.seq() == assign.targets@.as_ref(),
        names.s().union(targets_from(assign.targets@, it3.index@ as int)) =~= n0.union(targets_from(assign.targets@, 0)),
@loopstart 3
    proof { let i = it3.index@ as int; assert(*target == assign.targets@[i]);
        assert(targets_from(assign.targets@, i) == target_names(*target).union(targets_from(assign.targets@, i + 1))); }
@*/
} // impl FixtureDatabase
} // mod fixtures

// ---- L2 (c): the two searches agree -------------------------------------------------------------------------
/// KEY LEMMA: for every body, "is a generator" (contains_yield: the return annotation is unwrapped) holds iff a
/// yield line is found (find_yield_line).  False before /repo commit "contains_yield must look where
/// find_yield_line looks" (AsyncWith / AsyncFor / except handlers were missing on one side).
//@tags C03
pub proof fn lemma_C03_c_yield_agree(b: Seq<Stmt>, li: Seq<usize>)
    ensures cy_from(b, 0) == (fy_from(b, 0, li) is Some),
{
    lemma_yield_agree_from(b, 0, li);
}
//@tags C03
pub proof fn lemma_yield_agree_from(b: Seq<Stmt>, k: int, li: Seq<usize>)
    ensures cy_from(b, k) == (fy_from(b, k, li) is Some),
    decreases b, b.len() - k
{
    if 0 <= k < b.len() {
        lemma_yield_agree_stmt(b[k], li);
        lemma_yield_agree_from(b, k + 1, li);
    }
}
//@tags C03
pub proof fn lemma_yield_agree_stmt(s: Stmt, li: Seq<usize>)
    ensures cy_stmt(s) == (fy_stmt(s, li) is Some),
    decreases s, 0int
{
    match s {
        Stmt::If(x) => { lemma_yield_agree_from(x.body@, 0, li); lemma_yield_agree_from(x.orelse@, 0, li); }
        Stmt::For(x) => { lemma_yield_agree_from(x.body@, 0, li); lemma_yield_agree_from(x.orelse@, 0, li); }
        Stmt::AsyncFor(x) => { lemma_yield_agree_from(x.body@, 0, li); lemma_yield_agree_from(x.orelse@, 0, li); }
        Stmt::While(x) => { lemma_yield_agree_from(x.body@, 0, li); lemma_yield_agree_from(x.orelse@, 0, li); }
        Stmt::With(x) => { lemma_yield_agree_from(x.body@, 0, li); }
        Stmt::AsyncWith(x) => { lemma_yield_agree_from(x.body@, 0, li); }
        Stmt::Try(x) => {
            lemma_yield_agree_from(x.body@, 0, li); lemma_yield_agree_from(x.orelse@, 0, li);
            lemma_yield_agree_from(x.finalbody@, 0, li); lemma_yield_agree_handlers(x.handlers@, 0, li);
        }
        _ => {}
    }
}
//@tags C03
pub proof fn lemma_yield_agree_handlers(hs: Seq<ExceptHandler>, k: int, li: Seq<usize>)
    ensures cy_handlers(hs, k) == (fy_handlers(hs, k, li) is Some),
    decreases hs, hs.len() - k
{
    if 0 <= k < hs.len() {
        match hs[k] { ExceptHandler::ExceptHandler(h) => { lemma_yield_agree_from(h.body@, 0, li); } }
        lemma_yield_agree_handlers(hs, k + 1, li);
    }
}

// ---- L2 (a): the recognisers accept exactly the documented forms ------------------------------------------
/// an expression with all trailing call parentheses removed: `f(..)(..)` -> `f`
pub open spec fn strip_calls(e: &Expr) -> &Expr
    decreases e
{
    match e { Expr::Call(c) => strip_calls(&*c.func), _ => e }
}
/// `fixture` | `pytest.fixture` | `pytest_asyncio.fixture`
pub open spec fn fixture_base_form(e: &Expr) -> bool {
    match e {
        Expr::Name(n) => idv(&n.id) == "fixture"@,
        Expr::Attribute(a) => idv(&a.attr) == "fixture"@ && (match &*a.value {
            Expr::Name(v) => idv(&v.id) == "pytest"@ || idv(&v.id) == "pytest_asyncio"@,
            _ => false,
        }),
        _ => false,
    }
}
/// `mark.<m>` | `pytest.mark.<m>`
pub open spec fn mark_base_form(e: &Expr, m: Seq<char>) -> bool {
    match e {
        Expr::Attribute(a) => idv(&a.attr) == m && (match &*a.value {
            Expr::Name(n) => idv(&n.id) == "mark"@,
            Expr::Attribute(i) => idv(&i.attr) == "mark"@ && (match &*i.value { Expr::Name(n) => idv(&n.id) == "pytest"@, _ => false }),
            _ => false,
        }),
        _ => false,
    }
}
/// accepted = one of the three documented spellings, bare or called -- and, as the recogniser is written, called
/// ANY number of times: `pytest.fixture()()` and `fixture(scope="module")(f)(g)` are accepted too.  Nothing else is.
//@tags C03
pub proof fn lemma_C03_a_fixture_decorator_forms(e: &Expr)
    ensures spec_is_fixture_decorator(e) == fixture_base_form(strip_calls(e)),
        !(strip_calls(e) is Call),
    decreases e
{
    match e { Expr::Call(c) => { lemma_C03_a_fixture_decorator_forms(&*c.func); } _ => {} }
}
//@tags C03
pub proof fn lemma_C03_a_mark_forms(e: &Expr, m: Seq<char>)
    ensures spec_is_mark(e, m) == mark_base_form(strip_calls(e), m),
    decreases e
{
    match e { Expr::Call(c) => { lemma_C03_a_mark_forms(&*c.func, m); } _ => {} }
}
/// rejected look-alikes: `fixtures`, `foo.fixture`, `pytest.fixtures`, `pytest.mark.fixture` / `a.b.fixture`
/// (attribute of an attribute), subscripts, lambdas ...; for marks: `pytest.usefixtures`, `foo.mark.usefixtures`,
/// `usefixtures` (bare name)
//@tags C03
pub proof fn lemma_C03_a_lookalikes_rejected(e: &Expr, m: Seq<char>)
    ensures
        (e matches Expr::Name(n) && idv(&n.id) == "fixtures"@) ==> !spec_is_fixture_decorator(e),
        (e matches Expr::Attribute(a) && idv(&a.attr) == "fixtures"@) ==> !spec_is_fixture_decorator(e),
        (e matches Expr::Attribute(a) && (*a.value) matches Expr::Name(v) && idv(&v.id) != "pytest"@ && idv(&v.id) != "pytest_asyncio"@)
            ==> !spec_is_fixture_decorator(e),
        (e matches Expr::Attribute(a) && !((*a.value) is Name)) ==> !spec_is_fixture_decorator(e),
        !(e is Name) && !(e is Attribute) && !(e is Call) ==> !spec_is_fixture_decorator(e) && !spec_is_mark(e, m),
        e is Name ==> !spec_is_mark(e, m),
        (e matches Expr::Attribute(a) && (*a.value) matches Expr::Name(v) && idv(&v.id) == "pytest"@) ==> !spec_is_mark(e, m),
        (e matches Expr::Attribute(a) && (*a.value) matches Expr::Attribute(i) && idv(&i.attr) != "mark"@) ==> !spec_is_mark(e, m),
        (e matches Expr::Attribute(a) && (*a.value) matches Expr::Attribute(i) && (*i.value) matches Expr::Name(v) && idv(&v.id) != "pytest"@)
            ==> !spec_is_mark(e, m),
        (e matches Expr::Attribute(a) && idv(&a.attr) != m) ==> !spec_is_mark(e, m),
{
    reveal_strlit("fixtures"); reveal_strlit("fixture"); reveal_strlit("pytest"); reveal_strlit("mark");
    assert("fixtures"@.len() != "fixture"@.len());
    assert("pytest"@.len() != "mark"@.len());
}

// ---- L2 (b): keyword extraction ----------------------------------------------------------------------------
/// name / scope / autouse exist only on a CALLED fixture decorator: a bare `@pytest.fixture` or a call of anything
/// else yields no name, no scope, autouse false
//@tags C03
pub proof fn lemma_C03_b_only_called_fixture_decorators(e: &Expr)
    ensures
        !(e is Call) ==> spec_kw(e, kw_str_fn("name"@)) is None && spec_kw(e, kw_scope_fn()) is None && !spec_autouse(e),
        (e matches Expr::Call(c) && !spec_is_fixture_decorator(&*c.func))
            ==> spec_kw(e, kw_str_fn("name"@)) is None && spec_kw(e, kw_scope_fn()) is None && !spec_autouse(e),
{}
pub proof fn lemma_first_some_remove<T, V>(s: Seq<T>, g: spec_fn(T) -> Option<V>, i: int, k: int)
    requires 0 <= k <= i < s.len(), g(s[i]) is None,
    ensures first_some(s, g, k) == first_some(s.remove(i), g, k),
    decreases s.len() - k
{
    let t = s.remove(i);
    if k < i {
        assert(t[k] == s[k]);
        lemma_first_some_remove(s, g, i, k + 1);
    } else {
        lemma_first_some_remove_tail(s, g, i, k + 1);
    }
}
pub proof fn lemma_first_some_remove_tail<T, V>(s: Seq<T>, g: spec_fn(T) -> Option<V>, i: int, k: int)
    requires 0 <= i < k <= s.len(),
    ensures first_some(s, g, k) == first_some(s.remove(i), g, k - 1),
    decreases s.len() - k
{
    if k < s.len() {
        assert(s.remove(i)[k - 1] == s[k]);
        lemma_first_some_remove_tail(s, g, i, k + 1);
    }
}
/// a keyword whose value is not a string literal (a variable, a call, an f-string, a number ...) is ignored: the
/// result is the one obtained without that keyword; so is a keyword of another name, and a `scope=` literal that
/// FixtureScope::parse rejects (the search goes on to a later `name=` / `scope=`).  autouse counts only literal True.
//@tags C03
pub proof fn lemma_C03_b_nonconstant_keywords_ignored(c: ExprCall, i: int, c2: ExprCall)
    requires 0 <= i < c.keywords@.len(), c2.func == c.func, c2.keywords@ == c.keywords@.remove(i),
    ensures
        str_const(c.keywords@[i].value) is None ==>
            spec_kw(&Expr::Call(c), kw_str_fn("name"@)) == spec_kw(&Expr::Call(c2), kw_str_fn("name"@))
            && spec_kw(&Expr::Call(c), kw_scope_fn()) == spec_kw(&Expr::Call(c2), kw_scope_fn()),
        !kw_is(c.keywords@[i], "name"@) ==> spec_kw(&Expr::Call(c), kw_str_fn("name"@)) == spec_kw(&Expr::Call(c2), kw_str_fn("name"@)),
        scope_of_value(c.keywords@[i].value) is None ==> spec_kw(&Expr::Call(c), kw_scope_fn()) == spec_kw(&Expr::Call(c2), kw_scope_fn()),
        !is_true_const(c.keywords@[i].value) ==> spec_autouse(&Expr::Call(c)) == spec_autouse(&Expr::Call(c2)),
{
    let ks = c.keywords@;
    if kw_str_fn("name"@)(ks[i]) is None { lemma_first_some_remove(ks, kw_str_fn("name"@), i, 0); }
    if kw_scope_fn()(ks[i]) is None { lemma_first_some_remove(ks, kw_scope_fn(), i, 0); }
    if !is_true_const(ks[i].value) && spec_is_fixture_decorator(&*c.func) {
        let k2 = c2.keywords@;
        if spec_autouse(&Expr::Call(c)) {
            let j = choose|j: int| 0 <= j < ks.len() && kw_is(#[trigger] ks[j], "autouse"@) && is_true_const(ks[j].value);
            let j2 = if j < i { j } else { j - 1 };
            assert(k2[j2] == ks[j]);
        }
        if spec_autouse(&Expr::Call(c2)) {
            let j2 = choose|j: int| 0 <= j < k2.len() && kw_is(#[trigger] k2[j], "autouse"@) && is_true_const(k2[j].value);
            let j = if j2 < i { j2 } else { j2 + 1 };
            assert(k2[j2] == ks[j]);
        }
    }
}
/// the FIRST usable `name=` wins (Python itself rejects a repeated keyword)
//@tags C03
pub proof fn lemma_C03_b_first_name_wins(c: ExprCall, i: int)
    requires spec_is_fixture_decorator(&*c.func), 0 <= i < c.keywords@.len(),
        kw_is(c.keywords@[i], "name"@), str_const(c.keywords@[i].value) is Some,
        forall|j: int| 0 <= j < i ==> !(kw_is(#[trigger] c.keywords@[j], "name"@) && str_const(c.keywords@[j].value) is Some),
    ensures spec_kw(&Expr::Call(c), kw_str_fn("name"@)) == str_const(c.keywords@[i].value),
{
    lemma_first_some_from(c.keywords@, kw_str_fn("name"@), i, 0);
}

/// what the yield searches do NOT look at (stated, not hidden): `match` statements, `try ... except*`, function /
/// class definitions, and a yield that is not an expression statement of its own (`x = yield`, `await (yield)`,
/// `return (yield)`): such a body is not a generator body for the index and has no yield line
//@tags C03
pub proof fn lemma_C03_c_yield_search_domain(s: Stmt, li: Seq<usize>)
    ensures
        (s is Match || s is TryStar || s is Assign || s is AnnAssign || s is AugAssign || s is Return
            || s is FunctionDef || s is AsyncFunctionDef || s is ClassDef) ==> !cy_stmt(s) && fy_stmt(s, li) is None,
        (s matches Stmt::Expr(x) && !((*x.value) is Yield) && !((*x.value) is YieldFrom)) ==> !cy_stmt(s) && fy_stmt(s, li) is None,
{}


/// the return annotation is unwrapped (the yielded type is recorded) exactly when a yield line is recorded
//@tags C03
pub proof fn lemma_C03_c_unwrapped_iff_yield_line(a: Box<Expr>, body: Seq<Stmt>, content: Seq<char>, li: Seq<usize>)
    ensures
        spec_return_type(None, body, content) is None,
        spec_return_type(Some(a), body, content) ==
            Some(if fy_from(body, 0, li) is Some { spec_yielded_type(*a, content) } else { expr_str(*a, content) }),
{
    lemma_C03_c_yield_agree(body, li);
}
/// usefixtures: only CALLS of the mark carry names (a bare `pytest.mark.usefixtures` has none); in a pytestmark
/// value everything that is not such a call, a list or a tuple contributes nothing
//@tags C03
pub proof fn lemma_C03_d_usefixtures_forms(e: &Expr)
    ensures
        !(e is Call) ==> spec_usefixtures(e).len() == 0,
        !(e is Call) && !(e is List) && !(e is Tuple) ==> spec_usefixtures_from_expr(e).len() == 0,
        (e matches Expr::Call(c) && !spec_is_mark(&*c.func, "usefixtures"@)) ==> spec_usefixtures_from_expr(e).len() == 0,
        (e matches Expr::Call(c) && !spec_is_mark(&*c.func, "parametrize"@)) ==> spec_parametrize_indirect(e).len() == 0,
{}
/// module-level names: a fixture function binds no name (it is a fixture, not a candidate for "imported name"
/// resolution); attribute / subscript targets bind none
//@tags C03
pub proof fn lemma_C03_e_module_level_names(s: Stmt, e: Expr)
    ensures
        (s matches Stmt::FunctionDef(f) && has_fixture_decorator(f.decorator_list@)) ==> module_level_names(s) =~= Set::empty(),
        (s matches Stmt::FunctionDef(f) && !has_fixture_decorator(f.decorator_list@)) ==> module_level_names(s) =~= Set::empty().insert(idv(&f.name)),
        (e is Attribute || e is Subscript || e is Starred) ==> target_names(e) =~= Set::<Seq<char>>::empty(),
{}

// ---- vacuity guards: each of these must FAIL ---------------------------------------------------------------
/// `pytest.mark.fixture` is a fixture decorator
proof fn canary_mark_fixture_accepted(e: &Expr)
    requires e matches Expr::Attribute(a) && idv(&a.attr) == "fixture"@ && (*a.value) is Attribute,
    ensures spec_is_fixture_decorator(e),
{}
/// a generator body without a yield line
proof fn canary_yield_disagree(b: Seq<Stmt>, li: Seq<usize>)
    requires cy_from(b, 0),
    ensures fy_from(b, 0, li) is None,
{ lemma_C03_c_yield_agree(b, li); }
/// the LAST `name=` wins
proof fn canary_last_name_wins(c: ExprCall, i: int)
    requires spec_is_fixture_decorator(&*c.func), 0 <= i < c.keywords@.len(),
        kw_is(c.keywords@[i], "name"@), str_const(c.keywords@[i].value) is Some,
        forall|j: int| i < j < c.keywords@.len() ==> !(kw_is(#[trigger] c.keywords@[j], "name"@)),
    ensures spec_kw(&Expr::Call(c), kw_str_fn("name"@)) == str_const(c.keywords@[i].value),
{}
/// the assumed specifications in scope are not contradictory
proof fn canary_false_from_assumptions(e: &Expr, r: Seq<(String, TextRange)>, b: bool, o: Option<Seq<char>>)
    requires ufe_post(e, r), autouse_post(e, b), kw_post(e, kw_str_fn("name"@), o),
    ensures false,
{}

} // verus!
fn main() {}
