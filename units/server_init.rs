//@include prelude/header.rs
//@include prelude/srvinit_fmt_macro.rs
// Unit server_init: `initialize` and `shutdown` of src/main.rs (`impl LanguageServer for Backend`) under contract.
// Real async bodies read sequentially (T13 @stripasync), writes modelled as `&mut self` with the Arc<RwLock<..>> /
// Arc<Mutex<..>> wrappers stripped (T3/T6: prelude/srvinit_backend.rs).
//   L1: initialize_post / shutdown_post below.
//   what is SPAWNED: `tokio::spawn(async move { B })` is read as `vp_spawn_scan(Ghost(t), move || { B })` (T-spawn: the
//       async block becomes a closure, its `.await`s are dropped by T13).  B is verified: its one call of
//       scan_workspace_with_excludes carries the precondition `scan_allowed(db, root, patterns)`, an UNINTERPRETED
//       permission; vp_spawn_scan demands  scan_allowed(t.db, t.root, t.pats) ==> B may run  — so the only scan B can
//       contain is the one of the recorded task t, and initialize_post says what t is.
use ls_types::*;
verus! {
global size_of usize == 8;  // A6: 64-bit target
pub mod pre {
use super::*;
//@include prelude/path.rs
//@include prelude/arc.rs
//@include prelude/strings.rs
//@include prelude/glob.rs
//@include build/lspspec_init.rs
//@include prelude/srvinit_shims.rs
} // mod pre
use pre::*;
use pre::Pattern;   // glob::Pattern stand-in (ls_types exports a type alias of the same name)

//@item src/config/mod.rs struct Config
//@dbstruct workspace_root

broadcast use {axiom_pathbuf_ref_as_path_si};

pub open spec fn cfg_view(c: &Config) -> CfgV {
    CfgV { exclude: pat_views(c.exclude@), disabled: str_views(c.disabled_diagnostics@),
           fixture_paths: str_views(c.fixture_paths@), skip_plugins: str_views(c.skip_plugins@) }
}
impl Config {
//@stub config load
}
pub mod config { pub use super::Config; }

/// permission to scan database `db` from `root` with exclude patterns `pats` (uninterpreted: see the header)
pub uninterp spec fn scan_allowed(db: FixtureDatabase, root: PV, pats: Seq<Seq<char>>) -> bool;
impl FixtureDatabase {
    /// (not called by the handlers; present so that a variant scanning a FRESH database is refuted, not undecided)
    #[verifier::external_body]
    pub fn new() -> (r: Self) { unimplemented!() }
    /// src/fixtures/scanner.rs (under contract in unit scan_select): here only WHICH scan is requested matters
    #[verifier::external_body]
    pub fn scan_workspace_with_excludes(&self, root_path: &Path, exclude_patterns: &[Pattern])
        requires scan_allowed(*self, pv(root_path), pat_views(exclude_patterns@))
    { }
}

//@include prelude/srvinit_backend.rs

// ---- tokio / tower-lsp stand-ins used INSIDE the spawned blocks ---------------------------------------------------------
#[verifier::external_body] #[derive(Debug)] pub struct JoinError { _p: () }
pub struct VpDuration { pub ms: u64 }
pub fn vp_millis(ms: u64) -> (r: VpDuration) ensures r.ms == ms { VpDuration { ms } }
pub mod tokio {
    use super::*;
    pub mod task {
        use super::*;
        /// `spawn_blocking(f).await` (T13): f runs to completion on a blocking thread, or the join fails
        #[verifier::external_body]
        pub fn spawn_blocking<R, F: FnOnce() -> R>(f: F) -> (r: Result<R, JoinError>)
            requires call_requires(f, ()),
            ensures match r { Ok(v) => call_ensures(f, (), v), Err(_) => true }
        { unimplemented!() }
    }
    pub mod time {
        use super::*;
        #[verifier::external_body]
        pub fn sleep(d: VpDuration) { }
    }
}
#[verifier::external_body] pub fn vp_fmt_msg<A: core::fmt::Debug>(a: &A) -> (r: String) { unimplemented!() }
#[verifier::external_body] pub fn vp_mt_info() -> (r: MessageType) { MessageType::INFO }
#[verifier::external_body] pub fn vp_mt_error() -> (r: MessageType) { MessageType::ERROR }
#[verifier::external_body] pub fn vp_pkg_version() -> (r: String) { unimplemented!() }
#[verifier::external_body] pub fn vp_quickfix_kinds() -> (r: Vec<CodeActionKind>) { unimplemented!() }
#[verifier::external_body] pub fn vp_sync_full() -> (r: TextDocumentSyncKind) { unimplemented!() }
#[verifier::external_body] pub fn vp_trigger_chars() -> (r: Vec<String>) { unimplemented!() }
impl Clone for Pattern {
    /// glob::Pattern is Clone (derive): the clone has the same source text
    #[verifier::external_body]
    fn clone(&self) -> (r: Self) ensures r@ == self@ { unimplemented!() }
}
/// `std::process::exit(code)` inside the forced-exit task: the exit status after a shutdown request is 0
#[verifier::external_body] pub fn vp_process_exit(code: i32) requires code == 0 { }
impl Client {
    /// `client.log_message(typ, message).await` (inside the spawned scan task): no property speaks about these messages
    #[verifier::external_body]
    pub fn log_message<M: core::fmt::Display>(&self, typ: MessageType, message: M) { }
}
impl Backend {
    /// `tokio::spawn(async move { B })` of initialize: see the header
    #[verifier::external_body]
    pub fn vp_spawn_scan<F: FnOnce() -> ()>(Ghost(t): Ghost<ScanTaskV>, f: F) -> (h: JoinHandle)
        requires scan_allowed(*t.db, t.root, t.pats) ==> call_requires(f, ()),
        ensures h.task() == t
    { unimplemented!() }
    /// `tokio::spawn(async { B })` of shutdown: the forced-exit task
    #[verifier::external_body]
    pub fn vp_spawn_exit_task<F: FnOnce() -> ()>(&mut self, f: F)
        requires call_requires(f, ()),
        ensures final(self).log() == old(self).log().push(SEv::SpawnForcedExit), same_state(*final(self), *old(self))
    { }
}

pub mod handlers {
use super::*;
use jsonrpc::Result;
impl Backend {
/*@ extract src/main.rs initialize
@tags C10 C19 C11
@stripasync
@recv mut
@ret r
@rename to_file_path vp_to_file_path
@replace 1 `#[allow(deprecated)]` => ``
@closure and_then:1 |folders: &Vec<WorkspaceFolder>| -> (o: Option<&WorkspaceFolder>) ensures o == (if folders@.len() > 0 { Some(&folders@[0]) } else { None::<&WorkspaceFolder> })
@closure map:1 |folder: &WorkspaceFolder| -> (u: Uri) ensures u == folder.uri
@closure or_else:1 || -> (o: Option<Uri>) ensures o == params.root_uri
@closure unwrap_or_else:1 |_e: std::io::Error| -> (p: PathBuf) ensures pbv(&p) == pbv(&root_path)
@replace 1 `tokio::spawn(async move {` => `Self::vp_spawn_scan(Ghost(ScanTaskV { db: fixture_db, root: pbv(&root_path), pats: pat_views(exclude_patterns@) }), move || -> (u: ()) requires scan_allowed(*fixture_db, pbv(&root_path), pat_views(exclude_patterns@)) {`
@closure spawn_blocking:1 || -> (u: ()) requires scan_allowed(*fixture_db, pbv(&root_path), pat_views(exclude_patterns@))
@replace 1 `MessageType::INFO` => `vp_mt_info()`
@replace 2 `MessageType::INFO` => `vp_mt_info()`
@replace 1 `MessageType::ERROR` => `vp_mt_error()`
@replace 1 `self.client .log_message( MessageType::WARNING,` => `self.vp_warn(`
@replace 1 `env!("CARGO_PKG_VERSION").to_string()` => `vp_pkg_version()`
@replace 1 `vec![CodeActionKind::QUICKFIX]` => `vp_quickfix_kinds()`
@replace 1 `TextDocumentSyncKind::FULL` => `vp_sync_full()`
@replace 1 `vec![ "\"".to_string(), "(".to_string(), ",".to_string(), ]` => `vp_trigger_chars()`
@sig
    ensures initialize_post(*old(self), *final(self), params, r),
@start
    let ghost b0 = *self;
@after exclude_patterns 1
    proof { assert(pat_views(exclude_patterns@) =~= pat_views(self.config.exclude@)); }
@return tail
    assert(self.fixture_db == b0.fixture_db);
    match selected_root(params) {
        Some(u) => match uri_file_path(u) {
            Some(p) => {
                assert(opt_pbv(self.original_workspace_root) == Some(p));
                assert(opt_pbv(self.workspace_root) == Some(match fs_canonical(p) { Some(c) => c, None => p }));
                assert(cfg_view(&self.config) == cfg_of_root(p));
                assert(self.scan_task is Some);
                assert(self.scan_task->0.task() == (ScanTaskV { db: b0.fixture_db, root: p, pats: cfg_view(&self.config).exclude }));
                assert(self.log() == b0.log());
            },
            None => { assert(same_state(*self, b0) && self.log() == b0.log()); },
        },
        None => { assert(same_state(*self, b0)); assert(self.log() == b0.log().push(SEv::Warn { text: "No workspace root provided - fixture analysis disabled"@ })); },
    }
@*/

/*@ extract src/main.rs shutdown
@tags C12
@stripasync
@recv mut
@ret r
@replace 1 `handle.abort()` => `self.vp_abort(&handle)`
@replace 1 `tokio::time::timeout(` => `self.vp_join_with_timeout(`
@replace 1 `std::time::Duration::from_millis(` => `vp_millis(`
@replace 2 `std::time::Duration::from_millis(` => `vp_millis(`
@replace 1 `Ok(Ok(_)) =>` => `Ok(Ok(_)) => ()`
@replace 1 `Ok(Err(_)) =>` => `Ok(Err(_)) => ()`
@replace 1 `Err(_) =>` => `Err(_) => ()`
@replace 1 `tokio::spawn(async {` => `self.vp_spawn_exit_task(|| {`
@replace 1 `std::process::exit(` => `vp_process_exit(`
@sig
    ensures shutdown_post(*old(self), *final(self), r),
@start
    let ghost b0 = *self;
@return tail
    assert(self.log() =~= b0.log() + (match b0.scan_task {
            Some(h) => seq![SEv::Abort { h: h }, SEv::JoinWithTimeout { ms: 100, h: h }],
            None => Seq::<SEv>::empty() }) + seq![SEv::SpawnForcedExit]);
@*/

// ---- exec vacuity guards (must FAIL): the real bodies under deliberately wrong contracts
/*@ extract src/main.rs initialize
@tags C10
@as canary_exec_initialize_spawns_nothing
@stripasync
@recv mut
@ret r
@rename to_file_path vp_to_file_path
@replace 1 `#[allow(deprecated)]` => ``
@closure and_then:1 |folders: &Vec<WorkspaceFolder>| -> (o: Option<&WorkspaceFolder>) ensures o == (if folders@.len() > 0 { Some(&folders@[0]) } else { None::<&WorkspaceFolder> })
@closure map:1 |folder: &WorkspaceFolder| -> (u: Uri) ensures u == folder.uri
@closure or_else:1 || -> (o: Option<Uri>) ensures o == params.root_uri
@closure unwrap_or_else:1 |_e: std::io::Error| -> (p: PathBuf) ensures pbv(&p) == pbv(&root_path)
@replace 1 `tokio::spawn(async move {` => `Self::vp_spawn_scan(Ghost(ScanTaskV { db: fixture_db, root: pbv(&root_path), pats: pat_views(exclude_patterns@) }), move || -> (u: ()) requires scan_allowed(*fixture_db, pbv(&root_path), pat_views(exclude_patterns@)) {`
@closure spawn_blocking:1 || -> (u: ()) requires scan_allowed(*fixture_db, pbv(&root_path), pat_views(exclude_patterns@))
@replace 1 `MessageType::INFO` => `vp_mt_info()`
@replace 2 `MessageType::INFO` => `vp_mt_info()`
@replace 1 `MessageType::ERROR` => `vp_mt_error()`
@replace 1 `self.client .log_message( MessageType::WARNING,` => `self.vp_warn(`
@replace 1 `env!("CARGO_PKG_VERSION").to_string()` => `vp_pkg_version()`
@replace 1 `vec![CodeActionKind::QUICKFIX]` => `vp_quickfix_kinds()`
@replace 1 `TextDocumentSyncKind::FULL` => `vp_sync_full()`
@replace 1 `vec![ "\"".to_string(), "(".to_string(), ",".to_string(), ]` => `vp_trigger_chars()`
@sig
    ensures final(self).scan_task is None, // exec canary: must FAIL
@start
    let ghost b0 = *self;
@after exclude_patterns 1
    proof { assert(pat_views(exclude_patterns@) =~= pat_views(self.config.exclude@)); }
@*/

/*@ extract src/main.rs shutdown
@tags C12
@as canary_exec_shutdown_contract_vacuous
@stripasync
@recv mut
@ret r
@replace 1 `handle.abort()` => `self.vp_abort(&handle)`
@replace 1 `tokio::time::timeout(` => `self.vp_join_with_timeout(`
@replace 1 `std::time::Duration::from_millis(` => `vp_millis(`
@replace 2 `std::time::Duration::from_millis(` => `vp_millis(`
@replace 1 `Ok(Ok(_)) =>` => `Ok(Ok(_)) => ()`
@replace 1 `Ok(Err(_)) =>` => `Ok(Err(_)) => ()`
@replace 1 `Err(_) =>` => `Err(_) => ()`
@replace 1 `tokio::spawn(async {` => `self.vp_spawn_exit_task(|| {`
@replace 1 `std::process::exit(` => `vp_process_exit(`
@sig
    ensures false, // exec canary: must FAIL
@start
    let ghost b0 = *self;
@*/
}
} // mod handlers


/// the workspace root the client names: the first workspace folder if there is one, else the (deprecated) rootUri
pub open spec fn selected_root(params: InitializeParams) -> Option<Uri> {
    match params.workspace_folders {
        Some(f) => if f@.len() > 0 { Some(f@[0].uri) } else { params.root_uri },
        None => params.root_uri,
    }
}
/// the capabilities announced (the fields the handler sets; the others come from Default and are not constrained)
pub open spec fn caps_ok(res: InitializeResult) -> bool {
    let c = res.capabilities;
    &&& c.definition_provider == Some(OneOf::<bool, DefinitionOptions>::Left(true))
    &&& c.hover_provider == Some(HoverProviderCapability::Simple(true))
    &&& c.references_provider == Some(OneOf::<bool, ReferenceOptions>::Left(true))
    &&& c.text_document_sync is Some
    &&& c.code_action_provider is Some
    &&& c.completion_provider is Some && c.completion_provider->0.resolve_provider == Some(false)
    &&& c.document_symbol_provider == Some(OneOf::<bool, DocumentSymbolOptions>::Left(true))
    &&& c.workspace_symbol_provider == Some(OneOf::<bool, WorkspaceSymbolOptions>::Left(true))
    &&& c.code_lens_provider == Some(CodeLensOptions { resolve_provider: Some(false) })
    &&& c.inlay_hint_provider == Some(OneOf::<bool, InlayHintServerCapabilities>::Left(true))
    &&& c.implementation_provider == Some(ImplementationProviderCapability::Simple(true))
    &&& c.call_hierarchy_provider == Some(CallHierarchyServerCapability::Simple(true))
}
/// initialize
pub open spec fn initialize_post(b0: Backend, b1: Backend, params: InitializeParams, r: jsonrpc::Result<InitializeResult>) -> bool {
    &&& r is Ok && caps_ok(r->Ok_0)
    &&& b1.fixture_db == b0.fixture_db
    &&& match selected_root(params) {
        Some(u) => match uri_file_path(u) {
            Some(p) => {
                // the root AS THE CLIENT WROTE IT is stored, used for the configuration and handed to the scan;
                // the canonical form is stored next to it
                &&& opt_pbv(b1.original_workspace_root) == Some(p)
                &&& opt_pbv(b1.workspace_root) == Some(match fs_canonical(p) { Some(c) => c, None => p })
                &&& cfg_view(&b1.config) == cfg_of_root(p)
                &&& b1.scan_task is Some
                &&& b1.scan_task->0.task() == (ScanTaskV { db: b0.fixture_db, root: p, pats: cfg_view(&b1.config).exclude })
                &&& b1.log() == b0.log()
            },
            None => same_state(b1, b0) && b1.log() == b0.log(),
        },
        None => same_state(b1, b0) && b1.log() == b0.log().push(SEv::Warn { text: "No workspace root provided - fixture analysis disabled"@ }),
    }
}
/// shutdown: the stored scan task (if any) is taken out, aborted, then awaited for at most 100 ms; a forced-exit task is
/// spawned; the answer is Ok
pub open spec fn shutdown_post(b0: Backend, b1: Backend, r: jsonrpc::Result<()>) -> bool {
    &&& r is Ok
    &&& b1.scan_task is None
    &&& b1.fixture_db == b0.fixture_db && b1.workspace_root == b0.workspace_root && b1.original_workspace_root == b0.original_workspace_root && b1.config == b0.config
    &&& b1.log() == b0.log() + (match b0.scan_task {
            Some(h) => seq![SEv::Abort { h: h }, SEv::JoinWithTimeout { ms: 100, h: h }],
            None => Seq::<SEv>::empty() }) + seq![SEv::SpawnForcedExit]
}


// ---- L2 ------------------------------------------------------------------------------------------------------------------
//@tags C10 C13
/// the background scan `initialize` starts is the scan of the server's OWN database, from the root the client named (the
/// path AS WRITTEN in the URI: not its canonical form, which is only stored next to it), with exactly the exclude
/// patterns of the configuration that was just loaded for that root
pub proof fn lemma_C10_scan_task_is_the_configured_scan(b0: Backend, b1: Backend, params: InitializeParams, r: jsonrpc::Result<InitializeResult>, u: Uri, p: PV)
    requires initialize_post(b0, b1, params, r), selected_root(params) == Some(u), uri_file_path(u) == Some(p)
    ensures b1.scan_task is Some,
        b1.scan_task->0.task().db == b0.fixture_db, b1.scan_task->0.task().root == p,
        b1.scan_task->0.task().pats == cfg_of_root(p).exclude,
        opt_pbv(b1.original_workspace_root) == Some(p),
        fs_canonical(p) is Some ==> opt_pbv(b1.workspace_root) == fs_canonical(p),
{}
//@tags C19
/// the configuration in force after `initialize` is a function of <root>/pyproject.toml alone: the defaults when the file
/// is missing or unreadable, else what Config::parse makes of its text (unit config: an unparsable text, unknown codes,
/// invalid globs are dropped individually); and `initialize` ANSWERS (Ok, with the capabilities) whatever that file holds
pub proof fn lemma_C19_config_is_the_workspace_pyproject(b0: Backend, b1: Backend, params: InitializeParams, r: jsonrpc::Result<InitializeResult>, u: Uri, p: PV)
    requires initialize_post(b0, b1, params, r), selected_root(params) == Some(u), uri_file_path(u) == Some(p)
    ensures r is Ok, caps_ok(r->Ok_0),
        !fs_exists(pyproject_pv(p)) ==> cfg_view(&b1.config) == empty_cfg(),
        fs_exists(pyproject_pv(p)) && fs_read(pyproject_pv(p)) is None ==> cfg_view(&b1.config) == empty_cfg(),
        fs_exists(pyproject_pv(p)) && fs_read(pyproject_pv(p)) is Some ==> cfg_view(&b1.config) == parse_cfg(fs_read(pyproject_pv(p))->0),
{}
//@tags C19 C11
/// no workspace root / a root URI without a path: nothing is loaded, nothing is spawned, the server still answers
pub proof fn lemma_C19_no_root_no_scan(b0: Backend, b1: Backend, params: InitializeParams, r: jsonrpc::Result<InitializeResult>)
    requires initialize_post(b0, b1, params, r), selected_root(params) is None || uri_file_path(selected_root(params)->0) is None
    ensures r is Ok, same_state(b1, b0), b1.scan_task == b0.scan_task
{}
//@tags C12
/// shutdown never waits unboundedly: the only wait on the scan task is the one `timeout` of 100 ms, it comes AFTER the
/// abort of that same task, the handle is gone afterwards (no second wait), and the forced-exit task is always spawned
pub proof fn lemma_C12_shutdown_waits_at_most_once_bounded(b0: Backend, b1: Backend, r: jsonrpc::Result<()>, i: int)
    requires shutdown_post(b0, b1, r), b0.log().len() <= i < b1.log().len()
    ensures r is Ok, b1.scan_task is None,
        b1.log().last() == SEv::SpawnForcedExit,
        (b1.log()[i] matches SEv::JoinWithTimeout { ms, h } ==> ms == 100 && i == b0.log().len() + 1 && b1.log()[i - 1] == (SEv::Abort { h: h }) && b0.scan_task == Some(h)),
{
    match b0.scan_task {
        Some(h) => { assert(b1.log() =~= b0.log().push(SEv::Abort { h: h }).push(SEv::JoinWithTimeout { ms: 100, h: h }).push(SEv::SpawnForcedExit)); }
        None => { assert(b1.log() =~= b0.log().push(SEv::SpawnForcedExit)); }
    }
}

// ---- vacuity guards: each of these must FAIL -----------------------------------------------------------------------------
/// the scan runs on the CANONICAL root (it does not: the root as written by the client is handed to the scanner)
proof fn canary_scan_runs_on_canonical_root(b0: Backend, b1: Backend, params: InitializeParams, r: jsonrpc::Result<InitializeResult>, u: Uri, p: PV, c: PV)
    requires initialize_post(b0, b1, params, r), selected_root(params) == Some(u), uri_file_path(u) == Some(p), fs_canonical(p) == Some(c)
    ensures b1.scan_task->0.task().root == c
{}
/// the configuration is read below the canonical root
proof fn canary_config_from_canonical_root(b0: Backend, b1: Backend, params: InitializeParams, r: jsonrpc::Result<InitializeResult>, u: Uri, p: PV, c: PV)
    requires initialize_post(b0, b1, params, r), selected_root(params) == Some(u), uri_file_path(u) == Some(p), fs_canonical(p) == Some(c)
    ensures cfg_view(&b1.config) == cfg_of_root(c)
{}
/// rootUri wins over the workspace folders
proof fn canary_root_uri_preferred(params: InitializeParams)
    requires params.root_uri is Some
    ensures selected_root(params) == params.root_uri
{}
/// shutdown leaves the task handle in place
proof fn canary_shutdown_keeps_handle(b0: Backend, b1: Backend, r: jsonrpc::Result<()>)
    requires shutdown_post(b0, b1, r), b0.scan_task is Some
    ensures b1.scan_task is Some
{}
/// any scan is permitted (the permission predicate would be vacuous)
proof fn canary_any_scan_allowed(db: FixtureDatabase, root: PV, pats: Seq<Seq<char>>)
    ensures scan_allowed(db, root, pats)
{}
proof fn canary_srvinit_axioms_inconsistent()
    ensures false
{}

} // verus!
fn main() {}
