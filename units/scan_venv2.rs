//@include prelude/strstruct_header.rs
// Unit scan_venv2 — property C14, second sentence (plugin discovery), + C11 (no panic), C12 (termination):
//   src/fixtures/scanner.rs  DATABASE-writing functions: scan_single_plugin_file (F1), scan_plugin_directory (F2),
//   resolve_entry_point_in_editable_installs (F3), load_plugin_from_entry_point (F4), scan_pytest_internal_fixtures (F5),
//   build_pth_index (F6), discover_editable_installs (F7), scan_pytest_plugins (F8), scan_venv_site_packages (F9),
//   scan_venv_fixtures (F10).  The text functions they call (unit scan_venv) enter as //@stub contracts.
use std::sync::atomic::Ordering;
verus! {
global size_of usize == 8;  // A6: 64-bit target
pub mod pre {
use super::*;
//@include prelude/path.rs
//@include prelude/path_ext.rs
//@include prelude/types.rs
//@include prelude/dashmap.rs
//@include prelude/hashset.rs
//@include prelude/hashmap.rs
//@include prelude/atomic.rs
//@include prelude/glob.rs
//@include prelude/scansel_shims.rs
//@include prelude/strstruct_prims.rs
//@include prelude/strstruct_prims2.rs
//@include prelude/scanvenv_str.rs
//@include prelude/scanvenv_fs.rs
//@include prelude/scanvenv_spec.rs
#[verifier::external_type_specification] pub struct ExUndeclaredFixture(UndeclaredFixture);
//@include prelude/scanvenv_db.rs
//@include prelude/scanvenv_spec2.rs
} // mod pre
use pre::*;

broadcast use {axiom_path_as_path, axiom_pathbuf_ref_as_path, lemma_fits, axiom_ts_n, axiom_te_n, axiom_pat_str, axiom_pat_char,
    lemma_sv_step, axiom_str_path, axiom_plain_pv, axiom_file_name_parent, axiom_entry_name};

//@item src/fixtures/scanner.rs struct Pytest11EntryPoint
spec fn ep_v(e: Pytest11EntryPoint) -> EpV { EpV { name: e.name@, module: e.module_path@ } }
spec fn eps_v(s: Seq<Pytest11EntryPoint>) -> Seq<EpV> { s.map_values(|e: Pytest11EntryPoint| ep_v(e)) }

//@item src/fixtures/mod.rs struct EditableInstall
pub open spec fn ei_v(e: EditableInstall) -> EiV {
    EiV { package_name: e.package_name@, raw_package_name: e.raw_package_name@, source_root: pbv(&e.source_root), site_packages: pbv(&e.site_packages) }
}
pub open spec fn eis_v(s: Seq<EditableInstall>) -> Seq<EiV> { s.map_values(|e: EditableInstall| ei_v(e)) }
pub open spec fn pbvs(s: Seq<PathBuf>) -> Seq<PV> { s.map_values(|p: PathBuf| pbv(&p)) }

//@dbstruct definitions file_definitions usages usage_by_fixture file_cache undeclared_fixtures imports canonical_path_cache definitions_version site_packages_paths editable_install_roots workspace_root plugin_fixture_files

/// D8: sequential stand-ins for std::sync::Mutex::lock on the Mutex-stripped fields (T6): never poisoned, no thread model
pub mod lock_ro {
    use super::*;
    pub trait VpLock: Sized { fn lock(&self) -> (r: Result<&Self, PoisonNever>) ensures r is Ok, r->Ok_0 == self; }
    impl VpLock for Vec<EditableInstall> {
        #[verifier::external_body]
        fn lock(&self) -> (r: Result<&Self, PoisonNever>) { Ok(self) }
    }
}
impl VpLockMut for Vec<EditableInstall> {
    #[verifier::external_body]
    fn lock(&mut self) -> (r: Result<&mut Self, PoisonNever>) { Ok(self) }
}
impl VpLockMut for Vec<PathBuf> {
    #[verifier::external_body]
    fn lock(&mut self) -> (r: Result<&mut Self, PoisonNever>) { Ok(self) }
}

impl FixtureDatabase {
    pub open spec fn idx(&self) -> Idx {
        Idx { definitions: self.definitions, file_definitions: self.file_definitions, usages: self.usages,
              usage_by_fixture: self.usage_by_fixture, file_cache: self.file_cache, undeclared_fixtures: self.undeclared_fixtures,
              imports: self.imports, canonical_path_cache: self.canonical_path_cache, definitions_version: self.definitions_version }
    }
    pub open spec fn vst(&self) -> VSt {
        VSt { idx: self.idx(), plugins: self.plugin_fixture_files.m().dom(), sp: pbvs(self.site_packages_paths@),
              er: eis_v(self.editable_install_roots@), ws: opt_pbv(self.workspace_root) }
    }

    // ---- callee stubs: ASSUMED frame contracts (same abstraction as units scan_select / scan_imports): the index
    // becomes an_eff(..) of what the analysis is given and of the state it starts from; the plugin marks, the
    // site-packages list, the editable installs and the workspace root are not written.
    #[verifier::external_body]
    pub fn analyze_file(&mut self, file_path: PathBuf, content: &str)
        ensures final(self).vst() == (VSt { idx: an_eff(old(self).vst(), pbv(&file_path), content@, true), ..old(self).vst() }),
            final(self).plugin_fixture_files == old(self).plugin_fixture_files,
            final(self).site_packages_paths == old(self).site_packages_paths,
            final(self).editable_install_roots == old(self).editable_install_roots,
            final(self).workspace_root == old(self).workspace_root,
    { unimplemented!() }
    #[verifier::external_body]
    pub(crate) fn analyze_file_fresh(&mut self, file_path: PathBuf, content: &str)
        ensures final(self).vst() == (VSt { idx: an_eff(old(self).vst(), pbv(&file_path), content@, false), ..old(self).vst() }),
            final(self).plugin_fixture_files == old(self).plugin_fixture_files,
            final(self).site_packages_paths == old(self).site_packages_paths,
            final(self).editable_install_roots == old(self).editable_install_roots,
            final(self).workspace_root == old(self).workspace_root,
    { unimplemented!() }

//@stub scan_venv parse_pytest11_entry_points
//@stub scan_venv resolve_entry_point_module_to_path
//@stub scan_venv extract_package_name_from_dist_info
//@stub scan_venv find_editable_pth_source_root
}

// Module layout: `lock()` on a Mutex-stripped field must resolve to VpLock (`&self`) in the one function that only
// READS editable_install_roots (it is called from a closure, which cannot capture `&mut self`) and to VpLockMut
// (`&mut self`) everywhere else; a trait is in scope per module, and a private method is visible in descendant modules.
pub mod ro {
use crate::*;
use crate::lock_ro::VpLock;
broadcast use {axiom_path_as_path, axiom_pathbuf_ref_as_path, lemma_fits, axiom_ts_n, axiom_te_n, axiom_pat_str, axiom_pat_char,
    lemma_sv_step, axiom_str_path, axiom_plain_pv, axiom_file_name_parent, axiom_entry_name};
impl FixtureDatabase {
/*@ extract src/fixtures/scanner.rs resolve_entry_point_in_editable_installs
@tags C14 C11 C12
@ret r
@loopvar 1 it
@sig
    ensures opt_pbv(r) == op_resolve_editable(self.vst().er, module_path@, 0),
@loop 1
    invariant it.seq() == installs@.as_ref(), installs@ == self.editable_install_roots@,
        op_resolve_editable(self.vst().er, module_path@, 0) == op_resolve_editable(self.vst().er, module_path@, it.index@ as int),
@loopstart 1
    proof { assert(*install == self.editable_install_roots@[it.index@ as int]); }
@*/
}

pub mod rw {
use crate::*;
broadcast use {axiom_path_as_path, axiom_pathbuf_ref_as_path, lemma_fits, axiom_ts_n, axiom_te_n, axiom_pat_str, axiom_pat_char,
    lemma_sv_step, axiom_str_path, axiom_plain_pv, axiom_file_name_parent, axiom_entry_name};
impl FixtureDatabase {
/*@ extract src/fixtures/scanner.rs load_plugin_from_entry_point
@tags C14 C11 C12
@recv mut
@ret r
@closure or_else:1 || -> (q: Option<PathBuf>) ensures opt_pbv(q) == op_resolve_editable(self.vst().er, entry.module_path@, 0)
@wrapexpr 1 `path.file_name().and_then(|n| n.to_str())` => `Self::vp_file_name_str_l(&path)` with fn vp_file_name_str_l<'a>(path: &'a PathBuf) -> (r: Option<&'a str>) ensures osv(r) == file_name_v(pbv(path))
@loopvar 1 it
@sig
    ensures (final(self).vst(), r as nat) == op_load_plugin(old(self).vst(), pv(dist_info_path), pv(site_packages)),
        final(self).site_packages_paths == old(self).site_packages_paths,
        final(self).editable_install_roots == old(self).editable_install_roots,
        final(self).workspace_root == old(self).workspace_root,
@start
    let ghost st0 = self.vst();
    let ghost f0 = *self;
    let ghost sp = pv(site_packages);
@before for 1
    let ghost es = entries@;
    proof { assert(es.len() == vstd::std_specs::vec::spec_vec_len(&entries)); }
@loop 1
    invariant it.seq() == es, sp == pv(site_packages), st0 == f0.vst(), es.len() <= usize::MAX,
        (self.vst(), scanned_count as nat) == op_entries_fold(st0, sp, eps_v(es), it.index@ as int),
        scanned_count <= it.index@,
        self.site_packages_paths == f0.site_packages_paths, self.editable_install_roots == f0.editable_install_roots,
        self.workspace_root == f0.workspace_root,
@loopstart 1
    proof { assert(eps_v(es)[it.index@ as int] == ep_v(entry)); }
@*/

/*@ extract src/fixtures/scanner.rs scan_pytest_internal_fixtures
@tags C14 C11 C12
@recv mut
@sig
    ensures final(self).vst() == op_internal(old(self).vst(), pv(site_packages)),
        final(self).site_packages_paths == old(self).site_packages_paths,
        final(self).editable_install_roots == old(self).editable_install_roots,
        final(self).workspace_root == old(self).workspace_root,
@*/

/*@ extract src/fixtures/scanner.rs build_pth_index
@tags C14 C11 C12
@ret r
@wrapexpr 1 `std::collections::HashMap::new()` => `Self::vp_new_index()` with fn vp_new_index() -> (r: std::collections::HashMap<String, PathBuf>) ensures hmv(&r) == Map::<Seq<char>, PV>::empty()
@replace 1 `std::fs::read_dir(site_packages)` => `vp_read_dir(site_packages)`
@wrapexpr 2 `fname_str` => `Self::vp_cow_str_1(&fname_str)` with fn vp_cow_str_1<'a>(fname_str: &'a std::borrow::Cow<'a, str>) -> (r: &'a str) ensures r@ == cow_sv(*fname_str)
@wrapexpr 3 `fname_str` => `Self::vp_cow_str_2(&fname_str)` with fn vp_cow_str_2<'a>(fname_str: &'a std::borrow::Cow<'a, str>) -> (r: &'a str) ensures r@ == cow_sv(*fname_str)
@wrapexpr 1 `&fname_str` => `Self::vp_cow_str_3(&fname_str)` with fn vp_cow_str_3<'a>(fname_str: &'a std::borrow::Cow<'a, str>) -> (r: &'a str) ensures r@ == cow_sv(*fname_str)
@wrapexpr 1 `index.insert(stem.to_string(), entry.path())` => `Self::vp_index_insert(&mut index, stem, &entry)` with fn vp_index_insert(index: &mut std::collections::HashMap<String, PathBuf>, stem: &str, entry: &FsEntry) -> (r: Option<PathBuf>) ensures hmv(final(index)) == hmv(old(index)).insert(stem@, fse_path(*entry))
@loopvar 1 it
@sig
    ensures idx_ok(&r, pv(site_packages)),
@before for 1
    let ghost es = entries.entries();
@loop 1
    invariant it.seq() == es, hmv(&index) == pth_index_fold(es, it.index@ as int),
@*/

/*@ extract src/fixtures/scanner.rs discover_editable_installs
@tags C14 C11 C12
@recv mut
@replace 1 `std::fs::read_dir(site_packages)` => `vp_read_dir(site_packages)`
@replace 1 `serde_json::Value` => `VpJson`
@replace 1 `serde_json::from_str(&content)` => `vp_json_from_str(&content)`
@wrapexpr 1 `path.file_name().unwrap_or_default().to_string_lossy()` => `Self::vp_lossy_name_d(&path)` with fn vp_lossy_name_d<'a>(path: &'a PathBuf) -> (r: std::borrow::Cow<'a, str>) ensures cow_sv(r) == lossy_name_v(pbv(path))
@wrapexpr 2 `filename` => `Self::vp_cow_str_d1(&filename)` with fn vp_cow_str_d1<'a>(filename: &'a std::borrow::Cow<'a, str>) -> (r: &'a str) ensures r@ == cow_sv(*filename)
@wrapexpr 1 `&filename` => `Self::vp_cow_str_d2(&filename)` with fn vp_cow_str_d2<'a>(filename: &'a std::borrow::Cow<'a, str>) -> (r: &'a str) ensures r@ == cow_sv(*filename)
@wrapexpr 1 `json .get("dir_info") .and_then(|d| d.get("editable")) .and_then(|e| e.as_bool()) .unwrap_or(false)` => `Self::vp_json_is_editable(&json)` with fn vp_json_is_editable(json: &VpJson) -> (r: bool) ensures r == json_editable(*json)
@sig
    ensures exists|idx: PthIndex| #[trigger] disc_post(old(self).vst(), final(self).vst(), pv(site_packages), idx),
        final(self).site_packages_paths == old(self).site_packages_paths,
        final(self).workspace_root == old(self).workspace_root,
@start
    let ghost st0 = self.vst();
    let ghost f0 = *self;
    let ghost sp = pv(site_packages);
@return 1
    assert(disc_post(st0, self.vst(), sp, arbitrary::<PthIndex>()));
@return 2
    assert(eis_v(self.editable_install_roots@) =~= Seq::<EiV>::empty());
    assert(disc_post(st0, self.vst(), sp, pth_index));
@before for 1
    let ghost es = entries.entries();
    let ghost mut i: int = 0;
    proof { assert(eis_v(self.editable_install_roots@) =~= Seq::<EiV>::empty()); }
@forloop 1 it
    proof { assert(i == es.len()); }
@loop 1
    invariant 0 <= i <= es.len(), it.remaining() =~= es.skip(i), it.obeys_prophetic_iter_laws(), fs_dir(sp) == Some(es),
        sp == pv(site_packages), fs_is_dir(sp), idx_ok(&pth_index, sp), st0 == f0.vst(),
        self.vst() == (VSt { er: op_editables_fold(sp, &pth_index, es, i), ..st0 }),
        self.site_packages_paths == f0.site_packages_paths, self.workspace_root == f0.workspace_root,
    ensures i == es.len(),
    decreases es.len() - i
@loopstart 1
    let ghost er0 = self.editable_install_roots@;
    proof { assert(es.skip(i).drop_first() =~= es.skip(i + 1)); assert(entry == es[i]); i = i + 1; }
@after push 1
    proof { assert(eis_v(self.editable_install_roots@) =~= eis_v(er0).push(op_editable_of(sp, &pth_index, es[i - 1])->0)); }
@before count 1
    proof { assert(disc_post(st0, self.vst(), sp, pth_index)); }
@*/

/*@ extract src/fixtures/scanner.rs scan_pytest_plugins
@tags C14 C11 C12
@recv mut
@replace 1 `for entry in std::fs::read_dir(site_packages).into_iter().flatten() {` => `{ let mut it = (vp_read_dir(site_packages).vp_into_iter_flatten()).into_iter(); loop invariant 0 <= i <= es.len(), es == dir_entries(sp), sp == pv(site_packages), it.remaining() =~= ok_entries(es).skip(i), it.obeys_prophetic_iter_laws(), (self.vst(), plugin_count as nat) == op_dists_fold(st2, sp, es, i), plugin_count <= ep_total(es, i), ep_total(es, es.len() as int) <= usize::MAX, self.site_packages_paths == f0.site_packages_paths, self.workspace_root == f0.workspace_root, ensures i == es.len(), decreases es.len() - i { let Some(entry) = it.next() else { proof { assert(i == es.len()); } break; }; proof { assert(ok_entries(es).skip(i).drop_first() =~= ok_entries(es).skip(i + 1)); assert(entry == ok_entries(es)[i]); lemma_ep_total_mono(es, i + 1, es.len() as int); lemma_load_count(self.vst(), fse_path(es[i]), sp); i = i + 1; }`
@wrapexpr 1 `path.file_name().unwrap_or_default().to_string_lossy()` => `Self::vp_lossy_name_p(&path)` with fn vp_lossy_name_p<'a>(path: &'a PathBuf) -> (r: std::borrow::Cow<'a, str>) ensures cow_sv(r) == lossy_name_v(pbv(path))
@wrapexpr 2 `filename` => `Self::vp_cow_str_p1(&filename)` with fn vp_cow_str_p1<'a>(filename: &'a std::borrow::Cow<'a, str>) -> (r: &'a str) ensures r@ == cow_sv(*filename)
@wrapexpr 3 `filename` => `Self::vp_cow_str_p2(&filename)` with fn vp_cow_str_p2<'a>(filename: &'a std::borrow::Cow<'a, str>) -> (r: &'a str) ensures r@ == cow_sv(*filename)
@sig
    requires ep_fits(pv(site_packages)),
    ensures exists|idx: PthIndex| #[trigger] plugins_post(old(self).vst(), final(self).vst(), pv(site_packages), idx),
        final(self).site_packages_paths == old(self).site_packages_paths,
        final(self).workspace_root == old(self).workspace_root,
@start
    let ghost st0 = self.vst();
    let ghost f0 = *self;
    let ghost sp = pv(site_packages);
    let ghost es = dir_entries(sp);
    let ghost mut i: int = 0;
@after discover_editable_installs 1
    let ghost idx = choose|idx: PthIndex| disc_post(st0, self.vst(), sp, idx);
@after scan_pytest_internal_fixtures 1
    let ghost st2 = self.vst();
    proof { assert(st2 == op_internal(op_discover(st0, sp, &idx), sp)); }
@end
    }
    proof { assert(plugins_post(st0, self.vst(), sp, idx)); }
@*/

/*@ extract src/fixtures/scanner.rs scan_venv_site_packages
@tags C14 C11 C12
@recv mut
@replace 1 `std::fs::read_dir(&lib_path)` => `vp_read_dir(&lib_path)`
@wrapexpr 1 `path.file_name().unwrap_or_default().to_string_lossy()` => `Self::vp_lossy_name_s(&path)` with fn vp_lossy_name_s<'a>(path: &'a PathBuf) -> (r: std::borrow::Cow<'a, str>) ensures cow_sv(r) == lossy_name_v(pbv(path))
@wrapexpr 3 `dirname` => `Self::vp_cow_str_s1(&dirname)` with fn vp_cow_str_s1<'a>(dirname: &'a std::borrow::Cow<'a, str>) -> (r: &'a str) ensures r@ == cow_sv(*dirname)
@loopvar 1 it
@sig
    requires forall|p: PV| #[trigger] ep_fits(p),
    ensures exists|idx: PthIndex| #[trigger] site_post(old(self).vst(), final(self).vst(), pv(venv_path), idx),
        final(self).workspace_root == old(self).workspace_root,
@start
    let ghost st0 = self.vst();
    let ghost f0 = *self;
    let ghost venv = pv(venv_path);
@before for 1
    let ghost es = entries.entries();
@loop 1
    invariant it.seq() == es, *self == f0, st0 == f0.vst(), f0 == *old(self), venv == pv(venv_path), fs_dir(venv + str_pv(lib_name())) == Some(es),
        fs_exists(venv + str_pv(lib_name())), forall|p: PV| #[trigger] ep_fits(p),
        first_sp(es, 0) == first_sp(es, it.index@ as int),
@loopstart 1
    proof { assert(entry == es[it.index@ as int]); }
@after push 1
    let ghost st1 = self.vst();
    proof {
        assert(venv_sp(venv) == Some(pbv(&site_packages)));
        assert(st1.sp =~= st0.sp.push(pbv(&site_packages)));
        assert(st1 == (VSt { sp: st0.sp.push(pbv(&site_packages)), ..st0 }));
    }
@return 1
    let idx = choose|idx: PthIndex| plugins_post(st1, self.vst(), pbv(&site_packages), idx);
    assert(site_post(st0, self.vst(), venv, idx));
@after push 2
    let ghost st1 = self.vst();
    proof {
        assert(venv_sp(venv) == Some(pbv(&windows_site_packages)));
        assert(st1.sp =~= st0.sp.push(pbv(&windows_site_packages)));
        assert(st1 == (VSt { sp: st0.sp.push(pbv(&windows_site_packages)), ..st0 }));
    }
@return 2
    let idx = choose|idx: PthIndex| plugins_post(st1, self.vst(), pbv(&windows_site_packages), idx);
    assert(site_post(st0, self.vst(), venv, idx));
@end
    proof { assert(venv_sp(venv) is None); assert(site_post(st0, self.vst(), venv, arbitrary::<PthIndex>())); }
@*/

/*@ extract src/fixtures/scanner.rs scan_venv_fixtures
@tags C14 C11 C12
@recv mut
@replace 1 `std::env::var("VIRTUAL_ENV")` => `vp_env_var("VIRTUAL_ENV")`
@loopvar 1 it
@sig
    requires forall|p: PV| #[trigger] ep_fits(p),
    ensures exists|idx: PthIndex| #[trigger] venv_post(old(self).vst(), final(self).vst(), pv(root_path), idx),
        final(self).workspace_root == old(self).workspace_root,
@start
    let ghost st0 = self.vst();
    let ghost f0 = *self;
    let ghost root = pv(root_path);
@before for 1
    proof { assert(pbvs(venv_paths@) =~= Seq::new(3, |k: int| root + str_pv(venv_names()[k]))); }
@loop 1
    invariant it.seq() == venv_paths@.as_ref(), *self == f0, st0 == f0.vst(), f0 == *old(self), root == pv(root_path), forall|p: PV| #[trigger] ep_fits(p),
        venv_paths@.len() == 3, forall|k: int| 0 <= k < 3 ==> pbv(&#[trigger] venv_paths@[k]) == root + str_pv(venv_names()[k]),
        first_venv(root, 0) == first_venv(root, it.index@ as int),
@loopstart 1
    proof { assert(*venv_path == venv_paths@[it.index@ as int]); }
@return 1
    let idx = choose|idx: PthIndex| site_post(st0, self.vst(), pbv(venv_path), idx);
    assert(venv_post(st0, self.vst(), root, idx));
@return 2
    let idx = choose|idx: PthIndex| site_post(st0, self.vst(), pbv(&venv_path), idx);
    assert(venv_post(st0, self.vst(), root, idx));
@end
    proof { assert(venv_of(root) is None); assert(venv_post(st0, self.vst(), root, arbitrary::<PthIndex>())); }
@*/

/*@ extract src/fixtures/scanner.rs scan_single_plugin_file
@tags C14 C11 C12
@recv mut
@wrapexpr 1 `file_path.extension().and_then(|s| s.to_str())` => `Self::vp_ext_str(file_path)` with fn vp_ext_str<'a>(file_path: &'a Path) -> (r: Option<&'a str>) ensures osv(r) == path_ext_v(pv(file_path))
@closure unwrap_or_else:1 |_e: std::io::Error| -> (q: PathBuf) ensures pbv(&q) == pv(file_path)
@sig
    ensures final(self).vst() == op_scan_single(old(self).vst(), pv(file_path)),
        final(self).site_packages_paths == old(self).site_packages_paths,
        final(self).editable_install_roots == old(self).editable_install_roots,
        final(self).workspace_root == old(self).workspace_root,
@*/

/*@ extract src/fixtures/scanner.rs scan_plugin_directory
@tags C14 C11 C12
@recv mut
@replace 1 `for entry in WalkDir::new(plugin_dir) .max_depth(3) .into_iter() .filter_map(|e| e.ok()) {` => `{ let mut it = (WalkDir::new(plugin_dir).max_depth(3).into_iter().filter_map(|e: WalkItem| -> (o: Option<DirEntry>) ensures o == ok_of(e) { e.ok() })).into_iter(); loop invariant 0 <= i <= es.len(), es == walk_ok(pv(plugin_dir), plugin_depth()), it.remaining() =~= es.skip(i), it.obeys_prophetic_iter_laws(), self.vst() == op_dir_fold(st0, es, i), self.site_packages_paths == f0.site_packages_paths, self.editable_install_roots == f0.editable_install_roots, self.workspace_root == f0.workspace_root, ensures i == es.len(), decreases es.len() - i { let Some(entry) = it.next() else { proof { assert(i == es.len()); } break; }; proof { assert(es.skip(i).drop_first() =~= es.skip(i + 1)); assert(entry == es[i]); i = i + 1; }`
@wrapexpr 1 `path.extension().and_then(|s| s.to_str())` => `Self::vp_ext_str_d(path)` with fn vp_ext_str_d<'a>(path: &'a Path) -> (r: Option<&'a str>) ensures osv(r) == path_ext_v(pv(path))
@wrapexpr 1 `path.file_name().and_then(|n| n.to_str())` => `Self::vp_file_name_str_d(path)` with fn vp_file_name_str_d<'a>(path: &'a Path) -> (r: Option<&'a str>) ensures osv(r) == file_name_v(pv(path))
@closure unwrap_or_else:1 |_e: std::io::Error| -> (q: PathBuf) ensures pbv(&q) == pv(path)
@sig
    ensures final(self).vst() == op_scan_dir(old(self).vst(), pv(plugin_dir)),
        final(self).site_packages_paths == old(self).site_packages_paths,
        final(self).editable_install_roots == old(self).editable_install_roots,
        final(self).workspace_root == old(self).workspace_root,
@start
    let ghost es = walk_ok(pv(plugin_dir), plugin_depth());
    let ghost mut i: int = 0;
    let ghost st0 = self.vst();
    let ghost f0 = *self;
@end
    }
@*/

}
} // mod rw
} // mod ro

} // verus!
fn main() {}
