//@include prelude/strstruct_header.rs
// Unit scan_venv2 — property C14, second sentence (plugin discovery), DATABASE level, + C11 (no panic), C12 (termination):
//   src/fixtures/scanner.rs  scan_single_plugin_file (F1), scan_plugin_directory (F2),
//   resolve_entry_point_in_editable_installs (F3), load_plugin_from_entry_point (F4), scan_pytest_internal_fixtures (F5),
//   build_pth_index (F6), discover_editable_installs (F7), scan_pytest_plugins (F8), scan_venv_site_packages (F9),
//   scan_venv_fixtures (F10).  The four text functions they call (unit scan_venv) enter as //@stub contracts.
//   L1: final(self).vst() == op_*(old(self).vst(), args) — the operational specs of prelude/scanvenv_spec2.rs over the
//       abstract state VSt {idx (what analyses write), plugins, sp, er, ws}; the exact-field frame (site_packages_paths,
//       editable_install_roots, workspace_root untouched where the function does not write them) is stated besides.
//       F7..F10: `exists idx: PthIndex. post(old, final, args, idx)` — idx is the .pth index build_pth_index returned
//       (hmv(idx) == op_pth_index(sp)); its hash iteration order decides which matching .pth file is read first.
//   L2: lemma_C14_* at the end of this file.
//   C11: `path.parent().expect(..)` (proved: a path with a file name has a parent, D9), `scanned_count += 1` (<= number of
//       entries), `plugin_count += scanned` (REQUIRES ep_fits: fewer than 2^64 pytest11 entries in one site-packages),
//       `lock().unwrap()` (D8: never poisoned).  C12: every `loop` has a `decreases`; the plugin-directory walk is limited
//       to depth 3 (D4 + the literal in the replaced loop header).
//   transformations beyond T1-T12 (all by @replace, T9):
//       T12' scan_plugin_directory / scan_pytest_plugins: the `for` header itself needs a closure contract / a stand-in
//            call, which @forloop cannot carry (it copies the iterator expression verbatim): the header is replaced by
//            the same `{ let mut it = (EXPR).into_iter(); loop … { let Some(x) = it.next() else { break; };` that T12
//            produces, EXPR spelled out in the directive; a change of the header in the source is UNDECIDED (anchor lost).
//       S1   `std::fs::read_dir(p)` -> vp_read_dir(p), `serde_json::Value` / `serde_json::from_str` -> VpJson /
//            vp_json_from_str, `std::env::var` -> vp_env_var: prelude stand-ins (prelude/scanvenv_db.rs D1, D5, D6).
//   assumed: prelude/scanvenv_db.rs (D1..D9), the callee stubs analyze_file / analyze_file_fresh below (frame + abstract
//       effect an_eff), the @wrapexpr helpers (OsStr / Cow expressions: vp_ext_str*, vp_file_name_str*, vp_lossy_name_*,
//       vp_cow_str_*; vp_new_index / vp_index_insert = HashMap::new / insert on the view hmv; vp_json_is_editable = the
//       `.get("dir_info").and_then(..get("editable")).and_then(..as_bool()).unwrap_or(false)` chain == json_editable),
//       and everything unit scan_venv assumes.
use std::sync::atomic::Ordering;
verus! {
global size_of usize == 8;  // A6: 64-bit target
pub mod pre {
use super::*;
//@include prelude/path.rs
//@include prelude/path_ext.rs
//@include prelude/types.rs
//@include prelude/dashmap.rs
//@include prelude/hashset.rs
//@include prelude/hashmap.rs
//@include prelude/atomic.rs
//@include prelude/glob.rs
//@include prelude/scansel_shims.rs
//@include prelude/strstruct_prims.rs
//@include prelude/strstruct_prims2.rs
//@include prelude/scanvenv_str.rs
//@include prelude/scanvenv_fs.rs
//@include prelude/scanvenv_spec.rs
#[verifier::external_type_specification] pub struct ExUndeclaredFixture(UndeclaredFixture);
//@include prelude/scanvenv_db.rs
//@include prelude/scanvenv_spec2.rs
} // mod pre
use pre::*;

broadcast use {axiom_path_as_path, axiom_pathbuf_ref_as_path, lemma_fits, axiom_ts_n, axiom_te_n, axiom_pat_str, axiom_pat_char,
    lemma_sv_step, axiom_str_path, axiom_plain_pv, axiom_file_name_parent, axiom_entry_name};

//@item src/fixtures/scanner.rs struct Pytest11EntryPoint
spec fn ep_v(e: Pytest11EntryPoint) -> EpV { EpV { name: e.name@, module: e.module_path@ } }
spec fn eps_v(s: Seq<Pytest11EntryPoint>) -> Seq<EpV> { s.map_values(|e: Pytest11EntryPoint| ep_v(e)) }

//@item src/fixtures/mod.rs struct EditableInstall
pub open spec fn ei_v(e: EditableInstall) -> EiV {
    EiV { package_name: e.package_name@, raw_package_name: e.raw_package_name@, source_root: pbv(&e.source_root), site_packages: pbv(&e.site_packages) }
}
pub open spec fn eis_v(s: Seq<EditableInstall>) -> Seq<EiV> { s.map_values(|e: EditableInstall| ei_v(e)) }
pub open spec fn pbvs(s: Seq<PathBuf>) -> Seq<PV> { s.map_values(|p: PathBuf| pbv(&p)) }

//@dbstruct definitions file_definitions usages usage_by_fixture file_cache undeclared_fixtures imports canonical_path_cache definitions_version site_packages_paths editable_install_roots workspace_root plugin_fixture_files

/// D8: sequential stand-ins for std::sync::Mutex::lock on the Mutex-stripped fields (T6): never poisoned, no thread model
pub mod lock_ro {
    use super::*;
    pub trait VpLock: Sized { fn lock(&self) -> (r: Result<&Self, PoisonNever>) ensures r is Ok, r->Ok_0 == self; }
    impl VpLock for Vec<EditableInstall> {
        #[verifier::external_body]
        fn lock(&self) -> (r: Result<&Self, PoisonNever>) { Ok(self) }
    }
}
impl VpLockMut for Vec<EditableInstall> {
    #[verifier::external_body]
    fn lock(&mut self) -> (r: Result<&mut Self, PoisonNever>) { Ok(self) }
}
impl VpLockMut for Vec<PathBuf> {
    #[verifier::external_body]
    fn lock(&mut self) -> (r: Result<&mut Self, PoisonNever>) { Ok(self) }
}

impl FixtureDatabase {
    pub open spec fn idx(&self) -> Idx {
        Idx { definitions: self.definitions, file_definitions: self.file_definitions, usages: self.usages,
              usage_by_fixture: self.usage_by_fixture, file_cache: self.file_cache, undeclared_fixtures: self.undeclared_fixtures,
              imports: self.imports, canonical_path_cache: self.canonical_path_cache, definitions_version: self.definitions_version }
    }
    pub open spec fn vst(&self) -> VSt {
        VSt { idx: self.idx(), plugins: self.plugin_fixture_files.m().dom(), sp: pbvs(self.site_packages_paths@),
              er: eis_v(self.editable_install_roots@), ws: opt_pbv(self.workspace_root) }
    }

    // ---- callee stubs: ASSUMED frame contracts (same abstraction as units scan_select / scan_imports): the index
    // becomes an_eff(..) of what the analysis is given and of the state it starts from; the plugin marks, the
    // site-packages list, the editable installs and the workspace root are not written.
    #[verifier::external_body]
    pub fn analyze_file(&mut self, file_path: PathBuf, content: &str)
        ensures final(self).vst() == (VSt { idx: an_eff(old(self).vst(), pbv(&file_path), content@, true), ..old(self).vst() }),
            final(self).plugin_fixture_files == old(self).plugin_fixture_files,
            final(self).site_packages_paths == old(self).site_packages_paths,
            final(self).editable_install_roots == old(self).editable_install_roots,
            final(self).workspace_root == old(self).workspace_root,
    { unimplemented!() }
    #[verifier::external_body]
    pub(crate) fn analyze_file_fresh(&mut self, file_path: PathBuf, content: &str)
        ensures final(self).vst() == (VSt { idx: an_eff(old(self).vst(), pbv(&file_path), content@, false), ..old(self).vst() }),
            final(self).plugin_fixture_files == old(self).plugin_fixture_files,
            final(self).site_packages_paths == old(self).site_packages_paths,
            final(self).editable_install_roots == old(self).editable_install_roots,
            final(self).workspace_root == old(self).workspace_root,
    { unimplemented!() }

//@stub scan_venv parse_pytest11_entry_points
//@stub scan_venv resolve_entry_point_module_to_path
//@stub scan_venv extract_package_name_from_dist_info
//@stub scan_venv find_editable_pth_source_root
}

// Module layout: `lock()` on a Mutex-stripped field must resolve to VpLock (`&self`) in the one function that only
// READS editable_install_roots (it is called from a closure, which cannot capture `&mut self`) and to VpLockMut
// (`&mut self`) everywhere else; a trait is in scope per module, and a private method is visible in descendant modules.
pub mod ro {
use crate::*;
use crate::lock_ro::VpLock;
broadcast use {axiom_path_as_path, axiom_pathbuf_ref_as_path, lemma_fits, axiom_ts_n, axiom_te_n, axiom_pat_str, axiom_pat_char,
    lemma_sv_step, axiom_str_path, axiom_plain_pv, axiom_file_name_parent, axiom_entry_name};
impl FixtureDatabase {
#[verifier::spinoff_prover]
/*@ extract src/fixtures/scanner.rs resolve_entry_point_in_editable_installs
@tags C14 C11 C12
@ret r
@loopvar 1 it
@sig
    ensures opt_pbv(r) == op_resolve_editable(self.vst().er, module_path@, 0),
@loop 1
    invariant it.seq() == installs@.as_ref(), installs@ == self.editable_install_roots@,
        op_resolve_editable(self.vst().er, module_path@, 0) == op_resolve_editable(self.vst().er, module_path@, it.index@ as int),
@loopstart 1
    proof { assert(*install == self.editable_install_roots@[it.index@ as int]); }
@*/
}

pub mod rw {
use crate::*;
broadcast use {axiom_path_as_path, axiom_pathbuf_ref_as_path, lemma_fits, axiom_ts_n, axiom_te_n, axiom_pat_str, axiom_pat_char,
    lemma_sv_step, axiom_str_path, axiom_plain_pv, axiom_file_name_parent, axiom_entry_name};
impl FixtureDatabase {
#[verifier::spinoff_prover]
/*@ extract src/fixtures/scanner.rs load_plugin_from_entry_point
@tags C14 C11 C12
@recv mut
@ret r
@closure or_else:1 || -> (q: Option<PathBuf>) ensures opt_pbv(q) == op_resolve_editable(self.vst().er, entry.module_path@, 0)
@wrapexpr 1 `path.file_name().and_then(|n| n.to_str())` => `Self::vp_file_name_str_l(&path)` with fn vp_file_name_str_l<'a>(path: &'a PathBuf) -> (r: Option<&'a str>) ensures osv(r) == file_name_v(pbv(path))
@loopvar 1 it
@sig
    ensures (final(self).vst(), r as nat) == op_load_plugin(old(self).vst(), pv(dist_info_path), pv(site_packages)),
        final(self).site_packages_paths == old(self).site_packages_paths,
        final(self).editable_install_roots == old(self).editable_install_roots,
        final(self).workspace_root == old(self).workspace_root,
@start
    let ghost st0 = self.vst();
    let ghost f0 = *self;
    let ghost sp = pv(site_packages);
@before for 1
    let ghost es = entries@;
    proof { assert(es.len() == vstd::std_specs::vec::spec_vec_len(&entries)); }
@loop 1
    invariant it.seq() == es, sp == pv(site_packages), st0 == f0.vst(), es.len() <= usize::MAX,
        (self.vst(), scanned_count as nat) == op_entries_fold(st0, sp, eps_v(es), it.index@ as int),
        scanned_count <= it.index@,
        self.site_packages_paths == f0.site_packages_paths, self.editable_install_roots == f0.editable_install_roots,
        self.workspace_root == f0.workspace_root,
@loopstart 1
    proof { assert(eps_v(es)[it.index@ as int] == ep_v(entry)); }
@*/

#[verifier::spinoff_prover]
/*@ extract src/fixtures/scanner.rs scan_pytest_internal_fixtures
@tags C14 C11 C12
@recv mut
@sig
    ensures final(self).vst() == op_internal(old(self).vst(), pv(site_packages)),
        final(self).site_packages_paths == old(self).site_packages_paths,
        final(self).editable_install_roots == old(self).editable_install_roots,
        final(self).workspace_root == old(self).workspace_root,
@*/

#[verifier::spinoff_prover]
/*@ extract src/fixtures/scanner.rs build_pth_index
@tags C14 C11 C12
@ret r
@wrapexpr 1 `std::collections::HashMap::new()` => `Self::vp_new_index()` with fn vp_new_index() -> (r: std::collections::HashMap<String, PathBuf>) ensures hmv(&r) == Map::<Seq<char>, PV>::empty()
@replace 1 `std::fs::read_dir(site_packages)` => `vp_read_dir(site_packages)`
@wrapexpr 2 `fname_str` => `Self::vp_cow_str_1(&fname_str)` with fn vp_cow_str_1<'a>(fname_str: &'a std::borrow::Cow<'a, str>) -> (r: &'a str) ensures r@ == cow_sv(*fname_str)
@wrapexpr 3 `fname_str` => `Self::vp_cow_str_2(&fname_str)` with fn vp_cow_str_2<'a>(fname_str: &'a std::borrow::Cow<'a, str>) -> (r: &'a str) ensures r@ == cow_sv(*fname_str)
@wrapexpr 1 `&fname_str` => `Self::vp_cow_str_3(&fname_str)` with fn vp_cow_str_3<'a>(fname_str: &'a std::borrow::Cow<'a, str>) -> (r: &'a str) ensures r@ == cow_sv(*fname_str)
@wrapexpr 1 `index.insert(stem.to_string(), entry.path())` => `Self::vp_index_insert(&mut index, stem, &entry)` with fn vp_index_insert(index: &mut std::collections::HashMap<String, PathBuf>, stem: &str, entry: &FsEntry) -> (r: Option<PathBuf>) ensures hmv(final(index)) == hmv(old(index)).insert(stem@, fse_path(*entry))
@loopvar 1 it
@sig
    ensures idx_ok(&r, pv(site_packages)),
@before for 1
    let ghost es = entries.entries();
@loop 1
    invariant it.seq() == es, hmv(&index) == pth_index_fold(es, it.index@ as int),
@*/

#[verifier::spinoff_prover]
/*@ extract src/fixtures/scanner.rs discover_editable_installs
@tags C14 C11 C12
@recv mut
@replace 1 `std::fs::read_dir(site_packages)` => `vp_read_dir(site_packages)`
@replace 1 `serde_json::Value` => `VpJson`
@replace 1 `serde_json::from_str(&content)` => `vp_json_from_str(&content)`
@wrapexpr 1 `path.file_name().unwrap_or_default().to_string_lossy()` => `Self::vp_lossy_name_d(&path)` with fn vp_lossy_name_d<'a>(path: &'a PathBuf) -> (r: std::borrow::Cow<'a, str>) ensures cow_sv(r) == lossy_name_v(pbv(path))
@wrapexpr 2 `filename` => `Self::vp_cow_str_d1(&filename)` with fn vp_cow_str_d1<'a>(filename: &'a std::borrow::Cow<'a, str>) -> (r: &'a str) ensures r@ == cow_sv(*filename)
@wrapexpr 1 `&filename` => `Self::vp_cow_str_d2(&filename)` with fn vp_cow_str_d2<'a>(filename: &'a std::borrow::Cow<'a, str>) -> (r: &'a str) ensures r@ == cow_sv(*filename)
@wrapexpr 1 `json .get("dir_info") .and_then(|d| d.get("editable")) .and_then(|e| e.as_bool()) .unwrap_or(false)` => `Self::vp_json_is_editable(&json)` with fn vp_json_is_editable(json: &VpJson) -> (r: bool) ensures r == json_editable(*json)
@sig
    ensures exists|idx: PthIndex| #[trigger] disc_post(old(self).vst(), final(self).vst(), pv(site_packages), idx),
        final(self).site_packages_paths == old(self).site_packages_paths,
        final(self).workspace_root == old(self).workspace_root,
@start
    let ghost st0 = self.vst();
    let ghost f0 = *self;
    let ghost sp = pv(site_packages);
@return 1
    assert(disc_post(st0, self.vst(), sp, arbitrary::<PthIndex>()));
@return 2
    assert(eis_v(self.editable_install_roots@) =~= Seq::<EiV>::empty());
    assert(disc_post(st0, self.vst(), sp, pth_index));
@before for 1
    let ghost es = entries.entries();
    let ghost mut i: int = 0;
    proof { assert(eis_v(self.editable_install_roots@) =~= Seq::<EiV>::empty()); }
@forloop 1 it
    proof { assert(i == es.len()); }
@loop 1
    invariant 0 <= i <= es.len(), it.remaining() =~= es.skip(i), it.obeys_prophetic_iter_laws(), fs_dir(sp) == Some(es),
        sp == pv(site_packages), fs_is_dir(sp), idx_ok(&pth_index, sp), st0 == f0.vst(),
        self.vst() == (VSt { er: op_editables_fold(sp, &pth_index, es, i), ..st0 }),
        self.site_packages_paths == f0.site_packages_paths, self.workspace_root == f0.workspace_root,
    ensures i == es.len(),
    decreases es.len() - i
@loopstart 1
    let ghost er0 = self.editable_install_roots@;
    proof { assert(es.skip(i).drop_first() =~= es.skip(i + 1)); assert(entry == es[i]); i = i + 1; }
@after push 1
    proof { assert(eis_v(self.editable_install_roots@) =~= eis_v(er0).push(op_editable_of(sp, &pth_index, es[i - 1])->0)); }
@before count 1
    proof { assert(disc_post(st0, self.vst(), sp, pth_index)); }
@*/

#[verifier::spinoff_prover]
/*@ extract src/fixtures/scanner.rs scan_pytest_plugins
@tags C14 C11 C12
@recv mut
@replace 1 `for entry in std::fs::read_dir(site_packages).into_iter().flatten() {` => `{ let mut it = (vp_read_dir(site_packages).vp_into_iter_flatten()).into_iter(); loop invariant 0 <= i <= es.len(), es == dir_entries(sp), sp == pv(site_packages), it.remaining() =~= ok_entries(es).skip(i), it.obeys_prophetic_iter_laws(), (self.vst(), plugin_count as nat) == op_dists_fold(st2, sp, es, i), plugin_count <= ep_total(es, i), ep_total(es, es.len() as int) <= usize::MAX, self.site_packages_paths == f0.site_packages_paths, self.workspace_root == f0.workspace_root, ensures i == es.len(), decreases es.len() - i { let Some(entry) = it.next() else { proof { assert(i == es.len()); } break; }; proof { assert(ok_entries(es).skip(i).drop_first() =~= ok_entries(es).skip(i + 1)); assert(entry == ok_entries(es)[i]); lemma_ep_total_mono(es, i + 1, es.len() as int); lemma_load_count(self.vst(), fse_path(es[i]), sp); i = i + 1; }`
@wrapexpr 1 `path.file_name().unwrap_or_default().to_string_lossy()` => `Self::vp_lossy_name_p(&path)` with fn vp_lossy_name_p<'a>(path: &'a PathBuf) -> (r: std::borrow::Cow<'a, str>) ensures cow_sv(r) == lossy_name_v(pbv(path))
@wrapexpr 2 `filename` => `Self::vp_cow_str_p1(&filename)` with fn vp_cow_str_p1<'a>(filename: &'a std::borrow::Cow<'a, str>) -> (r: &'a str) ensures r@ == cow_sv(*filename)
@wrapexpr 3 `filename` => `Self::vp_cow_str_p2(&filename)` with fn vp_cow_str_p2<'a>(filename: &'a std::borrow::Cow<'a, str>) -> (r: &'a str) ensures r@ == cow_sv(*filename)
@sig
    requires ep_fits(pv(site_packages)),
    ensures exists|idx: PthIndex| #[trigger] plugins_post(old(self).vst(), final(self).vst(), pv(site_packages), idx),
        final(self).site_packages_paths == old(self).site_packages_paths,
        final(self).workspace_root == old(self).workspace_root,
@start
    let ghost st0 = self.vst();
    let ghost f0 = *self;
    let ghost sp = pv(site_packages);
    let ghost es = dir_entries(sp);
    let ghost mut i: int = 0;
@after discover_editable_installs 1
    let ghost idx = choose|idx: PthIndex| disc_post(st0, self.vst(), sp, idx);
@after scan_pytest_internal_fixtures 1
    let ghost st2 = self.vst();
    proof { assert(st2 == op_internal(op_discover(st0, sp, &idx), sp)); }
@end
    }
    proof { assert(plugins_post(st0, self.vst(), sp, idx)); }
@*/

#[verifier::spinoff_prover]
/*@ extract src/fixtures/scanner.rs scan_venv_site_packages
@tags C14 C11 C12
@recv mut
@replace 1 `std::fs::read_dir(&lib_path)` => `vp_read_dir(&lib_path)`
@wrapexpr 1 `path.file_name().unwrap_or_default().to_string_lossy()` => `Self::vp_lossy_name_s(&path)` with fn vp_lossy_name_s<'a>(path: &'a PathBuf) -> (r: std::borrow::Cow<'a, str>) ensures cow_sv(r) == lossy_name_v(pbv(path))
@wrapexpr 3 `dirname` => `Self::vp_cow_str_s1(&dirname)` with fn vp_cow_str_s1<'a>(dirname: &'a std::borrow::Cow<'a, str>) -> (r: &'a str) ensures r@ == cow_sv(*dirname)
@loopvar 1 it
@sig
    requires forall|p: PV| #[trigger] ep_fits(p),
    ensures exists|idx: PthIndex| #[trigger] site_post(old(self).vst(), final(self).vst(), pv(venv_path), idx),
        final(self).workspace_root == old(self).workspace_root,
@start
    let ghost st0 = self.vst();
    let ghost f0 = *self;
    let ghost venv = pv(venv_path);
@before for 1
    let ghost es = entries.entries();
@loop 1
    invariant it.seq() == es, *self == f0, st0 == f0.vst(), f0 == *old(self), venv == pv(venv_path), fs_dir(venv + str_pv(lib_name())) == Some(es),
        fs_exists(venv + str_pv(lib_name())), forall|p: PV| #[trigger] ep_fits(p),
        first_sp(es, 0) == first_sp(es, it.index@ as int),
@loopstart 1
    proof { assert(entry == es[it.index@ as int]); }
@after push 1
    let ghost st1 = self.vst();
    proof {
        assert(venv_sp(venv) == Some(pbv(&site_packages)));
        assert(st1.sp =~= st0.sp.push(pbv(&site_packages)));
        assert(st1 == (VSt { sp: st0.sp.push(pbv(&site_packages)), ..st0 }));
    }
@return 1
    let idx = choose|idx: PthIndex| plugins_post(st1, self.vst(), pbv(&site_packages), idx);
    assert(site_post(st0, self.vst(), venv, idx));
@after push 2
    let ghost st1 = self.vst();
    proof {
        assert(venv_sp(venv) == Some(pbv(&windows_site_packages)));
        assert(st1.sp =~= st0.sp.push(pbv(&windows_site_packages)));
        assert(st1 == (VSt { sp: st0.sp.push(pbv(&windows_site_packages)), ..st0 }));
    }
@return 2
    let idx = choose|idx: PthIndex| plugins_post(st1, self.vst(), pbv(&windows_site_packages), idx);
    assert(site_post(st0, self.vst(), venv, idx));
@end
    proof { assert(venv_sp(venv) is None); assert(site_post(st0, self.vst(), venv, arbitrary::<PthIndex>())); }
@*/

#[verifier::spinoff_prover]
/*@ extract src/fixtures/scanner.rs scan_venv_fixtures
@tags C14 C11 C12
@recv mut
@replace 1 `std::env::var("VIRTUAL_ENV")` => `vp_env_var("VIRTUAL_ENV")`
@loopvar 1 it
@sig
    requires forall|p: PV| #[trigger] ep_fits(p),
    ensures exists|idx: PthIndex| #[trigger] venv_post(old(self).vst(), final(self).vst(), pv(root_path), idx),
        final(self).workspace_root == old(self).workspace_root,
@start
    let ghost st0 = self.vst();
    let ghost f0 = *self;
    let ghost root = pv(root_path);
@before for 1
    proof { assert(pbvs(venv_paths@) =~= Seq::new(3, |k: int| root + str_pv(venv_names()[k]))); }
@loop 1
    invariant it.seq() == venv_paths@.as_ref(), *self == f0, st0 == f0.vst(), f0 == *old(self), root == pv(root_path), forall|p: PV| #[trigger] ep_fits(p),
        venv_paths@.len() == 3, forall|k: int| 0 <= k < 3 ==> pbv(&#[trigger] venv_paths@[k]) == root + str_pv(venv_names()[k]),
        first_venv(root, 0) == first_venv(root, it.index@ as int),
@loopstart 1
    proof { assert(*venv_path == venv_paths@[it.index@ as int]); }
@return 1
    let idx = choose|idx: PthIndex| site_post(st0, self.vst(), pbv(venv_path), idx);
    assert(venv_post(st0, self.vst(), root, idx));
@return 2
    let idx = choose|idx: PthIndex| site_post(st0, self.vst(), pbv(&venv_path), idx);
    assert(venv_post(st0, self.vst(), root, idx));
@end
    proof { assert(venv_of(root) is None); assert(venv_post(st0, self.vst(), root, arbitrary::<PthIndex>())); }
@*/

#[verifier::spinoff_prover]
/*@ extract src/fixtures/scanner.rs scan_single_plugin_file
@tags C14 C11 C12
@recv mut
@wrapexpr 1 `file_path.extension().and_then(|s| s.to_str())` => `Self::vp_ext_str(file_path)` with fn vp_ext_str<'a>(file_path: &'a Path) -> (r: Option<&'a str>) ensures osv(r) == path_ext_v(pv(file_path))
@closure unwrap_or_else:1 |_e: std::io::Error| -> (q: PathBuf) ensures pbv(&q) == pv(file_path)
@sig
    ensures final(self).vst() == op_scan_single(old(self).vst(), pv(file_path)),
        final(self).site_packages_paths == old(self).site_packages_paths,
        final(self).editable_install_roots == old(self).editable_install_roots,
        final(self).workspace_root == old(self).workspace_root,
@*/

#[verifier::spinoff_prover]
/*@ extract src/fixtures/scanner.rs scan_plugin_directory
@tags C14 C11 C12
@recv mut
@replace 1 `for entry in WalkDir::new(plugin_dir) .max_depth(3) .into_iter() .filter_map(|e| e.ok()) {` => `{ let mut it = (WalkDir::new(plugin_dir).max_depth(3).into_iter().filter_map(|e: WalkItem| -> (o: Option<DirEntry>) ensures o == ok_of(e) { e.ok() })).into_iter(); loop invariant 0 <= i <= es.len(), es == walk_ok(pv(plugin_dir), plugin_depth()), it.remaining() =~= es.skip(i), it.obeys_prophetic_iter_laws(), self.vst() == op_dir_fold(st0, es, i), self.site_packages_paths == f0.site_packages_paths, self.editable_install_roots == f0.editable_install_roots, self.workspace_root == f0.workspace_root, ensures i == es.len(), decreases es.len() - i { let Some(entry) = it.next() else { proof { assert(i == es.len()); } break; }; proof { assert(es.skip(i).drop_first() =~= es.skip(i + 1)); assert(entry == es[i]); i = i + 1; }`
@wrapexpr 1 `path.extension().and_then(|s| s.to_str())` => `Self::vp_ext_str_d(path)` with fn vp_ext_str_d<'a>(path: &'a Path) -> (r: Option<&'a str>) ensures osv(r) == path_ext_v(pv(path))
@wrapexpr 1 `path.file_name().and_then(|n| n.to_str())` => `Self::vp_file_name_str_d(path)` with fn vp_file_name_str_d<'a>(path: &'a Path) -> (r: Option<&'a str>) ensures osv(r) == file_name_v(pv(path))
@closure unwrap_or_else:1 |_e: std::io::Error| -> (q: PathBuf) ensures pbv(&q) == pv(path)
@sig
    ensures final(self).vst() == op_scan_dir(old(self).vst(), pv(plugin_dir)),
        final(self).site_packages_paths == old(self).site_packages_paths,
        final(self).editable_install_roots == old(self).editable_install_roots,
        final(self).workspace_root == old(self).workspace_root,
@start
    let ghost es = walk_ok(pv(plugin_dir), plugin_depth());
    let ghost mut i: int = 0;
    let ghost st0 = self.vst();
    let ghost f0 = *self;
@end
    }
@*/

// ---- exec vacuity canaries: the same real bodies with the REAL contracts and injected `assert(false)`; each must FAIL
#[verifier::spinoff_prover]
/*@ extract src/fixtures/scanner.rs load_plugin_from_entry_point
@tags C14
@as canary_exec_load_plugin
@recv mut
@ret r
@closure or_else:1 || -> (q: Option<PathBuf>) ensures opt_pbv(q) == op_resolve_editable(self.vst().er, entry.module_path@, 0)
@wrapexpr 1 `path.file_name().and_then(|n| n.to_str())` => `Self::vp_file_name_str_l_c(&path)` with fn vp_file_name_str_l_c<'a>(path: &'a PathBuf) -> (r: Option<&'a str>) ensures osv(r) == file_name_v(pbv(path))
@loopvar 1 it
@sig
    ensures (final(self).vst(), r as nat) == op_load_plugin(old(self).vst(), pv(dist_info_path), pv(site_packages)),
        final(self).site_packages_paths == old(self).site_packages_paths,
        final(self).editable_install_roots == old(self).editable_install_roots,
        final(self).workspace_root == old(self).workspace_root,
@start
    let ghost st0 = self.vst();
    let ghost f0 = *self;
    let ghost sp = pv(site_packages);
@before for 1
    let ghost es = entries@;
    proof { assert(es.len() == vstd::std_specs::vec::spec_vec_len(&entries)); }
@loop 1
    invariant it.seq() == es, sp == pv(site_packages), st0 == f0.vst(), es.len() <= usize::MAX,
        (self.vst(), scanned_count as nat) == op_entries_fold(st0, sp, eps_v(es), it.index@ as int),
        scanned_count <= it.index@,
        self.site_packages_paths == f0.site_packages_paths, self.editable_install_roots == f0.editable_install_roots,
        self.workspace_root == f0.workspace_root,
@loopstart 1
    proof { assert(eps_v(es)[it.index@ as int] == ep_v(entry)); }
@after scan_plugin_directory 1
    assert(false);
@after scan_single_plugin_file 1
    assert(false);
@*/

#[verifier::spinoff_prover]
/*@ extract src/fixtures/scanner.rs discover_editable_installs
@tags C14
@as canary_exec_discover
@recv mut
@replace 1 `std::fs::read_dir(site_packages)` => `vp_read_dir(site_packages)`
@replace 1 `serde_json::Value` => `VpJson`
@replace 1 `serde_json::from_str(&content)` => `vp_json_from_str(&content)`
@wrapexpr 1 `path.file_name().unwrap_or_default().to_string_lossy()` => `Self::vp_lossy_name_d_c(&path)` with fn vp_lossy_name_d_c<'a>(path: &'a PathBuf) -> (r: std::borrow::Cow<'a, str>) ensures cow_sv(r) == lossy_name_v(pbv(path))
@wrapexpr 2 `filename` => `Self::vp_cow_str_d1_c(&filename)` with fn vp_cow_str_d1_c<'a>(filename: &'a std::borrow::Cow<'a, str>) -> (r: &'a str) ensures r@ == cow_sv(*filename)
@wrapexpr 1 `&filename` => `Self::vp_cow_str_d2_c(&filename)` with fn vp_cow_str_d2_c<'a>(filename: &'a std::borrow::Cow<'a, str>) -> (r: &'a str) ensures r@ == cow_sv(*filename)
@wrapexpr 1 `json .get("dir_info") .and_then(|d| d.get("editable")) .and_then(|e| e.as_bool()) .unwrap_or(false)` => `Self::vp_json_is_editable_c(&json)` with fn vp_json_is_editable_c(json: &VpJson) -> (r: bool) ensures r == json_editable(*json)
@sig
    ensures exists|idx: PthIndex| #[trigger] disc_post(old(self).vst(), final(self).vst(), pv(site_packages), idx),
        final(self).site_packages_paths == old(self).site_packages_paths,
        final(self).workspace_root == old(self).workspace_root,
@start
    let ghost st0 = self.vst();
    let ghost f0 = *self;
    let ghost sp = pv(site_packages);
@return 1
    assert(disc_post(st0, self.vst(), sp, arbitrary::<PthIndex>()));
@return 2
    assert(eis_v(self.editable_install_roots@) =~= Seq::<EiV>::empty());
    assert(disc_post(st0, self.vst(), sp, pth_index));
@before for 1
    let ghost es = entries.entries();
    let ghost mut i: int = 0;
    proof { assert(eis_v(self.editable_install_roots@) =~= Seq::<EiV>::empty()); }
@forloop 1 it
    proof { assert(i == es.len()); }
@loop 1
    invariant 0 <= i <= es.len(), it.remaining() =~= es.skip(i), it.obeys_prophetic_iter_laws(), fs_dir(sp) == Some(es),
        sp == pv(site_packages), fs_is_dir(sp), idx_ok(&pth_index, sp), st0 == f0.vst(),
        self.vst() == (VSt { er: op_editables_fold(sp, &pth_index, es, i), ..st0 }),
        self.site_packages_paths == f0.site_packages_paths, self.workspace_root == f0.workspace_root,
    ensures i == es.len(),
    decreases es.len() - i
@loopstart 1
    let ghost er0 = self.editable_install_roots@;
    proof { assert(es.skip(i).drop_first() =~= es.skip(i + 1)); assert(entry == es[i]); i = i + 1; }
@after push 1
    proof { assert(eis_v(self.editable_install_roots@) =~= eis_v(er0).push(op_editable_of(sp, &pth_index, es[i - 1])->0)); assert(false); }
@before count 1
    proof { assert(disc_post(st0, self.vst(), sp, pth_index)); }
@*/

#[verifier::spinoff_prover]
/*@ extract src/fixtures/scanner.rs scan_venv_site_packages
@tags C14
@as canary_exec_site_packages
@recv mut
@replace 1 `std::fs::read_dir(&lib_path)` => `vp_read_dir(&lib_path)`
@wrapexpr 1 `path.file_name().unwrap_or_default().to_string_lossy()` => `Self::vp_lossy_name_s_c(&path)` with fn vp_lossy_name_s_c<'a>(path: &'a PathBuf) -> (r: std::borrow::Cow<'a, str>) ensures cow_sv(r) == lossy_name_v(pbv(path))
@wrapexpr 3 `dirname` => `Self::vp_cow_str_s1_c(&dirname)` with fn vp_cow_str_s1_c<'a>(dirname: &'a std::borrow::Cow<'a, str>) -> (r: &'a str) ensures r@ == cow_sv(*dirname)
@loopvar 1 it
@sig
    requires forall|p: PV| #[trigger] ep_fits(p),
    ensures exists|idx: PthIndex| #[trigger] site_post(old(self).vst(), final(self).vst(), pv(venv_path), idx),
        final(self).workspace_root == old(self).workspace_root,
@start
    let ghost st0 = self.vst();
    let ghost f0 = *self;
    let ghost venv = pv(venv_path);
@before for 1
    let ghost es = entries.entries();
@loop 1
    invariant it.seq() == es, *self == f0, st0 == f0.vst(), f0 == *old(self), venv == pv(venv_path), fs_dir(venv + str_pv(lib_name())) == Some(es),
        fs_exists(venv + str_pv(lib_name())), forall|p: PV| #[trigger] ep_fits(p),
        first_sp(es, 0) == first_sp(es, it.index@ as int),
@loopstart 1
    proof { assert(entry == es[it.index@ as int]); }
@after push 1
    let ghost st1 = self.vst();
    proof {
        assert(venv_sp(venv) == Some(pbv(&site_packages)));
        assert(st1.sp =~= st0.sp.push(pbv(&site_packages)));
        assert(st1 == (VSt { sp: st0.sp.push(pbv(&site_packages)), ..st0 }));
    }
@return 1
    assert(false);
    let idx = choose|idx: PthIndex| plugins_post(st1, self.vst(), pbv(&site_packages), idx);
    assert(site_post(st0, self.vst(), venv, idx));
@after push 2
    let ghost st1 = self.vst();
    proof {
        assert(venv_sp(venv) == Some(pbv(&windows_site_packages)));
        assert(st1.sp =~= st0.sp.push(pbv(&windows_site_packages)));
        assert(st1 == (VSt { sp: st0.sp.push(pbv(&windows_site_packages)), ..st0 }));
    }
@return 2
    assert(false);
    let idx = choose|idx: PthIndex| plugins_post(st1, self.vst(), pbv(&windows_site_packages), idx);
    assert(site_post(st0, self.vst(), venv, idx));
@end
    proof { assert(venv_sp(venv) is None); assert(site_post(st0, self.vst(), venv, arbitrary::<PthIndex>())); }
@*/

}
} // mod rw
} // mod ro

// =====================================================================================================================
// L2 — property C14, second sentence, database level.  Every lemma is PROVED from the operational specs (prelude/scanvenv_spec2.rs).

/// what the plugin scan never takes away / never touches: plugin marks only grow; the site-packages list, the editable
/// installs and the workspace root are left alone
pub open spec fn grows(a: VSt, b: VSt) -> bool { a.plugins.subset_of(b.plugins) && a.sp == b.sp && a.er == b.er && a.ws == b.ws }
//@tags C14
pub proof fn lemma_C14_mark_analyze(st: VSt, p: PV)
    ensures grows(st, op_mark_analyze(st, p)), op_mark_analyze(st, p).plugins.contains(canon_or_self(p)),
        // the analysis runs AFTER the mark: it sees the file as a plugin file
        match fs_read(p) { Some(t) => op_mark_analyze(st, p).idx == an_eff(VSt { plugins: st.plugins.insert(canon_or_self(p)), ..st }, p, t, true),
                           None => op_mark_analyze(st, p).idx == st.idx },
{}
proof fn lemma_dir_fold_grows(st: VSt, es: Seq<DirEntry>, n: int)
    requires 0 <= n <= es.len(),
    ensures grows(st, op_dir_fold(st, es, n)),
        forall|i: int| 0 <= i < n && dir_scans(entry_path(#[trigger] es[i])) ==> op_dir_fold(st, es, n).plugins.contains(canon_or_self(entry_path(es[i]))),
    decreases n,
{
    if n > 0 {
        lemma_dir_fold_grows(st, es, n - 1);
        lemma_C14_mark_analyze(op_dir_fold(st, es, n - 1), entry_path(es[n - 1]));
    }
}
//@tags C14 C12
/// scan_plugin_directory marks every `.py` file of the walk (depth <= 3, not `test_*`, UTF-8 name) — and only walks to depth 3
pub proof fn lemma_C14_dir_scan_marks(st: VSt, dir: PV)
    ensures grows(st, op_scan_dir(st, dir)),
        forall|i: int| 0 <= i < walk_ok(dir, plugin_depth()).len() && dir_scans(entry_path(#[trigger] walk_ok(dir, plugin_depth())[i]))
            ==> op_scan_dir(st, dir).plugins.contains(canon_or_self(entry_path(walk_ok(dir, plugin_depth())[i]))),
        forall|i: int| 0 <= i < walk_ok(dir, plugin_depth()).len() ==> entry_depth(#[trigger] walk_ok(dir, plugin_depth())[i]) <= 3,
{
    let es = walk_ok(dir, plugin_depth());
    lemma_dir_fold_grows(st, es, es.len() as int);
    assert forall|i: int| 0 <= i < es.len() implies entry_depth(#[trigger] es[i]) <= 3 by { axiom_walk_depth(dir, plugin_depth(), i); }
}
proof fn lemma_entry_step_grows(st: VSt, sp: PV, e: EpV)
    ensures grows(st, op_entry_step(st, sp, e).0),
{
    if let Some(p) = op_resolve_entry(st, sp, e.module) {
        lemma_C14_dir_scan_marks(st, p.drop_last());
        lemma_C14_mark_analyze(st, p);
    }
}
proof fn lemma_entries_fold_grows(st: VSt, sp: PV, es: Seq<EpV>, k: int, n: int)
    requires 0 <= k <= n <= es.len(),
    ensures grows(op_entries_fold(st, sp, es, k).0, op_entries_fold(st, sp, es, n).0),
    decreases n - k,
{
    if k < n {
        lemma_entries_fold_grows(st, sp, es, k, n - 1);
        lemma_entry_step_grows(op_entries_fold(st, sp, es, n - 1).0, sp, es[n - 1]);
    }
}
//@tags C14
/// one pytest11 entry whose module resolves to a module FILE: the file is scanned — marked as plugin file (canonical
/// path) and analysed with its disk text, the mark already in place
pub proof fn lemma_C14_entry_point_file_marked_and_analysed(st: VSt, sp: PV, e: EpV, p: PV)
    requires op_resolve_entry(st, sp, e.module) == Some(p), file_name_v(p) != Some(init_py()), fs_is_file(p), path_ext_v(p) == Some(py_ext()),
    ensures op_entry_step(st, sp, e).1, op_entry_step(st, sp, e).0 == op_mark_analyze(st, p),
        op_entry_step(st, sp, e).0.plugins.contains(canon_or_self(p)),
{
    lemma_C14_mark_analyze(st, p);
}
//@tags C14
/// … and a module that resolves to a package `__init__.py`: the package directory is scanned (lemma_C14_dir_scan_marks)
pub proof fn lemma_C14_entry_point_package_scanned(st: VSt, sp: PV, e: EpV, p: PV)
    requires op_resolve_entry(st, sp, e.module) == Some(p), file_name_v(p) == Some(init_py()),
    ensures op_entry_step(st, sp, e) == (op_scan_dir(st, p.drop_last()), true),
{}
//@tags C14
/// "every pytest11 entry of a dist-info / egg-info whose module resolves is marked as plugin file": entry k of
/// entry_points.txt resolves to the file p  ==>  p is a plugin file when load_plugin_from_entry_point returns
pub proof fn lemma_C14_every_resolving_entry_is_marked(st: VSt, dist: PV, sp: PV, k: int, p: PV)
    requires fs_read(dist + str_pv(entry_points_txt())) is Some,
        0 <= k < op_parse_pytest11(fs_read(dist + str_pv(entry_points_txt()))->0).len(),
        op_resolve_entry(st, sp, op_parse_pytest11(fs_read(dist + str_pv(entry_points_txt()))->0)[k].module) == Some(p),
        file_name_v(p) != Some(init_py()), fs_is_file(p), path_ext_v(p) == Some(py_ext()),
    ensures op_load_plugin(st, dist, sp).0.plugins.contains(canon_or_self(p)), grows(st, op_load_plugin(st, dist, sp).0),
{
    let es = op_parse_pytest11(fs_read(dist + str_pv(entry_points_txt()))->0);
    let n = es.len() as int;
    lemma_entries_fold_grows(st, sp, es, 0, k);
    lemma_entries_fold_grows(st, sp, es, k + 1, n);
    lemma_entries_fold_grows(st, sp, es, 0, n);
    let stk = op_entries_fold(st, sp, es, k).0;
    assert(stk.er == st.er);
    assert(op_resolve_entry(stk, sp, es[k].module) == Some(p));
    lemma_C14_entry_point_file_marked_and_analysed(stk, sp, es[k], p);
    assert(op_entries_fold(st, sp, es, k + 1).0 == op_entry_step(stk, sp, es[k]).0);
}
proof fn lemma_load_grows(st: VSt, dist: PV, sp: PV)
    ensures grows(st, op_load_plugin(st, dist, sp).0),
{
    if let Some(c) = fs_read(dist + str_pv(entry_points_txt())) {
        lemma_entries_fold_grows(st, sp, op_parse_pytest11(c), 0, op_parse_pytest11(c).len() as int);
    }
}
proof fn lemma_dists_fold_grows(st: VSt, sp: PV, es: Seq<FsEntry>, k: int, n: int)
    requires 0 <= k <= n <= es.len(),
    ensures grows(op_dists_fold(st, sp, es, k).0, op_dists_fold(st, sp, es, n).0),
    decreases n - k,
{
    if k < n {
        lemma_dists_fold_grows(st, sp, es, k, n - 1);
        lemma_load_grows(op_dists_fold(st, sp, es, n - 1).0, fse_path(es[n - 1]), sp);
    }
}
//@tags C14
/// both metadata flavours are looked at: entry k of site-packages named `*.dist-info` OR `*.egg-info` has its entry
/// points loaded, in the state the entries before it left
pub proof fn lemma_C14_dist_info_and_egg_info_loaded(st: VSt, sp: PV, es: Seq<FsEntry>, k: int)
    requires 0 <= k < es.len(), is_dist_meta(es[k]),
    ensures op_dists_fold(st, sp, es, k + 1).0 == op_load_plugin(op_dists_fold(st, sp, es, k).0, fse_path(es[k]), sp).0,
        grows(op_dists_fold(st, sp, es, k + 1).0, op_dists_fold(st, sp, es, es.len() as int).0),
{
    lemma_dists_fold_grows(st, sp, es, k + 1, es.len() as int);
}
//@tags C14
/// pytest's own fixtures: when `<sp>/_pytest` is a directory it is scanned first (after the editable-install discovery),
/// and what it marks stays marked to the end of scan_pytest_plugins
pub proof fn lemma_C14_pytest_builtins_scanned(st: VSt, sp: PV, idx: &PthIndex, i: int)
    requires fs_exists(sp + str_pv(pytest_dir())), fs_is_dir(sp + str_pv(pytest_dir())),
        0 <= i < walk_ok(sp + str_pv(pytest_dir()), plugin_depth()).len(),
        dir_scans(entry_path(walk_ok(sp + str_pv(pytest_dir()), plugin_depth())[i])),
    ensures op_scan_plugins(st, sp, idx).plugins.contains(canon_or_self(entry_path(walk_ok(sp + str_pv(pytest_dir()), plugin_depth())[i]))),
{
    let st1 = op_discover(st, sp, idx);
    lemma_C14_dir_scan_marks(st1, sp + str_pv(pytest_dir()));
    lemma_dists_fold_grows(op_internal(st1, sp), sp, dir_entries(sp), 0, dir_entries(sp).len() as int);
}
proof fn lemma_resolve_editable_first(er: Seq<EiV>, m: Seq<char>, j: int, k: int)
    requires 0 <= j <= k < er.len(), forall|q: int| j <= q < k ==> op_resolve_ep((#[trigger] er[q]).source_root, m) is None,
        op_resolve_ep(er[k].source_root, m) is Some,
    ensures op_resolve_editable(er, m, j) == op_resolve_ep(er[k].source_root, m),
    decreases k - j,
{
    if j < k { assert(op_resolve_ep(er[j].source_root, m) is None); lemma_resolve_editable_first(er, m, j + 1, k); }
}
//@tags C14
/// an editable install's entry point resolves INTO its source root: not found under site-packages, found under the
/// source root of install k (and of no earlier install)  ==>  that file is the resolution — and it lies under the
/// (canonical) source root (unit scan_venv, lemma_C14_resolved_is_bounded)
pub proof fn lemma_C14_editable_entry_point_resolves_in_source_root(st: VSt, sp: PV, m: Seq<char>, k: int)
    requires op_resolve_ep(sp, m) is None, 0 <= k < st.er.len(), op_resolve_ep(st.er[k].source_root, m) is Some,
        forall|q: int| 0 <= q < k ==> op_resolve_ep((#[trigger] st.er[q]).source_root, m) is None,
    ensures op_resolve_entry(st, sp, m) == op_resolve_ep(st.er[k].source_root, m),
        fs_canonical(st.er[k].source_root) is Some,
        pv_is_prefix(fs_canonical(st.er[k].source_root)->0, op_resolve_entry(st, sp, m)->0),
{
    lemma_resolve_editable_first(st.er, m, 0, k);
}
proof fn lemma_scan_plugins_consts(st: VSt, sp: PV, idx: &PthIndex)
    ensures op_scan_plugins(st, sp, idx).sp == st.sp, op_scan_plugins(st, sp, idx).ws == st.ws,
        st.plugins.subset_of(op_scan_plugins(st, sp, idx).plugins),
        op_scan_plugins(st, sp, idx).er == op_discover(st, sp, idx).er,
{
    let st1 = op_discover(st, sp, idx);
    lemma_C14_dir_scan_marks(st1, sp + str_pv(pytest_dir()));
    lemma_dists_fold_grows(op_internal(st1, sp), sp, dir_entries(sp), 0, dir_entries(sp).len() as int);
}
//@tags C14
/// site_packages_paths gains the scanned site-packages directory exactly once per scan (first, before anything is
/// analysed); a venv without site-packages changes nothing; the workspace root is never written
pub proof fn lemma_C14_site_packages_recorded_once(st: VSt, venv: PV, idx: &PthIndex)
    ensures match venv_sp(venv) {
        Some(sp) => op_site_packages(st, venv, idx).sp == st.sp.push(sp),
        None => op_site_packages(st, venv, idx) == st },
        op_site_packages(st, venv, idx).ws == st.ws,
{
    if let Some(sp) = venv_sp(venv) { lemma_scan_plugins_consts(VSt { sp: st.sp.push(sp), ..st }, sp, idx); }
}
//@tags C14
/// fact: a SECOND scan of the same workspace records the same directory again (the list has no duplicate check)
pub proof fn lemma_C14_fact_rescan_duplicates_site_packages(st: VSt, venv: PV, idx: &PthIndex, idx2: &PthIndex)
    requires venv_sp(venv) is Some,
    ensures op_site_packages(op_site_packages(st, venv, idx), venv, idx2).sp == st.sp.push(venv_sp(venv)->0).push(venv_sp(venv)->0),
{
    lemma_C14_site_packages_recorded_once(st, venv, idx);
    lemma_C14_site_packages_recorded_once(op_site_packages(st, venv, idx), venv, idx2);
}
//@tags C14
/// editable installs: the list is REPLACED by the installs of the scanned directory (nothing accumulates): the result
/// does not depend on the old list, so a rescan gives the same list, never duplicates
pub proof fn lemma_C14_editables_replaced_not_accumulated(st: VSt, st2: VSt, sp: PV, idx: &PthIndex)
    requires fs_is_dir(sp),
    ensures op_discover(st, sp, idx).er == op_discover(st2, sp, idx).er,
        op_discover(op_discover(st, sp, idx), sp, idx) == op_discover(st, sp, idx),
{}
proof fn lemma_plain_venv_names()
    ensures plain_name(".venv"@), plain_name("venv"@), plain_name("env"@), venv_names().len() == 3,
{
    reveal_strlit(".venv"); reveal_strlit("venv"); reveal_strlit("env"); reveal_strlit("."); reveal_strlit("..");
    assert(!".venv"@.contains('/')) by { if ".venv"@.contains('/') { let j = choose|j: int| 0 <= j < ".venv"@.len() && ".venv"@[j] == '/'; assert(false); } }
    assert(!"venv"@.contains('/')) by { if "venv"@.contains('/') { let j = choose|j: int| 0 <= j < "venv"@.len() && "venv"@[j] == '/'; assert(false); } }
    assert(!"env"@.contains('/')) by { if "env"@.contains('/') { let j = choose|j: int| 0 <= j < "env"@.len() && "env"@[j] == '/'; assert(false); } }
    assert(".venv"@.len() == 5 && "venv"@.len() == 4 && "env"@.len() == 3);
}
//@tags C14
/// which virtual environment is probed: `<root>/.venv`, then `<root>/venv`, then `<root>/env`, then `$VIRTUAL_ENV` —
/// the FIRST that exists is the only one scanned
pub proof fn lemma_C14_venv_probe_order(root: PV)
    ensures fs_exists(root.push(".venv"@)) ==> venv_of(root) == Some(root.push(".venv"@)),
        !fs_exists(root.push(".venv"@)) && fs_exists(root.push("venv"@)) ==> venv_of(root) == Some(root.push("venv"@)),
        !fs_exists(root.push(".venv"@)) && !fs_exists(root.push("venv"@)) && fs_exists(root.push("env"@)) ==> venv_of(root) == Some(root.push("env"@)),
        !fs_exists(root.push(".venv"@)) && !fs_exists(root.push("venv"@)) && !fs_exists(root.push("env"@)) ==>
            venv_of(root) == (match env_var(virtual_env_name()) {
                Some(t) => if fs_exists(str_pv(t)) { Some(canon_or_self(str_pv(t))) } else { None }, None => None::<PV> }),
{
    lemma_plain_venv_names();
    axiom_plain_pv(".venv"@); axiom_plain_pv("venv"@); axiom_plain_pv("env"@);
    assert(root + seq![".venv"@] =~= root.push(".venv"@));
    assert(root + seq!["venv"@] =~= root.push("venv"@));
    assert(root + seq!["env"@] =~= root.push("env"@));
    assert(venv_names()[0] == ".venv"@ && venv_names()[1] == "venv"@ && venv_names()[2] == "env"@);
    reveal_with_fuel(first_venv, 4);
}
//@tags C14
/// NOT found (fact): with `<root>/.venv` present, nothing else is consulted — not `<root>/venv`, not `$VIRTUAL_ENV`;
/// and if that `.venv` has no site-packages directory the scan finds NO plugin at all
pub proof fn lemma_C14_fact_only_first_venv(st: VSt, root: PV, idx: &PthIndex)
    requires fs_exists(root.push(".venv"@)), venv_sp(root.push(".venv"@)) is None,
    ensures op_venv(st, root, idx) == st,
{
    lemma_C14_venv_probe_order(root);
}
//@tags C14
/// NOT found (fact): an `.egg-link` entry of site-packages (setup.py develop) is not a metadata directory: skipped
pub proof fn lemma_C14_fact_egg_link_skipped(st: VSt, sp: PV, e: FsEntry)
    requires ends_with_v(lossy_name_v(fse_path(e)), ".egg-link"@),
    ensures !is_dist_meta(e), op_dist_step(st, sp, e) == (st, 0nat),
{
    reveal_strlit(".egg-link"); reveal_strlit(".egg-info"); reveal_strlit(".dist-info");
    let n = lossy_name_v(fse_path(e));
    let l = n.len() as int;
    assert(n.subrange(l - 9, l) == ".egg-link"@);
    assert(n.subrange(l - 9, l)[8] == 'k');
    if ends_with_v(n, egg_info_sfx()) { assert(n.subrange(l - 9, l) == ".egg-info"@); assert(".egg-info"@[8] == 'o'); }
    if ends_with_v(n, dist_info_sfx()) { assert(n.subrange(l - 10, l) == ".dist-info"@); assert(n.subrange(l - 10, l)[9] == 'o'); assert(n[l - 1] == 'o'); assert(n.subrange(l - 9, l)[8] == n[l - 1]); }
}
//@tags C14
/// NOT found (fact): an entry point whose module resolves nowhere (namespace package, import-hook editable install
/// whose `.pth` gave no source root, module outside the scanned site-packages) is skipped without a trace
pub proof fn lemma_C14_fact_unresolved_entry_is_skipped(st: VSt, sp: PV, e: EpV)
    requires op_resolve_entry(st, sp, e.module) is None,
    ensures op_entry_step(st, sp, e) == (st, false),
{}
//@tags C14
/// NOT found (fact): an editable install whose `.pth` yields no source root is not recorded at all
pub proof fn lemma_C14_fact_editable_without_pth_root_not_recorded(sp: PV, idx: &PthIndex, e: FsEntry)
    requires match op_dist_name(lossy_name_v(fse_path(e))) { Some(nm) => op_pth_root(sp, idx, nm.0, nm.1) is None, None => true },
    ensures op_editable_of(sp, idx, e) is None,
{}

// ---- vacuity guards: each of these must FAIL ----------------------------------------------------------------------------------
proof fn canary_nothing_marked(st: VSt, p: PV) requires path_ext_v(p) == Some(py_ext()) ensures op_scan_single(st, p).plugins == st.plugins {}
proof fn canary_non_py_marked(st: VSt, p: PV) ensures op_scan_single(st, p).plugins.contains(canon_or_self(p)) {}
/// the analysis runs before the mark
proof fn canary_analysis_before_mark(st: VSt, p: PV, t: Seq<char>) requires fs_read(p) == Some(t) ensures op_mark_analyze(st, p).idx == an_eff(st, p, t, true) {}
/// analyze_file and analyze_file_fresh are the same thing
proof fn canary_fresh_is_reanalyze(st: VSt, p: PV, t: Seq<char>) ensures an_eff(st, p, t, true) == an_eff(st, p, t, false) {}
/// a second venv is scanned as well
proof fn canary_second_venv_scanned(st: VSt, root: PV, idx: &PthIndex)
    requires fs_exists(root.push(".venv"@)), fs_exists(root.push("venv"@))
    ensures op_venv(st, root, idx) == op_site_packages(st, root.push("venv"@), idx) { lemma_C14_venv_probe_order(root); }
/// editable installs accumulate over scans
proof fn canary_editables_accumulate(st: VSt, sp: PV, idx: &PthIndex, x: EiV)
    requires fs_is_dir(sp), st.er == seq![x] ensures op_discover(st, sp, idx).er.len() >= 1 {}
/// egg-info directories are skipped
proof fn canary_egg_info_skipped(st: VSt, sp: PV, e: FsEntry)
    requires ends_with_v(lossy_name_v(fse_path(e)), egg_info_sfx()) ensures op_dist_step(st, sp, e) == (st, 0nat) {}
/// the site-packages directory is not recorded
proof fn canary_sp_not_recorded(st: VSt, venv: PV, idx: &PthIndex)
    requires venv_sp(venv) is Some ensures op_site_packages(st, venv, idx).sp == st.sp { lemma_C14_site_packages_recorded_once(st, venv, idx); }
/// the editable source roots are not consulted
proof fn canary_editable_roots_ignored(st: VSt, sp: PV, m: Seq<char>) requires op_resolve_ep(sp, m) is None ensures op_resolve_entry(st, sp, m) is None {}
/// the assumed primitives are contradictory
proof fn canary_prims_inconsistent(s: &str, dir: PV, e: FsEntry, p: PV) requires walk_ok(dir, 3).len() > 0, file_name_v(p) is Some ensures false {
    lemma_fits(s); axiom_walk_depth(dir, 3, 0); axiom_entry_name(e); axiom_file_name_parent(p); axiom_pth_enum(&arbitrary::<PthIndex>());
}
/// the walk is unbounded
proof fn canary_walk_unbounded(dir: PV, i: int) requires 0 <= i < walk_ok(dir, 3).len() ensures entry_depth(walk_ok(dir, 3)[i]) > 3 { axiom_walk_depth(dir, 3, i); }

} // verus!
fn main() {}
