//@include prelude/strstruct_header.rs
// Unit scan_venv2 — property C14, second sentence (plugin discovery), + C11 (no panic), C12 (termination):
//   src/fixtures/scanner.rs  DATABASE-writing functions: scan_single_plugin_file (F1), scan_plugin_directory (F2),
//   resolve_entry_point_in_editable_installs (F3), load_plugin_from_entry_point (F4), scan_pytest_internal_fixtures (F5),
//   build_pth_index (F6), discover_editable_installs (F7), scan_pytest_plugins (F8), scan_venv_site_packages (F9),
//   scan_venv_fixtures (F10).  The text functions they call (unit scan_venv) enter as //@stub contracts.
use std::sync::atomic::Ordering;
verus! {
global size_of usize == 8;  // A6: 64-bit target
pub mod pre {
use super::*;
//@include prelude/path.rs
//@include prelude/path_ext.rs
//@include prelude/types.rs
//@include prelude/dashmap.rs
//@include prelude/hashset.rs
//@include prelude/hashmap.rs
//@include prelude/atomic.rs
//@include prelude/glob.rs
//@include prelude/scansel_shims.rs
//@include prelude/strstruct_prims.rs
//@include prelude/strstruct_prims2.rs
//@include prelude/scanvenv_str.rs
//@include prelude/scanvenv_fs.rs
//@include prelude/scanvenv_spec.rs
#[verifier::external_type_specification] pub struct ExUndeclaredFixture(UndeclaredFixture);
//@include prelude/scanvenv_db.rs
//@include prelude/scanvenv_spec2.rs
} // mod pre
use pre::*;

broadcast use {axiom_path_as_path, axiom_pathbuf_ref_as_path, lemma_fits, axiom_ts_n, axiom_te_n, axiom_pat_str, axiom_pat_char,
    lemma_sv_step, axiom_str_path, axiom_plain_pv, axiom_file_name_parent, axiom_entry_name};

//@item src/fixtures/scanner.rs struct Pytest11EntryPoint
spec fn ep_v(e: Pytest11EntryPoint) -> EpV { EpV { name: e.name@, module: e.module_path@ } }
spec fn eps_v(s: Seq<Pytest11EntryPoint>) -> Seq<EpV> { s.map_values(|e: Pytest11EntryPoint| ep_v(e)) }

//@item src/fixtures/mod.rs struct EditableInstall
pub open spec fn ei_v(e: EditableInstall) -> EiV {
    EiV { package_name: e.package_name@, raw_package_name: e.raw_package_name@, source_root: pbv(&e.source_root), site_packages: pbv(&e.site_packages) }
}
pub open spec fn eis_v(s: Seq<EditableInstall>) -> Seq<EiV> { s.map_values(|e: EditableInstall| ei_v(e)) }
pub open spec fn pbvs(s: Seq<PathBuf>) -> Seq<PV> { s.map_values(|p: PathBuf| pbv(&p)) }

//@dbstruct definitions file_definitions usages usage_by_fixture file_cache undeclared_fixtures imports canonical_path_cache definitions_version site_packages_paths editable_install_roots workspace_root plugin_fixture_files

/// D8: sequential stand-ins for std::sync::Mutex::lock on the Mutex-stripped fields (T6): never poisoned, no thread model
pub mod lock_ro {
    use super::*;
    pub trait VpLock: Sized { fn lock(&self) -> (r: Result<&Self, PoisonNever>) ensures r is Ok, r->Ok_0 == self; }
    impl VpLock for Vec<EditableInstall> {
        #[verifier::external_body]
        fn lock(&self) -> (r: Result<&Self, PoisonNever>) { Ok(self) }
    }
}
impl VpLockMut for Vec<EditableInstall> {
    #[verifier::external_body]
    fn lock(&mut self) -> (r: Result<&mut Self, PoisonNever>) { Ok(self) }
}
impl VpLockMut for Vec<PathBuf> {
    #[verifier::external_body]
    fn lock(&mut self) -> (r: Result<&mut Self, PoisonNever>) { Ok(self) }
}

impl FixtureDatabase {
    pub open spec fn idx(&self) -> Idx {
        Idx { definitions: self.definitions, file_definitions: self.file_definitions, usages: self.usages,
              usage_by_fixture: self.usage_by_fixture, file_cache: self.file_cache, undeclared_fixtures: self.undeclared_fixtures,
              imports: self.imports, canonical_path_cache: self.canonical_path_cache, definitions_version: self.definitions_version }
    }
    pub open spec fn vst(&self) -> VSt {
        VSt { idx: self.idx(), plugins: self.plugin_fixture_files.m().dom(), sp: pbvs(self.site_packages_paths@),
              er: eis_v(self.editable_install_roots@), ws: opt_pbv(self.workspace_root) }
    }

    // ---- callee stubs: ASSUMED frame contracts (same abstraction as units scan_select / scan_imports): the index
    // becomes an_eff(..) of what the analysis is given and of the state it starts from; the plugin marks, the
    // site-packages list, the editable installs and the workspace root are not written.
    #[verifier::external_body]
    pub fn analyze_file(&mut self, file_path: PathBuf, content: &str)
        ensures final(self).vst() == (VSt { idx: an_eff(old(self).vst(), pbv(&file_path), content@, true), ..old(self).vst() }),
            final(self).plugin_fixture_files == old(self).plugin_fixture_files,
            final(self).site_packages_paths == old(self).site_packages_paths,
            final(self).editable_install_roots == old(self).editable_install_roots,
            final(self).workspace_root == old(self).workspace_root,
    { unimplemented!() }
    #[verifier::external_body]
    pub(crate) fn analyze_file_fresh(&mut self, file_path: PathBuf, content: &str)
        ensures final(self).vst() == (VSt { idx: an_eff(old(self).vst(), pbv(&file_path), content@, false), ..old(self).vst() }),
            final(self).plugin_fixture_files == old(self).plugin_fixture_files,
            final(self).site_packages_paths == old(self).site_packages_paths,
            final(self).editable_install_roots == old(self).editable_install_roots,
            final(self).workspace_root == old(self).workspace_root,
    { unimplemented!() }

//@stub scan_venv parse_pytest11_entry_points
//@stub scan_venv resolve_entry_point_module_to_path
//@stub scan_venv extract_package_name_from_dist_info
//@stub scan_venv find_editable_pth_source_root

/*@ extract src/fixtures/scanner.rs scan_single_plugin_file
@tags C14 C11 C12
@recv mut
@wrapexpr 1 `file_path.extension().and_then(|s| s.to_str())` => `Self::vp_ext_str(file_path)` with fn vp_ext_str<'a>(file_path: &'a Path) -> (r: Option<&'a str>) ensures osv(r) == path_ext_v(pv(file_path))
@closure unwrap_or_else:1 |_e: std::io::Error| -> (q: PathBuf) ensures pbv(&q) == pv(file_path)
@sig
    ensures final(self).vst() == op_scan_single(old(self).vst(), pv(file_path)),
        final(self).site_packages_paths == old(self).site_packages_paths,
        final(self).editable_install_roots == old(self).editable_install_roots,
        final(self).workspace_root == old(self).workspace_root,
@*/

}

} // verus!
fn main() {}
