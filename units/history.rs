//@include prelude/header.rs
// Unit history (pure lemmas + two bridge functions): lifts the ONE-STEP contract proved for analyze_file (unit analyze)
// to the quantifier "all histories" of properties C06 / C10.
use rustpython_parser::{parse, Mode};
use rustpython_parser::ast::{Stmt, Expr, Keyword, Identifier, Constant, ExceptHandler, ExprCall, Alias, Arguments, ArgWithDefault};
use rustpython_parser::text_size::TextRange;
verus! {
global size_of usize == 8;  // A6: 64-bit target
pub mod pre {
use super::*;
//@include prelude/path.rs
//@include prelude/path_ext.rs
//@include prelude/types.rs
//@include prelude/dashmap.rs
//@include prelude/hashset.rs
//@include prelude/atomic.rs
//@include prelude/dbview.rs
//@include prelude/hof.rs
//@include prelude/arc.rs
//@include prelude/index_spec.rs
//@include prelude/strings.rs
//@include prelude/iter_ext.rs
//@include prelude/iter_slice.rs
//@include prelude/bytes.rs
//@include build/astspec.rs
#[verifier::external_type_specification] #[verifier::reject_recursive_types(R)] pub struct ExMod<R>(rustpython_parser::ast::Mod<R>);
#[verifier::external_type_specification] #[verifier::reject_recursive_types(R)] pub struct ExModModule<R>(rustpython_parser::ast::ModModule<R>);
#[verifier::external_type_specification] #[verifier::reject_recursive_types(R)] pub struct ExModInteractive<R>(rustpython_parser::ast::ModInteractive<R>);
#[verifier::external_type_specification] #[verifier::reject_recursive_types(R)] pub struct ExModExpression<R>(rustpython_parser::ast::ModExpression<R>);
#[verifier::external_type_specification] #[verifier::reject_recursive_types(R)] pub struct ExModFunctionType<R>(rustpython_parser::ast::ModFunctionType<R>);
#[verifier::external_type_specification] #[verifier::reject_recursive_types(R)] pub struct ExTypeIgnore<R>(rustpython_parser::ast::TypeIgnore<R>);
#[verifier::external_type_specification] #[verifier::reject_recursive_types(R)] pub struct ExTypeIgnoreTypeIgnore<R>(rustpython_parser::ast::TypeIgnoreTypeIgnore<R>);
//@include prelude/ast_spec.rs
//@include prelude/line_spec.rs
//@include prelude/visit_spec.rs
//@include prelude/analyze_spec.rs
//@include prelude/analyze_l2.rs
//@include prelude/memokeys_spec.rs
//@include prelude/fs_canonical_decl.rs
//@include prelude/memokeys_canon_spec.rs
//@include prelude/history_seq.rs
//@include prelude/history_spec.rs
//@include prelude/history_nf.rs
//@include prelude/history_l2.rs
} // mod pre
use pre::*;

#[verifier::external_type_specification] pub struct ExUndeclaredFixture(UndeclaredFixture);
#[verifier::external_type_specification] pub struct ExFixtureCycle(FixtureCycle);

//@item src/fixtures/mod.rs struct EditableInstall
//@dbstruct_arc definitions file_definitions usages usage_by_fixture definitions_version file_cache undeclared_fixtures imports canonical_path_cache line_index_cache cycle_cache available_fixtures_cache imported_fixtures_cache site_packages_paths editable_install_roots workspace_root plugin_fixture_files

//@include prelude/index_dbspecs_all.rs

/// canonicalisation of a path -- as in unit analyze: what get_canonical_path is PROVED to return (unit memo_keys)
pub open spec fn canon(p: PV) -> PV { canon_now(p) }

//@include prelude/opt_pbv.rs
//@include prelude/classify_spec.rs
//@include prelude/visit_env.rs

impl FixtureDatabase {
//@stub analyze analyze_file
//@stub analyze analyze_file_fresh
}

} // verus!
fn main() {}
