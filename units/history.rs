//@include prelude/header.rs
// Unit history (pure lemmas + two bridge functions): lifts the ONE-STEP contract proved for analyze_file (unit analyze)
// to the quantifier "all histories" of properties C06 / C10.
//   prelude/history_vocab.rs  in_file / named / all_in_file / uses_in_file / w1 (verbatim the definitions of analyze_l2.rs)
//   prelude/history_seq.rs    filter algebra, multiset counting, map extensionality under "no empty bucket"  (all proved)
//   prelude/history_spec.rs   IdxV, step, step_fresh, run, run_fresh, last_valid, fresh, projections, invariants, normal forms
//   prelude/history_nf.rs     bucket-level normal forms of push_defs / add_fdefs / push_uses / push_byfix / clean_*   (proved)
//   prelude/history_l2.rs     one step in normal form, invariants, the history theorems and their corollaries         (proved)
//   this file                 the link to the code (stub of analyze_file / analyze_file_fresh called under contract; the
//                             @sig text as hypothesis of lemma_step_is_analyze_post), histories of DATABASE states, which
//                             answers are insensitive to bucket interleaving (order lemmas of unit resolver_core), canaries.
// Events are (canonical file, text): a didOpen / didChange that reached analyze_file (unit handlers_main: did_open_post /
// did_change_post = analyze_file's post state; didClose touches no index map).  canon = canon_now is a function of ONE
// file-system state (A4): a path whose canonical form changes during a session is two files here.
// EXPLICIT HYPOTHESIS (the only one): visitors_file_local -- every definition / usage the visitors record for (f, t) is
// filed under f.  Discharged by unit visit: lemma_C06_visit_defs_in_file / lemma_C06_visit_uses_in_file (prelude/visit_l2.rs;
// including that file here re-verifies the whole visitor L2 and made this unit unstable, so it is cited, not included).
// No assume / admit / axiom in the history_* files.
use rustpython_parser::{parse, Mode};
use rustpython_parser::ast::{Stmt, Expr, Keyword, Identifier, Constant, ExceptHandler, ExprCall, Alias, Arguments, ArgWithDefault};
use rustpython_parser::text_size::TextRange;
verus! {
global size_of usize == 8;  // A6: 64-bit target
pub mod pre {
use super::*;
//@include prelude/path.rs
//@include prelude/path_ext.rs
//@include prelude/types.rs
//@include prelude/dashmap.rs
//@include prelude/hashset.rs
//@include prelude/atomic.rs
//@include prelude/dbview.rs
//@include prelude/hof.rs
//@include prelude/resolve_spec.rs
//@include prelude/resolve_l2.rs
//@include prelude/order_l2.rs
//@include prelude/arc.rs
//@include prelude/index_spec.rs
//@include prelude/strings.rs
//@include prelude/iter_ext.rs
//@include prelude/iter_slice.rs
//@include prelude/bytes.rs
//@include build/astspec.rs
#[verifier::external_type_specification] #[verifier::reject_recursive_types(R)] pub struct ExMod<R>(rustpython_parser::ast::Mod<R>);
#[verifier::external_type_specification] #[verifier::reject_recursive_types(R)] pub struct ExModModule<R>(rustpython_parser::ast::ModModule<R>);
#[verifier::external_type_specification] #[verifier::reject_recursive_types(R)] pub struct ExModInteractive<R>(rustpython_parser::ast::ModInteractive<R>);
#[verifier::external_type_specification] #[verifier::reject_recursive_types(R)] pub struct ExModExpression<R>(rustpython_parser::ast::ModExpression<R>);
#[verifier::external_type_specification] #[verifier::reject_recursive_types(R)] pub struct ExModFunctionType<R>(rustpython_parser::ast::ModFunctionType<R>);
#[verifier::external_type_specification] #[verifier::reject_recursive_types(R)] pub struct ExTypeIgnore<R>(rustpython_parser::ast::TypeIgnore<R>);
#[verifier::external_type_specification] #[verifier::reject_recursive_types(R)] pub struct ExTypeIgnoreTypeIgnore<R>(rustpython_parser::ast::TypeIgnoreTypeIgnore<R>);
//@include prelude/ast_spec.rs
//@include prelude/line_spec.rs
//@include prelude/visit_spec.rs
//@include prelude/analyze_spec.rs
//@include prelude/analyze_imports.rs
//@include prelude/undecl_avail_spec.rs
//@include prelude/undecl_spec.rs
//@include prelude/visit_undecl.rs
//@include prelude/analyze_undecl.rs
//@include prelude/history_vocab.rs
//@include prelude/memokeys_spec.rs
//@include prelude/fs_canonical_decl.rs
//@include prelude/memokeys_canon_spec.rs
//@include prelude/history_seq.rs
//@include prelude/history_spec.rs
//@include prelude/history_nf.rs
//@include prelude/history_l2.rs
//@include prelude/history_scan.rs
} // mod pre
use pre::*;

#[verifier::external_type_specification] pub struct ExUndeclaredFixture(UndeclaredFixture);
#[verifier::external_type_specification] pub struct ExFixtureCycle(FixtureCycle);

//@item src/fixtures/mod.rs struct EditableInstall
//@dbstruct_arc definitions file_definitions usages usage_by_fixture definitions_version file_cache undeclared_fixtures imports canonical_path_cache line_index_cache cycle_cache available_fixtures_cache imported_fixtures_cache site_packages_paths editable_install_roots workspace_root plugin_fixture_files

//@include prelude/index_dbspecs_all.rs

/// canonicalisation of a path -- as in unit analyze: what get_canonical_path is PROVED to return (unit memo_keys)
pub open spec fn canon(p: PV) -> PV { canon_now(p) }

//@include prelude/opt_pbv.rs
//@include prelude/classify_spec.rs
//@include prelude/visit_env.rs

/// the abstract index of a database: the four views unit analyze's contract speaks about
pub open spec fn idx(db: FixtureDatabase) -> IdxV {
    IdxV { defs: db.defs(), fdefs: db.fdefs(), uses: db.uses(), byfix: db.byfix() }
}
/// the state hypotheses of an analysis that analyze_file re-establishes (prelude/main_spec_v2.rs db_inv)
pub open spec fn db_hyp(db: FixtureDatabase) -> bool {
    db.env_ok() && li_cache_wf(db.line_index_cache.m()) && canon_cache_wf(db.canonical_path_cache.m())
}

impl FixtureDatabase {
//@stub analyze analyze_file
//@stub analyze analyze_file_fresh

    // ---- the link to the code, CHECKED: a call of the stub (whose contract is, textually, the @sig PROVED in unit
    // analyze) leaves the four views in step(..) / step_fresh(..) of the views before.  A `step` that claimed more than
    // the proved contract gives would not verify here.
    //@tags C06 C10
    pub fn check_step_is_analyze_file(&mut self, file_path: PathBuf, content: &str)
        requires old(self).version() < u64::MAX, db_hyp(*old(self)),
            li_no_collision(old(self).line_index_cache.m(), canon(pbv(&file_path)), content@),
            parse_ok(content@) ==> old(self).version() + 1 + stmts_vdefs(body_of(ast_of(content@)), canon(pbv(&file_path)), content@).len() <= u64::MAX,
        ensures idx(*final(self)) == step(idx(*old(self)), canon(pbv(&file_path)), content@), db_hyp(*final(self)),
            final(self).version() != old(self).version(),
    {
        self.analyze_file(file_path, content)
    }
    //@tags C10
    pub fn check_step_fresh_is_analyze_file_fresh(&mut self, file_path: PathBuf, content: &str)
        requires old(self).version() < u64::MAX, db_hyp(*old(self)),
            li_no_collision(old(self).line_index_cache.m(), canon(pbv(&file_path)), content@),
            parse_ok(content@) ==> old(self).version() + 1 + stmts_vdefs(body_of(ast_of(content@)), canon(pbv(&file_path)), content@).len() <= u64::MAX,
        ensures idx(*final(self)) == step_fresh(idx(*old(self)), canon(pbv(&file_path)), content@), db_hyp(*final(self)),
    {
        self.analyze_file_fresh(file_path, content)
    }
    /// exec canary (must FAIL): analyze_file does not clean up (is the scan entry point)
    pub fn canary_exec_analyze_file_is_step_fresh(&mut self, file_path: PathBuf, content: &str)
        requires old(self).version() < u64::MAX, db_hyp(*old(self)),
            li_no_collision(old(self).line_index_cache.m(), canon(pbv(&file_path)), content@),
            parse_ok(content@) ==> old(self).version() + 1 + stmts_vdefs(body_of(ast_of(content@)), canon(pbv(&file_path)), content@).len() <= u64::MAX,
        ensures idx(*final(self)) == step_fresh(idx(*old(self)), canon(pbv(&file_path)), content@),
    {
        self.analyze_file(file_path, content)
    }
}

//@tags C06 C10
/// `step` IS analyze_file's post state.  The hypothesis is, clause for clause, the `ensures` text of analyze_file's @sig
/// in units/analyze.rs (old(self) -> o, final(self) -> s); the conclusion is the definition of step.  (The same
/// correspondence is also checked against the stub itself: check_step_is_analyze_file.)
pub proof fn lemma_step_is_analyze_post(o: FixtureDatabase, s: FixtureDatabase, file_path: PathBuf, content: &str)
    requires
        s.version() != o.version(),
        s.env_ok(), li_cache_wf(s.line_index_cache.m()), canon_cache_wf(s.canonical_path_cache.m()),
        !parse_ok(content@) ==> s.defs() == o.defs() && s.fdefs() == o.fdefs()
            && s.uses() == o.uses() && s.byfix() == o.byfix()
            && s.undeclared_fixtures == o.undeclared_fixtures && s.imports == o.imports,
        parse_ok(content@) ==> ({
            let f = canon(pbv(&file_path));
            let body = body_of(ast_of(content@));
            let d0 = clean_defs_names(o.defs(), f, sbucket(o.fdefs(), f));
            let fd0 = o.fdefs().remove(f);
            &&& s.defs() == push_defs(d0, stmts_vdefs(body, f, content@))
            &&& s.fdefs() == add_fdefs(fd0, stmts_vdefs(body, f, content@))
            &&& s.uses() == push_uses(o.uses().remove(f), stmts_vuses(body, f, content@))
            &&& s.byfix() == push_byfix(clean_byfix(o.byfix(), f), stmts_vuses(body, f, content@))
        }),
    ensures idx(s) == step(idx(o), canon(pbv(&file_path)), content@), db_hyp(s), analyze_post_rel(o, s, pbv(&file_path), content@),
{}
//@tags C10
/// ... and step_fresh is analyze_file_fresh's (same hypothesis shape, cleanup_previous = false)
pub proof fn lemma_step_fresh_is_analyze_fresh_post(o: FixtureDatabase, s: FixtureDatabase, file_path: PathBuf, content: &str)
    requires
        s.version() != o.version(),
        s.env_ok(), li_cache_wf(s.line_index_cache.m()), canon_cache_wf(s.canonical_path_cache.m()),
        !parse_ok(content@) ==> s.defs() == o.defs() && s.fdefs() == o.fdefs()
            && s.uses() == o.uses() && s.byfix() == o.byfix()
            && s.undeclared_fixtures == o.undeclared_fixtures && s.imports == o.imports,
        parse_ok(content@) ==> ({
            let f = canon(pbv(&file_path));
            let body = body_of(ast_of(content@));
            let d0 = o.defs();
            let fd0 = o.fdefs();
            &&& s.defs() == push_defs(d0, stmts_vdefs(body, f, content@))
            &&& s.fdefs() == add_fdefs(fd0, stmts_vdefs(body, f, content@))
            &&& s.uses() == push_uses(o.uses().remove(f), stmts_vuses(body, f, content@))
            &&& s.byfix() == push_byfix(clean_byfix(o.byfix(), f), stmts_vuses(body, f, content@))
        }),
    ensures idx(s) == step_fresh(idx(o), canon(pbv(&file_path)), content@),
{}

// ---- histories of DATABASE states ------------------------------------------------------------------------------------------
/// the index part of analyze_file's proved postcondition as a relation between the database before (o) and after (s)
/// for (path p, text) -- the analyze_file_post of prelude/main_spec_v2.rs (unit handlers_main: did_open_post /
/// did_change_post say the database after a notification satisfies it) without the version / hypothesis clauses
pub open spec fn analyze_post_rel(o: FixtureDatabase, s: FixtureDatabase, p: PV, text: Seq<char>) -> bool {
    &&& !parse_ok(text) ==> s.defs() == o.defs() && s.fdefs() == o.fdefs() && s.uses() == o.uses() && s.byfix() == o.byfix()
    &&& parse_ok(text) ==> ({
            let f = canon(p);
            let body = body_of(ast_of(text));
            let d0 = clean_defs_names(o.defs(), f, sbucket(o.fdefs(), f));
            let fd0 = o.fdefs().remove(f);
            &&& s.defs() == push_defs(d0, stmts_vdefs(body, f, text))
            &&& s.fdefs() == add_fdefs(fd0, stmts_vdefs(body, f, text))
            &&& s.uses() == push_uses(o.uses().remove(f), stmts_vuses(body, f, text))
            &&& s.byfix() == push_byfix(clean_byfix(o.byfix(), f), stmts_vuses(body, f, text))
        })
}
/// dbs[0] .. dbs[k] are the database states around k notifications (path, text) that reached analyze_file (didClose in
/// between changes no index map: lemma_C06_close_keeps_index of unit handlers_main)
pub open spec fn is_trace(dbs: Seq<FixtureDatabase>, ps: Seq<Ev>) -> bool {
    dbs.len() == ps.len() + 1 && forall|i: int| 0 <= i < ps.len() ==> analyze_post_rel(#[trigger] dbs[i], dbs[i + 1], ps[i].0, ps[i].1)
}
pub open spec fn canon_ev() -> spec_fn(Ev) -> Ev { |e: Ev| (canon(e.0), e.1) }
/// the events of a sequence of notifications: paths canonicalised
pub open spec fn canon_events(ps: Seq<Ev>) -> Seq<Ev> { ps.map_values(canon_ev()) }

//@tags C06 C10
/// ALL HISTORIES, at the level of the database: the index after any sequence of notifications is run(..) of the index
/// before, over the canonicalised events
pub proof fn lemma_trace_is_run(dbs: Seq<FixtureDatabase>, ps: Seq<Ev>)
    requires is_trace(dbs, ps)
    ensures idx(dbs.last()) == run(idx(dbs[0]), canon_events(ps))
    decreases ps.len()
{
    if ps.len() > 0 {
        let k = ps.len() as int;
        let dbs0 = dbs.drop_last();
        let ps0 = ps.drop_last();
        assert(is_trace(dbs0, ps0)) by {
            assert forall|i: int| 0 <= i < ps0.len() implies analyze_post_rel(#[trigger] dbs0[i], dbs0[i + 1], ps0[i].0, ps0[i].1) by {
                assert(dbs0[i] == dbs[i] && dbs0[i + 1] == dbs[i + 1] && ps0[i] == ps[i]);
                assert(analyze_post_rel(dbs[i], dbs[i + 1], ps[i].0, ps[i].1));
            }
        }
        lemma_trace_is_run(dbs0, ps0);
        assert(dbs0.last() == dbs[k - 1] && dbs0[0] == dbs[0]);
        assert(analyze_post_rel(dbs[k - 1], dbs[k], ps[k - 1].0, ps[k - 1].1));
        let ce = canon_events(ps);
        assert(ce.drop_last() =~= canon_events(ps0));
        assert(ce.last() == (canon(ps[k - 1].0), ps[k - 1].1));
        assert(idx(dbs[k]) == step(idx(dbs[k - 1]), canon(ps[k - 1].0), ps[k - 1].1));
    } else {
        assert(canon_events(ps) =~= Seq::<Ev>::empty());
    }
}
//@tags C06 C10
/// C06 at the level of the database: a server whose index was empty, after ANY sequence of didOpen / didChange
/// notifications, holds for every (canonical) file g exactly the entries of g's latest syntactically valid content
pub proof fn theorem_C06_database_after_any_history(dbs: Seq<FixtureDatabase>, ps: Seq<Ev>, g: PV, n: Seq<char>)
    requires is_trace(dbs, ps), idx(dbs[0]) == idx_empty(), visitors_file_local()
    ensures ({
        let db = dbs.last();
        let lv = last_valid(canon_events(ps), g);
        &&& bucket(db.defs(), n).filter(in_file(g)) == tdefs(g, lv, n)
        &&& sbucket(db.fdefs(), g) == tnames(g, lv)
        &&& bucket(db.uses(), g) == tuses(g, lv)
        &&& bucket(db.byfix(), n).filter(pair_in_file(g)) == tbyfix(g, lv, n)
        &&& w1(db.defs(), db.fdefs()) && wf_names(db.defs()) && mirror_strong(db.uses(), db.byfix())
    })
{
    lemma_trace_is_run(dbs, ps);
    theorem_C06_index_is_latest_valid_text(canon_events(ps), g, n);
    lemma_empty_inv();
    lemma_run_preserves_inv(idx_empty(), canon_events(ps));
}

// ---- which ANSWERS are insensitive to the one thing a fresh server may do differently (the interleaving of different
// files' entries inside a bucket): the order lemmas of unit resolver_core (prelude/order_l2.rs) -------------------------
//@tags C06
/// go-to-definition / references / completion resolution (op_resolve, unit resolver_core) of name n from any file gives
/// the same definition on the real history and on ANY fresh server with the same latest contents, PROVIDED the three
/// first-come-first-served choices agree (import branch = known finding F-01, plugin choice, third-party choice):
/// lemma_C08_resolve_order_independent.  Same-file and conftest-level choices never depend on it (next lemma).
pub proof fn lemma_C06_resolution_same_as_any_fresh_server(es1: Seq<Ev>, es2: Seq<Ev>, n: Seq<char>, file: PV, prov: spec_fn(PV) -> bool, fs: spec_fn(DefV) -> bool)
    requires visitors_file_local(), same_latest(es1, es2),
        first_match(bucket(run(idx_empty(), es1).defs, n), fs) == first_match(bucket(run(idx_empty(), es2).defs, n), fs),
        first_match(bucket(run(idx_empty(), es1).defs, n), p_plugin(fs)) == first_match(bucket(run(idx_empty(), es2).defs, n), p_plugin(fs)),
        first_match(bucket(run(idx_empty(), es1).defs, n), p_third(fs)) == first_match(bucket(run(idx_empty(), es2).defs, n), p_third(fs)),
    ensures op_resolve(bucket(run(idx_empty(), es1).defs, n), file, prov, fs) == op_resolve(bucket(run(idx_empty(), es2).defs, n), file, prov, fs)
{
    let b1 = bucket(run(idx_empty(), es1).defs, n);
    let b2 = bucket(run(idx_empty(), es2).defs, n);
    lemma_same_per_file2(es1, es2, n);
    lemma_C08_resolve_order_independent(b1, b2, file, prov, fs);
}
pub proof fn lemma_same_per_file2(es1: Seq<Ev>, es2: Seq<Ev>, n: Seq<char>)
    requires visitors_file_local(), same_latest(es1, es2)
    ensures same_per_file(bucket(run(idx_empty(), es1).defs, n), bucket(run(idx_empty(), es2).defs, n))
{
    let b1 = bucket(run(idx_empty(), es1).defs, n);
    let b2 = bucket(run(idx_empty(), es2).defs, n);
    assert forall|f: PV| #[trigger] b1.filter(in_file2(f)) == b2.filter(in_file2(f)) by {
        theorem_C06_same_as_any_fresh_server(es1, es2, n, f);
        lemma_filter_ext(b1, in_file(f), in_file2(f));
        lemma_filter_ext(b2, in_file(f), in_file2(f));
    }
}
//@tags C06
/// unconditionally order-insensitive: the same-file choice (best_same over the requesting file) and the choice at every
/// conftest level c (first_match pinned to c) -- lemma_best_same_per_file / lemma_first_match_per_file of resolver_core
pub proof fn lemma_C06_same_file_and_conftest_choices_same_as_any_fresh_server(es1: Seq<Ev>, es2: Seq<Ev>, n: Seq<char>, c: PV, fs: spec_fn(DefV) -> bool)
    requires visitors_file_local(), same_latest(es1, es2)
    ensures ({
        let b1 = bucket(run(idx_empty(), es1).defs, n);
        let b2 = bucket(run(idx_empty(), es2).defs, n);
        best_same(b1, p_same(c, fs)) == best_same(b2, p_same(c, fs)) && first_match(b1, p_same(c, fs)) == first_match(b2, p_same(c, fs))
    })
{
    let b1 = bucket(run(idx_empty(), es1).defs, n);
    let b2 = bucket(run(idx_empty(), es2).defs, n);
    lemma_same_per_file2(es1, es2, n);
    assert(b1.filter(in_file2(c)) == b2.filter(in_file2(c)));
    lemma_best_same_per_file(b1, c, fs);
    lemma_best_same_per_file(b2, c, fs);
    lemma_first_match_per_file(b1, c, fs);
    lemma_first_match_per_file(b2, c, fs);
}

// ---- vacuity guards: each of these must FAIL ---------------------------------------------------------------------------------
/// the history theorem from a start state WITHOUT W1 (stale definitions of g that file_definitions does not list survive)
proof fn canary_history_without_w1(s0: IdxV, es: Seq<Ev>, g: PV, n: Seq<char>)
    requires visitors_file_local(), last_valid(es, g) is Some
    ensures pdefs(run(s0, es), g, n) == tdefs(g, last_valid(es, g), n)
{
    if es.len() > 0 && parse_ok(es.last().1) && es.last().0 == g {
        lemma_push_defs_nf(clean_defs_names(run(s0, es.drop_last()).defs, g, sbucket(run(s0, es.drop_last()).fdefs, g)), vd(g, es.last().1), n);
    }
}
/// equality of the definitions map (bucket ORDER included) with ANY fresh server that has the same latest contents
proof fn canary_fresh_server_same_bucket_order(es1: Seq<Ev>, es2: Seq<Ev>)
    requires visitors_file_local(), same_latest(es1, es2)
    ensures run(idx_empty(), es1).defs == run(idx_empty(), es2).defs
{
    lemma_empty_inv();
    lemma_run_preserves_core(idx_empty(), es1);
    lemma_run_preserves_core(idx_empty(), es2);
}
/// an unparsable edit clears the file
proof fn canary_unparsable_edit_clears_file(s: IdxV, f: PV, t: Seq<char>, n: Seq<char>)
    requires inv(s), ev_local(f, t), !parse_ok(t)
    ensures pdefs(step(s, f, t), f, n) =~= Seq::<DefV>::empty()
{}
/// the invariant / the visitor hypothesis are contradictory
proof fn canary_inv_contradictory(s: IdxV, es: Seq<Ev>)
    requires inv(s), visitors_file_local(), s == run(idx_empty(), es), es.len() > 0, parse_ok(es.last().1), vd(es.last().0, es.last().1).len() > 0
    ensures false
{}
/// C10 (b) without W1: one more change makes the file's entries those of the text
proof fn canary_restore_without_w1(polluted: IdxV, f: PV, t: Seq<char>, n: Seq<char>)
    requires ev_local(f, t), parse_ok(t)
    ensures pdefs(step(polluted, f, t), f, n) == tdefs(f, Some(t), n)
{
    lemma_push_defs_nf(clean_defs_names(polluted.defs, f, sbucket(polluted.fdefs, f)), vd(f, t), n);
}
/// C10 (a) without the no-empty-bucket clauses: exact state equality from W1 and agreement outside f alone
proof fn canary_restore_exact_without_nonempty(polluted: IdxV, clean: IdxV, f: PV, t: Seq<char>)
    requires w1(polluted.defs, polluted.fdefs), w1(clean.defs, clean.fdefs), same_except(polluted, clean, f), ev_local(f, t), parse_ok(t)
    ensures step(polluted, f, t) == step(clean, f, t)
{
    lemma_step_nf(polluted, f, t);
    lemma_step_nf(clean, f, t);
}
/// idempotence without W1
proof fn canary_idempotent_without_w1(s: IdxV, f: PV, t: Seq<char>)
    requires ne4(s), ev_local(f, t), parse_ok(t)
    ensures step(step(s, f, t), f, t) == step(s, f, t)
{}
/// the superseded version is what stays
proof fn canary_superseded_version_survives(es: Seq<Ev>, f: PV, t1: Seq<char>, t2: Seq<char>, n: Seq<char>)
    requires visitors_file_local(), parse_ok(t1), parse_ok(t2)
    ensures pdefs(run(idx_empty(), es.push((f, t1)).push((f, t2))), f, n) == tdefs(f, Some(t1), n)
{
    theorem_C06_index_is_latest_valid_text(es.push((f, t1)).push((f, t2)), f, n);
}
/// a scan that visits a file twice is a history (FALSE: analyze_file_fresh keeps the first visit's definitions)
proof fn canary_scan_with_repeated_file_is_history(es: Seq<Ev>)
    requires visitors_file_local()
    ensures run_fresh(idx_empty(), es) == run(idx_empty(), es)
{}
/// a later event of ANOTHER file disturbs this file's entries (independence negated)
proof fn canary_other_file_event_changes_entries(s: IdxV, f: PV, g: PV, t: Seq<char>, n: Seq<char>)
    requires inv(s), ev_local(g, t), parse_ok(t), g != f, pdefs(s, f, n).len() > 0
    ensures pdefs(step(s, g, t), f, n) != pdefs(s, f, n)
{
    lemma_step_proj(s, g, t, f, n);
}

} // verus!
fn main() {}
