//@include prelude/header.rs
verus! {
//@include prelude/path.rs
//@include prelude/types.rs
//@include prelude/dashmap.rs

pub struct FixtureDatabase {
    pub usages: DashMap<PathBuf, Vec<FixtureUsage>>,
    pub usage_by_fixture: DashMap<String, Vec<(PathBuf, FixtureUsage)>>,
}

impl FixtureDatabase {
/*@ extract src/fixtures/analyzer.rs record_fixture_usage
@recv mut
@sig
    ensures
        final(self).usages.m().dom() == old(self).usages.m().dom().insert(pv(file_path)),
@*/
}
} // verus!
fn main() {}
