//@include prelude/header.rs
verus! {
//@include prelude/path.rs
//@include prelude/types.rs
//@include prelude/dashmap.rs
//@include prelude/hashset.rs

fn f(names: HashSet<String>) -> (n: usize)
{
    let ghost s0 = names.s();
    let mut n: usize = 0;
    for x in it: names
        invariant n <= it.index@, it.seq().len() == s0.len(), forall|i: int| 0 <= i < it.seq().len() ==> s0.contains(#[trigger] it.seq()[i]@),
    {
        if n < 1000 { n = n + 1; }
        assert(s0.contains(x@));
    }
    n
}
} // verus!
fn main() {}
