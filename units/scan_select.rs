//@include prelude/strstruct_header.rs
// Unit scan_select — property C13, SELECTION part (+ C11 no panic, C12 termination) of the workspace scan:
//   src/fixtures/scanner.rs  const SKIP_DIRECTORIES (proved == skip_names()), should_skip_directory (S1),
//                            scan_workspace_with_excludes (S2 collection, S3 analysis of the collected files that are
//                            NOT already in the file cache (open documents, C10) and readable, S4 stored root / missing
//                            root), scan_workspace.
//   L1: final state == op_scan(old state, root, patterns)  (operational spec below + prelude/scansel_spec.rs)
//   L2: prelude/scansel_l2.rs (precisely / never inside an ignored directory / relocation / excludes only remove) and
//       the lemmas at the end of this file (unreadable files are skipped without affecting the rest; C10: an open
//       document is left alone, every canonical path is analysed at most once).
//   assumed: prelude/scansel_shims.rs (walkdir, strip_prefix, canonicalize, to_string_lossy, glob matches,
//       read_to_string, AtomicUsize, Mutex::lock, Result::unwrap_or{,_else}), prelude/scansel_str.rs (str::starts_with /
//       ends_with / contains), the seven @wrapexpr helpers below (OsStr / io::ErrorKind expressions), the four callee
//       stubs (abstract effects), and the shared preludes path / path_ext / strings / glob / dashmap / hashset / atomic.
//   transformations beyond T1-T12: T-par — `files.par_iter().for_each(|path| { B })` is read as the sequential
//       `for path in files.iter() { B }` (two @replace lines; Verus cannot take a closure that mutates captured state,
//       and the callees write the database).  One sequential order in place of rayon's; a `return` inside B would be
//       read as a return from the function (B has none today; a mutant that adds one goes red, conservatively).
//   needs: tools/extract.py gen_item must accept an associated const (bracket depth 1) for `//@item … const`.
use std::sync::atomic::Ordering;
verus! {
global size_of usize == 8;  // A6: 64-bit target
pub mod pre {
use super::*;
//@include prelude/path.rs
//@include prelude/path_ext.rs
//@include prelude/types.rs
//@include prelude/dashmap.rs
//@include prelude/hashset.rs
//@include prelude/atomic.rs
//@include prelude/hof.rs
//@include prelude/strings.rs
//@include prelude/glob.rs
//@include prelude/scansel_str.rs
//@include prelude/scansel_shims.rs
//@include prelude/scansel_spec.rs
//@include prelude/scansel_l2.rs
#[verifier::external_type_specification] pub struct ExUndeclaredFixture(UndeclaredFixture);
} // mod pre
use pre::*;

broadcast use {axiom_path_as_path, axiom_pathbuf_ref_as_path, axiom_spat_str, lemma_lits_contains};

// src/fixtures/mod.rs, taken from the source at generation time
//@item src/fixtures/mod.rs struct EditableInstall

//@dbstruct definitions file_definitions usages usage_by_fixture file_cache undeclared_fixtures imports canonical_path_cache definitions_version site_packages_paths editable_install_roots workspace_root plugin_fixture_files

// ---- the database state the scan hands to its callees -------------------------------------------------------------
/// every modelled field except workspace_root (the one field the function under contract writes itself) and
/// canonical_path_cache (a memo cache: get_canonical_path fills it through `&self`, also for files the scan then leaves
/// alone; its content is the subject of unit memo_keys and no part of the outcome stated here — the field stays in the
/// struct so that a direct write by the scan is still seen: phase 1 keeps `*self` unchanged)
pub struct Rest {
    pub definitions: DashMap<String, Vec<FixtureDefinition>>,
    pub file_definitions: DashMap<PathBuf, HashSet<String>>,
    pub usages: DashMap<PathBuf, Vec<FixtureUsage>>,
    pub usage_by_fixture: DashMap<String, Vec<(PathBuf, FixtureUsage)>>,
    pub file_cache: DashMap<PathBuf, String>,
    pub undeclared_fixtures: DashMap<PathBuf, Vec<UndeclaredFixture>>,
    pub imports: DashMap<PathBuf, HashSet<String>>,
    pub definitions_version: AtomicU64,
    pub site_packages_paths: Vec<PathBuf>,
    pub editable_install_roots: Vec<EditableInstall>,
    pub plugin_fixture_files: DashMap<PathBuf, ()>,
}
pub open spec fn opt_pbv(o: Option<PathBuf>) -> Option<PV> { match o { Some(p) => Some(pbv(&p)), None => None } }
/// the effect of one call of the four callees on the database: abstract functions of what the callee is given and
/// of the state it starts from.  WHAT they do to the index is the subject of units analyze / visit / index_maint /
/// scan_imports; here only WHICH calls happen, in which order, on which path and text matters.
pub uninterp spec fn eff_fresh(r: Rest, ws: Option<PV>, file: PV, text: Seq<char>) -> Rest;     // analyze_file_fresh
pub uninterp spec fn eff_reanalyze(r: Rest, ws: Option<PV>, file: PV, text: Seq<char>) -> Rest; // analyze_file
pub uninterp spec fn eff_venv(r: Rest, ws: Option<PV>, root: PV) -> Rest;                       // scan_venv_fixtures
pub uninterp spec fn eff_imports(r: Rest, ws: Option<PV>, root: PV) -> Rest;                    // scan_imported_fixture_modules

/// which analysis phase 2 runs on a collected file (after fix F-10b): the CLEANING one when the index already holds
/// entries of the file (a document opened and closed again before the scan got here: closing keeps its entries), else
/// the fresh one
pub open spec fn has_entries(r: Rest, c: PV) -> bool { r.file_definitions.m().contains_key(c) || r.usages.m().contains_key(c) }
pub open spec fn eff_analyse(r: Rest, ws: Option<PV>, file: PV, text: Seq<char>) -> Rest {
    if has_entries(r, canon(file)) { eff_reanalyze(r, ws, file, text) } else { eff_fresh(r, ws, file, text) }
}
/// the keys of the file cache: the canonical paths of the documents whose text the database holds (opened in the
/// editor, or analysed earlier)
pub open spec fn cache_keys(r: Rest) -> Set<PV> { r.file_cache.m().dom() }
/// one step of phase 2 on a collected file: left alone when its canonical path is already a file-cache key (C10: the
/// editor's buffer stays indexed exactly once — the disk text is neither read nor analysed); otherwise analysed
/// (fresh) with the text read_to_string returns; a file that cannot be read (or is not UTF-8) contributes nothing
pub open spec fn op_step(r: Rest, ws: Option<PV>, f: PV) -> Rest {
    if cache_keys(r).contains(canon(f)) { r } else { match fs_read(f) { Some(t) => eff_analyse(r, ws, f, t), None => r } }
}
/// (S3) phase 2, sequential reading: the collected files in order
pub open spec fn op_analyse(r: Rest, ws: Option<PV>, files: Seq<PV>) -> Rest
    decreases files.len()
{
    if files.len() == 0 { r } else { op_step(op_analyse(r, ws, files.drop_last()), ws, files.last()) }
}
/// what analyze_file_fresh / analyze_file do to the KEYS of the file cache (insert under the canonical path, then
/// evict_cache_if_needed): nothing but k is added; while the cache holds at most MAX_FILE_CACHE_SIZE entries nothing
/// is evicted, so k IS a key afterwards
pub open spec fn cache_step(r: Rest, k: PV, r2: Rest) -> bool {
    &&& cache_keys(r2).subset_of(cache_keys(r).insert(k))
    &&& cache_keys(r).insert(k).len() <= max_file_cache() ==> cache_keys(r2) == cache_keys(r).insert(k)
}
/// (S4) the workspace root that is stored: the canonical form of the root, else the root as given
pub open spec fn op_stored_root(root: PV) -> PV { match fs_canonical(root) { Some(c) => c, None => root } }
/// the whole scan on the modelled state
pub open spec fn op_scan(r: Rest, root: PV, pats: Seq<Seq<char>>) -> Rest {
    let ws = Some(op_stored_root(root));
    if !fs_exists(root) { r } else { eff_imports(eff_venv(op_analyse(r, ws, op_select(root, pats)), ws, root), ws, root) }
}

impl FixtureDatabase {
    pub open spec fn rest(&self) -> Rest {
        Rest { definitions: self.definitions, file_definitions: self.file_definitions, usages: self.usages,
               usage_by_fixture: self.usage_by_fixture, file_cache: self.file_cache, undeclared_fixtures: self.undeclared_fixtures,
               imports: self.imports, definitions_version: self.definitions_version,
               site_packages_paths: self.site_packages_paths, editable_install_roots: self.editable_install_roots,
               plugin_fixture_files: self.plugin_fixture_files }
    }
    pub open spec fn ws(&self) -> Option<PV> { opt_pbv(self.workspace_root) }

    // ---- callee stubs: ASSUMED frame contracts with an abstract effect (C1..C4 in the report).  They are weaker than
    // the contracts proved for analyze_file / analyze_file_fresh in unit analyze (which speak about the content of the
    // index and carry a no-wrap precondition on the version counter) and for scan_imported_fixture_modules in unit
    // scan_imports: the state becomes eff_*(..) of what the callee is given; workspace_root is not written; C1 also says
    // what happens to the KEYS of file_cache (cache_step), C5 is get_canonical_path as an abstract function of the path.
    #[verifier::external_body]
    pub(crate) fn analyze_file_fresh(&mut self, file_path: PathBuf, content: &str)
        ensures final(self).rest() == eff_fresh(old(self).rest(), old(self).ws(), pbv(&file_path), content@),
            final(self).workspace_root == old(self).workspace_root,
            // the text is stored in file_cache under the canonical path (then evict_cache_if_needed)
            cache_step(old(self).rest(), canon(pbv(&file_path)), final(self).rest()),
    { unimplemented!() }
    #[verifier::external_body]
    pub fn analyze_file(&mut self, file_path: PathBuf, content: &str)
        ensures final(self).rest() == eff_reanalyze(old(self).rest(), old(self).ws(), pbv(&file_path), content@),
            final(self).workspace_root == old(self).workspace_root,
            cache_step(old(self).rest(), canon(pbv(&file_path)), final(self).rest()),
    { unimplemented!() }
    /// C5: `&self` — the write to canonical_path_cache (a memo, interior mutability) is not modelled
    #[verifier::external_body]
    pub(crate) fn get_canonical_path(&self, path: PathBuf) -> (r: PathBuf)
        ensures pbv(&r) == canon(pbv(&path)),
    { unimplemented!() }
    #[verifier::external_body]
    fn scan_venv_fixtures(&mut self, root_path: &Path)
        ensures final(self).rest() == eff_venv(old(self).rest(), old(self).ws(), pv(root_path)),
            final(self).workspace_root == old(self).workspace_root,
    { unimplemented!() }
    #[verifier::external_body]
    fn scan_imported_fixture_modules(&mut self, _root_path: &Path)
        ensures final(self).rest() == eff_imports(old(self).rest(), old(self).ws(), pv(_root_path)),
            final(self).workspace_root == old(self).workspace_root,
    { unimplemented!() }

//@item src/fixtures/scanner.rs const SKIP_DIRECTORIES ensures lit_views(Self::SKIP_DIRECTORIES@) =~= skip_names()

/*@ extract src/fixtures/scanner.rs should_skip_directory
@tags C13
@ret r
@sig
    ensures r == is_skip_name(dir_name@),
@*/

/*@ extract src/fixtures/scanner.rs scan_workspace_with_excludes
@tags C13 C10 C11 C12
@recv mut
@closure unwrap_or_else:1 |_e: std::io::Error| -> (r: PathBuf) ensures pbv(&r) == pv(root_path)
@closure filter_entry:1 |entry: &DirEntry| -> (b: bool) ensures b == entry_pred(*entry)
@wrapexpr 1 `entry.file_name().to_str()` => `Self::vp_entry_name(entry)` with fn vp_entry_name<'a>(entry: &'a DirEntry) -> (r: Option<&'a str>) ensures (match r { Some(s) => Some(s@), None => None::<Seq<char>> }) == entry_name(*entry)
@wrapexpr 1 `err .io_error() .is_some_and(|e| e.kind() == std::io::ErrorKind::PermissionDenied)` => `Self::vp_walk_err_is_perm(&err)` with fn vp_walk_err_is_perm(err: &WalkError) -> (r: bool)
@wrapexpr_opt 1 `below_root.components().any(|c| { c.as_os_str() .to_str() .is_some_and(Self::should_skip_directory) })` => `Self::vp_any_skip_component(below_root)` with fn vp_any_skip_component(below_root: &Path) -> (r: bool) ensures r == has_skip_component(pv(below_root))
@wrapexpr_opt 1 `path.components().any(|c| { c.as_os_str() .to_str() .is_some_and(Self::should_skip_directory) })` => `Self::vp_any_skip_component_abs(path)` with fn vp_any_skip_component_abs(path: &Path) -> (r: bool) ensures r == has_skip_component(pv(path))
@wrapexpr 1 `exclude_patterns.iter().any(|p| p.matches(&relative_str))` => `Self::vp_matches_any(exclude_patterns, &relative_str)` with fn vp_matches_any(exclude_patterns: &[Pattern], relative_str: &std::borrow::Cow<'_, str>) -> (r: bool) ensures r == any_glob_match(pat_views(exclude_patterns@), cow_pv(*relative_str))
@wrapexpr 1 `path.file_name().and_then(|n| n.to_str())` => `Self::vp_file_name_str(path)` with fn vp_file_name_str<'a>(path: &'a Path) -> (r: Option<&'a str>) ensures (match r { Some(s) => Some(s@), None => None::<Seq<char>> }) == file_name_v(pv(path))
@wrapexpr 1 `err.kind() == std::io::ErrorKind::PermissionDenied` => `Self::vp_io_err_is_perm(&err)` with fn vp_io_err_is_perm(err: &std::io::Error) -> (r: bool)
@replace 1 `files_to_process.par_iter().for_each(|path| {` => `for path in it2: files_to_process.iter() invariant it2.seq() == files_to_process@.as_ref(), files == pbv_seq(files_to_process@), self.workspace_root == db1.workspace_root, self.rest() == op_analyse(db1.rest(), db1.ws(), files.take(it2.index@ as int)) { proof { let k = it2.index@ as int; assert(*path == files_to_process@[k]); assert(files.take(k + 1).drop_last() =~= files.take(k)); assert(files.take(k + 1).last() == pbv(path)); }`
@replace 1 `}); let errors =` => `} let errors =`
@sig
    requires
        // C11: `skipped_dirs` is an i32 counter (debug builds panic on overflow); it counts walk entries
        walk(pv(root_path)).len() <= 0x7fff_ffff,
    ensures
        // (S4) the stored workspace root; (S2)+(S3) + phases 3, 4 on everything else
        final(self).ws() == Some(op_stored_root(pv(root_path))),
        final(self).rest() == op_scan(old(self).rest(), pv(root_path), pat_views(exclude_patterns@)),
@start
    let ghost root = pv(root_path);
    let ghost pats = pat_views(exclude_patterns@);
@after canonicalize 1
    let ghost db1 = *self;
    proof { assert(db1.rest() == old(self).rest()); assert(db1.ws() == Some(op_stored_root(root))); }
@after walker 1
    let ghost items = pruned(walk(root), entry_pred_fn());
    let ghost mut i: int = 0;
    proof {
        assert(walker.remaining() == pruned(walk(root), entry_pred_fn()));
        walk(root).lemma_filter_len(item_kept(entry_pred_fn()));
        assert(items.take(0) =~= Seq::<WalkItem>::empty());
        assert(pbv_seq(files_to_process@) =~= op_collect(root, pats, items.take(0)));
    }
@forloop 1 it
    proof { assert(items.take(i) =~= items); }
@loop 1
    invariant 0 <= i <= items.len(), it.remaining() == items.skip(i), items.len() <= 0x7fff_ffff,
        root == pv(root_path), pats == pat_views(exclude_patterns@), *self == db1,
        0 <= skipped_dirs <= i,
        pbv_seq(files_to_process@) == op_collect(root, pats, items.take(i)),
    ensures pbv_seq(files_to_process@) == op_collect(root, pats, items),
    decreases items.len() - i
@loopstart 1
    let ghost f0 = files_to_process@;
    let ghost item = items[i];
    proof {
        assert(entry == items[i]);
        lemma_collect_step(root, pats, items, i);
        i = i + 1;
    }
@after push 1
    proof { assert(pbv_seq(files_to_process@) =~= pbv_seq(f0).push(pv(path))); }
@before error_count 1
    let ghost files = pbv_seq(files_to_process@);
    proof { assert(files.take(0) =~= Seq::<PV>::empty()); }
@before permission_errors 1
    proof { assert(files.take(files.len() as int) =~= files); }
@*/

/*@ extract src/fixtures/scanner.rs scan_workspace
@tags C13
@recv mut
@sig
    requires walk(pv(root_path)).len() <= 0x7fff_ffff,
    ensures
        // no exclude patterns: exactly the scan with the empty pattern list
        final(self).ws() == Some(op_stored_root(pv(root_path))),
        final(self).rest() == op_scan(old(self).rest(), pv(root_path), no_pats()),
@end
    proof { assert forall|s: Seq<Pattern>| s.len() == 0 implies #[trigger] pat_views(s) == no_pats() by { assert(pat_views(s) =~= no_pats()); } }
@*/

/*@ extract src/fixtures/scanner.rs scan_workspace_with_excludes
@tags C13
@as canary_scan_contract_vacuous
@recv mut
@closure unwrap_or_else:1 |_e: std::io::Error| -> (r: PathBuf) ensures pbv(&r) == pv(root_path)
@closure filter_entry:1 |entry: &DirEntry| -> (b: bool) ensures b == entry_pred(*entry)
@wrapexpr 1 `entry.file_name().to_str()` => `Self::vp_entry_name_c(entry)` with fn vp_entry_name_c<'a>(entry: &'a DirEntry) -> (r: Option<&'a str>) ensures (match r { Some(s) => Some(s@), None => None::<Seq<char>> }) == entry_name(*entry)
@wrapexpr 1 `err .io_error() .is_some_and(|e| e.kind() == std::io::ErrorKind::PermissionDenied)` => `Self::vp_walk_err_is_perm_c(&err)` with fn vp_walk_err_is_perm_c(err: &WalkError) -> (r: bool)
@wrapexpr_opt 1 `below_root.components().any(|c| { c.as_os_str() .to_str() .is_some_and(Self::should_skip_directory) })` => `Self::vp_any_skip_component_c(below_root)` with fn vp_any_skip_component_c(below_root: &Path) -> (r: bool) ensures r == has_skip_component(pv(below_root))
@wrapexpr_opt 1 `path.components().any(|c| { c.as_os_str() .to_str() .is_some_and(Self::should_skip_directory) })` => `Self::vp_any_skip_component_abs_c(path)` with fn vp_any_skip_component_abs_c(path: &Path) -> (r: bool) ensures r == has_skip_component(pv(path))
@wrapexpr 1 `exclude_patterns.iter().any(|p| p.matches(&relative_str))` => `Self::vp_matches_any_c(exclude_patterns, &relative_str)` with fn vp_matches_any_c(exclude_patterns: &[Pattern], relative_str: &std::borrow::Cow<'_, str>) -> (r: bool) ensures r == any_glob_match(pat_views(exclude_patterns@), cow_pv(*relative_str))
@wrapexpr 1 `path.file_name().and_then(|n| n.to_str())` => `Self::vp_file_name_str_c(path)` with fn vp_file_name_str_c<'a>(path: &'a Path) -> (r: Option<&'a str>) ensures (match r { Some(s) => Some(s@), None => None::<Seq<char>> }) == file_name_v(pv(path))
@wrapexpr 1 `err.kind() == std::io::ErrorKind::PermissionDenied` => `Self::vp_io_err_is_perm_c(&err)` with fn vp_io_err_is_perm_c(err: &std::io::Error) -> (r: bool)
@replace 1 `files_to_process.par_iter().for_each(|path| {` => `for path in it2: files_to_process.iter() invariant it2.seq() == files_to_process@.as_ref(), files == pbv_seq(files_to_process@), self.workspace_root == db1.workspace_root, self.rest() == op_analyse(db1.rest(), db1.ws(), files.take(it2.index@ as int)) { proof { let k = it2.index@ as int; assert(*path == files_to_process@[k]); assert(files.take(k + 1).drop_last() =~= files.take(k)); assert(files.take(k + 1).last() == pbv(path)); }`
@replace 1 `}); let errors =` => `} let errors =`
@sig
    requires
        // C11: `skipped_dirs` is an i32 counter (debug builds panic on overflow); it counts walk entries
        walk(pv(root_path)).len() <= 0x7fff_ffff,
    ensures
        // exec canary: must FAIL (otherwise the assumed shim contracts / axioms / the precondition are contradictory)
        false,
@start
    let ghost root = pv(root_path);
    let ghost pats = pat_views(exclude_patterns@);
@after canonicalize 1
    let ghost db1 = *self;
    proof { assert(db1.rest() == old(self).rest()); assert(db1.ws() == Some(op_stored_root(root))); }
@after walker 1
    let ghost items = pruned(walk(root), entry_pred_fn());
    let ghost mut i: int = 0;
    proof {
        assert(walker.remaining() == pruned(walk(root), entry_pred_fn()));
        walk(root).lemma_filter_len(item_kept(entry_pred_fn()));
        assert(items.take(0) =~= Seq::<WalkItem>::empty());
        assert(pbv_seq(files_to_process@) =~= op_collect(root, pats, items.take(0)));
    }
@forloop 1 it
    proof { assert(items.take(i) =~= items); }
@loop 1
    invariant 0 <= i <= items.len(), it.remaining() == items.skip(i), items.len() <= 0x7fff_ffff,
        root == pv(root_path), pats == pat_views(exclude_patterns@), *self == db1,
        0 <= skipped_dirs <= i,
        pbv_seq(files_to_process@) == op_collect(root, pats, items.take(i)),
    ensures pbv_seq(files_to_process@) == op_collect(root, pats, items),
    decreases items.len() - i
@loopstart 1
    let ghost f0 = files_to_process@;
    let ghost item = items[i];
    proof {
        assert(entry == items[i]);
        lemma_collect_step(root, pats, items, i);
        i = i + 1;
    }
@after push 1
    proof { assert(pbv_seq(files_to_process@) =~= pbv_seq(f0).push(pv(path))); }
@before error_count 1
    let ghost files = pbv_seq(files_to_process@);
    proof { assert(files.take(0) =~= Seq::<PV>::empty()); }
@before permission_errors 1
    proof { assert(files.take(files.len() as int) =~= files); }
@*/
}

// ---- L2 on the database effect: property C13, "unreadable or non-UTF-8 files are skipped without affecting the rest"
pub open spec fn readable_fn() -> spec_fn(PV) -> bool { |p: PV| fs_read(p) is Some }
//@tags C13
/// phase 2 on the collected list is phase 2 on the list WITHOUT the unreadable files: a file whose read fails is
/// skipped, and the files after it meet exactly the state they would have met without it
pub proof fn lemma_C13_unreadable_files_are_skipped(r: Rest, ws: Option<PV>, files: Seq<PV>)
    ensures op_analyse(r, ws, files) == op_analyse(r, ws, files.filter(readable_fn())),
    decreases files.len(),
{
    reveal(Seq::filter);
    if files.len() > 0 {
        lemma_C13_unreadable_files_are_skipped(r, ws, files.drop_last());
        let f = files.drop_last().filter(readable_fn());
        if readable_fn()(files.last()) {
            assert(files.filter(readable_fn()) == f.push(files.last()));
            assert(f.push(files.last()).drop_last() =~= f);
            assert(f.push(files.last()).last() == files.last());
        } else {
            assert(files.filter(readable_fn()) == f);
        }
    }
}
//@tags C13
pub proof fn lemma_analyse_append(r: Rest, ws: Option<PV>, a: Seq<PV>, b: Seq<PV>)
    ensures op_analyse(r, ws, a + b) == op_analyse(op_analyse(r, ws, a), ws, b),
    decreases b.len(),
{
    if b.len() == 0 { assert(a + b =~= a); } else {
        assert((a + b).drop_last() =~= a + b.drop_last());
        assert((a + b).last() == b.last());
        lemma_analyse_append(r, ws, a, b.drop_last());
    }
}
//@tags C13
/// "without affecting the rest": one unreadable file anywhere in the list changes nothing — the files before it and
/// after it are analysed exactly as if it were not there
pub proof fn lemma_C13_unreadable_file_does_not_affect_the_rest(r: Rest, ws: Option<PV>, a: Seq<PV>, bad: PV, b: Seq<PV>)
    requires fs_read(bad) is None
    ensures op_analyse(r, ws, a + seq![bad] + b) == op_analyse(r, ws, a + b)
{
    lemma_analyse_append(r, ws, a + seq![bad], b);
    lemma_analyse_append(r, ws, a, seq![bad]);
    lemma_analyse_append(r, ws, a, b);
    assert(seq![bad].drop_last() =~= Seq::<PV>::empty());
    assert(seq![bad].last() == bad);
    assert(op_analyse(op_analyse(r, ws, a), ws, seq![bad]) == op_analyse(r, ws, a)) by { reveal_with_fuel(op_analyse, 3); }
}
//@tags C13
/// (S4) a root that does not exist: the workspace root is stored and NOTHING else happens (no walk, no analysis, no
/// venv / import scan) — read off the contract of scan_workspace_with_excludes
pub proof fn lemma_C13_missing_root_is_noop(r: Rest, root: PV, pats: Seq<Seq<char>>)
    requires !fs_exists(root) ensures op_scan(r, root, pats) == r
{}

// ---- L2, property C10 (and C13 "each once"): a document the editor already opened is left alone by the scan -------
/// the state phase 2 has reached when it comes to the i-th collected file
pub open spec fn state_at(r: Rest, ws: Option<PV>, files: Seq<PV>, i: int) -> Rest { op_analyse(r, ws, files.take(i)) }
/// the i-th collected file IS analysed (analyze_file_fresh is called on it): its canonical path is not a file-cache key
/// when its turn comes, and its read succeeds
pub open spec fn analysed_at(r: Rest, ws: Option<PV>, files: Seq<PV>, i: int) -> bool {
    !cache_keys(state_at(r, ws, files, i)).contains(canon(files[i])) && fs_read(files[i]) is Some
}
/// HYPOTHESIS H-key (the clause C1 of the analyze_file_fresh stub, for every state): the analysis stores the text under
/// the canonical path of the file; nothing else is added to the file cache; no eviction up to MAX_FILE_CACHE_SIZE keys
pub open spec fn fresh_cache_step() -> bool {
    forall|r: Rest, ws: Option<PV>, f: PV, t: Seq<char>| cache_step(r, canon(f), #[trigger] eff_analyse(r, ws, f, t))
}
/// the part of the database that belongs to the document with canonical path k: its cached text and its index entries
/// (definitions / usages / undeclared / imports recorded for k) — abstract
pub uninterp spec fn doc_part(r: Rest, k: PV) -> Rest;
/// HYPOTHESIS H-frame (a statement about analyze_file_fresh that no stub of this unit makes): the analysis of a file
/// whose canonical path is not k leaves the part of k alone, as long as k stays in the file cache
pub open spec fn fresh_frames_other_docs() -> bool {
    forall|r: Rest, ws: Option<PV>, f: PV, t: Seq<char>, k: PV|
        canon(f) != k && cache_keys(r).contains(k) && cache_keys(eff_analyse(r, ws, f, t)).contains(k)
            ==> #[trigger] doc_part(eff_analyse(r, ws, f, t), k) == doc_part(r, k)
}
/// every canonical path the run can put into the file cache, together with what is there at the start
pub open spec fn key_universe(r: Rest, files: Seq<PV>) -> Set<PV> { cache_keys(r).union(files.map_values(canon_fn()).to_set()) }
/// HYPOTHESIS H-fit: the file cache never has to evict during phase 2
pub open spec fn cache_fits(r: Rest, files: Seq<PV>) -> bool { key_universe(r, files).len() <= max_file_cache() }

proof fn lemma_take_step(r: Rest, ws: Option<PV>, files: Seq<PV>, i: int)
    requires 0 <= i < files.len()
    ensures state_at(r, ws, files, i + 1) == op_step(state_at(r, ws, files, i), ws, files[i])
{
    assert(files.take(i + 1).drop_last() =~= files.take(i));
    assert(files.take(i + 1).last() == files[i]);
}
/// the keys only grow during phase 2 and stay inside the universe (no eviction under H-fit)
proof fn lemma_keys_grow(r: Rest, ws: Option<PV>, files: Seq<PV>, i: int, j: int)
    requires fresh_cache_step(), cache_fits(r, files), 0 <= i <= j <= files.len(),
    ensures cache_keys(state_at(r, ws, files, i)).subset_of(cache_keys(state_at(r, ws, files, j))),
        cache_keys(state_at(r, ws, files, j)).subset_of(key_universe(r, files)),
    decreases j,
{
    let u = key_universe(r, files);
    if j == 0 {
        assert(files.take(0) =~= Seq::<PV>::empty());
    } else {
        lemma_keys_grow(r, ws, files, if i < j { i } else { j - 1 }, j - 1);
        lemma_take_step(r, ws, files, j - 1);
        let s0 = state_at(r, ws, files, j - 1);
        let f = files[j - 1];
        let c = canon(f);
        assert(u.contains(c)) by { assert(files.map_values(canon_fn())[j - 1] == c); }
        if !cache_keys(s0).contains(c) && fs_read(f) is Some {
            let s1 = eff_analyse(s0, ws, f, fs_read(f)->0);
            assert(cache_step(s0, c, s1));
            assert(cache_keys(s0).insert(c).subset_of(u));
            vstd::set_lib::lemma_len_subset(cache_keys(s0).insert(c), u);
        }
    }
}
//@tags C10 C13
/// C10 "the index reflects the editor's content for that document exactly once - never the older on-disk content,
/// never both" (scan side): a document whose canonical path k is a file-cache key when phase 2 starts — it was opened
/// in the editor before the scan reached it — is LEFT ALONE: no collected path with that canonical form is analysed
/// (its disk text is not even read), k is still a key afterwards, and (H-frame) the part of the database that belongs
/// to k is what it was.  Needs H-key (stub clause C1) and H-fit (no eviction: beyond 2000 cached files the open
/// document's key can be evicted and the scan then does analyse the disk text).
pub proof fn lemma_C10_open_document_is_left_alone(r: Rest, ws: Option<PV>, files: Seq<PV>, k: PV)
    requires fresh_cache_step(), cache_fits(r, files), cache_keys(r).contains(k),
    ensures
        forall|i: int| 0 <= i < files.len() && canon(#[trigger] files[i]) == k ==> !analysed_at(r, ws, files, i),
        cache_keys(op_analyse(r, ws, files)).contains(k),
        fresh_frames_other_docs() ==> doc_part(op_analyse(r, ws, files), k) == doc_part(r, k),
{
    assert(files.take(0) =~= Seq::<PV>::empty());
    assert(files.take(files.len() as int) =~= files);
    assert forall|i: int| 0 <= i <= files.len() implies cache_keys(#[trigger] state_at(r, ws, files, i)).contains(k) by {
        lemma_keys_grow(r, ws, files, 0, i);
    }
    if fresh_frames_other_docs() { lemma_doc_part_kept(r, ws, files, k, files.len() as int); }
}
proof fn lemma_doc_part_kept(r: Rest, ws: Option<PV>, files: Seq<PV>, k: PV, j: int)
    requires fresh_cache_step(), cache_fits(r, files), cache_keys(r).contains(k), fresh_frames_other_docs(), 0 <= j <= files.len(),
    ensures doc_part(state_at(r, ws, files, j), k) == doc_part(r, k),
    decreases j,
{
    if j == 0 { assert(files.take(0) =~= Seq::<PV>::empty()); } else {
        lemma_doc_part_kept(r, ws, files, k, j - 1);
        lemma_take_step(r, ws, files, j - 1);
        assert(files.take(0) =~= Seq::<PV>::empty());
        lemma_keys_grow(r, ws, files, 0, j - 1);
        lemma_keys_grow(r, ws, files, 0, j);
    }
}
//@tags C10 C13
/// "exactly once ... never both" / C13 "each once": two collected paths with the same canonical form (the same file
/// reached under two names) are never BOTH analysed — the analysis of the first put the key into the file cache
/// (H-key, stub clause C1), so the second is skipped.  Without C1 (or with eviction, H-fit) this cannot be stated.
pub proof fn lemma_C10_each_selected_file_analysed_at_most_once(r: Rest, ws: Option<PV>, files: Seq<PV>, i: int, j: int)
    requires fresh_cache_step(), cache_fits(r, files), 0 <= i < j < files.len(), canon(files[i]) == canon(files[j]),
    ensures !(analysed_at(r, ws, files, i) && analysed_at(r, ws, files, j)),
{
    if analysed_at(r, ws, files, i) {
        let c = canon(files[i]);
        let s0 = state_at(r, ws, files, i);
        lemma_take_step(r, ws, files, i);
        let s1 = eff_analyse(s0, ws, files[i], fs_read(files[i])->0);
        assert(state_at(r, ws, files, i + 1) == s1);
        lemma_keys_grow(r, ws, files, i, i);
        assert(cache_step(s0, c, s1));
        assert(key_universe(r, files).contains(c)) by { assert(files.map_values(canon_fn())[i] == c); }
        assert(cache_keys(s0).insert(c).subset_of(key_universe(r, files)));
        vstd::set_lib::lemma_len_subset(cache_keys(s0).insert(c), key_universe(r, files));
        assert(cache_keys(s1).contains(c));
        lemma_keys_grow(r, ws, files, i + 1, j);
    }
}
//@tags C10 C13
/// and a file that is neither open nor a second name of an earlier one IS analysed when its read succeeds: nothing is
/// lost by the pre-check (keys only come from the start state and from the analyses of phase 2 itself)
pub proof fn lemma_C10_closed_readable_file_is_analysed(r: Rest, ws: Option<PV>, files: Seq<PV>, j: int)
    requires fresh_cache_step(), 0 <= j < files.len(), fs_read(files[j]) is Some,
        !cache_keys(r).contains(canon(files[j])),
        forall|i: int| 0 <= i < j ==> canon(#[trigger] files[i]) != canon(files[j]),
    ensures analysed_at(r, ws, files, j),
{
    lemma_keys_from(r, ws, files, j, canon(files[j]));
}
proof fn lemma_keys_from(r: Rest, ws: Option<PV>, files: Seq<PV>, j: int, c: PV)
    requires fresh_cache_step(), 0 <= j <= files.len(), !cache_keys(r).contains(c),
        forall|i: int| 0 <= i < j ==> canon(#[trigger] files[i]) != c,
    ensures !cache_keys(state_at(r, ws, files, j)).contains(c),
    decreases j,
{
    if j == 0 { assert(files.take(0) =~= Seq::<PV>::empty()); } else {
        lemma_keys_from(r, ws, files, j - 1, c);
        lemma_take_step(r, ws, files, j - 1);
        let s0 = state_at(r, ws, files, j - 1);
        let f = files[j - 1];
        if !cache_keys(s0).contains(canon(f)) && fs_read(f) is Some {
            assert(cache_step(s0, canon(f), eff_analyse(s0, ws, f, fs_read(f)->0)));
        }
    }
}

// ---- vacuity guards: each of these must FAIL ----------------------------------------------------------------------
/// every name is an ignored directory
proof fn canary_every_name_is_skipped(n: Seq<char>) ensures is_skip_name(n) {}
/// every .py file is a pytest file
proof fn canary_every_py_file_is_selected(n: Seq<char>) requires sv_ends_with(n, ".py"@) ensures is_pytest_file_name(n) {}
/// test_ prefix alone is enough (the `.py` suffix is not needed)
proof fn canary_test_prefix_is_enough(n: Seq<char>) requires sv_starts_with(n, "test_"@) ensures is_pytest_file_name(n) {}
/// nothing is ever pruned
proof fn canary_nothing_pruned(root: PV) ensures pruned(walk(root), entry_pred_fn()) == walk(root) {}
/// relocation invariance would hold for the OLD test (all components of the absolute path, root entry not exempted)
proof fn canary_relocation_holds_for_old_test(r1: PV, r2: PV, pats: Seq<Seq<char>>)
    requires walks_correspond(r1, r2)
    ensures op_select_rel_old(r1, pats) == op_select_rel_old(r2, pats)
{
    let w1 = walk(r1); let w2 = walk(r2);
    lemma_C13_b_relocation(r1, r2, pats);
    assert forall|k: int| 0 <= k < w1.len() implies indexed_old_fn(r1, pats)(#[trigger] w1[k]) == indexed_old_fn(r2, pats)(w2[k]) by {
        lemma_corr_indexed(r1, r2, pats, w1[k], w2[k]);
    }
}
/// relocation invariance without the correspondence hypothesis
proof fn canary_relocation_without_hypothesis(r1: PV, r2: PV, pats: Seq<Seq<char>>)
    requires walk(r1).len() == walk(r2).len()
    ensures op_select_rel(r1, pats) == op_select_rel(r2, pats)
{}
/// an exclude pattern can add a file
proof fn canary_exclude_pattern_adds(root: PV, pats: Seq<Seq<char>>, it: WalkItem)
    requires indexed(root, no_pats(), it) ensures indexed(root, pats, it) {}
/// an unreadable file aborts the rest of phase 2
proof fn canary_unreadable_file_aborts(r: Rest, ws: Option<PV>, a: Seq<PV>, bad: PV, b: Seq<PV>)
    requires fs_read(bad) is None
    ensures op_analyse(r, ws, a + seq![bad] + b) == op_analyse(r, ws, a)
{}
/// the OLD behaviour: every readable collected file is analysed, open in the editor or not
proof fn canary_every_readable_file_is_analysed(r: Rest, ws: Option<PV>, f: PV)
    requires fs_read(f) is Some
    ensures op_analyse(r, ws, seq![f]) == eff_analyse(r, ws, f, fs_read(f)->0)
{
    assert(seq![f].drop_last() =~= Seq::<PV>::empty()); assert(seq![f].last() == f);
    reveal_with_fuel(op_analyse, 3);
}
/// an open document is re-read from disk after all (the pre-check looks at the raw path, not at the canonical one)
proof fn canary_open_document_left_alone_without_canon(r: Rest, ws: Option<PV>, files: Seq<PV>, k: PV, i: int)
    requires fresh_cache_step(), cache_fits(r, files), cache_keys(r).contains(k), 0 <= i < files.len(), files[i] == k
    ensures !analysed_at(r, ws, files, i)
{
    lemma_keys_grow(r, ws, files, 0, i);
    assert(files.take(0) =~= Seq::<PV>::empty());
}
/// "at most once" without the stub clause that the analysis inserts the cache key
proof fn canary_at_most_once_without_key_clause(r: Rest, ws: Option<PV>, files: Seq<PV>, i: int, j: int)
    requires cache_fits(r, files), 0 <= i < j < files.len(), canon(files[i]) == canon(files[j]),
    ensures !(analysed_at(r, ws, files, i) && analysed_at(r, ws, files, j)),
{}
/// the open document survives eviction (no H-fit)
proof fn canary_open_document_without_fit(r: Rest, ws: Option<PV>, files: Seq<PV>, k: PV)
    requires fresh_cache_step(), cache_keys(r).contains(k)
    ensures cache_keys(op_analyse(r, ws, files)).contains(k)
{}
/// the three hypotheses of the C10 lemmas are not contradictory
proof fn canary_C10_hypotheses_vacuous(r: Rest, files: Seq<PV>)
    requires fresh_cache_step(), fresh_frames_other_docs(), cache_fits(r, files)
    ensures false
{}
/// files are re-analysed (analyze_file) instead of analysed fresh
proof fn canary_reanalyze_is_fresh(r: Rest, ws: Option<PV>, f: PV, t: Seq<char>)
    ensures eff_fresh(r, ws, f, t) == eff_reanalyze(r, ws, f, t) {}
/// the scan of a missing root still walks
proof fn canary_missing_root_scans(r: Rest, root: PV, pats: Seq<Seq<char>>)
    requires !fs_exists(root) ensures op_scan(r, root, pats) == eff_imports(eff_venv(r, Some(op_stored_root(root)), root), Some(op_stored_root(root)), root) {}

/// C10 / C06 (after fix F-10b): a collected file that is NOT open but whose index entries are still there (opened and closed
/// again before the scan reached it) gets the CLEANING analysis of its disk text — its stale entries are replaced, not
/// added to; a file the index does not know gets the fresh analysis; an open document is left alone.
//@tags C10 C06
pub proof fn lemma_C10_closed_document_is_reanalysed(r: Rest, ws: Option<PV>, f: PV, t: Seq<char>)
    requires !cache_keys(r).contains(canon(f)), fs_read(f) == Some(t),
    ensures has_entries(r, canon(f)) ==> op_step(r, ws, f) == eff_reanalyze(r, ws, f, t),
            !has_entries(r, canon(f)) ==> op_step(r, ws, f) == eff_fresh(r, ws, f, t),
{
}
/// vacuity guard: the pre-repair behaviour (fresh analysis over leftover entries) is NOT what the contract says
pub proof fn canary_C10_closed_document_analysed_fresh(r: Rest, ws: Option<PV>, f: PV, t: Seq<char>)
    requires !cache_keys(r).contains(canon(f)), fs_read(f) == Some(t), has_entries(r, canon(f)),
    ensures op_step(r, ws, f) == eff_fresh(r, ws, f, t),
{
}
} // verus!
fn main() {}
