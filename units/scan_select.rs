//@include prelude/strstruct_header.rs
// Unit scan_select — property C13, SELECTION part (+ C11 no panic, C12 termination) of the workspace scan:
//   src/fixtures/scanner.rs  const SKIP_DIRECTORIES (proved == skip_names()), should_skip_directory (S1),
//                            scan_workspace_with_excludes (S2 collection, S3 analysis of selected ∩ readable, S4 stored
//                            root / missing root), scan_workspace.
//   L1: final state == op_scan(old state, root, patterns)  (operational spec below + prelude/scansel_spec.rs)
//   L2: prelude/scansel_l2.rs (precisely / never inside an ignored directory / relocation / excludes only remove) and
//       the lemmas at the end of this file (unreadable files are skipped without affecting the rest).
//   assumed: prelude/scansel_shims.rs (walkdir, strip_prefix, canonicalize, to_string_lossy, glob matches,
//       read_to_string, AtomicUsize, Mutex::lock, Result::unwrap_or{,_else}), prelude/scansel_str.rs (str::starts_with /
//       ends_with / contains), the seven @wrapexpr helpers below (OsStr / io::ErrorKind expressions), the four callee
//       stubs (abstract effects), and the shared preludes path / path_ext / strings / glob / dashmap / hashset / atomic.
//   transformations beyond T1-T12: T-par — `files.par_iter().for_each(|path| { B })` is read as the sequential
//       `for path in files.iter() { B }` (two @replace lines; Verus cannot take a closure that mutates captured state,
//       and the callees write the database).  One sequential order in place of rayon's; a `return` inside B would be
//       read as a return from the function (B has none today; a mutant that adds one goes red, conservatively).
//   needs: tools/extract.py gen_item must accept an associated const (bracket depth 1) for `//@item … const`.
use std::sync::atomic::Ordering;
verus! {
global size_of usize == 8;  // A6: 64-bit target
pub mod pre {
use super::*;
//@include prelude/path.rs
//@include prelude/path_ext.rs
//@include prelude/types.rs
//@include prelude/dashmap.rs
//@include prelude/hashset.rs
//@include prelude/atomic.rs
//@include prelude/hof.rs
//@include prelude/strings.rs
//@include prelude/glob.rs
//@include prelude/scansel_str.rs
//@include prelude/scansel_shims.rs
//@include prelude/scansel_spec.rs
//@include prelude/scansel_l2.rs
#[verifier::external_type_specification] pub struct ExUndeclaredFixture(UndeclaredFixture);
} // mod pre
use pre::*;

broadcast use {axiom_path_as_path, axiom_pathbuf_ref_as_path, axiom_spat_str, lemma_lits_contains};

// src/fixtures/mod.rs, taken from the source at generation time
//@item src/fixtures/mod.rs struct EditableInstall

//@dbstruct definitions file_definitions usages usage_by_fixture file_cache undeclared_fixtures imports canonical_path_cache definitions_version site_packages_paths editable_install_roots workspace_root plugin_fixture_files

// ---- the database state the scan hands to its callees -------------------------------------------------------------
/// every modelled field except workspace_root (the one field the function under contract writes itself)
pub struct Rest {
    pub definitions: DashMap<String, Vec<FixtureDefinition>>,
    pub file_definitions: DashMap<PathBuf, HashSet<String>>,
    pub usages: DashMap<PathBuf, Vec<FixtureUsage>>,
    pub usage_by_fixture: DashMap<String, Vec<(PathBuf, FixtureUsage)>>,
    pub file_cache: DashMap<PathBuf, String>,
    pub undeclared_fixtures: DashMap<PathBuf, Vec<UndeclaredFixture>>,
    pub imports: DashMap<PathBuf, HashSet<String>>,
    pub canonical_path_cache: DashMap<PathBuf, PathBuf>,
    pub definitions_version: AtomicU64,
    pub site_packages_paths: Vec<PathBuf>,
    pub editable_install_roots: Vec<EditableInstall>,
    pub plugin_fixture_files: DashMap<PathBuf, ()>,
}
pub open spec fn opt_pbv(o: Option<PathBuf>) -> Option<PV> { match o { Some(p) => Some(pbv(&p)), None => None } }
/// the effect of one call of the four callees on the database: abstract functions of what the callee is given and
/// of the state it starts from.  WHAT they do to the index is the subject of units analyze / visit / index_maint /
/// scan_imports; here only WHICH calls happen, in which order, on which path and text matters.
pub uninterp spec fn eff_fresh(r: Rest, ws: Option<PV>, file: PV, text: Seq<char>) -> Rest;     // analyze_file_fresh
pub uninterp spec fn eff_reanalyze(r: Rest, ws: Option<PV>, file: PV, text: Seq<char>) -> Rest; // analyze_file
pub uninterp spec fn eff_venv(r: Rest, ws: Option<PV>, root: PV) -> Rest;                       // scan_venv_fixtures
pub uninterp spec fn eff_imports(r: Rest, ws: Option<PV>, root: PV) -> Rest;                    // scan_imported_fixture_modules

/// (S3) phase 2, sequential reading: the collected files in order; a file is analysed (fresh) with the text
/// read_to_string returns for it; a file that cannot be read (or is not UTF-8) contributes nothing
pub open spec fn op_analyse(r: Rest, ws: Option<PV>, files: Seq<PV>) -> Rest
    decreases files.len()
{
    if files.len() == 0 { r } else {
        let r1 = op_analyse(r, ws, files.drop_last());
        match fs_read(files.last()) { Some(t) => eff_fresh(r1, ws, files.last(), t), None => r1 }
    }
}
/// (S4) the workspace root that is stored: the canonical form of the root, else the root as given
pub open spec fn op_stored_root(root: PV) -> PV { match fs_canonical(root) { Some(c) => c, None => root } }
/// the whole scan on the modelled state
pub open spec fn op_scan(r: Rest, root: PV, pats: Seq<Seq<char>>) -> Rest {
    let ws = Some(op_stored_root(root));
    if !fs_exists(root) { r } else { eff_imports(eff_venv(op_analyse(r, ws, op_select(root, pats)), ws, root), ws, root) }
}

impl FixtureDatabase {
    pub open spec fn rest(&self) -> Rest {
        Rest { definitions: self.definitions, file_definitions: self.file_definitions, usages: self.usages,
               usage_by_fixture: self.usage_by_fixture, file_cache: self.file_cache, undeclared_fixtures: self.undeclared_fixtures,
               imports: self.imports, canonical_path_cache: self.canonical_path_cache, definitions_version: self.definitions_version,
               site_packages_paths: self.site_packages_paths, editable_install_roots: self.editable_install_roots,
               plugin_fixture_files: self.plugin_fixture_files }
    }
    pub open spec fn ws(&self) -> Option<PV> { opt_pbv(self.workspace_root) }

    // ---- callee stubs: ASSUMED frame contracts with an abstract effect (C1..C4 in the report).  They are weaker than
    // the contracts proved for analyze_file / analyze_file_fresh in unit analyze (which speak about the content of the
    // index and carry a no-wrap precondition on the version counter) and for scan_imported_fixture_modules in unit
    // scan_imports: the state becomes eff_*(..) of what the callee is given; workspace_root is not written.
    #[verifier::external_body]
    pub(crate) fn analyze_file_fresh(&mut self, file_path: PathBuf, content: &str)
        ensures final(self).rest() == eff_fresh(old(self).rest(), old(self).ws(), pbv(&file_path), content@),
            final(self).workspace_root == old(self).workspace_root,
    { unimplemented!() }
    #[verifier::external_body]
    pub fn analyze_file(&mut self, file_path: PathBuf, content: &str)
        ensures final(self).rest() == eff_reanalyze(old(self).rest(), old(self).ws(), pbv(&file_path), content@),
            final(self).workspace_root == old(self).workspace_root,
    { unimplemented!() }
    #[verifier::external_body]
    fn scan_venv_fixtures(&mut self, root_path: &Path)
        ensures final(self).rest() == eff_venv(old(self).rest(), old(self).ws(), pv(root_path)),
            final(self).workspace_root == old(self).workspace_root,
    { unimplemented!() }
    #[verifier::external_body]
    fn scan_imported_fixture_modules(&mut self, _root_path: &Path)
        ensures final(self).rest() == eff_imports(old(self).rest(), old(self).ws(), pv(_root_path)),
            final(self).workspace_root == old(self).workspace_root,
    { unimplemented!() }

//@item src/fixtures/scanner.rs const SKIP_DIRECTORIES ensures lit_views(Self::SKIP_DIRECTORIES@) =~= skip_names()

/*@ extract src/fixtures/scanner.rs should_skip_directory
@tags C13
@ret r
@sig
    ensures r == is_skip_name(dir_name@),
@*/

/*@ extract src/fixtures/scanner.rs scan_workspace_with_excludes
@tags C13 C11 C12
@recv mut
@closure unwrap_or_else:1 |_e: std::io::Error| -> (r: PathBuf) ensures pbv(&r) == pv(root_path)
@closure filter_entry:1 |entry: &DirEntry| -> (b: bool) ensures b == entry_pred(*entry)
@wrapexpr 1 `entry.file_name().to_str()` => `Self::vp_entry_name(entry)` with fn vp_entry_name<'a>(entry: &'a DirEntry) -> (r: Option<&'a str>) ensures (match r { Some(s) => Some(s@), None => None::<Seq<char>> }) == entry_name(*entry)
@wrapexpr 1 `err .io_error() .is_some_and(|e| e.kind() == std::io::ErrorKind::PermissionDenied)` => `Self::vp_walk_err_is_perm(&err)` with fn vp_walk_err_is_perm(err: &WalkError) -> (r: bool)
@wrapexpr_opt 1 `below_root.components().any(|c| { c.as_os_str() .to_str() .is_some_and(Self::should_skip_directory) })` => `Self::vp_any_skip_component(below_root)` with fn vp_any_skip_component(below_root: &Path) -> (r: bool) ensures r == has_skip_component(pv(below_root))
@wrapexpr_opt 1 `path.components().any(|c| { c.as_os_str() .to_str() .is_some_and(Self::should_skip_directory) })` => `Self::vp_any_skip_component_abs(path)` with fn vp_any_skip_component_abs(path: &Path) -> (r: bool) ensures r == has_skip_component(pv(path))
@wrapexpr 1 `exclude_patterns.iter().any(|p| p.matches(&relative_str))` => `Self::vp_matches_any(exclude_patterns, &relative_str)` with fn vp_matches_any(exclude_patterns: &[Pattern], relative_str: &std::borrow::Cow<'_, str>) -> (r: bool) ensures r == any_glob_match(pat_views(exclude_patterns@), cow_pv(*relative_str))
@wrapexpr 1 `path.file_name().and_then(|n| n.to_str())` => `Self::vp_file_name_str(path)` with fn vp_file_name_str<'a>(path: &'a Path) -> (r: Option<&'a str>) ensures (match r { Some(s) => Some(s@), None => None::<Seq<char>> }) == file_name_v(pv(path))
@wrapexpr 1 `err.kind() == std::io::ErrorKind::PermissionDenied` => `Self::vp_io_err_is_perm(&err)` with fn vp_io_err_is_perm(err: &std::io::Error) -> (r: bool)
@replace 1 `files_to_process.par_iter().for_each(|path| {` => `for path in it2: files_to_process.iter() invariant it2.seq() == files_to_process@.as_ref(), files == pbv_seq(files_to_process@), self.workspace_root == db1.workspace_root, self.rest() == op_analyse(db1.rest(), db1.ws(), files.take(it2.index@ as int)) {`
@replace 1 `}); let errors =` => `} let errors =`
@sig
    requires
        // C11: `skipped_dirs` is an i32 counter (debug builds panic on overflow); it counts walk entries
        walk(pv(root_path)).len() <= 0x7fff_ffff,
    ensures
        // (S4) the stored workspace root; (S2)+(S3) + phases 3, 4 on everything else
        final(self).ws() == Some(op_stored_root(pv(root_path))),
        final(self).rest() == op_scan(old(self).rest(), pv(root_path), pat_views(exclude_patterns@)),
@start
    let ghost root = pv(root_path);
    let ghost pats = pat_views(exclude_patterns@);
@after canonicalize 1
    let ghost db1 = *self;
    proof { assert(db1.rest() == old(self).rest()); assert(db1.ws() == Some(op_stored_root(root))); }
@after walker 1
    let ghost items = pruned(walk(root), entry_pred_fn());
    let ghost mut i: int = 0;
    proof {
        assert(walker.remaining() == pruned(walk(root), entry_pred_fn()));
        walk(root).lemma_filter_len(item_kept(entry_pred_fn()));
        assert(items.take(0) =~= Seq::<WalkItem>::empty());
        assert(pbv_seq(files_to_process@) =~= op_collect(root, pats, items.take(0)));
    }
@forloop 1 it
    proof { assert(items.take(i) =~= items); }
@loop 1
    invariant 0 <= i <= items.len(), it.remaining() == items.skip(i), items.len() <= 0x7fff_ffff,
        root == pv(root_path), pats == pat_views(exclude_patterns@), *self == db1,
        0 <= skipped_dirs <= i,
        pbv_seq(files_to_process@) == op_collect(root, pats, items.take(i)),
    ensures pbv_seq(files_to_process@) == op_collect(root, pats, items),
    decreases items.len() - i
@loopstart 1
    let ghost f0 = files_to_process@;
    let ghost item = items[i];
    proof {
        assert(entry == items[i]);
        lemma_collect_step(root, pats, items, i);
        i = i + 1;
    }
@after push 1
    proof { assert(pbv_seq(files_to_process@) =~= pbv_seq(f0).push(pv(path))); }
@before error_count 1
    let ghost files = pbv_seq(files_to_process@);
    proof { assert(files.take(0) =~= Seq::<PV>::empty()); }
@after read_to_string 1
    proof {
        let k = it2.index@ as int;
        assert(*path == files_to_process@[k]);
        assert(files.take(k + 1).drop_last() =~= files.take(k));
        assert(files.take(k + 1).last() == pbv(path));
    }
@before permission_errors 1
    proof { assert(files.take(files.len() as int) =~= files); }
@*/

/*@ extract src/fixtures/scanner.rs scan_workspace
@tags C13
@recv mut
@sig
    requires walk(pv(root_path)).len() <= 0x7fff_ffff,
    ensures
        // no exclude patterns: exactly the scan with the empty pattern list
        final(self).ws() == Some(op_stored_root(pv(root_path))),
        final(self).rest() == op_scan(old(self).rest(), pv(root_path), no_pats()),
@end
    proof { assert forall|s: Seq<Pattern>| s.len() == 0 implies #[trigger] pat_views(s) == no_pats() by { assert(pat_views(s) =~= no_pats()); } }
@*/

/*@ extract src/fixtures/scanner.rs scan_workspace_with_excludes
@tags C13
@as canary_scan_contract_vacuous
@recv mut
@closure unwrap_or_else:1 |_e: std::io::Error| -> (r: PathBuf) ensures pbv(&r) == pv(root_path)
@closure filter_entry:1 |entry: &DirEntry| -> (b: bool) ensures b == entry_pred(*entry)
@wrapexpr 1 `entry.file_name().to_str()` => `Self::vp_entry_name_c(entry)` with fn vp_entry_name_c<'a>(entry: &'a DirEntry) -> (r: Option<&'a str>) ensures (match r { Some(s) => Some(s@), None => None::<Seq<char>> }) == entry_name(*entry)
@wrapexpr 1 `err .io_error() .is_some_and(|e| e.kind() == std::io::ErrorKind::PermissionDenied)` => `Self::vp_walk_err_is_perm_c(&err)` with fn vp_walk_err_is_perm_c(err: &WalkError) -> (r: bool)
@wrapexpr_opt 1 `below_root.components().any(|c| { c.as_os_str() .to_str() .is_some_and(Self::should_skip_directory) })` => `Self::vp_any_skip_component_c(below_root)` with fn vp_any_skip_component_c(below_root: &Path) -> (r: bool) ensures r == has_skip_component(pv(below_root))
@wrapexpr_opt 1 `path.components().any(|c| { c.as_os_str() .to_str() .is_some_and(Self::should_skip_directory) })` => `Self::vp_any_skip_component_abs_c(path)` with fn vp_any_skip_component_abs_c(path: &Path) -> (r: bool) ensures r == has_skip_component(pv(path))
@wrapexpr 1 `exclude_patterns.iter().any(|p| p.matches(&relative_str))` => `Self::vp_matches_any_c(exclude_patterns, &relative_str)` with fn vp_matches_any_c(exclude_patterns: &[Pattern], relative_str: &std::borrow::Cow<'_, str>) -> (r: bool) ensures r == any_glob_match(pat_views(exclude_patterns@), cow_pv(*relative_str))
@wrapexpr 1 `path.file_name().and_then(|n| n.to_str())` => `Self::vp_file_name_str_c(path)` with fn vp_file_name_str_c<'a>(path: &'a Path) -> (r: Option<&'a str>) ensures (match r { Some(s) => Some(s@), None => None::<Seq<char>> }) == file_name_v(pv(path))
@wrapexpr 1 `err.kind() == std::io::ErrorKind::PermissionDenied` => `Self::vp_io_err_is_perm_c(&err)` with fn vp_io_err_is_perm_c(err: &std::io::Error) -> (r: bool)
@replace 1 `files_to_process.par_iter().for_each(|path| {` => `for path in it2: files_to_process.iter() invariant it2.seq() == files_to_process@.as_ref(), files == pbv_seq(files_to_process@), self.workspace_root == db1.workspace_root, self.rest() == op_analyse(db1.rest(), db1.ws(), files.take(it2.index@ as int)) {`
@replace 1 `}); let errors =` => `} let errors =`
@sig
    requires
        // C11: `skipped_dirs` is an i32 counter (debug builds panic on overflow); it counts walk entries
        walk(pv(root_path)).len() <= 0x7fff_ffff,
    ensures
        // exec canary: must FAIL (otherwise the assumed shim contracts / axioms / the precondition are contradictory)
        false,
@start
    let ghost root = pv(root_path);
    let ghost pats = pat_views(exclude_patterns@);
@after canonicalize 1
    let ghost db1 = *self;
    proof { assert(db1.rest() == old(self).rest()); assert(db1.ws() == Some(op_stored_root(root))); }
@after walker 1
    let ghost items = pruned(walk(root), entry_pred_fn());
    let ghost mut i: int = 0;
    proof {
        assert(walker.remaining() == pruned(walk(root), entry_pred_fn()));
        walk(root).lemma_filter_len(item_kept(entry_pred_fn()));
        assert(items.take(0) =~= Seq::<WalkItem>::empty());
        assert(pbv_seq(files_to_process@) =~= op_collect(root, pats, items.take(0)));
    }
@forloop 1 it
    proof { assert(items.take(i) =~= items); }
@loop 1
    invariant 0 <= i <= items.len(), it.remaining() == items.skip(i), items.len() <= 0x7fff_ffff,
        root == pv(root_path), pats == pat_views(exclude_patterns@), *self == db1,
        0 <= skipped_dirs <= i,
        pbv_seq(files_to_process@) == op_collect(root, pats, items.take(i)),
    ensures pbv_seq(files_to_process@) == op_collect(root, pats, items),
    decreases items.len() - i
@loopstart 1
    let ghost f0 = files_to_process@;
    let ghost item = items[i];
    proof {
        assert(entry == items[i]);
        lemma_collect_step(root, pats, items, i);
        i = i + 1;
    }
@after push 1
    proof { assert(pbv_seq(files_to_process@) =~= pbv_seq(f0).push(pv(path))); }
@before error_count 1
    let ghost files = pbv_seq(files_to_process@);
    proof { assert(files.take(0) =~= Seq::<PV>::empty()); }
@after read_to_string 1
    proof {
        let k = it2.index@ as int;
        assert(*path == files_to_process@[k]);
        assert(files.take(k + 1).drop_last() =~= files.take(k));
        assert(files.take(k + 1).last() == pbv(path));
    }
@before permission_errors 1
    proof { assert(files.take(files.len() as int) =~= files); }
@*/
}

// ---- L2 on the database effect: property C13, "unreadable or non-UTF-8 files are skipped without affecting the rest"
pub open spec fn readable_fn() -> spec_fn(PV) -> bool { |p: PV| fs_read(p) is Some }
/// every file of the list analysed (fresh) with its disk text, in order — defined for lists of readable files
pub open spec fn op_analyse_all(r: Rest, ws: Option<PV>, files: Seq<PV>) -> Rest
    decreases files.len()
{
    if files.len() == 0 { r } else { eff_fresh(op_analyse_all(r, ws, files.drop_last()), ws, files.last(), fs_read(files.last())->0) }
}
//@tags C13
/// phase 2 analyses exactly the collected files whose read succeeds (selected ∩ readable), each once, in order, each
/// with the text read from disk: the result is the one obtained from the list WITHOUT the unreadable files
pub proof fn lemma_C13_unreadable_files_are_skipped(r: Rest, ws: Option<PV>, files: Seq<PV>)
    ensures op_analyse(r, ws, files) == op_analyse_all(r, ws, files.filter(readable_fn())),
    decreases files.len(),
{
    reveal(Seq::filter);
    if files.len() > 0 {
        lemma_C13_unreadable_files_are_skipped(r, ws, files.drop_last());
        let f = files.drop_last().filter(readable_fn());
        if readable_fn()(files.last()) {
            assert(files.filter(readable_fn()) == f.push(files.last()));
            assert(f.push(files.last()).drop_last() =~= f);
            assert(f.push(files.last()).last() == files.last());
        } else {
            assert(files.filter(readable_fn()) == f);
        }
    }
}
//@tags C13
pub proof fn lemma_analyse_append(r: Rest, ws: Option<PV>, a: Seq<PV>, b: Seq<PV>)
    ensures op_analyse(r, ws, a + b) == op_analyse(op_analyse(r, ws, a), ws, b),
    decreases b.len(),
{
    if b.len() == 0 { assert(a + b =~= a); } else {
        assert((a + b).drop_last() =~= a + b.drop_last());
        assert((a + b).last() == b.last());
        lemma_analyse_append(r, ws, a, b.drop_last());
    }
}
//@tags C13
/// "without affecting the rest": one unreadable file anywhere in the list changes nothing — the files before it and
/// after it are analysed exactly as if it were not there
pub proof fn lemma_C13_unreadable_file_does_not_affect_the_rest(r: Rest, ws: Option<PV>, a: Seq<PV>, bad: PV, b: Seq<PV>)
    requires fs_read(bad) is None
    ensures op_analyse(r, ws, a + seq![bad] + b) == op_analyse(r, ws, a + b)
{
    lemma_analyse_append(r, ws, a + seq![bad], b);
    lemma_analyse_append(r, ws, a, seq![bad]);
    lemma_analyse_append(r, ws, a, b);
    assert(seq![bad].drop_last() =~= Seq::<PV>::empty());
    assert(seq![bad].last() == bad);
    assert(op_analyse(op_analyse(r, ws, a), ws, seq![bad]) == op_analyse(r, ws, a)) by { reveal_with_fuel(op_analyse, 3); }
}
//@tags C13
/// (S4) a root that does not exist: the workspace root is stored and NOTHING else happens (no walk, no analysis, no
/// venv / import scan) — read off the contract of scan_workspace_with_excludes
pub proof fn lemma_C13_missing_root_is_noop(r: Rest, root: PV, pats: Seq<Seq<char>>)
    requires !fs_exists(root) ensures op_scan(r, root, pats) == r
{}

// ---- vacuity guards: each of these must FAIL ----------------------------------------------------------------------
/// every name is an ignored directory
proof fn canary_every_name_is_skipped(n: Seq<char>) ensures is_skip_name(n) {}
/// every .py file is a pytest file
proof fn canary_every_py_file_is_selected(n: Seq<char>) requires sv_ends_with(n, ".py"@) ensures is_pytest_file_name(n) {}
/// test_ prefix alone is enough (the `.py` suffix is not needed)
proof fn canary_test_prefix_is_enough(n: Seq<char>) requires sv_starts_with(n, "test_"@) ensures is_pytest_file_name(n) {}
/// nothing is ever pruned
proof fn canary_nothing_pruned(root: PV) ensures pruned(walk(root), entry_pred_fn()) == walk(root) {}
/// relocation invariance would hold for the OLD test (all components of the absolute path, root entry not exempted)
proof fn canary_relocation_holds_for_old_test(r1: PV, r2: PV, pats: Seq<Seq<char>>)
    requires walks_correspond(r1, r2)
    ensures op_select_rel_old(r1, pats) == op_select_rel_old(r2, pats)
{
    let w1 = walk(r1); let w2 = walk(r2);
    lemma_C13_b_relocation(r1, r2, pats);
    assert forall|k: int| 0 <= k < w1.len() implies indexed_old_fn(r1, pats)(#[trigger] w1[k]) == indexed_old_fn(r2, pats)(w2[k]) by {
        lemma_corr_indexed(r1, r2, pats, w1[k], w2[k]);
    }
}
/// relocation invariance without the correspondence hypothesis
proof fn canary_relocation_without_hypothesis(r1: PV, r2: PV, pats: Seq<Seq<char>>)
    requires walk(r1).len() == walk(r2).len()
    ensures op_select_rel(r1, pats) == op_select_rel(r2, pats)
{}
/// an exclude pattern can add a file
proof fn canary_exclude_pattern_adds(root: PV, pats: Seq<Seq<char>>, it: WalkItem)
    requires indexed(root, no_pats(), it) ensures indexed(root, pats, it) {}
/// an unreadable file aborts the rest of phase 2
proof fn canary_unreadable_file_aborts(r: Rest, ws: Option<PV>, a: Seq<PV>, bad: PV, b: Seq<PV>)
    requires fs_read(bad) is None
    ensures op_analyse(r, ws, a + seq![bad] + b) == op_analyse(r, ws, a)
{}
/// files are re-analysed (analyze_file) instead of analysed fresh
proof fn canary_reanalyze_is_fresh(r: Rest, ws: Option<PV>, f: PV, t: Seq<char>)
    ensures eff_fresh(r, ws, f, t) == eff_reanalyze(r, ws, f, t) {}
/// the scan of a missing root still walks
proof fn canary_missing_root_scans(r: Rest, root: PV, pats: Seq<Seq<char>>)
    requires !fs_exists(root) ensures op_scan(r, root, pats) == eff_imports(eff_venv(r, Some(op_stored_root(root)), root), Some(op_stored_root(root)), root) {}

} // verus!
fn main() {}
