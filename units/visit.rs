//@include prelude/header.rs
// Unit visit (properties C03 / C06 / C15, "AST -> index" wiring): the REAL visitors of src/fixtures/analyzer.rs
// (visit_stmt, visit_assignment_fixture, visit_pytestmark_assignment, all_args) against the operational
// specification prelude/visit_spec.rs (visit_defs / visit_uses: what ONE statement makes the index record).
// Discharges assumption A7 of unit analyze.
// v2 (COMPOSED with unit classify): is_in_site_packages / is_editable_install_third_party are `//@stub classify ..`
// (contracts PROVED there) instead of contract-less stubs, and the two @wrapexpr external_body helpers that ASSUMED
//     `self.is_in_site_packages(f) || self.is_editable_install_third_party(f)` == env_third_party(f)   and
//     `self.plugin_fixture_files.contains_key(f)` == env_is_plugin(f)
// are GONE: Verus verifies the real expressions.  What links them to the two uninterpreted environment functions of
// prelude/visit_spec.rs is the explicit precondition env_ok (prelude/visit_env.rs) of visit_stmt /
// visit_assignment_fixture; that it survives every call is proved: rec_rel (prelude/visit_dbspecs_v2.rs) now carries
// vframe = no field other than the index maps and undeclared_fixtures changes, over a database struct that lists EVERY
// field except ast_cache.  That frame needs the providers' frames over the same struct: unit index_maint_v2
// (rest() of prelude/index_dbspecs_all.rs) and unit undeclared_scan_v2 (struct-update clause).
//   L1  each visitor moves the database by exactly `rec_rel(old, new, visit_defs(..), visit_uses(..), file)`:
//       a sequence of record_fixture_definition / record_fixture_usage effects, nothing else touched
//       (file_cache, imports unchanged; undeclared_fixtures changed at most at key `file`; version = one bump per
//       definition, wrap-around included)
//   L2  lemma_C03_* / lemma_C15_* over visit_defs / visit_uses (pure)
// v3 (C06 / C17 / C19): the file's OWN undeclared-fixture findings are in visit_stmt's contract (prelude/visit_undecl.rs):
//       uv_rel(old findings, final findings, file, visit_undecl(stmt, file, text, li, old defs, imports[file]))
//   i.e. undecl_view(final) == push_undecl(undecl_view(old), file, visit_undecl(..)): exactly the scanner's scan_fn (the contract
//   PROVED in unit undeclared_scan, `//@stub`) per fixture / test function -- a fixture AFTER its own definition was recorded,
//   a later class member against the definitions the earlier members recorded, sync and async alike -- pushed in order;
//   visit_assignment_fixture / visit_pytestmark_assignment leave undeclared_fixtures alone (new ensures).  The two scan
//   results are opaque spec fns (fix_scan / test_scan) with one lemma per scan site, so visit_stmt's big query never
//   unfolds the scanner's recursive specification (8 s instead of 30 s).
use rustpython_parser::ast::{Expr, Stmt, Keyword, Identifier, Constant, ExceptHandler, ExprCall, Alias, Arguments, ArgWithDefault};
use rustpython_parser::text_size::TextRange;
verus! {
global size_of usize == 8;  // A6: 64-bit target
pub mod pre {
use super::*;
//@include prelude/path.rs
//@include prelude/path_ext.rs
//@include prelude/types.rs
//@include prelude/dashmap.rs
//@include prelude/hashset.rs
//@include prelude/atomic.rs
//@include prelude/dbview.rs
//@include prelude/hof.rs
//@include prelude/arc.rs
//@include prelude/index_spec.rs
//@include prelude/strings.rs
//@include prelude/iter_ext.rs
//@include prelude/iter_slice.rs
//@include prelude/bytes.rs
//@include build/astspec.rs
#[verifier::external_type_specification] #[verifier::reject_recursive_types(R)] pub struct ExMod<R>(rustpython_parser::ast::Mod<R>);
#[verifier::external_type_specification] #[verifier::reject_recursive_types(R)] pub struct ExModModule<R>(rustpython_parser::ast::ModModule<R>);
#[verifier::external_type_specification] #[verifier::reject_recursive_types(R)] pub struct ExModInteractive<R>(rustpython_parser::ast::ModInteractive<R>);
#[verifier::external_type_specification] #[verifier::reject_recursive_types(R)] pub struct ExModExpression<R>(rustpython_parser::ast::ModExpression<R>);
#[verifier::external_type_specification] #[verifier::reject_recursive_types(R)] pub struct ExModFunctionType<R>(rustpython_parser::ast::ModFunctionType<R>);
#[verifier::external_type_specification] #[verifier::reject_recursive_types(R)] pub struct ExTypeIgnore<R>(rustpython_parser::ast::TypeIgnore<R>);
#[verifier::external_type_specification] #[verifier::reject_recursive_types(R)] pub struct ExTypeIgnoreTypeIgnore<R>(rustpython_parser::ast::TypeIgnoreTypeIgnore<R>);
//@include prelude/ast_spec.rs
//@include prelude/line_spec.rs
//@include prelude/analyze_spec.rs
//@include prelude/visit_spec.rs
//@include prelude/undecl_avail_spec.rs
//@include prelude/undecl_spec.rs
//@include prelude/visit_undecl.rs
//@include prelude/visit_shims.rs
//@include prelude/visit_l2.rs
} // mod pre
use pre::*;

#[verifier::external_type_specification] pub struct ExUndeclaredFixture(UndeclaredFixture);

#[verifier::external_type_specification] pub struct ExFixtureCycle(FixtureCycle);
//@item src/fixtures/mod.rs struct EditableInstall
//@dbstruct_arc definitions file_definitions usages usage_by_fixture definitions_version file_cache undeclared_fixtures imports canonical_path_cache line_index_cache cycle_cache available_fixtures_cache imported_fixtures_cache site_packages_paths editable_install_roots workspace_root plugin_fixture_files

//@include prelude/index_dbspecs_all.rs
//@include prelude/opt_pbv.rs
//@include prelude/classify_spec.rs
//@include prelude/visit_env.rs
//@include prelude/visit_dbspecs_v2.rs
/// the two conjuncts of rec_rel a scan site needs (the definitions map the scan reads, the imports map): a slim
/// lemma_rec_open, so that the big query of visit_stmt does not see the other conjuncts again
pub proof fn lemma_rec_defs_imports(o: FixtureDatabase, s: FixtureDatabase, ds: Seq<DefV>, us: Seq<UseV>, f: PV)
    requires rec_rel(o, s, ds, us, f),
    ensures s.defs() == push_defs(o.defs(), ds), s.imports == o.imports,
{
    reveal(rec_rel);
}

broadcast use {axiom_string_to_string, axiom_identifier_to_string, axiom_tsv_u32, axiom_str_blen};

// ---- callee contracts PROVED in unit ast_helpers (src/fixtures/decorators.rs) ---------------------------------
pub mod decorators {
use super::*;
//@stub ast_helpers is_fixture_decorator
//@stub ast_helpers extract_fixture_name_from_decorator
//@stub ast_helpers extract_fixture_scope
//@stub ast_helpers extract_fixture_autouse
//@stub ast_helpers extract_usefixtures_names
//@stub ast_helpers extract_usefixtures_from_expr
//@stub ast_helpers extract_parametrize_indirect_fixtures
} // mod decorators

impl FixtureDatabase {
//@stub index_maint record_fixture_usage
//@stub index_maint record_fixture_definition
//@stub line_index get_line_from_offset
//@stub line_index get_char_position_from_offset
//@stub ast_helpers extract_docstring
//@stub ast_helpers extract_return_type
//@stub ast_helpers find_yield_line
// delegation to string_utils PROVED in unit position; the string search itself stays abstract (name_pos; Kani)
//@stub position find_function_name_position

    // ---- third-party classification: the contracts PROVED in unit classify (environment = workspace_root,
    //      editable_install_roots; the link to env_third_party is the precondition env_ok, prelude/visit_env.rs)
//@stub classify is_in_site_packages
//@stub classify is_editable_install_third_party
    // undeclared.rs scan_function_body_for_undeclared_fixtures: the contract PROVED in unit undeclared_scan (the findings
    // pushed onto undeclared_fixtures[file_path] are exactly scan_fn(..); nothing else changes) -- the frame formerly
    // ASSUMED here is a consequence of it
//@stub undeclared_scan scan_function_body_for_undeclared_fixtures
    /// the iterator all_args returns, collected (a `for` over an opaque `impl Iterator` has no loop specification in
    /// this Verus).  ASSUMED: collecting yields the sequence all_args is PROVED to return (extract block below).
    #[verifier::external_body]
    fn vp_all_args(args: &Arguments) -> (r: std::vec::IntoIter<&ArgWithDefault>)
        ensures r.obeys_prophetic_iter_laws(), r.decrease() is Some,
            r.remaining() == all_params(*args).as_ref(),
    { Self::all_args(args).collect::<Vec<_>>().into_iter() }

/*@ extract src/fixtures/analyzer.rs all_args
@tags C03 C06 C15 C12
@ret r
@rename chain vp_chain
@sig
    ensures r.remaining() == all_params(*args).as_ref(),
@*/

/*@ extract src/fixtures/analyzer.rs visit_stmt
@tags C03 C06 C15 C12
@recv mut
@wrapexpr 1 `ann_assign.value.as_deref()` => `Self::vp_ann_value(ann_assign)` with fn vp_ann_value(ann_assign: &rustpython_parser::ast::StmtAnnAssign) -> (r: Option<&Expr>) ensures opt_deref(r) == opt_unbox(ann_assign.value)
@wrapexpr 1 `func_name.starts_with("test")` => `Self::vp_is_test_name(func_name)` with fn vp_is_test_name(func_name: &str) -> (r: bool) ensures r == is_test_name(func_name@)
@replace 1 `Self::all_args(args)` => `Self::vp_all_args(args)`
@replace 2 `Self::all_args(args)` => `Self::vp_all_args(args)`
@replace 3 `Self::all_args(args)` => `Self::vp_all_args(args)`
@closure any:1 |target: &Expr| -> (b: bool) ensures b == is_pytestmark_name(*target)
@closure find:1 |dec: &&Expr| -> (b: bool) ensures b == spec_is_fixture_decorator(*dec)
@closure unwrap_or_else:1 || -> (s: String) ensures s@ == func_name@
@sig
    requires is_line_index(ints(line_index@)), visit_pre(*stmt, line_index@),
        // the environment hypothesis (prelude/visit_env.rs): env_third_party / env_is_plugin are what THIS database says
        old(self).env_ok(),
    ensures
        rec_rel(*old(self), *final(self), visit_defs(*stmt, pbv(file_path), content@, line_index@), visit_uses(*stmt, pbv(file_path), content@, line_index@), pbv(file_path)),
        // nothing but the index maps and undeclared_fixtures changes; in particular the hypothesis survives
        vframe(*old(self), *final(self)), final(self).env_ok(),
        final(self).defs() == push_defs(old(self).defs(), visit_defs(*stmt, pbv(file_path), content@, line_index@)),
        final(self).fdefs() == add_fdefs(old(self).fdefs(), visit_defs(*stmt, pbv(file_path), content@, line_index@)),
        final(self).uses() == push_uses(old(self).uses(), visit_uses(*stmt, pbv(file_path), content@, line_index@)),
        final(self).byfix() == push_byfix(old(self).byfix(), visit_uses(*stmt, pbv(file_path), content@, line_index@)),
        final(self).version() == bumpn(old(self).version(), visit_defs(*stmt, pbv(file_path), content@, line_index@).len() as int),
        final(self).file_cache == old(self).file_cache,
        final(self).imports == old(self).imports,
        undecl_frame(old(self).undeclared_fixtures.m(), final(self).undeclared_fixtures.m(), pbv(file_path)),
        // v3: the file's OWN findings list: exactly the scans this statement triggers (visit_undecl, prelude/visit_undecl.rs:
        // the scanner's scan_fn per fixture / test function, against the definitions map at the moment of the scan and the
        // file's module-level names), pushed onto what was there, in order -- nothing else, nothing dropped
        // (uv_rel(m0, m1, f, xs) := undecl_view(m1) == push_undecl(undecl_view(m0), f, xs), opaque; lemma_uv_open spells it out)
        uv_rel(old(self).undeclared_fixtures.m(), final(self).undeclared_fixtures.m(), pbv(file_path),
            visit_undecl(*stmt, pbv(file_path), content@, line_index@, old(self).defs(), imps_of(old(self).imports.m(), pbv(file_path)))),
    decreases stmt,
@start
    let ghost f = pbv(file_path);
    let ghost li = line_index@;
    let ghost src = content@;
    let ghost mut du: Seq<DefV> = Seq::empty();
    let ghost mut uu: Seq<UseV> = Seq::empty();
    let ghost mut xu: Seq<UndV> = Seq::empty();
    proof { lemma_rec_refl(*old(self), f); lemma_uv_refl(old(self).undeclared_fixtures.m(), f); }
@before visit_assignment_fixture 1
    let ghost s0 = *self;
@after visit_assignment_fixture 1
    proof {
        lemma_rec_trans(*old(self), s0, *self, du, uu, assign_defs(*assign, f, li), Seq::empty(), f);
        assert(du + assign_defs(*assign, f, li) =~= assign_defs(*assign, f, li));
        assert(uu + Seq::<UseV>::empty() =~= uu);
        du = assign_defs(*assign, f, li);
    }
@after is_pytestmark 1
    proof {
        assert(is_pytestmark == has_pytestmark_target(assign.targets@)) by {
            let ts = assign.targets@;
            if !is_pytestmark {
                assert forall|i: int| 0 <= i < ts.len() implies !is_pytestmark_name(#[trigger] ts[i]) by { let y = ts.as_ref()[i]; }
            }
        }
    }
@before visit_pytestmark_assignment 1
    let ghost s0 = *self;
@after visit_pytestmark_assignment 1
    proof {
        let u2 = pytestmark_uses(Some(*assign.value), f, li);
        lemma_rec_trans(*old(self), s0, *self, du, uu, Seq::empty(), u2, f);
        assert(du + Seq::<DefV>::empty() =~= du);
        assert(uu + u2 =~= u2);
        uu = u2;
    }
@before ann_assign 1
    proof {
        assert(match *stmt {
            Stmt::Assign(a) => du == assign_defs(a, f, li) && uu == assign_uses(a, f, li),
            _ => du =~= Seq::<DefV>::empty() && uu =~= Seq::<UseV>::empty(),
        });
    }
@before visit_pytestmark_assignment 2
    let ghost s0 = *self;
@after visit_pytestmark_assignment 2
    proof {
        let u2 = pytestmark_uses(opt_unbox(ann_assign.value), f, li);
        lemma_rec_trans(*old(self), s0, *self, du, uu, Seq::empty(), u2, f);
        assert(du + Seq::<DefV>::empty() =~= du);
        assert(uu + u2 =~= u2);
        uu = u2;
    }
@before class_def 1
    proof {
        assert(match *stmt {
            Stmt::Assign(a) => du == assign_defs(a, f, li) && uu == assign_uses(a, f, li),
            Stmt::AnnAssign(a) => du =~= Seq::<DefV>::empty() && uu == annassign_uses(a, f, li),
            _ => du =~= Seq::<DefV>::empty() && uu =~= Seq::<UseV>::empty(),
        });
    }
@before for 1
    let ghost cds = class_def.decorator_list@;
    let ghost cb = class_def.body@;
    proof { assert(*stmt == Stmt::ClassDef(*class_def)); }
@loopvar 1 it1
@loop 1
    invariant f == pbv(file_path), li == line_index@, is_line_index(ints(li)),
        cds == class_def.decorator_list@, it1.seq() == cds.as_ref(), decos_ok(cds, 0, li),
        du =~= Seq::<DefV>::empty(),
        uu == decos_uses(cds, it1.index@ as int, 0, f, li),
        rec_rel(*old(self), *self, du, uu, f),
        uv_rel(old(self).undeclared_fixtures.m(), self.undeclared_fixtures.m(), f, xu),
@loopstart 1
    let ghost j = it1.index@ as int;
    let ghost uj = uu;
    proof { assert(*decorator == cds[j]); }
@after usefixtures 1
    let ghost ps = lpairs_v(usefixtures@);
    proof {
        lemma_usefix_post(decorator, usefixtures@);
        assert(ps == deco_lits(cds[j], 0));
        assert(lits_ok(ps, li));
        assert(uj + lit_uses(ps.take(0), f, li, false) =~= uj);
    }
@loopvar 2 it2
@loop 2
    invariant f == pbv(file_path), li == line_index@, is_line_index(ints(li)),
        ps == lpairs_v(it2.seq()), lits_ok(ps, li),
        du =~= Seq::<DefV>::empty(),
        uu == uj + lit_uses(ps.take(it2.index@ as int), f, li, false),
        rec_rel(*old(self), *self, du, uu, f),
        uv_rel(old(self).undeclared_fixtures.m(), self.undeclared_fixtures.m(), f, xu),
@before record_fixture_usage 1
    let ghost s1 = *self;
    let ghost i = it2.index@ as int;
    let ghost x = lit_use(ps[i], f, li);
    proof { assert(ps[i] == (fixture_name@, range)); }
@after record_fixture_usage 1
    proof {
        lemma_rec_use(*old(self), s1, *self, du, uu, x, f);
        assert(ps.take(i + 1).map_values(lit_use_fn(f, li, false)) =~= ps.take(i).map_values(lit_use_fn(f, li, false)).push(x));
        assert((uj + lit_uses(ps.take(i), f, li, false)).push(x) =~= uj + lit_uses(ps.take(i + 1), f, li, false));
        uu = uu.push(x);
    }
@loopend 1
    proof { assert(ps.take(ps.len() as int) =~= ps); }
@before for 3
    let ghost uc = uu;
    proof { assert(uc == decos_uses(cds, cds.len() as int, 0, f, li)); assert(uc + Seq::<UseV>::empty() =~= uc); assert(xu =~= Seq::<UndV>::empty()); }
@loopvar 3 it3
@loop 3
    invariant f == pbv(file_path), li == line_index@, src == content@, is_line_index(ints(li)),
        cb == class_def.body@, it3.seq() == cb.as_ref(), *stmt == Stmt::ClassDef(*class_def), old(self).env_ok(),
        body_pre(cb, cb.len() as int, li),
        du == body_defs(cb, it3.index@ as int, f, src, li),
        uu == uc + body_uses(cb, it3.index@ as int, f, src, li),
        xu == body_undecl(cb, it3.index@ as int, f, src, li, old(self).defs(), imps_of(old(self).imports.m(), f)),
        rec_rel(*old(self), *self, du, uu, f),
        uv_rel(old(self).undeclared_fixtures.m(), self.undeclared_fixtures.m(), f, xu),
@loopstart 3
    let ghost k = it3.index@ as int;
    let ghost s0 = *self;
    proof {
        lemma_rec_open(*old(self), *self, du, uu, f);   // env_ok(self): precondition of the recursive call
        assert(*class_stmt == cb[k]);
        assert(decreases_to!(class_def.body => class_def.body@[k]));
        assert(match *stmt { Stmt::ClassDef(c) => c == *class_def, _ => false });
        lemma_body_pre_at(cb, cb.len() as int, k, li);
    }
@loopend 3
    proof {
        // v3: the recursive call's findings: cb[k] visited on the map the first k members left
        let x2 = visit_undecl(cb[k], f, src, li, push_defs(old(self).defs(), body_defs(cb, k, f, src, li)), imps_of(old(self).imports.m(), f));
        assert(s0.defs() == push_defs(old(self).defs(), du) && s0.imports == old(self).imports);
        lemma_uv_trans(old(self).undeclared_fixtures.m(), s0.undeclared_fixtures.m(), self.undeclared_fixtures.m(), f, xu, x2);
        assert(body_undecl(cb, k + 1, f, src, li, old(self).defs(), imps_of(old(self).imports.m(), f)) == xu + x2);
        xu = xu + x2;
        let d2 = visit_defs(cb[k], f, src, li);
        let u2 = visit_uses(cb[k], f, src, li);
        lemma_rec_trans(*old(self), s0, *self, du, uu, d2, u2, f);
        assert((uc + body_uses(cb, k, f, src, li)) + u2 =~= uc + body_uses(cb, k + 1, f, src, li));
        du = du + d2;
        uu = uu + u2;
    }
@after for 3
    proof {
        lemma_rec_open(*old(self), *self, du, uu, f);
        assert(xu == visit_undecl(*stmt, f, src, li, old(self).defs(), imps_of(old(self).imports.m(), f)));
    }
@return 2
    lemma_rec_open(*old(self), *self, du, uu, f);
    assert(xu =~= Seq::<UndV>::empty());
    assert(visit_undecl(*stmt, f, src, li, old(self).defs(), imps_of(old(self).imports.m(), f)) =~= Seq::<UndV>::empty());
@before for 4
    let ghost fv = FnV { name: func_name@, decos: decorator_list@, args: **args, range: range, body: body@, returns: *returns };
    let ghost ds = decorator_list@;
    let ghost aps = all_params(**args);
    proof {
        assert(fn_view(*stmt) == Some(fv));
        assert(du =~= Seq::<DefV>::empty() && uu =~= Seq::<UseV>::empty());
        assert(decos_ok(ds, 0, li) && decos_ok(ds, 1, li));
    }
@loopvar 4 it4
@loop 4
    invariant f == pbv(file_path), li == line_index@, is_line_index(ints(li)),
        ds == decorator_list@, it4.seq() == ds.as_ref(), decos_ok(ds, 0, li),
        du =~= Seq::<DefV>::empty(),
        uu == decos_uses(ds, it4.index@ as int, 0, f, li),
        rec_rel(*old(self), *self, du, uu, f),
        uv_rel(old(self).undeclared_fixtures.m(), self.undeclared_fixtures.m(), f, xu),
@loopstart 4
    let ghost j = it4.index@ as int;
    let ghost uj = uu;
    proof { assert(*decorator == ds[j]); }
@after usefixtures 3
    let ghost ps = lpairs_v(usefixtures@);
    proof {
        lemma_usefix_post(decorator, usefixtures@);
        assert(ps == deco_lits(ds[j], 0));
        assert(lits_ok(ps, li));
        assert(uj + lit_uses(ps.take(0), f, li, false) =~= uj);
    }
@loopvar 5 it5
@loop 5
    invariant f == pbv(file_path), li == line_index@, is_line_index(ints(li)),
        ps == lpairs_v(it5.seq()), lits_ok(ps, li),
        du =~= Seq::<DefV>::empty(),
        uu == uj + lit_uses(ps.take(it5.index@ as int), f, li, false),
        rec_rel(*old(self), *self, du, uu, f),
        uv_rel(old(self).undeclared_fixtures.m(), self.undeclared_fixtures.m(), f, xu),
@before record_fixture_usage 2
    let ghost s1 = *self;
    let ghost i = it5.index@ as int;
    let ghost x = lit_use(ps[i], f, li);
    proof { assert(ps[i] == (fixture_name@, range)); }
@after record_fixture_usage 2
    proof {
        lemma_rec_use(*old(self), s1, *self, du, uu, x, f);
        assert(ps.take(i + 1).map_values(lit_use_fn(f, li, false)) =~= ps.take(i).map_values(lit_use_fn(f, li, false)).push(x));
        assert((uj + lit_uses(ps.take(i), f, li, false)).push(x) =~= uj + lit_uses(ps.take(i + 1), f, li, false));
        uu = uu.push(x);
    }
@loopend 4
    proof { assert(ps.take(ps.len() as int) =~= ps); }
@before for 6
    let ghost ua = uu;
    proof { assert(ua == decos_uses(ds, ds.len() as int, 0, f, li)); assert(ua + Seq::<UseV>::empty() =~= ua); }
@loopvar 6 it6
@loop 6
    invariant f == pbv(file_path), li == line_index@, is_line_index(ints(li)),
        ds == decorator_list@, it6.seq() == ds.as_ref(), decos_ok(ds, 1, li),
        du =~= Seq::<DefV>::empty(),
        uu == ua + decos_uses(ds, it6.index@ as int, 1, f, li),
        rec_rel(*old(self), *self, du, uu, f),
        uv_rel(old(self).undeclared_fixtures.m(), self.undeclared_fixtures.m(), f, xu),
@loopstart 6
    let ghost j = it6.index@ as int;
    let ghost uj = uu;
    proof { assert(*decorator == ds[j]); }
@after indirect_fixtures 1
    let ghost ps = lpairs_v(indirect_fixtures@);
    proof {
        lemma_param_post(decorator, indirect_fixtures@);
        assert(ps == deco_lits(ds[j], 1));
        assert(lits_ok(ps, li));
        assert(uj + lit_uses(ps.take(0), f, li, false) =~= uj);
    }
@loopvar 7 it7
@loop 7
    invariant f == pbv(file_path), li == line_index@, is_line_index(ints(li)),
        ps == lpairs_v(it7.seq()), lits_ok(ps, li),
        du =~= Seq::<DefV>::empty(),
        uu == uj + lit_uses(ps.take(it7.index@ as int), f, li, false),
        rec_rel(*old(self), *self, du, uu, f),
        uv_rel(old(self).undeclared_fixtures.m(), self.undeclared_fixtures.m(), f, xu),
@before record_fixture_usage 3
    let ghost s1 = *self;
    let ghost i = it7.index@ as int;
    let ghost x = lit_use(ps[i], f, li);
    proof { assert(ps[i] == (fixture_name@, range)); }
@after record_fixture_usage 3
    proof {
        lemma_rec_use(*old(self), s1, *self, du, uu, x, f);
        assert(ps.take(i + 1).map_values(lit_use_fn(f, li, false)) =~= ps.take(i).map_values(lit_use_fn(f, li, false)).push(x));
        assert((uj + lit_uses(ps.take(i), f, li, false)).push(x) =~= uj + lit_uses(ps.take(i + 1), f, li, false));
        uu = uu.push(x);
    }
@loopend 6
    proof {
        assert(ps.take(ps.len() as int) =~= ps);
        assert((ua + decos_uses(ds, j, 1, f, li)) + lit_uses(ps, f, li, false) =~= ua + decos_uses(ds, j + 1, 1, f, li));
    }
@before fixture_decorator 1
    let ghost ub = uu;
    proof { assert(ub == ua + decos_uses(ds, ds.len() as int, 1, f, li)); }
@after fixture_decorator 1
    proof {
        assert(match fixture_decorator {
            Some(d) => first_fix(ds, 0) is Some && *d == ds[first_fix(ds, 0)->0],
            None => first_fix(ds, 0) is None,
        }) by {
            let sr = ds.as_ref();
            match fixture_decorator {
                Some(d) => {
                    assert(exists|k: int| 0 <= k < sr.len() && sr[k] == d && spec_is_fixture_decorator(sr[k])
                        && forall|j: int| 0 <= j < k ==> !spec_is_fixture_decorator(#[trigger] sr[j]));
                    let k = choose|k: int| 0 <= k < sr.len() && sr[k] == d && spec_is_fixture_decorator(sr[k])
                        && forall|j: int| 0 <= j < k ==> !spec_is_fixture_decorator(#[trigger] sr[j]);
                    assert forall|j: int| 0 <= j < k implies !spec_is_fixture_decorator(&#[trigger] ds[j]) by { let y = sr[j]; }
                    lemma_first_fix_at(ds, 0, k);
                }
                None => {
                    assert(forall|j: int| 0 <= j < sr.len() ==> !spec_is_fixture_decorator(#[trigger] sr[j]));
                    assert forall|j: int| 0 <= j < ds.len() implies !spec_is_fixture_decorator(&#[trigger] ds[j]) by { let y = sr[j]; }
                    lemma_first_fix_none(ds, 0);
                }
            }
        }
        assert(ub + Seq::<UseV>::empty() =~= ub);
    }
@before extract_fixture_name_from_decorator 1
    let ghost kd = first_fix(ds, 0)->0;
    proof {
        assert(first_fix(ds, 0) is Some && *decorator == ds[kd]);
        assert forall|o: Option<Seq<char>>| #[trigger] kw_post(decorator, kw_str_fn("name"@), o) implies o == spec_kw(decorator, kw_str_fn("name"@)) by {
            lemma_kw_post(decorator, kw_str_fn("name"@), o);
        }
        assert forall|o: Option<FixtureScope>| #[trigger] kw_post(decorator, kw_scope_fn(), o) implies o == spec_kw(decorator, kw_scope_fn()) by {
            lemma_kw_post(decorator, kw_scope_fn(), o);
        }
    }
@after extract_fixture_name_from_decorator 1
    proof { assert(fixture_name@ == opt_or_else(spec_kw(decorator, kw_str_fn("name"@)), func_name@)); }
@after extract_fixture_scope 1
    proof { assert(scope == opt_or_else(spec_kw(decorator, kw_scope_fn()), FixtureScope::Function)); }
@after extract_fixture_autouse 1
    proof { lemma_autouse_post(decorator, autouse); }
@before is_third_party 1
    proof { lemma_rec_open(*old(self), *self, du, uu, f); }
@after is_plugin 1
    proof {
        assert(is_third_party == env_third_party(pbv(file_path)));
        assert(is_plugin == env_is_plugin(pbv(file_path)));
    }
@before for 8
    let ghost base1 = Set::<Seq<char>>::empty().insert("self"@).insert("request"@).insert(func_name@);
    proof { assert(declared_params.s() =~= base1); assert(strs_v(dependencies@) =~= Seq::<Seq<char>>::empty()); }
@loopvar 8 it8
@loop 8
    invariant aps == all_params(**args), it8.seq() == aps.as_ref(),
        strs_v(dependencies@) == deps_of(aps, it8.index@ as int),
        declared_params.s() == declared_of(aps, it8.index@ as int, base1),
@loopstart 8
    let ghost n = it8.index@ as int;
    proof { assert(*arg == aps[n]); }
@loopend 8
    proof { assert(strs_v(dependencies@) =~= deps_of(aps, n + 1)); }
@before record_fixture_definition 1
    let ghost s1 = *self;
    let ghost x = dv(&definition);
    proof {
        assert(x == fixture_def(fv, ds[kd], f, src, li)) by {
            assert(x.dependencies =~= deps_of(aps, aps.len() as int));
        }
    }
@after record_fixture_definition 1
    proof {
        lemma_rec_def(*old(self), s1, *self, du, uu, x, f);
        du = du.push(x);
        assert(du =~= func_defs(fv, f, src, li));
    }
@before for 9
    let ghost ud = uu;
    proof { assert(ud == ub); assert(ud + Seq::<UseV>::empty() =~= ud); }
@loopvar 9 it9
@loop 9
    invariant f == pbv(file_path), li == line_index@, is_line_index(ints(li)),
        aps == all_params(**args), it9.seq() == aps.as_ref(),
        uu == ud + param_uses(aps, it9.index@ as int, true, f, li),
        rec_rel(*old(self), *self, du, uu, f),
        uv_rel(old(self).undeclared_fixtures.m(), self.undeclared_fixtures.m(), f, xu),
@loopstart 9
    let ghost n = it9.index@ as int;
    proof { assert(*arg == aps[n]); }
@before record_fixture_usage 4
    let ghost s1 = *self;
    let ghost x = param_use(aps[n], f, li);
@after record_fixture_usage 4
    proof {
        lemma_rec_use(*old(self), s1, *self, du, uu, x, f);
        assert((ud + param_uses(aps, n, true, f, li)).push(x) =~= ud + param_uses(aps, n + 1, true, f, li));
        uu = uu.push(x);
    }
@before scan_function_body_for_undeclared_fixtures 1
    let ghost s1 = *self;
    proof { assert(declared_params.s() == declared_fixture(fv.name, fv.args)); lemma_rec_defs_imports(*old(self), s1, du, uu, f); }
@after scan_function_body_for_undeclared_fixtures 1
    proof {
        lemma_rec_undecl(*old(self), s1, *self, du, uu, f);
        // v3: the fixture scan reads the map WITH the fixture's own definition (recorded above), and the file's imports
        assert(du == func_defs(fv, f, src, li));
        lemma_uv_fix_scan(old(self).undeclared_fixtures.m(), s1.undeclared_fixtures.m(), self.undeclared_fixtures.m(), f, xu, fv, src, li, old(self).defs(), imps_of(old(self).imports.m(), f),
            body@, declared_params.s(), func_name@, function_line, s1.defs(), imps_of(s1.imports.m(), f));
        assert(xu + fix_scan(fv, f, src, li, old(self).defs(), imps_of(old(self).imports.m(), f)) =~= fix_scan(fv, f, src, li, old(self).defs(), imps_of(old(self).imports.m(), f)));
        xu = fix_scan(fv, f, src, li, old(self).defs(), imps_of(old(self).imports.m(), f));
    }
@before is_test 1
    let ghost ue = uu;
    proof {
        assert(du =~= func_defs(fv, f, src, li));
        assert(ue == ub + (if first_fix(ds, 0) is Some { param_uses(aps, aps.len() as int, true, f, li) } else { Seq::<UseV>::empty() }));
        assert(ue + Seq::<UseV>::empty() =~= ue);
        if first_fix(ds, 0) is None { lemma_fix_scan_none(fv, f, src, li, old(self).defs(), imps_of(old(self).imports.m(), f)); }
        assert(xu == fix_scan(fv, f, src, li, old(self).defs(), imps_of(old(self).imports.m(), f)));
    }
@before for 10
    let ghost base2 = Set::<Seq<char>>::empty().insert("self"@).insert("request"@);
    proof { assert(declared_params.s() =~= base2); }
@loopvar 10 it10
@loop 10
    invariant f == pbv(file_path), li == line_index@, is_line_index(ints(li)),
        aps == all_params(**args), it10.seq() == aps.as_ref(),
        declared_params.s() == declared_of(aps, it10.index@ as int, base2),
        uu == ue + param_uses(aps, it10.index@ as int, false, f, li),
        rec_rel(*old(self), *self, du, uu, f),
        uv_rel(old(self).undeclared_fixtures.m(), self.undeclared_fixtures.m(), f, xu),
@loopstart 10
    let ghost n = it10.index@ as int;
    proof { assert(*arg == aps[n]); }
@before record_fixture_usage 5
    let ghost s1 = *self;
    let ghost x = param_use(aps[n], f, li);
@after record_fixture_usage 5
    proof {
        lemma_rec_use(*old(self), s1, *self, du, uu, x, f);
        assert((ue + param_uses(aps, n, false, f, li)).push(x) =~= ue + param_uses(aps, n + 1, false, f, li));
        uu = uu.push(x);
    }
@before scan_function_body_for_undeclared_fixtures 2
    let ghost s1 = *self;
    proof { assert(declared_params.s() == declared_test(fv.args)); lemma_rec_defs_imports(*old(self), s1, du, uu, f); }
@after scan_function_body_for_undeclared_fixtures 2
    proof {
        lemma_rec_undecl(*old(self), s1, *self, du, uu, f);
        // v3: the test scan reads the same map (a fixture-decorated test_x: its own definition is in it)
        lemma_uv_test_scan(old(self).undeclared_fixtures.m(), s1.undeclared_fixtures.m(), self.undeclared_fixtures.m(), f, xu, fv, src, li, old(self).defs(), imps_of(old(self).imports.m(), f),
            body@, declared_params.s(), func_name@, function_line, s1.defs(), imps_of(s1.imports.m(), f));
        xu = xu + test_scan(fv, f, src, li, old(self).defs(), imps_of(old(self).imports.m(), f));
    }
@end
    proof {
        assert(du =~= visit_defs(*stmt, f, src, li));
        assert(uu == func_uses(fv, f, li));
        lemma_rec_open(*old(self), *self, du, uu, f);
        if !is_test_name(fv.name) {
            lemma_test_scan_none(fv, f, src, li, old(self).defs(), imps_of(old(self).imports.m(), f));
            assert(fix_scan(fv, f, src, li, old(self).defs(), imps_of(old(self).imports.m(), f)) + Seq::<UndV>::empty() =~= fix_scan(fv, f, src, li, old(self).defs(), imps_of(old(self).imports.m(), f)));
        }
        assert(xu == func_undecl(fv, f, src, li, old(self).defs(), imps_of(old(self).imports.m(), f)));
        assert(xu == visit_undecl(*stmt, f, src, li, old(self).defs(), imps_of(old(self).imports.m(), f)));
    }
@*/

/*@ extract src/fixtures/analyzer.rs visit_assignment_fixture
@tags C03 C06 C15 C12
@recv mut
@sig
    requires is_line_index(ints(line_index@)), old(self).env_ok(),
    ensures rec_rel(*old(self), *final(self), assign_defs(*assign, pbv(file_path), line_index@), Seq::empty(), pbv(file_path)),
        // v3: no scan is run for an assignment-style fixture: the findings are the same stored object
        final(self).undeclared_fixtures == old(self).undeclared_fixtures,
@start
    let ghost f = pbv(file_path);
    let ghost li = line_index@;
    let ghost mut du: Seq<DefV> = Seq::empty();
    proof { lemma_rec_refl(*old(self), f); }
@loopvar 1 it
@loop 1
    invariant f == pbv(file_path), li == line_index@, is_line_index(ints(li)),
        it.seq() == assign.targets@.as_ref(),
        du == targets_defs(assign.targets@, it.index@ as int, assign.range, f, li),
        rec_rel(*old(self), *self, du, Seq::empty(), f), old(self).env_ok(),
        self.undeclared_fixtures == old(self).undeclared_fixtures,
@loopstart 1
    let ghost i = it.index@ as int;
    proof { assert(*target == assign.targets@[i]); lemma_rec_open(*old(self), *self, du, Seq::empty(), f); }
@before record_fixture_definition 1
    let ghost s1 = *self;
    let ghost x = dv(&definition);
    proof {
        assert(is_third_party == env_third_party(pbv(file_path)));
        assert(is_plugin == env_is_plugin(pbv(file_path)));
        assert(x.dependencies =~= Seq::<Seq<char>>::empty());
        assert(x == assign_def(*name, assign.range, f, li));
    }
@after record_fixture_definition 1
    proof {
        lemma_rec_def(*old(self), s1, *self, du, Seq::empty(), x, f);
        du = du.push(x);
    }
@*/

// exec canary: the same real body WITHOUT the environment hypothesis -- must FAIL (the hypothesis is needed: without
// it the recorded is_third_party / is_plugin flags are not the uninterpreted env_third_party / env_is_plugin)
/*@ extract src/fixtures/analyzer.rs visit_assignment_fixture
@tags C03
@as canary_assignment_fixture_without_env_ok
@recv mut
@sig
    requires is_line_index(ints(line_index@)),
    ensures rec_rel(*old(self), *final(self), assign_defs(*assign, pbv(file_path), line_index@), Seq::empty(), pbv(file_path)),
@start
    let ghost f = pbv(file_path);
    let ghost li = line_index@;
    let ghost mut du: Seq<DefV> = Seq::empty();
    proof { lemma_rec_refl(*old(self), f); }
@loopvar 1 it
@loop 1
    invariant f == pbv(file_path), li == line_index@, is_line_index(ints(li)),
        it.seq() == assign.targets@.as_ref(),
        du == targets_defs(assign.targets@, it.index@ as int, assign.range, f, li),
        rec_rel(*old(self), *self, du, Seq::empty(), f),
@loopstart 1
    let ghost i = it.index@ as int;
    proof { assert(*target == assign.targets@[i]); lemma_rec_open(*old(self), *self, du, Seq::empty(), f); }
@before record_fixture_definition 1
    let ghost s1 = *self;
    let ghost x = dv(&definition);
    proof {
        assert(is_third_party == env_third_party(pbv(file_path)));
        assert(is_plugin == env_is_plugin(pbv(file_path)));
        assert(x.dependencies =~= Seq::<Seq<char>>::empty());
        assert(x == assign_def(*name, assign.range, f, li));
    }
@after record_fixture_definition 1
    proof {
        lemma_rec_def(*old(self), s1, *self, du, Seq::empty(), x, f);
        du = du.push(x);
    }
@*/

/*@ extract src/fixtures/analyzer.rs visit_pytestmark_assignment
@tags C03 C06 C15 C12
@recv mut
@sig
    requires is_line_index(ints(line_index@)),
    ensures rec_rel(*old(self), *final(self), Seq::empty(), pytestmark_uses(opt_deref(value), pbv(file_path), line_index@), pbv(file_path)),
        final(self).undeclared_fixtures == old(self).undeclared_fixtures,
@start
    let ghost f = pbv(file_path);
    let ghost li = line_index@;
    let ghost mut uu: Seq<UseV> = Seq::empty();
    proof { lemma_rec_refl(*old(self), f); }
@after usefixtures 1
    let ghost ps = lpairs_v(usefixtures@);
    proof { lemma_ufe_post(value, usefixtures@); }
@loopvar 1 it
@loop 1
    invariant f == pbv(file_path), li == line_index@, is_line_index(ints(li)),
        ps == lpairs_v(it.seq()),
        uu == lit_uses(ps.take(it.index@ as int), f, li, true),
        rec_rel(*old(self), *self, Seq::empty(), uu, f),
        self.undeclared_fixtures == old(self).undeclared_fixtures,
@before record_fixture_usage 1
    let ghost s1 = *self;
    let ghost i = it.index@ as int;
    let ghost x = lit_use_sat(ps[i], f, li);
    proof { assert(ps[i] == (fixture_name@, range)); }
@after record_fixture_usage 1
    proof {
        lemma_rec_use(*old(self), s1, *self, Seq::empty(), uu, x, f);
        assert(ps.take(i + 1).map_values(lit_use_fn(f, li, true)) =~= ps.take(i).map_values(lit_use_fn(f, li, true)).push(x));
        uu = uu.push(x);
    }
@end
    proof { assert(ps.take(ps.len() as int) =~= ps); }
@*/

/*@ extract src/fixtures/analyzer.rs visit_pytestmark_assignment
@tags C03
@as canary_visit_pytestmark_records_nothing
@recv mut
@sig
    requires is_line_index(ints(line_index@)),
    ensures rec_rel(*old(self), *final(self), Seq::empty(), Seq::empty(), pbv(file_path)),
@start
    let ghost f = pbv(file_path);
    let ghost li = line_index@;
    let ghost mut uu: Seq<UseV> = Seq::empty();
    proof { lemma_rec_refl(*old(self), f); }
@after usefixtures 1
    let ghost ps = lpairs_v(usefixtures@);
    proof { lemma_ufe_post(value, usefixtures@); }
@loopvar 1 it
@loop 1
    invariant f == pbv(file_path), li == line_index@, is_line_index(ints(li)),
        ps == lpairs_v(it.seq()),
        uu == lit_uses(ps.take(it.index@ as int), f, li, true),
        rec_rel(*old(self), *self, Seq::empty(), uu, f),
@before record_fixture_usage 1
    let ghost s1 = *self;
    let ghost i = it.index@ as int;
    let ghost x = lit_use_sat(ps[i], f, li);
    proof { assert(ps[i] == (fixture_name@, range)); }
@after record_fixture_usage 1
    proof {
        lemma_rec_use(*old(self), s1, *self, Seq::empty(), uu, x, f);
        assert(ps.take(i + 1).map_values(lit_use_fn(f, li, true)) =~= ps.take(i).map_values(lit_use_fn(f, li, true)).push(x));
        uu = uu.push(x);
    }
@end
    proof { assert(ps.take(ps.len() as int) =~= ps); }
@*/
}


//@tags C03
/// C03 (third-party / plugin flags): under the environment hypothesis the flags recorded for a fixture are the
/// classification PROVED in unit classify for this database's workspace root and editable installs, and membership
/// of the file in plugin_fixture_files -- for function fixtures and assignment-style fixtures alike
pub proof fn lemma_C03_recorded_flags_are_the_classification(db: FixtureDatabase, v: FnV, d: Expr, nm: AExprName, range: TextRange, file: PV, src: Seq<char>, li: Seq<usize>)
    requires db.env_ok(),
    ensures ({
        let cls = op_in_site_packages(opt_pbv(db.workspace_root), file)
            || op_editable_third_party(roots(db.editable_install_roots@), opt_pbv(db.workspace_root), file);
        &&& fixture_def(v, d, file, src, li).is_third_party == cls
        &&& assign_def(nm, range, file, li).is_third_party == cls
        &&& fixture_def(v, d, file, src, li).is_plugin == db.plugin_fixture_files.m().contains_key(file)
        &&& assign_def(nm, range, file, li).is_plugin == db.plugin_fixture_files.m().contains_key(file)
    }),
{
    assert(env_third_party(file) == (op_in_site_packages(opt_pbv(db.workspace_root), file)
        || op_editable_third_party(roots(db.editable_install_roots@), opt_pbv(db.workspace_root), file)));
    assert(env_is_plugin(file) == db.plugin_fixture_files.m().dom().contains(file));
}
//@tags C03
/// C03 (which functions are tests): the visitor applies pytest's default `python_functions` prefix `test`, no underscore
/// required: a function named `testlogin` (or just `test`, or `test_login`) is a test -- its parameters (except self and
/// defaulted ones) are recorded as fixture usages, exactly the test branch of func_uses
pub proof fn lemma_C03_test_prefix_without_underscore(v: FnV, f: PV, li: Seq<usize>)
    ensures is_test_name("testlogin"@), is_test_name("test"@), is_test_name("test_login"@),
        (v.name == "testlogin"@ && first_fix(v.decos, 0) is None && no_marks(v.decos)) ==>
            func_uses(v, f, li) =~= param_uses(all_params(v.args), all_params(v.args).len() as int, false, f, li),
{
    reveal(is_test_name);
    reveal_strlit("test"); reveal_strlit("testlogin"); reveal_strlit("test_login");
    assert("testlogin"@.subrange(0, 4) =~= "test"@);
    assert("test"@.subrange(0, 4) =~= "test"@);
    assert("test_login"@.subrange(0, 4) =~= "test"@);
    if v.name == "testlogin"@ && first_fix(v.decos, 0) is None && no_marks(v.decos) {
        lemma_decos_uses_no_marks(v.decos, v.decos.len() as int, 0, f, li);
        lemma_decos_uses_no_marks(v.decos, v.decos.len() as int, 1, f, li);
    }
}
/// canary: "a proper prefix of `test`, or a name that merely contains it, is a test name"
pub proof fn canary_tes_or_atest_is_test_name()
    ensures is_test_name("tes"@) || is_test_name("atest"@),
{
    reveal(is_test_name);
    reveal_strlit("test"); reveal_strlit("tes"); reveal_strlit("atest");
}
/// canary: "the environment hypothesis is contradictory"
pub proof fn canary_env_ok_contradictory(db: FixtureDatabase)
    requires db.env_ok(),
    ensures false,
{}
/// canary: "the flags are the classification WITHOUT the hypothesis"
pub proof fn canary_flags_without_env_ok(db: FixtureDatabase, nm: AExprName, range: TextRange, file: PV, li: Seq<usize>)
    ensures assign_def(nm, range, file, li).is_plugin == db.plugin_fixture_files.m().contains_key(file),
{}

} // verus!
fn main() {}
