//@include prelude/header.rs
// Unit visit (properties C03 / C06 / C15, "AST -> index" wiring): the REAL visitors of src/fixtures/analyzer.rs
// (visit_stmt, visit_assignment_fixture, visit_pytestmark_assignment, all_args) against the operational
// specification prelude/visit_spec.rs (visit_defs / visit_uses: what ONE statement makes the index record).
// Discharges assumption A7 of unit analyze.
//   L1  each visitor moves the database by exactly `rec_rel(old, new, visit_defs(..), visit_uses(..), file)`:
//       a sequence of record_fixture_definition / record_fixture_usage effects, nothing else touched
//       (file_cache, imports unchanged; undeclared_fixtures changed at most at key `file`; version = one bump per
//       definition, wrap-around included)
//   L2  lemma_C03_* / lemma_C15_* over visit_defs / visit_uses (pure)
use rustpython_parser::ast::{Expr, Stmt, Keyword, Identifier, Constant, ExceptHandler, ExprCall, Alias, Arguments, ArgWithDefault};
use rustpython_parser::text_size::TextRange;
verus! {
global size_of usize == 8;  // A6: 64-bit target
pub mod pre {
use super::*;
//@include prelude/path.rs
//@include prelude/types.rs
//@include prelude/dashmap.rs
//@include prelude/hashset.rs
//@include prelude/atomic.rs
//@include prelude/dbview.rs
//@include prelude/hof.rs
//@include prelude/arc.rs
//@include prelude/index_spec.rs
//@include prelude/strings.rs
//@include prelude/iter_ext.rs
//@include prelude/iter_slice.rs
//@include prelude/bytes.rs
//@include build/astspec.rs
#[verifier::external_type_specification] #[verifier::reject_recursive_types(R)] pub struct ExMod<R>(rustpython_parser::ast::Mod<R>);
#[verifier::external_type_specification] #[verifier::reject_recursive_types(R)] pub struct ExModModule<R>(rustpython_parser::ast::ModModule<R>);
#[verifier::external_type_specification] #[verifier::reject_recursive_types(R)] pub struct ExModInteractive<R>(rustpython_parser::ast::ModInteractive<R>);
#[verifier::external_type_specification] #[verifier::reject_recursive_types(R)] pub struct ExModExpression<R>(rustpython_parser::ast::ModExpression<R>);
#[verifier::external_type_specification] #[verifier::reject_recursive_types(R)] pub struct ExModFunctionType<R>(rustpython_parser::ast::ModFunctionType<R>);
#[verifier::external_type_specification] #[verifier::reject_recursive_types(R)] pub struct ExTypeIgnore<R>(rustpython_parser::ast::TypeIgnore<R>);
#[verifier::external_type_specification] #[verifier::reject_recursive_types(R)] pub struct ExTypeIgnoreTypeIgnore<R>(rustpython_parser::ast::TypeIgnoreTypeIgnore<R>);
//@include prelude/ast_spec.rs
//@include prelude/line_spec.rs
//@include prelude/analyze_spec.rs
//@include prelude/visit_spec.rs
//@include prelude/visit_shims.rs
} // mod pre
use pre::*;

#[verifier::external_type_specification] pub struct ExUndeclaredFixture(UndeclaredFixture);

//@dbstruct_arc definitions file_definitions usages usage_by_fixture definitions_version file_cache undeclared_fixtures imports plugin_fixture_files

//@include prelude/index_dbspecs.rs
//@include prelude/visit_dbspecs.rs

broadcast use {axiom_string_to_string, axiom_identifier_to_string, axiom_tsv_u32, axiom_str_blen};

// ---- callee contracts PROVED in unit ast_helpers (src/fixtures/decorators.rs) ---------------------------------
pub mod decorators {
use super::*;
//@stub ast_helpers is_fixture_decorator
//@stub ast_helpers extract_fixture_name_from_decorator
//@stub ast_helpers extract_fixture_scope
//@stub ast_helpers extract_fixture_autouse
//@stub ast_helpers extract_usefixtures_names
//@stub ast_helpers extract_usefixtures_from_expr
//@stub ast_helpers extract_parametrize_indirect_fixtures
} // mod decorators

impl FixtureDatabase {
//@stub index_maint record_fixture_usage
//@stub index_maint record_fixture_definition
//@stub line_index get_line_from_offset
//@stub line_index get_char_position_from_offset
//@stub ast_helpers extract_docstring
//@stub ast_helpers extract_return_type
//@stub ast_helpers find_yield_line

    // ---- callee contracts ASSUMED here (environment inputs) ---------------------------------------------------
    /// string search in the source line (string_utils.rs; bounded checking: Kani): result left abstract
    #[verifier::external_body]
    fn find_function_name_position(&self, content: &str, line: usize, func_name: &str) -> (r: (usize, usize))
        ensures r == name_pos(content@, line, func_name@)
    { unimplemented!() }
    /// reads editable_install_roots / workspace_root (environment); only called inside vp_is_third_party
    #[verifier::external_body]
    pub(crate) fn is_editable_install_third_party(&self, file_path: &Path) -> (r: bool)
    { unimplemented!() }
    /// undeclared.rs: walks the function body; its only write is `undeclared_fixtures.entry(file_path).or_default().push(..)`
    /// (by reading: undeclared.rs:278).  ASSUMED frame: nothing but undeclared_fixtures[file_path] changes.
    #[verifier::external_body]
    pub(crate) fn scan_function_body_for_undeclared_fixtures(&mut self, body: &[Stmt], file_path: &PathBuf, line_index: &[usize],
        declared_params: &HashSet<String>, function_name: &str, function_line: usize)
        ensures
            final(self).definitions == old(self).definitions, final(self).file_definitions == old(self).file_definitions,
            final(self).usages == old(self).usages, final(self).usage_by_fixture == old(self).usage_by_fixture,
            final(self).definitions_version == old(self).definitions_version,
            final(self).file_cache == old(self).file_cache, final(self).imports == old(self).imports,
            undecl_frame(old(self).undeclared_fixtures.m(), final(self).undeclared_fixtures.m(), pbv(file_path)),
    { unimplemented!() }
    /// the iterator all_args returns, collected (a `for` over an opaque `impl Iterator` has no loop specification in
    /// this Verus).  ASSUMED: collecting yields the sequence all_args is PROVED to return (extract block below).
    #[verifier::external_body]
    fn vp_all_args(args: &Arguments) -> (r: std::vec::IntoIter<&ArgWithDefault>)
        ensures r.obeys_prophetic_iter_laws(), r.decrease() is Some,
            r.remaining() == all_params(*args).as_ref(),
    { Self::all_args(args).collect::<Vec<_>>().into_iter() }

/*@ extract src/fixtures/analyzer.rs all_args
@tags C03 C06 C15 C12
@ret r
@rename chain vp_chain
@sig
    ensures r.remaining() == all_params(*args).as_ref(),
@*/

/*@ extract src/fixtures/analyzer.rs visit_assignment_fixture
@tags C03 C06 C15 C12
@recv mut
@wrapexpr 1 `file_path.to_string_lossy().contains("site-packages") || self.is_editable_install_third_party(file_path)` => `self.vp_is_third_party_a(file_path)` with fn vp_is_third_party_a(&self, file_path: &PathBuf) -> (r: bool) ensures r == env_third_party(pbv(file_path))
@wrapexpr 1 `self.plugin_fixture_files.contains_key(file_path)` => `self.vp_is_plugin_a(file_path)` with fn vp_is_plugin_a(&self, file_path: &PathBuf) -> (r: bool) ensures r == env_is_plugin(pbv(file_path))
@sig
    requires is_line_index(ints(line_index@)),
    ensures rec_rel(*old(self), *final(self), assign_defs(*assign, pbv(file_path), line_index@), Seq::empty(), pbv(file_path)),
@start
    let ghost f = pbv(file_path);
    let ghost li = line_index@;
    let ghost mut du: Seq<DefV> = Seq::empty();
    proof { lemma_rec_refl(*old(self), f); }
@loopvar 1 it
@loop 1
    invariant f == pbv(file_path), li == line_index@, is_line_index(ints(li)),
        it.seq() == assign.targets@.as_ref(),
        du == targets_defs(assign.targets@, it.index@ as int, assign.range, f, li),
        rec_rel(*old(self), *self, du, Seq::empty(), f),
@loopstart 1
    let ghost i = it.index@ as int;
    proof { assert(*target == assign.targets@[i]); }
@before record_fixture_definition 1
    let ghost s1 = *self;
    let ghost x = dv(&definition);
    proof {
        assert(x.dependencies =~= Seq::<Seq<char>>::empty());
        assert(x == assign_def(*name, assign.range, f, li));
    }
@after record_fixture_definition 1
    proof {
        lemma_rec_def(*old(self), s1, *self, du, Seq::empty(), x, f);
        du = du.push(x);
    }
@*/

/*@ extract src/fixtures/analyzer.rs visit_pytestmark_assignment
@tags C03 C06 C15 C12
@recv mut
@sig
    requires is_line_index(ints(line_index@)),
    ensures rec_rel(*old(self), *final(self), Seq::empty(), pytestmark_uses(opt_deref(value), pbv(file_path), line_index@), pbv(file_path)),
@start
    let ghost f = pbv(file_path);
    let ghost li = line_index@;
    let ghost mut uu: Seq<UseV> = Seq::empty();
    proof { lemma_rec_refl(*old(self), f); }
@after usefixtures 1
    let ghost ps = lpairs_v(usefixtures@);
    proof { lemma_ufe_post(value, usefixtures@); }
@loopvar 1 it
@loop 1
    invariant f == pbv(file_path), li == line_index@, is_line_index(ints(li)),
        ps == lpairs_v(it.seq()),
        uu == lit_uses(ps.take(it.index@ as int), f, li, true),
        rec_rel(*old(self), *self, Seq::empty(), uu, f),
@before record_fixture_usage 1
    let ghost s1 = *self;
    let ghost i = it.index@ as int;
    let ghost x = lit_use_sat(ps[i], f, li);
    proof { assert(ps[i] == (fixture_name@, range)); }
@after record_fixture_usage 1
    proof {
        lemma_rec_use(*old(self), s1, *self, Seq::empty(), uu, x, f);
        assert(ps.take(i + 1).map_values(lit_use_fn(f, li, true)) =~= ps.take(i).map_values(lit_use_fn(f, li, true)).push(x));
        uu = uu.push(x);
    }
@end
    proof { assert(ps.take(ps.len() as int) =~= ps); }
@*/
}

} // verus!
fn main() {}
