//@include prelude/strstruct_header.rs
// Unit module_resolve — property C14, RESOLUTION part (+ C11 no panic, C12 termination of the upward walk):
//   src/fixtures/imports.rs  resolve_module_to_file, resolve_relative_import, resolve_absolute_import, find_module_file,
//   extracted verbatim.  Units imports_closure / imports_extract own the closure and the extraction; there
//   `resolve(module, from, keys of file_cache)` is an ABSTRACT function — this unit gives it its definition `op_resolve`
//   (prelude/modres_spec.rs).
//   L1  every function == its operational specification (op_find / op_relative / op_absolute / op_resolve): which
//       candidates are tried, in which order, under which file-system tests; the world enters only through
//       fs_exists / fs_is_dir (static predicates), canon (get_canonical_path), the KEY SET of file_cache, and the two
//       lists site_packages_paths / editable_install_roots in list order.
//   L2  prelude/modres_l2.rs: lemma_C14_* (closed form for ordinary dotted names, relative imports stay below their
//       anchor directory and have no fallback, `from . import x` / `from .x import *` resolve next to the importing file,
//       PACKAGE before module file (Python's order; F-14f repaired in /repo 6de68a0), the upward walk ignores the workspace root
//       and sys.path (FINDING), search order, namespace packages, empty segments / empty module text, absolute plugin
//       strings), canaries.
//   C11 `parts.len() - 1` (usize), `lock().unwrap()`, every `?`; C12: the two loops of the upward walk carry
//       `decreases` (number of path components / characters left).
//   assumed: prelude/modres_path.rs (MP1-MP9), prelude/modres_str.rs (MS1-MS6), prelude/dashmap.rs (contains_key),
//       the callee stub get_canonical_path (a function `canon` of the path), the @wrapexpr helper vp_fmt_py (MS5).
verus! {
global size_of usize == 8;  // A6: 64-bit target
pub mod pre {
use super::*;
//@include prelude/modres_path.rs
//@include prelude/dashmap.rs
//@include prelude/modres_str.rs
//@include prelude/modres_spec.rs
//@include prelude/modres_l2.rs
} // mod pre
use pre::*;

broadcast use {axiom_cpat_char, axiom_str_as_path, axiom_string_as_path, axiom_strref_as_path, axiom_path_as_path,
    axiom_pathbuf_ref_as_path};

// src/fixtures/mod.rs, taken from the source at generation time
//@item src/fixtures/mod.rs struct EditableInstall
impl VpLock for Vec<EditableInstall> {
    #[verifier::external_body]
    fn lock(&self) -> (r: Result<&Self, PoisonNever>) { Ok(self) }
}
/// only the source root of an editable install matters here
pub open spec fn roots(s: Seq<EditableInstall>) -> Seq<PV> { s.map_values(|e: EditableInstall| pbv(&e.source_root)) }
/// the directory an element of either root list stands for (so that the two loop contracts of
/// resolve_absolute_import do not depend on the element TYPE: swapping the loops is then refuted, not a type error)
pub trait RootView { spec fn rootv(&self) -> PV; }
impl RootView for PathBuf { open spec fn rootv(&self) -> PV { pbv(self) } }
impl RootView for EditableInstall { open spec fn rootv(&self) -> PV { pbv(&self.source_root) } }
pub open spec fn rootvs<T: RootView>(s: Seq<&T>) -> Seq<PV> { s.map_values(|x: &T| x.rootv()) }

//@dbstruct file_cache site_packages_paths editable_install_roots

impl FixtureDatabase {
    pub open spec fn dom(&self) -> Set<PV> { self.file_cache.m().dom() }
    pub open spec fn sps(&self) -> Seq<PV> { pbvs(self.site_packages_paths@) }
    pub open spec fn ers(&self) -> Seq<PV> { roots(self.editable_install_roots@) }

    /// callee stub (ASSUMED): canonical_path_cache / Path::canonicalize / the path itself — a function of the path
    /// (same contract as in unit imports_closure)
    #[verifier::external_body]
    pub(crate) fn get_canonical_path(&self, path: PathBuf) -> (r: PathBuf)
        ensures pbv(&r) == canon(pbv(&path)),
    { unimplemented!() }

/*@ extract src/fixtures/imports.rs find_module_file
@tags C14 C11 C12
@ret r
@rename split vp_split
@rename enumerate vp_enumerate
@wrapexpr 1 `format!("{}.py", part)` => `Self::vp_fmt_py(part)` with fn vp_fmt_py(part: &&str) -> (r: String) ensures r@ == (**part)@ + py_suffix()
@sig
    ensures opt_pbv(r) == op_find(module_path@, pv(base_dir), self.dom()),
@after parts 1
    let ghost ps = split_v(module_path@, '.');
    let ghost dom = self.dom();
    proof { assert(strs_of(parts@) == ps); }
@loopvar 1 it
@loop 1
    invariant ps == strs_of(parts@), ps == split_v(module_path@, '.'), dom == self.dom(), it.seq().len() == parts@.len(),
        forall|k: int| 0 <= k < it.seq().len() ==> (#[trigger] it.seq()[k]).0 == k && *it.seq()[k].1 == parts@[k],
        op_find_parts(ps, 0, pv(base_dir), dom) == op_find_parts(ps, it.index@ as int, pbv(&current_path), dom),
@loopstart 1
    let ghost i0 = it.index@ as int;
    let ghost cur0 = pbv(&current_path);
    proof {
        assert(i == i0 && *part == parts@[i0]);
        assert(ps[i0] == (**part)@);
        assert(ps.len() == parts@.len());
    }
@return 1
    assert(op_find_parts(ps, i0, cur0, dom) is Some);
@return 2
    assert(op_find_parts(ps, i0, cur0, dom) is Some);
@return 3
    assert(op_find_parts(ps, i0, cur0, dom) is Some);
@return 4
    assert(op_find_parts(ps, i0, cur0, dom) is Some);
@return 5
    assert(pbv(&current_path) == pv_join(cur0, text_pv(ps[i0])));
    assert(op_find_parts(ps, i0, cur0, dom) is None);
@loopend 1
    proof {
        if i0 == ps.len() - 1 {
            assert(!hit(cand_py(cur0, ps[i0]), dom) && !hit(cand_init(cur0, ps[i0]), dom));
            assert(op_find_parts(ps, i0, cur0, dom) is None);
            assert(op_find_parts(ps, i0 + 1, pbv(&current_path), dom) is None);
        } else {
            assert(pbv(&current_path) == pv_join(cur0, text_pv(ps[i0])));
        }
    }
@*/

/*@ extract src/fixtures/imports.rs resolve_relative_import
@tags C14 C11 C12
@ret r
@rename peekable vp_peekable
@sig
    ensures opt_pbv(r) == op_relative(module_path@, pv(base_dir), self.dom()),
@after chars 1
    let ghost m = module_path@;
    let ghost d = pv(base_dir);
    let ghost mut k: int = 0;
    let ghost mut ups: int = 0;
    proof { assert(m.skip(0) =~= m); }
@loop 1
    invariant_except_break k == ups, k > 0 ==> (k < m.len() && m[k] == '.'),
    invariant m == module_path@, d == pv(base_dir), 0 <= ups <= k <= m.len(), chars.rest() == m.skip(k),
        dots_end(m, 0) == dots_end(m, k), op_up(d, ups) == Some(pbv(&current_dir)),
    ensures k == dots_end(m, 0), ups == ups_of(k), chars.rest() == m.skip(k), op_up(d, ups) == Some(pbv(&current_dir)),
    decreases m.len() - k
@after next 1
    proof { k = k + 1; assert(m.skip(k - 1).skip(1) =~= m.skip(k)); }
@break 1
    assert(dots_end(m, k) == k);
@before parent 1
    proof {
        // here the next character is a dot too: at least k + 1 leading dots, so at least k = ups + 1 levels are asked for
        lemma_dots_end_ge(m, k + 1);
        assert(dots_end(m, k) == dots_end(m, k + 1));
        assert(ups + 1 <= ups_of(dots_end(m, 0)));
        if !(pv_has_parent(pbv(&current_dir)) && pbv(&current_dir).len() > 0) {
            assert(op_up(d, ups + 1) is None);
            lemma_up_none_mono(d, ups + 1, ups_of(dots_end(m, 0)));
        }
    }
@after parent 1
    proof { ups = ups + 1; assert(op_up(d, ups) == Some(pbv(&current_dir))); }
@*/

/*@ extract src/fixtures/imports.rs resolve_absolute_import
@tags C14 C11 C12
@ret r
@sig
    ensures opt_pbv(r) == op_absolute(module_path@, pv(start_dir), self.dom(), self.sps(), self.ers()),
@start
    let ghost m = module_path@;
    let ghost dom = self.dom();
    let ghost sps = self.sps();
    let ghost ers = self.ers();
    proof {
        assert(rootvs(self.site_packages_paths@.as_ref()) =~= sps);
        assert(rootvs(self.editable_install_roots@.as_ref()) =~= ers);
    }
@loop 1
    invariant m == module_path@, dom == self.dom(),
        op_walk_up(m, pv(start_dir), dom) == op_walk_up(m, pbv(&current_dir), dom),
    ensures op_walk_up(m, pv(start_dir), dom) is None,
    decreases pbv(&current_dir).len()
@loopstart 1
    let ghost c0 = pbv(&current_dir);
@break 1
    assert(op_walk_up(m, c0, dom) is None);
@loopend 1
    proof { assert(op_walk_up(m, c0, dom) == op_walk_up(m, pbv(&current_dir), dom)); }
@loopvar 2 it2
@loop 2
    invariant m == module_path@, dom == self.dom(), sps == self.sps(), ers == self.ers(),
        op_walk_up(m, pv(start_dir), dom) is None,
        rootvs(it2.seq()) == sps,
        op_first(m, sps, 0, dom) == op_first(m, sps, it2.index@ as int, dom),
@loopstart 2
    proof { let j = it2.index@ as int; assert(sps[j] == it2.seq()[j].rootv()); }
@loopvar 3 it3
@loop 3
    invariant m == module_path@, dom == self.dom(), sps == self.sps(), ers == self.ers(),
        op_walk_up(m, pv(start_dir), dom) is None, op_first(m, sps, 0, dom) is None,
        rootvs(it3.seq()) == ers,
        op_first(m, ers, 0, dom) == op_first(m, ers, it3.index@ as int, dom),
@loopstart 3
    proof { let j = it3.index@ as int; assert(ers[j] == it3.seq()[j].rootv()); }
@*/

/*@ extract src/fixtures/imports.rs resolve_module_to_file
@tags C14 C11
@ret r
@sig
    ensures opt_pbv(r) == op_resolve(module_path@, pv(importing_file), self.dom(), self.sps(), self.ers()),
@*/

// exec canary: the same real body under the claim `false` — must FAIL (otherwise the assumed shim contracts are
// contradictory and everything above is vacuous)
/*@ extract src/fixtures/imports.rs find_module_file
@tags C14
@as canary_find_module_file_vacuous
@ret r
@rename split vp_split
@rename enumerate vp_enumerate
@wrapexpr 1 `format!("{}.py", part)` => `Self::vp_fmt_py_c(part)` with fn vp_fmt_py_c(part: &&str) -> (r: String) ensures r@ == (**part)@ + py_suffix()
@sig
    ensures false,
@loopvar 1 it
@loop 1
    invariant it.seq().len() == parts@.len(),
@*/

// exec canary: the same real body under the claim "nothing is ever resolved"
/*@ extract src/fixtures/imports.rs resolve_module_to_file
@tags C14
@as canary_resolve_never_finds_anything
@ret r
@sig
    ensures r is None,
@*/
}

//@tags C14
/// determinism: the result is a function of the two arguments and of (fs_exists, fs_is_dir, canon, the KEY SET of
/// file_cache, the two root lists in list order) — two databases that agree on these give the same answer, whatever
/// their hash order, cache contents or history
pub proof fn lemma_C14_resolution_is_a_function_of_its_inputs(a: &FixtureDatabase, b: &FixtureDatabase, m: Seq<char>, from: PV)
    requires a.dom() == b.dom(), a.sps() == b.sps(), a.ers() == b.ers(),
    ensures op_resolve(m, from, a.dom(), a.sps(), a.ers()) == op_resolve(m, from, b.dom(), b.sps(), b.ers()),
{}

} // verus!
fn main() {}
