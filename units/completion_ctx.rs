//@include prelude/header.rs
// Unit completion_ctx (property C18, context part).
use rustpython_parser::ast::{Expr, Stmt, Keyword, Identifier, Constant, ExceptHandler, ExprCall, Alias, Arguments, ArgWithDefault};
use rustpython_parser::text_size::TextRange;
verus! {
pub mod pre {
use super::*;
//@include build/astspec.rs
//@include prelude/path.rs
//@include prelude/types.rs
//@include prelude/hof.rs
//@include prelude/strings.rs
//@include prelude/iter_ext.rs
//@include prelude/iter_slice.rs
//@include prelude/bytes.rs
//@include prelude/ast_spec.rs
//@include prelude/line_spec.rs
//@include prelude/completion_ctx_spec.rs
//@include prelude/completion_shims.rs
} // mod pre
use pre::*;

broadcast use {axiom_string_to_string, axiom_identifier_to_string, vstd::std_specs::iter::map_postcondition};

// ---- callee contracts PROVED in unit ast_helpers (src/fixtures/decorators.rs) ---------------------------------
pub mod decorators {
use super::*;
//@stub ast_helpers is_fixture_decorator
//@stub ast_helpers extract_fixture_scope
//@stub ast_helpers is_usefixtures_decorator
//@stub ast_helpers is_parametrize_decorator
} // mod decorators

// no field of the database is read directly by these methods (a field access would not compile: UNDECIDED)
pub struct FixtureDatabase {}

pub mod resolver {
use super::*;
broadcast use {axiom_string_to_string, axiom_identifier_to_string, vstd::std_specs::iter::map_postcondition};
impl FixtureDatabase {
//@stub line_index get_line_from_offset

    /// callee stub: AST ranges + text scan for the trailing ':' (resolver.rs find_signature_end_line), result left abstract
    #[verifier::external_body]
    fn find_signature_end_line(&self, func_start_line: usize, args: &Arguments, returns: &Option<Box<Expr>>, body: &[Stmt],
                               content: &str, line_index: &[usize]) -> (r: usize)
        ensures r == sig_end_line(func_start_line, *args, *returns, body@, content@, line_index@)
    { unimplemented!() }

/*@ extract src/fixtures/analyzer.rs all_args
@tags C18 C12
@ret r
@rename chain cc_chain
@sig
    ensures r.remaining() == all_params(*args).as_ref(), r.obeys_prophetic_iter_laws(), r.decrease() is Some,
@*/

/*@ extract src/fixtures/resolver.rs get_func_context
@tags C18 C12
@ret r
@rename find_map vp_find_map
@wrapexpr 1 `func_name.as_str().starts_with("test_")` => `Self::vp_is_test(func_name)` with fn vp_is_test(func_name: &Identifier) -> (r: bool) ensures r == is_test_name(idv(func_name))
@closure map:1 |arg: &ArgWithDefault| -> (s: String) ensures s@ == pname(*arg)
@sig
    requires is_line_index(ints(line_index@)),
    ensures opt_ccv(r) == spec_func_ctx(*func_name, decorator_list@, *args, *returns, body@, range, content@, target_line, line_index@),
@after is_fixture 1
    proof {
        let ds = decorator_list@;
        if !is_fixture {
            assert forall|i: int| 0 <= i < ds.len() implies !spec_is_fixture_decorator(&#[trigger] ds[i]) by { let y = ds.as_ref()[i]; }
        }
        assert(is_fixture == has_fixture_decorator(ds));
    }
@after scope 1
    proof {
        let s = decorator_list@.as_ref();
        assert forall|j: int, o: Option<FixtureScope>| 0 <= j < s.len() && #[trigger] kw_post(s[j], kw_scope_fn(), o)
            implies o == spec_kw(s[j], kw_scope_fn()) by { lemma_kw_post(s[j], kw_scope_fn(), o); }
        assert(scope_post(s, scope));
        lemma_scope_post(decorator_list@, scope);
    }
@after params 1
    proof { assert(str_views(params@) =~= declared_names(*args)); }
@*/

/*@ extract src/fixtures/resolver.rs get_function_completion_context
@tags C18 C12
@ret r
@sig
    requires is_line_index(ints(line_index@)),
    ensures opt_ccv(r) == spec_first_ctx(stmts@, content@, target_line, line_index@),
    decreases stmts@,
@loopvar 1 it
@loop 1
    invariant it.seq() == stmts@.as_ref(), is_line_index(ints(line_index@)),
        fc_from(stmts@, 0, content@, target_line, line_index@) == fc_from(stmts@, it.index@ as int, content@, target_line, line_index@),
@loopstart 1
    proof { let i = it.index@ as int; assert(*stmt == stmts@[i]);
        assert(fc_from(stmts@, i, content@, target_line, line_index@)
            == opt_or(fc_stmt(*stmt, content@, target_line, line_index@), fc_from(stmts@, i + 1, content@, target_line, line_index@))); }
@*/
}
} // mod resolver

} // verus!
fn main() {}
