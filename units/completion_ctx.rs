//@include prelude/header.rs
// Unit completion_ctx (property C18, context part: "completion returns fixture names when, and only when, the cursor is
// inside the signature or body of a test or fixture function or inside a usefixtures / indirect-parametrize argument
// list ... minus names already declared as parameters ... inside a fixture - minus fixtures of narrower scope"; the
// offered-set part is unit completion_filter).  The AST path of FixtureDatabase::get_completion_context
// (src/fixtures/resolver.rs) on the REAL rustpython AST types (build/astspec.rs), for ALL ASTs.
//   L1  (operational specification: prelude/completion_ctx_spec.rs)
//       get_func_context                 opt_ccv(r) == spec_func_ctx(..)      exact: None / Signature / Body, name, line,
//                                        is_fixture, declared = ALL parameters (posonly ++ regular ++ kwonly), scope
//       get_function_completion_context  opt_ccv(r) == spec_first_ctx(..)     first match in statement order, class recursion; terminates
//       cursor_inside_usefixtures_call   inside_post(..) (object level) + PROVED lemma_inside_post: r == inside_uf(..); terminates
//       check_decorator_context          opt_ccv(r) == spec_deco_ctx(..)      decorators, pytestmark assignments, class recursion; terminates
//       get_completion_context           opt_ccv(r) == spec_completion_ctx(content_of(file), line)   decorator > function > text fallback
//       all_args                         the iterator yields posonlyargs ++ args ++ kwonlyargs  (and obeys vstd's iterator laws)
//       find_enclosing_function / is_inside_function (test-only API): exact; regular parameters ONLY, no class recursion
//   L2  prelude/completion_ctx_l2.rs (lemma_C18_*), 6 proof canaries + 1 exec canary (@as) below.
// ASSUMED here (each stated at its stub):
//   A-cc1 (discharged) find_signature_end_line: `sig_end_line` IS op_sig_end (prelude/sigend_spec.rs), the contract PROVED for
//         the real body in unit sig_end (//@stub sig_end); it needs line_index.len() + 10 <= usize::MAX (unchecked `+ 10`)
//   A-cc2 get_completion_context_from_text is a function `text_ctx` of (text, line) (text scanner 628-986: not under contract)
//   A-cc3 `name.as_str().starts_with("test")` is `is_test_name` of the name's text = the name begins with `test` (prelude/completion_ctx_spec.rs; the meaning of
//         str::starts_with, as P6 of prelude/strstruct_prims.rs)
//   A-cc4 get_file_content / get_parsed_ast / get_line_index: functions of (database state, path) / the text / the text;
//         the line index handed out IS a line index (PROVED for build_line_index in unit line_index) and has at most
//         usize::MAX - 10 entries (true of every Vec<usize>; Verus has no bound on slice lengths)
//   A-cc5 `Ranged::range` of Expr / Stmt is a function of the node (expr_range / stmt_range)
//   A-cc6 std shims (prelude/completion_shims.rs): `a.chain(b)` yields a's then b's elements; `slice.iter().any(f)` for an
//         f callable on the elements only; `slice.iter().rev().find_map(f)` (unused by /repo; decides the "last wins" variant)
//   callee contracts PROVED elsewhere: decorators::{is_fixture_decorator, extract_fixture_scope, is_usefixtures_decorator,
//   is_parametrize_decorator} (unit ast_helpers), get_line_from_offset (unit line_index, needs is_line_index).
// `FixtureDatabase::all_args(args).map(..).collect()` is verified AS WRITTEN: the opaque `impl Iterator` all_args returns
// carries the contract proved for the real all_args body in this unit (no wrapper around the call).
use rustpython_parser::ast::{Expr, Stmt, Keyword, Identifier, Constant, ExceptHandler, ExprCall, Alias, Arguments, ArgWithDefault, Ranged};
use rustpython_parser::text_size::TextRange;
verus! {
global size_of usize == 8;  // A6: 64-bit target
pub mod pre {
use super::*;
//@include build/astspec.rs
#[verifier::external_type_specification] #[verifier::reject_recursive_types(R)] pub struct ExMod<R>(rustpython_parser::ast::Mod<R>);
#[verifier::external_type_specification] #[verifier::reject_recursive_types(R)] pub struct ExModModule<R>(rustpython_parser::ast::ModModule<R>);
#[verifier::external_type_specification] #[verifier::reject_recursive_types(R)] pub struct ExModInteractive<R>(rustpython_parser::ast::ModInteractive<R>);
#[verifier::external_type_specification] #[verifier::reject_recursive_types(R)] pub struct ExModExpression<R>(rustpython_parser::ast::ModExpression<R>);
#[verifier::external_type_specification] #[verifier::reject_recursive_types(R)] pub struct ExModFunctionType<R>(rustpython_parser::ast::ModFunctionType<R>);
#[verifier::external_type_specification] #[verifier::reject_recursive_types(R)] pub struct ExTypeIgnore<R>(rustpython_parser::ast::TypeIgnore<R>);
#[verifier::external_type_specification] #[verifier::reject_recursive_types(R)] pub struct ExTypeIgnoreTypeIgnore<R>(rustpython_parser::ast::TypeIgnoreTypeIgnore<R>);
//@include prelude/path.rs
//@include prelude/types.rs
//@include prelude/arc.rs
//@include prelude/box_asref.rs
//@include prelude/hof.rs
//@include prelude/strings.rs
//@include prelude/iter_ext.rs
//@include prelude/iter_slice.rs
//@include prelude/bytes.rs
//@include prelude/ast_spec.rs
//@include prelude/line_spec.rs
//@include prelude/completion_ctx_spec.rs
//@include prelude/sigend_spec.rs
//@include prelude/sigend_l2.rs
//@include prelude/completion_ctx_l2.rs
//@include prelude/completion_shims.rs
//@include prelude/position_containing.rs
} // mod pre
use pre::*;

broadcast use {axiom_string_to_string, axiom_identifier_to_string, vstd::std_specs::iter::map_postcondition};

// ---- callee contracts PROVED in unit ast_helpers (src/fixtures/decorators.rs) ---------------------------------
pub mod decorators {
use super::*;
//@stub ast_helpers is_fixture_decorator
//@stub ast_helpers extract_fixture_scope
//@stub ast_helpers is_usefixtures_decorator
//@stub ast_helpers is_parametrize_decorator
} // mod decorators

// no field of the database is read directly by these methods (a field access would not compile: UNDECIDED)
pub struct FixtureDatabase {}
impl FixtureDatabase {
    /// what get_file_content returns for a path (file_cache entry, else the file system), as a function of the
    /// database state at the time of the call
    pub uninterp spec fn content_of(&self, file: PV) -> Option<Seq<char>>;
}

pub mod resolver {
use super::*;
broadcast use {axiom_string_to_string, axiom_identifier_to_string, vstd::std_specs::iter::map_postcondition};
impl FixtureDatabase {
//@stub line_index get_line_from_offset

//@stub sig_end find_signature_end_line

    // ---- callee contracts ASSUMED here (memoised environment reads; the memo tables themselves: unit memo) -----------
    /// the text of a file (file_cache entry, else the file system): some function of the path at the time of the call
    #[verifier::external_body]
    pub(crate) fn get_file_content(&self, file_path: &Path) -> (r: Option<Arc<String>>)
        ensures (match r { Some(a) => Some((*a)@), None => None::<Seq<char>> }) == self.content_of(pv(file_path))
    { unimplemented!() }
    /// the parser, memoised by content hash: determined by the text alone
    #[verifier::external_body]
    pub(crate) fn get_parsed_ast(&self, file_path: &Path, content: &str) -> (r: Option<Arc<rustpython_parser::ast::Mod>>)
        ensures match r { Some(a) => parse_ok(content@) && *a == ast_of(content@), None => !parse_ok(content@) }
    { unimplemented!() }
    /// build_line_index, memoised by content hash: determined by the text alone, and a line index (PROVED for
    /// build_line_index in unit line_index)
    #[verifier::external_body]
    pub(crate) fn get_line_index(&self, file_path: &Path, content: &str) -> (r: Arc<Vec<usize>>)
        ensures (*r)@ == src_line_index(content@), is_line_index(ints((*r)@)), (*r)@.len() + 10 <= usize::MAX
    { unimplemented!() }
    /// the text fallback (resolver.rs 628-986), result left abstract
    #[verifier::external_body]
    fn get_completion_context_from_text(&self, content: &str, target_line: usize) -> (r: Option<CompletionContext>)
        ensures opt_ccv(r) == text_ctx(content@, target_line)
    { unimplemented!() }
/*@ extract src/fixtures/resolver.rs get_completion_context
@tags C18 C12
@ret r
@sig
    ensures opt_ccv(r) == spec_completion_ctx(self.content_of(pv(file_path)), line),
@*/

    /// callee stub: the line index of a text (PROVED a line index in unit line_index; here: a function of the text)
    #[verifier::external_body]
    pub(crate) fn build_line_index(content: &str) -> (r: Vec<usize>)
        ensures r@ == src_line_index(content@), is_line_index(ints(r@))
    { unimplemented!() }

/*@ extract src/fixtures/resolver.rs find_enclosing_function
@tags C18 C12
@ret r
@wrapexpr 1 `func_def.name.starts_with("test")` => `Self::vp_is_test_id1(func_def)` with fn vp_is_test_id1(func_def: &rustpython_parser::ast::StmtFunctionDef) -> (r: bool) ensures r == is_test_name(idv(&func_def.name))
@wrapexpr 2 `func_def.name.starts_with("test")` => `Self::vp_is_test_id2(func_def)` with fn vp_is_test_id2(func_def: &rustpython_parser::ast::StmtAsyncFunctionDef) -> (r: bool) ensures r == is_test_name(idv(&func_def.name))
@closure map:1 |arg: &ArgWithDefault| -> (s: String) ensures s@ == pname(*arg)
@closure map:2 |arg: &ArgWithDefault| -> (s: String) ensures s@ == pname(*arg)
@sig
    ensures opt_encl_v(r) == spec_enclosing(stmts@, content@, target_line),
@loopvar 1 it
@loop 1
    invariant it.seq() == stmts@.as_ref(), is_line_index(ints(line_index@)), line_index@ == src_line_index(content@),
        encl_from(stmts@, 0, target_line, line_index@) == encl_from(stmts@, it.index@ as int, target_line, line_index@),
@loopstart 1
    proof { let i = it.index@ as int; assert(*stmt == stmts@[i]);
        assert(encl_from(stmts@, i, target_line, line_index@)
            == opt_or(encl_stmt(*stmt, target_line, line_index@), encl_from(stmts@, i + 1, target_line, line_index@))); }
@after is_fixture 1
    proof {
        let ds = func_def.decorator_list@;
        if !is_fixture {
            assert forall|i: int| 0 <= i < ds.len() implies !spec_is_fixture_decorator(&#[trigger] ds[i]) by { let y = ds.as_ref()[i]; }
        }
        assert(is_fixture == has_fixture_decorator(ds));
    }
@after is_fixture 4
    proof {
        let ds = func_def.decorator_list@;
        if !is_fixture {
            assert forall|i: int| 0 <= i < ds.len() implies !spec_is_fixture_decorator(&#[trigger] ds[i]) by { let y = ds.as_ref()[i]; }
        }
        assert(is_fixture == has_fixture_decorator(ds));
    }
@after params 1
    proof { assert(str_views(params@) =~= regular_names(*func_def.args)); }
@after params 3
    proof { assert(str_views(params@) =~= regular_names(*func_def.args)); }
@*/

/*@ extract src/fixtures/resolver.rs is_inside_function
@tags C18 C12
@ret r
@sig
    ensures opt_encl_v(r) == spec_is_inside(self.content_of(pv(file_path)), line),
@*/

/*@ extract src/fixtures/resolver.rs cursor_inside_usefixtures_call
@tags C18 C12
@ret r
@rename any cc_any
@closure any:1 |e: &Expr| -> (b: bool) requires decreases_to!(expr => e), is_line_index(ints(line_index@)) ensures inside_post(*e, target_line, line_index@, b)
@closure any:2 |e: &Expr| -> (b: bool) requires decreases_to!(expr => e), is_line_index(ints(line_index@)) ensures inside_post(*e, target_line, line_index@, b)
@sig
    requires is_line_index(ints(line_index@)),
    ensures inside_post(*expr, target_line, line_index@, r),
    decreases expr,
@*/

/*@ extract src/fixtures/resolver.rs check_decorator_context
@tags C18 C12
@ret r
@closure any:1 |t: &Expr| -> (b: bool) ensures b == is_pytestmark_name(*t)
@closure map:1 |v: &Box<Expr>| -> (e: &Expr) ensures *e == **v
@sig
    requires is_line_index(ints(line_index@)),
    ensures opt_ccv(r) == spec_deco_ctx(stmts@, target_line, line_index@),
    decreases stmts@,
@loopvar 1 it
@loop 1
    invariant it.seq() == stmts@.as_ref(), is_line_index(ints(line_index@)),
        dc_from(stmts@, 0, target_line, line_index@) == dc_from(stmts@, it.index@ as int, target_line, line_index@),
@loopstart 1
    let ghost i0 = it.index@ as int;
    proof { assert(*stmt == stmts@[i0]);
        assert(dc_from(stmts@, i0, target_line, line_index@)
            == opt_or(dc_stmt(*stmt, target_line, line_index@), dc_from(stmts@, i0 + 1, target_line, line_index@))); }
@after is_pytestmark 1
    proof {
        let ts = assign.targets@;
        if !is_pytestmark {
            assert forall|k: int| 0 <= k < ts.len() implies !is_pytestmark_name(#[trigger] ts[k]) by { let y = ts.as_ref()[k]; }
        }
    }
@after pytestmark_value 1
    proof { assert(opt_deref(pytestmark_value) == spec_pytestmark_value(*stmt)); }
@return 3
    lemma_inside_post(*value, target_line, line_index@, true);
@after cursor_inside_usefixtures_call 1
    proof { if in_lines(stmt_range(*stmt), target_line, line_index@) { lemma_inside_post(*value, target_line, line_index@, false); } }
@loopvar 2 it2
@loop 2
    invariant it2.seq() == decorator_list@.as_ref(), is_line_index(ints(line_index@)),
        stmt_decos(*stmt) == Some(decorator_list@),
        dc_from(stmts@, 0, target_line, line_index@) == opt_or(dc_stmt(*stmt, target_line, line_index@), dc_from(stmts@, i0 + 1, target_line, line_index@)),
        decos_ctx(decorator_list@, 0, target_line, line_index@) == decos_ctx(decorator_list@, it2.index@ as int, target_line, line_index@),
@loopstart 2
    proof { let j = it2.index@ as int; assert(*decorator == decorator_list@[j]);
        assert(decos_ctx(decorator_list@, j, target_line, line_index@)
            == opt_or(deco_ctx(*decorator, target_line, line_index@), decos_ctx(decorator_list@, j + 1, target_line, line_index@))); }
@*/

/*@ extract src/fixtures/analyzer.rs all_args
@tags C18 C12
@ret r
@rename chain cc_chain
@sig
    ensures r.remaining() == all_params(*args).as_ref(), r.obeys_prophetic_iter_laws(), r.decrease() is Some,
@*/

/*@ extract src/fixtures/resolver.rs get_func_context
@tags C18 C12
@ret r
@rename find_map vp_find_map
@wrapexpr 1 `func_name.as_str().starts_with("test")` => `Self::vp_is_test(func_name)` with fn vp_is_test(func_name: &Identifier) -> (r: bool) ensures r == is_test_name(idv(func_name))
@closure map:1 |arg: &ArgWithDefault| -> (s: String) ensures s@ == pname(*arg)
@sig
    requires is_line_index(ints(line_index@)), line_index@.len() + 10 <= usize::MAX,
    ensures opt_ccv(r) == spec_func_ctx(*func_name, decorator_list@, *args, *returns, body@, range, content@, target_line, line_index@),
@after is_fixture 1
    proof {
        let ds = decorator_list@;
        if !is_fixture {
            assert forall|i: int| 0 <= i < ds.len() implies !spec_is_fixture_decorator(&#[trigger] ds[i]) by { let y = ds.as_ref()[i]; }
        }
        assert(is_fixture == has_fixture_decorator(ds));
    }
@after scope 1
    proof {
        let s = decorator_list@.as_ref();
        assert forall|j: int, o: Option<FixtureScope>| 0 <= j < s.len() && #[trigger] kw_post(s[j], kw_scope_fn(), o)
            implies o == spec_kw(s[j], kw_scope_fn()) by { lemma_kw_post(s[j], kw_scope_fn(), o); }
        assert(scope_post(s, scope));
        lemma_scope_post(decorator_list@, scope);
    }
@after params 1
    proof { assert(str_views(params@) =~= declared_names(*args)); }
@*/

// exec canary: the same real body under the claim "declared_params are the REGULAR parameters only" (what mutant M1 computes):
// must FAIL at the postcondition
/*@ extract src/fixtures/resolver.rs get_func_context
@tags C18
@as canary_declared_params_regular_only
@ret r
@rename find_map vp_find_map
@wrapexpr 1 `func_name.as_str().starts_with("test")` => `Self::vp_is_test2(func_name)` with fn vp_is_test2(func_name: &Identifier) -> (r: bool) ensures r == is_test_name(idv(func_name))
@closure map:1 |arg: &ArgWithDefault| -> (s: String) ensures s@ == pname(*arg)
@sig
    requires is_line_index(ints(line_index@)), line_index@.len() + 10 <= usize::MAX,
    ensures match opt_ccv(r) { Some(CtxV::Func(f)) => f.declared == args.args@.map_values(pname_fn()), _ => true },
@after is_fixture 1
    proof {
        let ds = decorator_list@;
        if !is_fixture {
            assert forall|i: int| 0 <= i < ds.len() implies !spec_is_fixture_decorator(&#[trigger] ds[i]) by { let y = ds.as_ref()[i]; }
        }
        assert(is_fixture == has_fixture_decorator(ds));
    }
@after scope 1
    proof {
        let s = decorator_list@.as_ref();
        assert forall|j: int, o: Option<FixtureScope>| 0 <= j < s.len() && #[trigger] kw_post(s[j], kw_scope_fn(), o)
            implies o == spec_kw(s[j], kw_scope_fn()) by { lemma_kw_post(s[j], kw_scope_fn(), o); }
        assert(scope_post(s, scope));
        lemma_scope_post(decorator_list@, scope);
    }
@after params 1
    proof { assert(str_views(params@) =~= declared_names(*args)); }
@*/

/*@ extract src/fixtures/resolver.rs find_function_containing_line
@tags C04 C11
@ret r
@sig
    requires is_line_index(ints(line_index@)),
    ensures opt_sv(r) == cf_stmt(*stmt, target_line, line_index@),
    decreases stmt,
@loopvar 1 it
@loop 1
    invariant it.seq() == class_def.body@.as_ref(), is_line_index(ints(line_index@)),
        *stmt == Stmt::ClassDef(*class_def),
        cf_from(class_def.body@, 0, target_line, line_index@) == cf_from(class_def.body@, it.index@ as int, target_line, line_index@),
@loopstart 1
    proof { let i = it.index@ as int; assert(*class_stmt == class_def.body@[i]);
        assert(decreases_to!(class_def.body@ => class_def.body@[i]));
        assert(cf_from(class_def.body@, i, target_line, line_index@)
            == opt_or(cf_stmt(*class_stmt, target_line, line_index@), cf_from(class_def.body@, i + 1, target_line, line_index@))); }
@*/

/*@ extract src/fixtures/resolver.rs find_containing_function
@tags C04 C11
@ret r
@sig
    ensures opt_sv(r) == spec_containing(self.content_of(pv(file_path)), line),
@loopvar 1 it
@loop 1
    invariant it.seq() == module.body@.as_ref(), is_line_index(ints((*line_index)@)), (*line_index)@ == src_line_index((*content)@),
        self.content_of(pv(file_path)) == Some((*content)@), parse_ok((*content)@), *parsed == ast_of((*content)@),
        *parsed == rustpython_parser::ast::Mod::Module(*module),
        cf_from(module.body@, 0, line, (*line_index)@) == cf_from(module.body@, it.index@ as int, line, (*line_index)@),
@loopstart 1
    proof { let i = it.index@ as int; assert(*stmt == module.body@[i]);
        assert(cf_from(module.body@, i, line, (*line_index)@)
            == opt_or(cf_stmt(*stmt, line, (*line_index)@), cf_from(module.body@, i + 1, line, (*line_index)@))); }
@return 1
    assert(cf_from(module.body@, 0, line, (*line_index)@) == Some(name@));
@*/

/*@ extract src/fixtures/resolver.rs get_function_completion_context
@tags C18 C12
@ret r
@sig
    requires is_line_index(ints(line_index@)), line_index@.len() + 10 <= usize::MAX,
    ensures opt_ccv(r) == spec_first_ctx(stmts@, content@, target_line, line_index@),
    decreases stmts@,
@loopvar 1 it
@loop 1
    invariant it.seq() == stmts@.as_ref(), is_line_index(ints(line_index@)), line_index@.len() + 10 <= usize::MAX,
        fc_from(stmts@, 0, content@, target_line, line_index@) == fc_from(stmts@, it.index@ as int, content@, target_line, line_index@),
@loopstart 1
    proof { let i = it.index@ as int; assert(*stmt == stmts@[i]);
        assert(fc_from(stmts@, i, content@, target_line, line_index@)
            == opt_or(fc_stmt(*stmt, content@, target_line, line_index@), fc_from(stmts@, i + 1, content@, target_line, line_index@))); }
@*/
}
} // mod resolver

// ---- composition with unit sig_end (sig_end_line IS op_sig_end here: no hypothesis about it left) --------------------------
/// C18 / C17: in a test / fixture whose last signature element ends on or below the def line and above the first body
/// statement, the cursor on the first body line gets FunctionBody -- whatever that line looks like (after the repair d88f322)
//@tags C18 C17
proof fn lemma_C18_first_body_line_gets_body_context(name: Identifier, decos: Seq<Expr>, args: CArguments, returns: Option<Box<Expr>>,
        body: Seq<Stmt>, range: TextRange, content: Seq<char>, tl: usize, li: Seq<usize>)
    requires ({ let s = lno(li, tsv(tr_start(range))) as usize;
                1 <= s <= last_sig_ln(s, args, returns, li) < tl && first_body_ln(body, li) == Some(tl as int) }),
        spec_func_ctx(name, decos, args, returns, body, range, content, tl, li) is Some,
    ensures match spec_func_ctx(name, decos, args, returns, body, range, content, tl, li) { Some(CtxV::Func(f)) => !f.in_signature, _ => false },
{
    lemma_C18_cursor_on_first_body_line_gets_body_context(name, decos, args, returns, body, range, content, tl, li);
}
/// C18: the def line of a test / fixture always gets FunctionSignature (given the last signature element does not end above it)
//@tags C18
proof fn lemma_C18_def_line_gets_signature_context(name: Identifier, decos: Seq<Expr>, args: CArguments, returns: Option<Box<Expr>>,
        body: Seq<Stmt>, range: TextRange, content: Seq<char>, li: Seq<usize>)
    requires ({ let s = lno(li, tsv(tr_start(range))) as usize;
                1 <= s <= last_sig_ln(s, args, returns, li)
                && spec_func_ctx(name, decos, args, returns, body, range, content, s, li) is Some }),
    ensures ({ let s = lno(li, tsv(tr_start(range))) as usize;
               match spec_func_ctx(name, decos, args, returns, body, range, content, s, li) { Some(CtxV::Func(f)) => f.in_signature, _ => false } }),
{
    reveal(op_sig_end);
    let s = lno(li, tsv(tr_start(range))) as usize;
    lemma_C18_sig_end_not_before_def_line(s as int, last_sig_ln(s, args, returns, li), first_body_ln(body, li), lines_v(content));
}

/// C03 / C18 (which functions are tests): pytest's default `python_functions` prefix is `test`, no underscore required -- an
/// undecorated function named `testlogin` (or just `test`) gives the cursor lines of its range a function context, that of
/// a TEST (is_fixture false, no scope)
//@tags C03 C18
proof fn lemma_C18_test_prefix_without_underscore(name: Identifier, decos: Seq<Expr>, args: CArguments, returns: Option<Box<Expr>>,
        body: Seq<Stmt>, range: TextRange, content: Seq<char>, tl: usize, li: Seq<usize>)
    requires idv(&name) == "testlogin"@ || idv(&name) == "test"@ || idv(&name) == "test_login"@, !has_fixture_decorator(decos),
        lno(li, tsv(tr_start(range))) <= tl <= lno(li, tsv(tr_end(range))),
    ensures is_test_name(idv(&name)),
        match spec_func_ctx(name, decos, args, returns, body, range, content, tl, li) {
            Some(CtxV::Func(f)) => !f.is_fixture && f.scope is None && f.name == idv(&name), _ => false },
{
    reveal(is_test_name);
    reveal_strlit("test"); reveal_strlit("testlogin"); reveal_strlit("test_login");
    assert("testlogin"@.subrange(0, 4) =~= "test"@);
    assert("test"@.subrange(0, 4) =~= "test"@);
    assert("test_login"@.subrange(0, 4) =~= "test"@);
}

// ---- vacuity guards: each of these must FAIL ---------------------------------------------------------------
/// a keyword-only parameter is NOT among the declared names
proof fn canary_kwonly_not_declared(a: CArguments)
    requires a.kwonlyargs@.len() == 1, a.args@.len() == 0, a.posonlyargs@.len() == 0,
    ensures !declared_names(a).contains(pname(a.kwonlyargs@[0])),
{
    assert(declared_names(a)[0] == pname(a.kwonlyargs@[0]));
}
/// a plain helper function gives a function context
proof fn canary_helper_gets_context(s: Stmt, content: Seq<char>, tl: usize, li: Seq<usize>)
    requires plain_helper(s), s matches Stmt::FunctionDef(f) && in_lines(f.range, tl, li),
    ensures fc_stmt(s, content, tl, li) is Some,
{}
/// inside a test the context carries a scope
proof fn canary_test_has_scope(name: Identifier, decos: Seq<Expr>, args: CArguments, returns: Option<Box<Expr>>,
        body: Seq<Stmt>, range: TextRange, content: Seq<char>, tl: usize, li: Seq<usize>)
    requires spec_func_ctx(name, decos, args, returns, body, range, content, tl, li) is Some, !has_fixture_decorator(decos),
    ensures spec_func_ctx(name, decos, args, returns, body, range, content, tl, li)->0->Func_0.scope is Some,
{}
/// the LAST decorator that declares a scope decides
proof fn canary_last_scope_wins(decos: Seq<Expr>, i: int)
    requires 0 <= i < decos.len(), spec_kw(&decos[i], kw_scope_fn()) is Some,
        forall|j: int| i < j < decos.len() ==> spec_kw(&#[trigger] decos[j], kw_scope_fn()) is None,
    ensures Some(fixture_scope_of(decos)) == spec_kw(&decos[i], kw_scope_fn()),
{}
/// a function whose name is a proper prefix of `test`, or merely contains it, gives a function context
proof fn canary_tes_or_atest_gets_context(name: Identifier, decos: Seq<Expr>, args: CArguments, returns: Option<Box<Expr>>,
        body: Seq<Stmt>, range: TextRange, content: Seq<char>, tl: usize, li: Seq<usize>)
    requires idv(&name) == "tes"@ || idv(&name) == "atest"@, !has_fixture_decorator(decos),
        lno(li, tsv(tr_start(range))) <= tl <= lno(li, tsv(tr_end(range))),
    ensures spec_func_ctx(name, decos, args, returns, body, range, content, tl, li) is Some,
{
    reveal(is_test_name);
    reveal_strlit("test"); reveal_strlit("tes"); reveal_strlit("atest");
}
/// the assumed specifications in scope are not contradictory
proof fn canary_false_from_assumptions(e: Expr, tl: usize, li: Seq<usize>, r: bool, ds: Seq<Expr>, sc: FixtureScope, c: Seq<char>, line: u32)
    requires inside_post(e, tl, li, r), scope_post(ds.as_ref(), sc), is_line_index(ints(li)), parse_ok(c),
        spec_completion_ctx(Some(c), line) is Some,
    ensures false,
{}

} // verus!
fn main() {}
