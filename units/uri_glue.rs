//@include prelude/header.rs
// Unit uri_glue: the URI <-> path glue of src/providers/mod.rs, Backend::uri_to_path and Backend::path_to_uri, under
// contract -- the two functions every other handler unit takes as UNINTERPRETED stand-ins (uri_path / path_uri of
// prelude/lsp_backend*.rs) with "URI injectivity" / "URI round trip" as explicit hypotheses of their lemmas.
//   L1: r == op_uri_to_path(uri) / r == op_path_to_uri(uri_cache, path)   (prelude/uri_spec.rs), over the REAL
//       ls_types::Uri; Uri::to_file_path / Uri::from_file_path are uninterpreted functions (file_path_of / uri_of_path),
//       Path::canonicalize is the file-system resolution function fs_canonical of units memo_keys / cli_main.
//   L2: prelude/uri_l2.rs -- the URI hypotheses of the handler lemmas PROVED from the cache invariant (established by
//       didOpen) and the axioms U1..U3 (prelude/uri_spec.rs); FACT / FINDING lemmas where the wished statement is false.
//   path_to_uri is read for THIS target: `cfg!(target_os = "macos")` / `cfg!(target_os = "windows")` expand to `false`
//   before Verus sees them; the real text of both arms is kept and type-checked, but it is dead code here.
use ls_types::*;
verus! {
global size_of usize == 8;  // A6: 64-bit target
pub mod pre {
use super::*;
//@include prelude/path.rs
//@include prelude/path_ext.rs
//@include prelude/dashmap.rs
//@include prelude/fs_canonical_decl.rs
//@include prelude/memokeys_canon_spec.rs
//@include prelude/opt_pbv.rs
//@include prelude/uri_abs_decl.rs
//@include prelude/uri_spec.rs
//@include prelude/uri_shims.rs
//@include prelude/uri_l2.rs
} // mod pre
use pre::*;

broadcast use {axiom_path_as_path, axiom_pathbuf_deref_of, axiom_pathbuf_as_path_uri, axiom_pathbuf_ref_as_path_uri};

/// Backend (src/providers/mod.rs) with the one field the two functions read; the real std Arc is kept
///        uri_cache : Arc<DashMap<PathBuf, Uri>>   DashMap = the prelude shim (sequential view m(): Map<PV, Uri>)
///        client, fixture_db, workspace_root, original_workspace_root, scan_task, config   DROPPED (not touched)
pub struct Backend {
    pub uri_cache: std::sync::Arc<DashMap<PathBuf, Uri>>,
}

impl Backend {
/*@ extract src/providers/mod.rs uri_to_path
@tags C15 C04 C05 C11
@ret r
@rename to_file_path vp_to_file_path
@sig
    ensures opt_pbv(r) == op_uri_to_path(*uri),
@*/

/*@ extract src/providers/mod.rs path_to_uri
@tags C15 C04 C05 C11
@ret r
@sig
    ensures r == op_path_to_uri(self.uri_cache.m(), pv(path)),
@*/

// ---- exec vacuity guards (each must FAIL): the real bodies under deliberately wrong contracts
/*@ extract src/providers/mod.rs path_to_uri
@as canary_exec_path_to_uri_ignores_the_cache
@ret r
@sig
    ensures r == uri_of_path(pv(path)),
@*/

/*@ extract src/providers/mod.rs path_to_uri
@as canary_exec_path_to_uri_contract_vacuous
@ret r
@sig
    ensures false,
@*/

// the macOS arm is really read by Verus: with `cfg!(target_os = "macos")` replaced by `true` the SAME contract must fail
/*@ extract src/providers/mod.rs path_to_uri
@as canary_exec_path_to_uri_macos_arm_is_live
@ret r
@replace 1 `cfg!(target_os = "macos")` => `true`
@sig
    ensures r == op_path_to_uri(self.uri_cache.m(), pv(path)),
@*/

/*@ extract src/providers/mod.rs uri_to_path
@as canary_exec_uri_to_path_is_the_spelled_path
@ret r
@rename to_file_path vp_to_file_path
@sig
    ensures opt_pbv(r) == file_path_of(*uri),
@*/

/*@ extract src/providers/mod.rs uri_to_path
@as canary_exec_uri_to_path_fails_when_unresolvable
@ret r
@rename to_file_path vp_to_file_path
@sig
    ensures r is Some ==> fs_canonical(file_path_of(*uri)->0) is Some,
@*/
}

// ---- vacuity guards: each of these must FAIL ---------------------------------------------------------------------------
/// injectivity WITHOUT the cache invariant (a cache that holds somebody else's URI for p1)
proof fn canary_injective_without_cache_invariant(m: UriMap, p1: PV, p2: PV, u1: Uri, u2: Uri)
    requires is_canon(p1), is_canon(p2), p1 != p2, op_path_to_uri(m, p1) == Some(u1), op_path_to_uri(m, p2) == Some(u2)
    ensures u1 != u2
{
    if !m.contains_key(p1) { axiom_U1_uri_round_trip(p1, u1); }
    if !m.contains_key(p2) { axiom_U1_uri_round_trip(p2, u2); }
}
/// round trip for a path that is NOT canonical
proof fn canary_round_trip_for_noncanonical_paths(m: UriMap, p: PV, u: Uri)
    requires cache_inv(m), pv_is_abs(p), op_path_to_uri(m, p) == Some(u)
    ensures op_uri_to_path(u) == Some(p)
{
    if !m.contains_key(p) { axiom_U1_uri_round_trip(p, u); }
}
/// round trip for a RELATIVE path (U1 speaks about absolute paths only)
proof fn canary_round_trip_for_relative_paths(m: UriMap, p: PV, u: Uri)
    requires cache_inv(m), canon_now(p) == p, !m.contains_key(p), op_path_to_uri(m, p) == Some(u)
    ensures op_uri_to_path(u) == Some(p)
{}
/// injectivity on paths that are absolute but not canonical (a cached canonical p1 and an uncached alias p2 of it)
proof fn canary_injective_off_canonical_paths(m: UriMap, p1: PV, p2: PV, u1: Uri, u2: Uri)
    requires cache_inv(m), pv_is_abs(p1), pv_is_abs(p2), p1 != p2, op_path_to_uri(m, p1) == Some(u1), op_path_to_uri(m, p2) == Some(u2)
    ensures u1 != u2
{
    if !m.contains_key(p1) { axiom_U1_uri_round_trip(p1, u1); }
    if !m.contains_key(p2) { axiom_U1_uri_round_trip(p2, u2); }
}
/// the FIRST of two URIs opened for one file is the one sent back
proof fn canary_first_uri_of_a_file_wins(m: UriMap, u1: Uri, u2: Uri, p: PV)
    requires op_uri_to_path(u1) == Some(p), op_uri_to_path(u2) == Some(p)
    ensures op_path_to_uri(m.insert(p, u1).insert(p, u2), p) == Some(u1)
{}
/// every path has a URI
proof fn canary_every_path_has_a_uri(m: UriMap, p: PV)
    requires cache_inv(m), is_canon(p)
    ensures op_path_to_uri(m, p) is Some
{}
/// the cache invariant holds of any cache
proof fn canary_cache_inv_for_free(m: UriMap)
    ensures cache_inv(m)
{}
/// didOpen keeps the invariant even when the URI is stored under ANOTHER path than uri_to_path gave
proof fn canary_did_open_under_any_key_keeps_invariant(m: UriMap, uri: Uri, p: PV, q: PV)
    requires cache_inv(m), op_uri_to_path(uri) == Some(p)
    ensures cache_inv(m.insert(q, uri))
{}
/// U1..U3 are contradictory
proof fn canary_uri_axioms_inconsistent(p: PV, c: PV, u: Uri)
    requires fs_canonical(p) == Some(c), uri_of_path(c) == Some(u)
    ensures false
{
    axiom_U2_canonical_is_fixpoint(p, c);
    axiom_U3_canonical_is_absolute(p, c);
    axiom_U1_uri_round_trip(c, u);
}

} // verus!
fn main() {}
