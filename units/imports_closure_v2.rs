//@include prelude/strstruct_header.rs
// Unit imports_closure (v2, COMPOSED) — C14 (closure part) and the termination clause of C12 for imports.rs:
//   get_imported_fixtures / compute_imported_fixtures (mutually recursive through `visited`) and
//   is_fixture_imported_in_file, extracted verbatim.  Import graph + closure: prelude/imports_spec_v2.rs,
//   L2 lemmas + canaries: prelude/imports_l2.rs.
// Composition (was: three hand-written external_body stubs over uninterpreted imports_of / plugins_of / resolve):
//   extract_fixture_imports, extract_pytest_plugins  = //@stub imports_extract   (contracts PROVED in that unit)
//   resolve_module_to_file                           = //@stub module_resolve    (contract PROVED in that unit)
//   imports_of(body, file) := imports_core(body), plugins_of(body) := spec_pytest_plugins(body)
//   (prelude/imports_extract_spec.rs), target(..) := canon of op_resolve(.., keys of file_cache, site-packages paths,
//   editable source roots) (prelude/modres_spec.rs).  The two root lists, "constants" before, are fields of the
//   modelled state now: Env carries them and the frame (same_index) PROVES that the functions leave them alone.
// Modelled state: definitions, file_definitions, definitions_version, file_cache, imported_fixtures_cache,
//   site_packages_paths, editable_install_roots.
// The cache insert on the read path (&self, one DashMap statement) is a `&mut self` write here (T3), so both
// recursive functions take `&mut self` (the stubs copied from the provider units take `&self`, as the real code).
// The callees still ASSUMED (external_body): get_canonical_path, get_file_content, hash_content, get_parsed_ast,
// get_line_index — their own caches (canonical_path_cache, ast_cache, line_index_cache) and the file system are
// outside the model and treated as constants.
use rustpython_parser::ast::{Stmt, Expr};
verus! {
global size_of usize == 8;  // A6: 64-bit target
pub mod pre {
use super::*;
//@include prelude/modres_path.rs
//@include prelude/types.rs
//@include prelude/dashmap.rs
//@include prelude/hashset.rs
//@include prelude/hashset_ext.rs
//@include prelude/atomic.rs
//@include prelude/dbview.rs
//@include prelude/arc.rs
//@include build/astspec.rs
#[verifier::external_type_specification] #[verifier::reject_recursive_types(R)] pub struct ExMod<R>(rustpython_parser::ast::Mod<R>);
#[verifier::external_type_specification] #[verifier::reject_recursive_types(R)] pub struct ExModModule<R>(rustpython_parser::ast::ModModule<R>);
#[verifier::external_type_specification] #[verifier::reject_recursive_types(R)] pub struct ExModInteractive<R>(rustpython_parser::ast::ModInteractive<R>);
#[verifier::external_type_specification] #[verifier::reject_recursive_types(R)] pub struct ExModExpression<R>(rustpython_parser::ast::ModExpression<R>);
#[verifier::external_type_specification] #[verifier::reject_recursive_types(R)] pub struct ExModFunctionType<R>(rustpython_parser::ast::ModFunctionType<R>);
#[verifier::external_type_specification] #[verifier::reject_recursive_types(R)] pub struct ExTypeIgnore<R>(rustpython_parser::ast::TypeIgnore<R>);
#[verifier::external_type_specification] #[verifier::reject_recursive_types(R)] pub struct ExTypeIgnoreTypeIgnore<R>(rustpython_parser::ast::TypeIgnoreTypeIgnore<R>);
// vocabulary of unit module_resolve (op_resolve) and of unit imports_extract (imports_core, spec_pytest_plugins)
//@include prelude/modres_str.rs
//@include prelude/modres_spec.rs
//@include prelude/str_dotted.rs
//@include prelude/imports_extract_spec.rs
//@include prelude/imports_spec_v2.rs
//@include prelude/imports_l2.rs
} // mod pre
use pre::*;

//@item src/fixtures/imports.rs struct FixtureImport
// imp_rec_v / imps_v: the views the contracts of unit imports_extract are stated in (all five fields)
//@include prelude/imports_extract_views.rs
/// what the closure uses of a record: its (module, star, names) part
spec fn imp_cv(i: &FixtureImport) -> ImpV { imp_rec_v(*i).imp }
spec fn imps_cv(s: Seq<FixtureImport>) -> Seq<ImpV> { s.map_values(|i: FixtureImport| imp_cv(&i)) }
/// bridge: records as unit imports_extract describes them -> the import list of the closure's Env
proof fn lemma_imports_bridge(s: Seq<FixtureImport>, body: Seq<Stmt0>, file: PV, li: Seq<usize>)
    requires imps_v(s) == spec_fixture_imports(body, file, li),
    ensures imps_cv(s) == imports_of(body, file),
{
    lemma_imports_core_v2(body, file, li);
    assert(imps_v(s).map_values(rec_core_fn()) =~= imps_cv(s));
}

/// canary: "the composed definitions (stub contract of unit imports_extract + imports_of := imports_core) are contradictory"
proof fn canary_composed_import_views_contradictory(s: Seq<FixtureImport>, body: Seq<Stmt0>, file: PV, li: Seq<usize>)
    requires imps_v(s) == spec_fixture_imports(body, file, li),
    ensures false,
{
    lemma_imports_bridge(s, body, file, li);
}

//@item src/fixtures/mod.rs struct EditableInstall
//@dbstruct_arc definitions file_definitions definitions_version file_cache imported_fixtures_cache site_packages_paths editable_install_roots
// dom / sps / ers: the views the contract of unit module_resolve is stated in
//@include prelude/modres_dbview.rs

impl FixtureDatabase {
    pub open spec fn version(&self) -> u64 { self.definitions_version.v }
    pub open spec fn env(&self) -> Env {
        Env { cache: self.file_cache.m(), fdefs: fdefs_view(self.file_definitions.m()), defkeys: self.definitions.m().dom(),
              sps: self.sps(), ers: self.ers() }
    }
    pub open spec fn memo(&self) -> Map<PV, MemoEntry> { self.imported_fixtures_cache.m() }
    pub open spec fn known(&self) -> Set<PV> { known_files(self.file_cache.m()) }
    /// frame: everything but imported_fixtures_cache is untouched (incl. the two root lists module resolution reads)
    pub open spec fn same_index(&self, o: &Self) -> bool {
        self.definitions == o.definitions && self.file_definitions == o.file_definitions
        && self.definitions_version == o.definitions_version && self.file_cache == o.file_cache
        && self.site_packages_paths == o.site_packages_paths && self.editable_install_roots == o.editable_install_roots
    }
    pub open spec fn memo_sound(&self) -> bool { memo_sound(self.env(), self.version(), self.memo()) }
    pub open spec fn memo_exact(&self) -> bool { memo_exact(self.env(), self.version(), self.memo()) }

    // ---- callee contracts ASSUMED here
    //  get_canonical_path: a pure function `canon`, idempotent
    //  get_file_content:   a function of (file_cache, path); a readable path belongs to the FINITE set known_files(file_cache)
    //  hash_content:       a function of the text (no injectivity assumed)
    //  get_parsed_ast:     determined by the text alone (i.e. its hash-keyed ast_cache never confuses two texts)
    //  (extract_fixture_imports / extract_pytest_plugins / resolve_module_to_file: NOT assumed any more, see below)
    #[verifier::external_body]
    pub(crate) fn get_canonical_path(&self, path: PathBuf) -> (r: PathBuf)
        ensures pbv(&r) == canon(pbv(&path)),
            canon(pbv(&r)) == pbv(&r),   // canonicalisation is idempotent
    { unimplemented!() }
    #[verifier::external_body]
    pub(crate) fn get_file_content(&self, file_path: &Path) -> (r: Option<Arc<String>>)
        ensures match r {
            Some(a) => content_of(self.file_cache.m(), pv(file_path)) == Some((*a)@) && known_files(self.file_cache.m()).contains(pv(file_path)),
            None => content_of(self.file_cache.m(), pv(file_path)) is None }
    { unimplemented!() }
    #[verifier::external_body]
    fn hash_content(content: &str) -> (r: u64)
        ensures r == hash_of(content@)
    { unimplemented!() }
    #[verifier::external_body]
    pub(crate) fn get_parsed_ast(&self, file_path: &Path, content: &str) -> (r: Option<Arc<rustpython_parser::ast::Mod>>)
        ensures match r { Some(a) => parse_ok(content@) && *a == ast_of(content@), None => !parse_ok(content@) }
    { unimplemented!() }
    #[verifier::external_body]
    pub(crate) fn get_line_index(&self, file_path: &Path, content: &str) -> (r: Arc<Vec<usize>>)
    { unimplemented!() }

    // ---- callee contracts PROVED in other units (text copied by the extractor from their @sig)
//@stub imports_extract extract_fixture_imports
//@stub imports_extract extract_pytest_plugins
//@stub module_resolve resolve_module_to_file

/*@ extract src/fixtures/imports.rs get_imported_fixtures
@tags C14 C12 C07
@recv mut
@ret r
@sig
    requires old(self).memo_sound(),
    ensures
        // (V) visited only grows and contains the file afterwards
        old(visited).s().subset_of(final(visited).s()), final(visited).s().contains(canon(pv(file_path))),
        // frame
        final(self).same_index(old(self)),
        // (M) memo discipline
        memo_post(old(self).env(), old(self).version(), old(self).memo(), final(self).memo(), canon(pv(file_path)), old(visited).s(), r.s()),
        // (S) soundness: only names of the import closure, whatever is already on the visiting path
        set_in_closure(old(self).env(), canon(pv(file_path)), r.s()),
        final(self).memo_sound(),
        // (C) completeness, given exact memo entries: the DFS invariant, and for a top-level call the whole closure
        old(self).memo_exact() ==> final(self).memo_exact()
            && covered(old(self).env(), old(visited).s(), final(visited).s(), r.s())
            && (old(visited).s().len() == 0 ==> set_is_closure(old(self).env(), canon(pv(file_path)), r.s())),
    decreases todo(old(self).known(), old(visited).s()), 0nat
@after canonical_path 1
    let ghost c = pbv(&canonical_path);
    let ghost v0 = visited.s();
    let ghost env = self.env();
    let ghost ex = self.memo_exact();
@return 1
    lemma_covered_refl(env, v0, Set::<Name>::empty()); lemma_nonempty(v0, c);
@return 2
    let e = Set::<Name>::empty();
    lemma_no_body(env, c, e, v0.insert(c));
    lemma_covered_add(env, v0, c, e);
    if v0.len() == 0 { lemma_len0_empty(v0); lemma_top(env, v0.insert(c), e, c); lemma_exact(env, c, e); }
@before content_hash 1
    proof { lemma_todo_insert(self.known(), v0, c); }
@return 3
    if ex {
        let rs = (*self.memo()[c].2).s();
        lemma_exact_closed(env, c, rs);
        lemma_covered_add(env, v0, c, rs);
    }
@after imported_fixtures 1
    proof {
        if ex {
            lemma_covered_close(env, v0, c, visited.s(), imported_fixtures.s());
            if v0.len() == 0 {
                lemma_len0_empty(v0);
                lemma_top(env, visited.s(), imported_fixtures.s(), c);
                lemma_exact(env, c, imported_fixtures.s());
            }
        }
    }
@*/

/*@ extract src/fixtures/imports.rs compute_imported_fixtures
@tags C14 C12 C07
@recv mut
@ret r
@nocontinue 1
@nocontinue 4
@sig
    requires
        content_of(old(self).file_cache.m(), pv(canonical_path)) == Some(content@),
        old(visited).s().contains(pv(canonical_path)),
        old(self).memo_sound(),
    ensures
        old(visited).s().subset_of(final(visited).s()),
        final(self).same_index(old(self)),
        final(self).memo() == old(self).memo(),
        set_in_closure(old(self).env(), pv(canonical_path), r.s()),
        old(self).memo_exact() ==> covered(old(self).env(), old(visited).s(), final(visited).s(), r.s())
            && expanded(old(self).env(), pv(canonical_path), r.s(), final(visited).s()),
    decreases todo(old(self).known(), old(visited).s()), 1nat
@start
    let ghost c = pv(canonical_path);
    let ghost env = self.env();
    let ghost v0 = visited.s();
    let ghost known = self.known();
    let ghost ex = self.memo_exact();
@return 1
    if ex { lemma_no_body(env, c, imported_fixtures.s(), v0); lemma_covered_refl(env, v0, imported_fixtures.s()); }
@after imports 1
    let ghost body = module.body@;
    let ghost imps0 = imports@;
    proof {
        assert(body_at(env, c) == Some(body)); lemma_imports_bridge(imps0, body, c, line_index@); assert(imps_cv(imps0) == imps(env, c));
        lemma_covered_refl(env, v0, imported_fixtures.s()); lemma_imps_done_zero(env, c, imported_fixtures.s(), v0);
    }
@loopvar 1 it
@loop 1
    invariant
        c == pv(canonical_path), env == old(self).env(), self.env() == env, v0 == old(visited).s(), known == old(self).known(),
        self.same_index(old(self)), self.memo() == old(self).memo(), self.memo_sound(), ex ==> self.memo_exact(),
        v0.subset_of(visited.s()), v0.contains(c),
        body == module.body@, body_at(env, c) == Some(body),
        it.seq() == imps0, imps_cv(imps0) == imps(env, c),
        set_in_closure(env, c, imported_fixtures.s()),
        ex ==> covered(env, v0, visited.s(), imported_fixtures.s()),
        ex ==> imps_done(env, c, it.index@ as int, imported_fixtures.s(), visited.s()),
@loopstart 1
    let ghost i0 = it.index@ as int;
    let ghost r_a = imported_fixtures.s();
    let ghost v_a = visited.s();
    proof { assert(import == imps0[i0]); assert(imp_cv(&import) == imps(env, c)[i0]); }
@continueproof 1 1
    assert(imp_target(env, c, i0) is None);
    if ex { lemma_imps_step_unresolved(env, c, i0, r_a, v_a); }
@after resolved_canonical 1
    let ghost h = pbv(&resolved_canonical);
    proof { assert(imp_target(env, c, i0) == Some(h)); }
@before file_fixtures 1
    proof { lemma_edge_star(env, c, i0, h); }
@loopvar 2 it2
@loop 2
    invariant
        edge(env, c, h), sbucket(env.fdefs, h) == file_fixtures.r.s(),
        forall|j: int| 0 <= j < it2.seq().len() ==> file_fixtures.r.s().contains((#[trigger] it2.seq()[j])@),
        forall|n: Name| file_fixtures.r.s().contains(n) ==> exists|j: int| 0 <= j < it2.seq().len() && (#[trigger] it2.seq()[j])@ == n,
        forall|j: int| 0 <= j < it2.index@ ==> imported_fixtures.s().contains((#[trigger] it2.seq()[j])@),
        r_a.subset_of(imported_fixtures.s()),
        set_in_closure(env, c, imported_fixtures.s()),
@loopend 2
    proof { lemma_clo_fdefs(env, c, h, fixture_name@); }
@after file_fixtures 1
    proof { assert(sbucket(env.fdefs, h).subset_of(imported_fixtures.s()) && r_a.subset_of(imported_fixtures.s())); }
@before transitive 1
    let ghost r_b = imported_fixtures.s();
    proof { lemma_todo_mono(known, v0, visited.s()); lemma_nonempty(visited.s(), c); }
@after transitive 1
    let ghost ts = transitive.s();
    proof { lemma_clo_step_set(env, c, h, ts); }
@after transitive 2
    proof {
        if ex {
            let r2 = imported_fixtures.s(); let v2 = visited.s();
            lemma_covered_join(env, v0, v_a, r_a, v2, ts, r2);
            lemma_imps_done_mono(env, c, i0, r_a, v_a, r2, v2);
            lemma_imps_step_star(env, c, i0, h, r2, v2);
        }
    }
@loopvar 3 it3
@loop 3
    invariant
        it3.seq() == import.imported_names@.as_ref(),
        0 <= i0 < imps(env, c).len(), imp_cv(&import) == imps(env, c)[i0], !import.is_star_import, imp_target(env, c, i0) == Some(h),
        self.env() == env,
        r_a.subset_of(imported_fixtures.s()),
        forall|k: int| 0 <= k < it3.index@ && env.defkeys.contains(#[trigger] imps(env, c)[i0].names[k]) ==> imported_fixtures.s().contains(imps(env, c)[i0].names[k]),
        set_in_closure(env, c, imported_fixtures.s()),
@loopstart 3
    let ghost k0 = it3.index@ as int;
    proof { assert(*name == import.imported_names@[k0]); assert(name@ == imps(env, c)[i0].names[k0]); }
@loopend 3
    proof { if env.defkeys.contains(name@) { lemma_clo_explicit(env, c, i0, k0, name@); } }
@after for 3
    proof {
        if ex {
            let r2 = imported_fixtures.s();
            lemma_covered_grow(env, v0, v_a, r_a, r2);
            lemma_imps_done_mono(env, c, i0, r_a, v_a, r2, v_a);
            lemma_imps_step_explicit(env, c, i0, r2, v_a);
        }
    }
@after plugin_modules 1
    let ghost plugs0 = plugin_modules@;
    proof { assert(strs_v(plugs0) == plugs(env, c)); lemma_plugs_done_zero(env, c, imported_fixtures.s(), visited.s()); }
@loopvar 4 it4
@loop 4
    invariant
        c == pv(canonical_path), env == old(self).env(), self.env() == env, v0 == old(visited).s(), known == old(self).known(),
        self.same_index(old(self)), self.memo() == old(self).memo(), self.memo_sound(), ex ==> self.memo_exact(),
        v0.subset_of(visited.s()), v0.contains(c),
        it4.seq() == plugs0, strs_v(plugs0) == plugs(env, c),
        set_in_closure(env, c, imported_fixtures.s()),
        ex ==> covered(env, v0, visited.s(), imported_fixtures.s()),
        ex ==> imps_done(env, c, imps(env, c).len() as int, imported_fixtures.s(), visited.s()),
        ex ==> plugs_done(env, c, it4.index@ as int, imported_fixtures.s(), visited.s()),
@loopstart 4
    let ghost j0 = it4.index@ as int;
    let ghost r_a = imported_fixtures.s();
    let ghost v_a = visited.s();
    proof { assert(module_path == plugs0[j0]); assert(module_path@ == plugs(env, c)[j0]); }
@continueproof 4 1
    assert(plug_target(env, c, j0) is None);
    if ex { lemma_plugs_step_unresolved(env, c, j0, r_a, v_a); }
@after resolved_canonical 5
    let ghost h = pbv(&resolved_canonical);
    proof { assert(plug_target(env, c, j0) == Some(h)); lemma_edge_plug(env, c, j0, h); }
@loopvar 5 it5
@loop 5
    invariant
        edge(env, c, h), sbucket(env.fdefs, h) == file_fixtures.r.s(),
        forall|j: int| 0 <= j < it5.seq().len() ==> file_fixtures.r.s().contains((#[trigger] it5.seq()[j])@),
        forall|n: Name| file_fixtures.r.s().contains(n) ==> exists|j: int| 0 <= j < it5.seq().len() && (#[trigger] it5.seq()[j])@ == n,
        forall|j: int| 0 <= j < it5.index@ ==> imported_fixtures.s().contains((#[trigger] it5.seq()[j])@),
        r_a.subset_of(imported_fixtures.s()),
        set_in_closure(env, c, imported_fixtures.s()),
@loopend 5
    proof { lemma_clo_fdefs(env, c, h, fixture_name@); }
@after file_fixtures 3
    proof { assert(sbucket(env.fdefs, h).subset_of(imported_fixtures.s()) && r_a.subset_of(imported_fixtures.s())); }
@before transitive 3
    proof { lemma_todo_mono(known, v0, visited.s()); lemma_nonempty(visited.s(), c); }
@after transitive 3
    let ghost ts = transitive.s();
    proof { lemma_clo_step_set(env, c, h, ts); }
@after transitive 4
    proof {
        if ex {
            let r2 = imported_fixtures.s(); let v2 = visited.s();
            lemma_covered_join(env, v0, v_a, r_a, v2, ts, r2);
            lemma_imps_done_mono(env, c, imps(env, c).len() as int, r_a, v_a, r2, v2);
            lemma_plugs_done_mono(env, c, j0, r_a, v_a, r2, v2);
            lemma_plugs_step(env, c, j0, h, r2, v2);
        }
    }
@after for 4
    proof { if ex { lemma_expanded_from_done(env, c, imported_fixtures.s(), visited.s()); } }
@return tail
    if ex && body_at(env, c) is None { lemma_no_body(env, c, imported_fixtures.s(), v0); lemma_covered_refl(env, v0, imported_fixtures.s()); }
@*/

/*@ extract src/fixtures/imports.rs get_imported_fixtures
@tags C14
@as canary_get_memoises_nested_calls
@recv mut
@ret r
@sig
    requires old(self).memo_sound(),
    ensures
        !old(visited).s().contains(canon(pv(file_path))) && content_of(old(self).file_cache.m(), canon(pv(file_path))) is Some
            ==> final(self).memo().contains_key(canon(pv(file_path))),
@*/

/*@ extract src/fixtures/imports.rs get_imported_fixtures
@tags C14
@as canary_get_returns_nothing
@recv mut
@ret r
@sig
    requires old(self).memo_sound(),
    ensures r.s() == Set::<Name>::empty(),
@*/

/*@ extract src/fixtures/imports.rs is_fixture_imported_in_file
@tags C14 C12 C07
@recv mut
@ret r
@sig
    requires old(self).memo_sound(),
    ensures
        final(self).same_index(old(self)), final(self).memo_sound(),
        // available exactly where the importing file makes it available
        r ==> in_closure(old(self).env(), canon(pv(file_path)), fixture_name@),
        old(self).memo_exact() ==> final(self).memo_exact() && r == in_closure(old(self).env(), canon(pv(file_path)), fixture_name@),
@*/
}

/// cache invariant (soundness form): an entry stamped with the current content hash of its key file and the
/// current definitions version holds only names of the import closure of its key
pub open spec fn entry_current(env: Env, ver: u64, k: PV, e: MemoEntry) -> bool {
    match content_of(env.cache, k) { Some(t) => e.0 == hash_of(t) && e.1 == ver, None => false }
}
pub open spec fn memo_sound(env: Env, ver: u64, memo: Map<PV, MemoEntry>) -> bool {
    forall|k: PV| #[trigger] memo.contains_key(k) && entry_current(env, ver, k, memo[k]) ==> set_in_closure(env, k, (*memo[k].2).s())
}
/// cache invariant (exact form): such an entry holds exactly the import closure of its key
pub open spec fn memo_exact(env: Env, ver: u64, memo: Map<PV, MemoEntry>) -> bool {
    forall|k: PV| #[trigger] memo.contains_key(k) && entry_current(env, ver, k, memo[k]) ==> set_is_closure(env, k, (*memo[k].2).s())
}
/// (M) what one call does to imported_fixtures_cache: nothing, except that a top-level call (empty `visited`)
/// on a readable file whose entry is missing or stale stores (hash of the text read, version read, result) under
/// the canonical path; a current entry is returned as it is
pub open spec fn memo_post(env: Env, ver: u64, m0: Map<PV, MemoEntry>, m1: Map<PV, MemoEntry>, c: PV, v0: Set<PV>, r: Set<Name>) -> bool {
    match content_of(env.cache, c) {
        Some(t) => {
            let hit = m0.contains_key(c) && m0[c].0 == hash_of(t) && m0[c].1 == ver;
            if v0.contains(c) { m1 == m0 && r == Set::<Name>::empty() }
            else if hit { m1 == m0 && r == (*m0[c].2).s() }
            else if v0.len() == 0 {
                m1.dom() == m0.dom().insert(c) && (forall|k: PV| k != c && m0.contains_key(k) ==> #[trigger] m1[k] == m0[k])
                && m1[c].0 == hash_of(t) && m1[c].1 == ver && (*m1[c].2).s() == r
            } else { m1 == m0 }
        },
        None => m1 == m0 && r == Set::<Name>::empty(),
    }
}
//@tags C14 C07
/// the exact cache invariant implies the soundness form (the two `requires` of the contracts are compatible)
pub proof fn lemma_memo_exact_sound(env: Env, ver: u64, memo: Map<PV, MemoEntry>)
    requires memo_exact(env, ver, memo) ensures memo_sound(env, ver, memo)
{
    assert forall|k: PV| #[trigger] memo.contains_key(k) && entry_current(env, ver, k, memo[k]) implies set_in_closure(env, k, (*memo[k].2).s()) by {
        lemma_exact_closed(env, k, (*memo[k].2).s());
    }
}
//@tags C14 C07
/// an empty cache satisfies both invariants (cold start)
pub proof fn lemma_memo_empty_ok(env: Env, ver: u64)
    ensures memo_exact(env, ver, Map::<PV, MemoEntry>::empty()), memo_sound(env, ver, Map::<PV, MemoEntry>::empty())
{ }
//@tags C14 C07
/// (M) read off the contract: a nested call (something already on the visiting path) never writes the cache
pub proof fn lemma_C14_nested_calls_do_not_memoise(env: Env, ver: u64, m0: Map<PV, MemoEntry>, m1: Map<PV, MemoEntry>, c: PV, v0: Set<PV>, r: Set<Name>)
    requires memo_post(env, ver, m0, m1, c, v0, r), v0.len() > 0
    ensures m1 == m0
{ }
//@tags C14 C07
/// (M) read off the contract: the only key that can change is the canonical path of the queried file
pub proof fn lemma_C14_memo_changes_only_own_key(env: Env, ver: u64, m0: Map<PV, MemoEntry>, m1: Map<PV, MemoEntry>, c: PV, v0: Set<PV>, r: Set<Name>, k: PV)
    requires memo_post(env, ver, m0, m1, c, v0, r), k != c
    ensures m1.contains_key(k) == m0.contains_key(k), m0.contains_key(k) ==> m1[k] == m0[k]
{ }
/// canary: "the memo is written on nested calls too"
pub proof fn canary_memo_written_on_nested_calls(env: Env, ver: u64, m0: Map<PV, MemoEntry>, m1: Map<PV, MemoEntry>, c: PV, v0: Set<PV>, r: Set<Name>)
    requires memo_post(env, ver, m0, m1, c, v0, r), v0.len() > 0, !v0.contains(c), content_of(env.cache, c) is Some
    ensures m1.contains_key(c)
{ }
/// canary: "a stale entry (other version) is returned as it is"
pub proof fn canary_stale_entry_returned(env: Env, ver: u64, m0: Map<PV, MemoEntry>, m1: Map<PV, MemoEntry>, c: PV, v0: Set<PV>, r: Set<Name>, t: Seq<char>)
    requires memo_post(env, ver, m0, m1, c, v0, r), !v0.contains(c), content_of(env.cache, c) == Some(t),
        m0.contains_key(c), m0[c].0 == hash_of(t), m0[c].1 != ver
    ensures r == (*m0[c].2).s()
{ }
} // verus!
fn main() {}
