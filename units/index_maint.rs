//@include prelude/header.rs
verus! {
pub mod pre {
use super::*;
//@include prelude/path.rs
//@include prelude/types.rs
//@include prelude/dashmap.rs
//@include prelude/hashset.rs
//@include prelude/atomic.rs
//@include prelude/dbview.rs
//@include prelude/hof.rs
//@include prelude/index_spec.rs
//@include prelude/arc.rs
} // mod pre
use pre::*;

#[verifier::external_type_specification] pub struct ExUndeclaredFixture(UndeclaredFixture);
#[verifier::external_type_specification] pub struct ExFixtureCycle(FixtureCycle);
//@item src/fixtures/mod.rs struct EditableInstall

// v2: EVERY field of the database except ast_cache (its value type needs the rustpython AST type specs; this unit
// runs without them) -- so that `rest()` (prelude/index_dbspecs_all.rs: all the non-index fields listed here) makes
// the frame clause `final(self).rest() == old(self).rest()` of the contracts below speak about all of them.  The
// contract TEXT is unchanged; a consumer's own `rest()` may list any SUBSET of these fields.
//@dbstruct_arc definitions file_definitions usages usage_by_fixture definitions_version file_cache undeclared_fixtures imports canonical_path_cache line_index_cache cycle_cache available_fixtures_cache imported_fixtures_cache site_packages_paths editable_install_roots workspace_root plugin_fixture_files

//@include prelude/index_dbspecs_all.rs

broadcast use {axiom_default_vec, axiom_default_hashset};

impl FixtureDatabase {
/*@ extract src/fixtures/mod.rs invalidate_cycle_cache
@recv mut
@sig
    ensures
        final(self).version() == (if old(self).version() == u64::MAX { 0u64 } else { (old(self).version() + 1) as u64 }),
        final(self).definitions == old(self).definitions,
        final(self).file_definitions == old(self).file_definitions,
        final(self).usages == old(self).usages,
        final(self).usage_by_fixture == old(self).usage_by_fixture,
        final(self).rest() == old(self).rest(),
@*/

/*@ extract src/fixtures/analyzer.rs record_fixture_usage
@recv mut
@sig
    ensures
        final(self).uses() =~~= old(self).uses().insert(pv(file_path),
            bucket(old(self).uses(), pv(file_path)).push(
                UseV { name: fixture_name@, file: pv(file_path), line, start_char, end_char })),
        final(self).byfix() =~~= old(self).byfix().insert(fixture_name@,
            bucket(old(self).byfix(), fixture_name@).push((pv(file_path),
                UseV { name: fixture_name@, file: pv(file_path), line, start_char, end_char }))),
        final(self).definitions == old(self).definitions,
        final(self).file_definitions == old(self).file_definitions,
        final(self).definitions_version == old(self).definitions_version,
        final(self).rest() == old(self).rest(),
@*/

/*@ extract src/fixtures/analyzer.rs record_fixture_definition
@recv mut
@sig
    ensures
        final(self).defs() =~~= old(self).defs().insert(definition.name@,
            bucket(old(self).defs(), definition.name@).push(dv(&definition))),
        final(self).fdefs() =~~= old(self).fdefs().insert(pbv(&definition.file_path),
            sbucket(old(self).fdefs(), pbv(&definition.file_path)).insert(definition.name@)),
        final(self).version() == (if old(self).version() == u64::MAX { 0u64 } else { (old(self).version() + 1) as u64 }),
        final(self).usages == old(self).usages,
        final(self).usage_by_fixture == old(self).usage_by_fixture,
        final(self).rest() == old(self).rest(),
@*/

/*@ extract src/fixtures/analyzer.rs cleanup_definitions_for_file
@recv mut
@sig
    ensures
        final(self).fdefs() =~~= old(self).fdefs().remove(pbv(file_path)),
        final(self).defs() =~~= clean_defs_names(old(self).defs(), pbv(file_path), sbucket(old(self).fdefs(), pbv(file_path))),
        final(self).usages == old(self).usages,
        final(self).usage_by_fixture == old(self).usage_by_fixture,
        final(self).definitions_version == old(self).definitions_version,
        final(self).rest() == old(self).rest(),
@after remove 1
    let ghost names0 = fixture_names.s();
    let ghost mut pset: Set<Seq<char>> = Set::empty();
@loopvar 1 it
@loop 1
    invariant
        names0 == sbucket(old(self).fdefs(), pbv(file_path)),
        it.seq().len() == names0.len(),
        forall|i: int| 0 <= i < it.seq().len() ==> names0.contains((#[trigger] it.seq()[i])@),
        forall|i: int, j: int| 0 <= i < j < it.seq().len() ==> it.seq()[i]@ != it.seq()[j]@,
        forall|k: Seq<char>| names0.contains(k) ==> exists|i: int| 0 <= i < it.seq().len() && (#[trigger] it.seq()[i])@ == k,
        forall|j: int| 0 <= j < it.index@ ==> pset.contains((#[trigger] it.seq()[j])@),
        forall|k: Seq<char>| pset.contains(k) ==> exists|j: int| 0 <= j < it.index@ && (#[trigger] it.seq()[j])@ == k,
        self.fdefs() =~~= old(self).fdefs().remove(pbv(file_path)),
        self.defs() =~~= clean_defs_names(old(self).defs(), pbv(file_path), pset),
        self.usages == old(self).usages,
        self.usage_by_fixture == old(self).usage_by_fixture,
        self.definitions_version == old(self).definitions_version,
@closure retain:1 |def: &FixtureDefinition| -> (keep: bool) ensures keep == (pbv(&def.file_path) != pbv(file_path))
@closure remove_if:1 |_k: &String, defs: &Vec<FixtureDefinition>| -> (b: bool) ensures b == (defs@.len() == 0)
@loopstart 1
    let ghost m1 = self.definitions.m();
@after should_remove 1
    let ghost m2 = self.definitions.m();
    proof {
        let f = pbv(file_path);
        let nv = fixture_name@;
        let keep = |d: FixtureDefinition| pbv(&d.file_path) != f;
        if m1.contains_key(nv) {
            assert(m2[nv]@ == m1[nv]@.filter(keep));
            assert(m2 =~= m1.insert(nv, m2[nv]));
            assert(should_remove == (m2[nv]@.len() == 0));
        } else {
            assert(m2 == m1);
            assert(!should_remove);
        }
    }
@loopend 1
    proof {
        let f = pbv(file_path);
        let nv = fixture_name@;
        let m3 = self.definitions.m();
        assert(!pset.contains(nv));
        if m1.contains_key(nv) && m2[nv]@.len() == 0 {
            assert(m3 =~= m2.remove(nv));
        } else {
            assert(m3 == m2);
        }
        let keep = |d: FixtureDefinition| pbv(&d.file_path) != f;
        if m1.contains_key(nv) {
            lemma_filter_map_commute(m1[nv]@, |d: FixtureDefinition| dv(&d), keep, not_in_file(f));
            assert(dvs(m2[nv]@) =~= clean_bucket(dvs(m1[nv]@), f));
        }
        let d0 = old(self).defs();
        let d1 = defs_view(m1);
        let d3 = self.defs();
        let target = clean_defs_names(d0, f, pset.insert(nv));
        assert(d1 =~~= clean_defs_names(d0, f, pset));
        assert forall|k: Seq<char>| d3.contains_key(k) <==> target.contains_key(k) by {
            if k == nv {
                if m1.contains_key(nv) { assert(d1.contains_key(nv)); assert(d0.contains_key(nv)); assert(d1[nv] == d0[nv]); }
                else { assert(!d1.contains_key(nv)); }
            } else {
                assert(d3.contains_key(k) == d1.contains_key(k));
            }
        }
        assert forall|k: Seq<char>| d3.contains_key(k) implies d3[k] =~= target[k] by {
            if k == nv { assert(d1[nv] == d0[nv]); } else { assert(d3[k] == d1[k]); }
        }
        assert(d3 =~~= target);
        pset = pset.insert(nv);
    }
@end
    proof {
        assert(pset =~= names0);
    }
@*/

/*@ extract src/fixtures/analyzer.rs cleanup_usages_for_file
@recv mut
@sig
    ensures
        final(self).byfix() =~~= clean_byfix(old(self).byfix(), pbv(file_path)),
        final(self).usages == old(self).usages,
        final(self).definitions == old(self).definitions,
        final(self).file_definitions == old(self).file_definitions,
        final(self).definitions_version == old(self).definitions_version,
        final(self).rest() == old(self).rest(),
@closure map:1 |entry: RefMulti<'_, String, Vec<(PathBuf, FixtureUsage)>>| -> (s: String) ensures s@ == entry.k@
@closure any:1 |path_u: &(PathBuf, FixtureUsage)| -> (b: bool) ensures b == (pbv(&path_u.0) == pbv(file_path))
@closurelet any:1 let (path, _) = path_u;
@closure retain:1 |path_u: &(PathBuf, FixtureUsage)| -> (b: bool) ensures b == (pbv(&path_u.0) != pbv(file_path))
@closurelet retain:1 let (path, _) = path_u;
@closure remove_if:1 |_k: &String, usages: &Vec<(PathBuf, FixtureUsage)>| -> (b: bool) ensures b == (usages@.len() == 0)
@derefcmp path file_path 1
@derefcmp path file_path 2
@after all_keys 1
    let ghost b0 = self.usage_by_fixture.m();
    let ghost mut pset: Set<Seq<char>> = Set::empty();
    proof {
        assert(forall|i: int| 0 <= i < all_keys@.len() ==> b0.contains_key((#[trigger] all_keys@[i])@));
        assert(forall|i: int, j: int| 0 <= i < j < all_keys@.len() ==> all_keys@[i]@ != all_keys@[j]@);
        let ks = all_keys@.map_values(|x: String| x@);
        assert(ks.len() == b0.dom().len());
        assert(ks.no_duplicates());
        lemma_injective_seq_covers(ks, b0.dom());
        assert forall|k: Seq<char>| b0.contains_key(k) implies exists|i: int| 0 <= i < all_keys@.len() && (#[trigger] all_keys@[i])@ == k by {
            assert(ks.contains(k));
            let i = choose|i: int| 0 <= i < ks.len() && ks[i] == k;
            assert(all_keys@[i]@ == k);
        }
    }
@loopvar 1 it
@loop 1
    invariant
        b0 == old(self).usage_by_fixture.m(),
        forall|i: int| 0 <= i < it.seq().len() ==> b0.contains_key((#[trigger] it.seq()[i])@),
        forall|i: int, j: int| 0 <= i < j < it.seq().len() ==> it.seq()[i]@ != it.seq()[j]@,
        forall|k: Seq<char>| b0.contains_key(k) ==> exists|i: int| 0 <= i < it.seq().len() && (#[trigger] it.seq()[i])@ == k,
        forall|j: int| 0 <= j < it.index@ ==> pset.contains((#[trigger] it.seq()[j])@),
        forall|k: Seq<char>| pset.contains(k) ==> exists|j: int| 0 <= j < it.index@ && (#[trigger] it.seq()[j])@ == k,
        self.byfix() =~~= clean_byfix_names(old(self).byfix(), pbv(file_path), pset),
        self.usages == old(self).usages,
        self.definitions == old(self).definitions,
        self.file_definitions == old(self).file_definitions,
        self.definitions_version == old(self).definitions_version,
@loopstart 1
    let ghost m1 = self.usage_by_fixture.m();
@after had_usages 1
    proof {
        let keep = pair_keep(pbv(file_path));
        if !had_usages {
            assert forall|i: int| 0 <= i < usages@.len() implies keep(#[trigger] usages@[i]) by { let y = usages@.as_ref()[i]; }
            lemma_filter_all(usages@, keep);
        }
    }
@after should_remove 1
    let ghost m2 = self.usage_by_fixture.m();
    proof {
        let f = pbv(file_path);
        let nv = fixture_name@;
        let keep = pair_keep(f);
        if m1.contains_key(nv) {
            lemma_filter_map_commute(m1[nv]@, |e: (PathBuf, FixtureUsage)| (pbv(&e.0), uv(&e.1)), keep, pair_not_in_file(f));
            assert(m2[nv]@ == m1[nv]@.filter(keep));
            assert(m2 =~= m1.insert(nv, m2[nv]));
            assert(should_remove == (m2[nv]@.len() == 0));
        } else {
            assert(m2 == m1);
            assert(!should_remove);
        }
    }
@loopend 1
    proof {
        let f = pbv(file_path);
        let nv = fixture_name@;
        let m3 = self.usage_by_fixture.m();
        assert(!pset.contains(nv));
        if m1.contains_key(nv) && m2[nv]@.len() == 0 {
            assert(m3 =~= m2.remove(nv));
        } else {
            assert(m3 == m2);
        }
        let d0 = old(self).byfix();
        let d1 = byfix_view(m1);
        let d3 = self.byfix();
        let target = clean_byfix_names(d0, f, pset.insert(nv));
        assert(d1 =~~= clean_byfix_names(d0, f, pset));
        assert forall|k: Seq<char>| d3.contains_key(k) <==> target.contains_key(k) by {
            if k == nv {
                if m1.contains_key(nv) { assert(d1.contains_key(nv)); assert(d0.contains_key(nv)); assert(d1[nv] == d0[nv]); }
                else { assert(!d1.contains_key(nv)); }
            } else {
                assert(d3.contains_key(k) == d1.contains_key(k));
            }
        }
        assert forall|k: Seq<char>| d3.contains_key(k) implies d3[k] =~= target[k] by {
            if k == nv { assert(d1[nv] == d0[nv]); } else { assert(d3[k] == d1[k]); }
        }
        assert(d3 =~~= target);
        pset = pset.insert(nv);
    }
@end
    proof {
        assert(pset =~= old(self).byfix().dom());
    }
@*/
}

} // verus!
fn main() {}
