//@include prelude/header.rs
// v3 PROBE COPY of units/handlers_diag.rs (composition with unit uri_glue): the ONLY differences are the include of
// prelude/lsp_backend.rs (uri_path := op_uri_to_path, path_uri(c, p) := op_path_to_uri(c.m(), p), UriCache = the real
// Arc around the DashMap shim) and the `impl Backend { //@stub uri_glue uri_to_path / path_to_uri }` block.  Nothing else
// had to change; every function verifies as before (+19 lemmas of prelude/uri_l2.rs).
// Unit handlers_diag: the remaining request / notification handlers of src/providers under contract, same method and
// infrastructure as unit handlers_nav (real async bodies read sequentially, T13; real LSP types, build/lspspec.rs):
//   diagnostics.rs       publish_diagnostics_for_file   C19: the list handed to client.publish_diagnostics is
//                        expected_diags(config, undeclared findings, cycles in file, scope mismatches) -- stated as the
//                        PRECONDITION `publish_pre` of the T5b helper vp_publish that IS the publish call, proved at
//                        the call site (prelude/diag_spec.rs, diag_l2.rs)
//   document_symbol.rs   handle_document_symbol         C15 (prelude/symbols_spec.rs, symbols_l2.rs)
//   workspace_symbol.rs  handle_workspace_symbol        C15
//   code_action.rs       handle_code_action             C17 quick fix: structure; every string computation on the
//                        signature line is an uninterpreted function of that line (prelude/code_action_spec.rs, _l2.rs)
// Callees: get_undeclared_fixtures = //@stub position; detect_scope_mismatches_in_file = //@stub scope_mismatch (its
// vocabulary is COPIED into prelude/mismatch_spec.rs); Config::is_diagnostic_disabled = //@stub config (cfg_view /
// op_is_disabled COPIED into prelude/diag_spec.rs); detect_fixture_cycles_in_file = the result clause PROVED in unit
// cycles, restated on `&self` (the unit models the memo write as `&mut self`); get_file_content as in refs_goto.
// NOT in this unit: completion.rs handle_completion (dispatch glue; needs the CompletionItem closure of ls_types and
// the AST vocabulary of unit completion_ctx), the did_open / did_change / did_close notification glue in main.rs.
use ls_types::*;
pub mod fixtures { pub mod types { pub use crate::types::*; } }
verus! {
global size_of usize == 8;  // A6: 64-bit target
pub mod pre {
use super::*;
//@include prelude/path.rs
//@include prelude/types.rs
//@include prelude/dashmap.rs
//@include prelude/hashset.rs
//@include prelude/atomic.rs
//@include prelude/dbview.rs
//@include prelude/hof.rs
//@include prelude/strings.rs
//@include prelude/bytes.rs
//@include prelude/glob.rs
//@include prelude/resolve_spec.rs
//@include prelude/refs_spec.rs
//@include prelude/text.rs
//@include prelude/refs_l2.rs
//@include prelude/position_spec.rs
//@include prelude/position_l2.rs
//@include prelude/cycles_std.rs
//@include prelude/mismatch_spec.rs
//@include prelude/sort.rs
//@include build/lspspec.rs
//@include prelude/handlers_shims.rs
} // mod pre
use pre::*;
use pre::Pattern;   // glob::Pattern stand-in (ls_types exports a type alias of the same name)

#[verifier::external_type_specification] pub struct ExUndeclaredFixture(UndeclaredFixture);

//@dbstruct definitions file_cache usages usage_by_fixture undeclared_fixtures file_definitions

//@include prelude/db_specs.rs
//@item src/config/mod.rs struct Config
//@include prelude/lsp_backend.rs
//@include prelude/handlers_spec.rs
//@include prelude/diag_spec.rs
//@include prelude/symbols_spec.rs
//@include prelude/symbols_l2.rs
//@include prelude/code_action_spec.rs
//@include prelude/code_action_l2.rs
//@include prelude/diag_l2.rs

// ---- the memo layer's vocabulary (as in units/memo.rs / units/cycles.rs, where the cycle queries are proved)
pub struct QView { pub defs: Map<Seq<char>, Seq<DefV>>, pub texts: Map<PV, Seq<char>> }
/// what compute_fixture_cycles returns, abstractly (any function of the query view)
pub uninterp spec fn op_cycles(q: QView) -> Seq<FixtureCycle>;
pub open spec fn in_file_v(f: PV) -> spec_fn(CycV) -> bool { |c: CycV| c.fixture.file == f }

// Backend::uri_to_path / path_to_uri (src/providers/mod.rs): the contracts PROVED on the real bodies in unit uri_glue
impl Backend {
//@stub uri_glue uri_to_path
//@stub uri_glue path_to_uri
}

impl Config {
//@stub config is_diagnostic_disabled
}

pub mod resolver { // mirrors crate::fixtures::resolver so that `super::types::…` paths in the stub signatures resolve
use super::*;
impl FixtureDatabase {
    pub open spec fn uses(&self) -> Map<PV, Seq<UseV>> { usages_view(self.usages.m()) }
    pub open spec fn undecl(&self) -> Map<PV, Seq<UndeclV>> { undecl_view(self.undeclared_fixtures.m()) }
    pub open spec fn fdefs(&self) -> Map<PV, Set<Seq<char>>> { fdefs_view(self.file_definitions.m()) }
    pub open spec fn provf(&self) -> spec_fn(Seq<char>) -> spec_fn(PV) -> bool { |n: Seq<char>| self.prov(n) }
    pub open spec fn q(&self) -> QView { QView { defs: self.defs(), texts: self.file_cache.m().map_values(|a: String| a@) } }

//@stub position get_undeclared_fixtures

    // ASSUMED callee contract, exactly as in units refs_goto / position (implied by the contract PROVED for
    // get_file_content in unit memo: the result is a function of file_cache and the path only)
    #[verifier::external_body]
    pub(crate) fn get_file_content(&self, file_path: &Path) -> (r: Option<Arc<String>>)
        ensures (match r { Some(a) => Some(a.v@), None => None::<Seq<char>> }) == file_content(self.file_cache.m(), pv(file_path))
    { unimplemented!() }
//@stub scope_mismatch detect_scope_mismatches_in_file

    // ASSUMED reading of a PROVED contract: unit cycles proves, for the `&mut self` model of the memoised query
    // (the cache insert is a write), `cyvs(r@) =~= cyvs(op_cycles(old(self).q())).filter(in_file_v(pv(file_path)))`
    // plus the cache frame; the handler calls it through `Arc<FixtureDatabase>` (`&self`): the same result clause
    // on `&self`, the frame clauses dropped (nothing else of the database is read afterwards that the cache affects).
    #[verifier::external_body]
    pub fn detect_fixture_cycles_in_file(&self, file_path: &Path) -> (r: Vec<FixtureCycle>)
        ensures cyvs(r@) =~= cyvs(op_cycles(self.q())).filter(in_file_v(pv(file_path)))
    { unimplemented!() }
}
} // mod resolver

impl Backend {
    /// what the published diagnostics of a file depend on
    pub open spec fn dctx(&self, file: PV) -> DiagCtx {
        DiagCtx { cfg: cfg_view(&self.config.v), undecl: bucket(self.fixture_db.undecl(), file),
                  cycles: cyvs(op_cycles(self.fixture_db.q())).filter(in_file_v(file)),
                  defs: self.fixture_db.defs(), fdefs: self.fixture_db.fdefs(), provf: self.fixture_db.provf(), file: file }
    }
}

pub mod providers {
use super::*;
use jsonrpc::Result;

impl Backend {
/*@ extract src/providers/diagnostics.rs publish_diagnostics_for_file
@tags C19 C15 C11 C12
@stripasync
@rename join vp_join
@wrapexpr 1 `DiagnosticSeverity::WARNING` => `Self::vp_sev_warning_u()` with fn vp_sev_warning_u() -> (r: DiagnosticSeverity) ensures r == sev_warning()
@wrapexpr 2 `DiagnosticSeverity::WARNING` => `Self::vp_sev_warning_m()` with fn vp_sev_warning_m() -> (r: DiagnosticSeverity) ensures r == sev_warning()
@wrapexpr 1 `DiagnosticSeverity::ERROR` => `Self::vp_sev_error()` with fn vp_sev_error() -> (r: DiagnosticSeverity) ensures r == sev_error()
@wrapexpr 1 `format!( "Fixture '{}' is used but not declared as a parameter", fixture.name )` => `Self::vp_msg_undeclared(&fixture)` with fn vp_msg_undeclared(fixture: &UndeclaredFixture) -> (r: String) ensures r@ == msg_undeclared(fixture.name@)
@wrapexpr 1 `format!("Circular fixture dependency detected: {}", cycle_str)` => `Self::vp_msg_cycle(&cycle_str)` with fn vp_msg_cycle(cycle_str: &String) -> (r: String) ensures r@ == msg_cycle(cycle_str@)
@wrapexpr 1 `format!( "{}-scoped fixture '{}' depends on {}-scoped fixture '{}'", mismatch.fixture.scope.as_str(), mismatch.fixture.name, mismatch.dependency.scope.as_str(), mismatch.dependency.name )` => `Self::vp_msg_mismatch(&mismatch)` with fn vp_msg_mismatch(mismatch: &ScopeMismatch) -> (r: String) ensures r@ == msg_mismatch(mismatch.fixture.scope, mismatch.fixture.name@, mismatch.dependency.scope, mismatch.dependency.name@)
@wrapexpr 1 `self.client .publish_diagnostics(uri.clone(), diagnostics, None)` => `self.vp_publish(uri, file_path, diagnostics)` with fn vp_publish(&self, uri: &Uri, file_path: &std::path::Path, diagnostics: Vec<Diagnostic>) requires publish_pre(self.dctx(pv(file_path)), diags_v(diagnostics@))
@sig
    requires wf_names(self.fixture_db.defs()),
@start
    let ghost x = self.dctx(pv(file_path));
    let ghost fit_u = forall|i: int| 0 <= i < x.undecl.len() ==> line_fits((#[trigger] x.undecl[i]).line);
    let ghost fit_c = forall|i: int| 0 <= i < x.cycles.len() ==> line_fits((#[trigger] x.cycles[i]).fixture.line);
    let ghost mut ms_w: Seq<ScopeMismatch> = Seq::empty();
    // g1 / g2: the list after the first / second block (assigned inside the blocks: no anchor depends on the
    // number of is_diagnostic_disabled calls)
    let ghost mut g1: Seq<DiagV> = Seq::empty();
    let ghost mut g2: Seq<DiagV> = Seq::empty();
    let ghost mut c_taken: bool = false;
@after config 2
    proof { assert(cfg_view(config) == x.cfg); assert(diags_v(diagnostics@) =~= Seq::<DiagV>::empty()); }
@after undeclared 1
    let ghost uxs = undeclared@;
    proof {
        lemma_undecl_post_view(self.fixture_db.undeclared_fixtures.m(), pv(file_path), uxs);
        assert(udvs(uxs) == x.undecl);
        assert(x.undecl.take(0).map_values(undecl_diag_fn()) =~= Seq::<DiagV>::empty());
    }
@loopvar 1 it
@loop 1
    invariant it.seq() == uxs, udvs(uxs) == x.undecl,
        fit_u == (forall|i: int| 0 <= i < x.undecl.len() ==> line_fits((#[trigger] x.undecl[i]).line)),
        fit_u ==> diags_v(diagnostics@) =~= x.undecl.take(it.index@ as int).map_values(undecl_diag_fn()),
@loopstart 1
    let ghost d0 = diagnostics@;
    let ghost i = it.index@ as int;
    proof { assert(uxs[i] == fixture); assert(x.undecl[i] == udv(&fixture)); }
@loopend 1
    proof {
        let d = diagnostics@.last();
        assert(diagnostics@.drop_last() =~= d0);
        assert(diags_v(diagnostics@) =~= diags_v(d0).push(diag_v(d)));
        assert(x.undecl.take(i + 1) =~= x.undecl.take(i).push(x.undecl[i]));
        assert(x.undecl.take(i + 1).map_values(undecl_diag_fn()) =~= x.undecl.take(i).map_values(undecl_diag_fn()).push(undecl_diag(x.undecl[i])));
        if fit_u { assert(diag_v(d) == undecl_diag(x.undecl[i])); }
    }
@after for 1
    proof {
        assert(x.undecl.take(x.undecl.len() as int) =~= x.undecl);
        g1 = diags_v(diagnostics@);
    }
@after cycles 1
    let ghost cxs = cycles@;
    let ghost p1 = diags_v(diagnostics@);
    proof {
        assert(p1 == g1);
        assert(cyvs(cxs) == x.cycles);
        assert(p1 + x.cycles.take(0).map_values(cycle_diag_fn()) =~= p1);
    }
@loopvar 2 it2
@loop 2
    invariant it2.seq() == cxs, cyvs(cxs) == x.cycles, p1.len() <= diagnostics@.len(),
        fit_c == (forall|i: int| 0 <= i < x.cycles.len() ==> line_fits((#[trigger] x.cycles[i]).fixture.line)),
        fit_c ==> diags_v(diagnostics@) =~= p1 + x.cycles.take(it2.index@ as int).map_values(cycle_diag_fn()),
@loopstart 2
    let ghost d0 = diagnostics@;
    let ghost i = it2.index@ as int;
    proof { assert(cxs[i] == cycle); assert(x.cycles[i] == cyv(&cycle)); }
@loopend 2
    proof {
        let d = diagnostics@.last();
        assert(diagnostics@.drop_last() =~= d0);
        assert(diags_v(diagnostics@) =~= diags_v(d0).push(diag_v(d)));
        assert(x.cycles.take(i + 1) =~= x.cycles.take(i).push(x.cycles[i]));
        assert(x.cycles.take(i + 1).map_values(cycle_diag_fn()) =~= x.cycles.take(i).map_values(cycle_diag_fn()).push(cycle_diag(x.cycles[i])));
        if fit_c { assert(diag_v(d) == cycle_diag(x.cycles[i])); }
    }
@after for 2
    proof {
        assert(x.cycles.take(x.cycles.len() as int) =~= x.cycles);
        g2 = diags_v(diagnostics@);
        c_taken = true;
    }
@after mismatches 1
    let ghost mxs = mismatches@;
    let ghost p2 = diags_v(diagnostics@);
    let ghost msv = miss_v(mxs);
    let ghost fit_s = forall|i: int| 0 <= i < msv.len() ==> line_fits((#[trigger] msv[i]).0.line);
    proof {
        ms_w = mxs;
        assert(p2 == (if c_taken { g2 } else { g1 }));
        assert(mismatches_ok(x.defs, x.fdefs, x.provf, x.file, mxs));
        assert(p2 + msv.take(0).map_values(mismatch_diag_fn()) =~= p2);
    }
@loopvar 3 it3
@loop 3
    invariant it3.seq() == mxs, msv == miss_v(mxs),
        fit_s == (forall|i: int| 0 <= i < msv.len() ==> line_fits((#[trigger] msv[i]).0.line)),
        fit_s ==> diags_v(diagnostics@) =~= p2 + msv.take(it3.index@ as int).map_values(mismatch_diag_fn()),
@loopstart 3
    let ghost d0 = diagnostics@;
    let ghost i = it3.index@ as int;
    proof { assert(mxs[i] == mismatch); assert(msv[i] == mis_v(&mismatch)); }
@loopend 3
    proof {
        let d = diagnostics@.last();
        assert(diagnostics@.drop_last() =~= d0);
        assert(diags_v(diagnostics@) =~= diags_v(d0).push(diag_v(d)));
        assert(msv.take(i + 1) =~= msv.take(i).push(msv[i]));
        assert(msv.take(i + 1).map_values(mismatch_diag_fn()) =~= msv.take(i).map_values(mismatch_diag_fn()).push(mismatch_diag(msv[i])));
        if fit_s { assert(diag_v(d) == mismatch_diag(msv[i])); }
    }
@after for 3
    proof { assert(msv.take(msv.len() as int) =~= msv); }
@before publish_diagnostics 1
    proof {
        let msv = miss_v(ms_w);
        if findings_fit(x.undecl, x.cycles, msv) {
            let e1 = gated(x.cfg, code_undeclared(), x.undecl, undecl_diag_fn());
            let e2 = gated(x.cfg, code_cycle(), x.cycles, cycle_diag_fn());
            let e3 = gated(x.cfg, code_mismatch(), msv, mismatch_diag_fn());
            assert(g1 =~= e1);
            let h2 = if c_taken { g2 } else { g1 };
            assert(h2 =~= e1 + e2);
            assert(diags_v(diagnostics@) =~= h2 + e3);
            assert(diags_v(diagnostics@) == expected_diags(x.cfg, x.undecl, x.cycles, msv));
        }
        assert(publish_pre_ms(x, diags_v(diagnostics@), ms_w));
    }
@*/

/*@ extract src/providers/document_symbol.rs handle_document_symbol
@tags C15 C11 C12
@stripasync
@ret r
@rename sort_by_key vp_sort_by_key
@closure sort_by_key:1 |s: &DocumentSymbol| -> (k: u32) ensures k == s.range.start.line
@wrapexpr 1 `SymbolKind::FUNCTION` => `Self::vp_sk_function_ds()` with fn vp_sk_function_ds() -> (r: SymbolKind) ensures r == sk_function()
@wrapexpr 1 `definition .return_type .as_ref() .map(|rt| format!("-> {}", rt))` => `Self::vp_symbol_detail(definition)` with fn vp_symbol_detail(definition: &FixtureDefinition) -> (r: Option<String>) ensures opt_sv(r) == (match opt_sv(definition.return_type) { Some(t) => Some(fmt_symbol_detail(t)), None => None })
@sig
    ensures
        r is Ok,
        defs_fit2(self.fixture_db.defs()) ==> docsym_post(self.fixture_db.defs(), params.text_document.uri, r),
@before for 1
    let ghost defs = self.fixture_db.defs();
    let ghost p = pbv(&file_path);
    let ghost m0 = self.fixture_db.definitions.m();
    let ghost fits = defs_fit2(defs);
    let ghost mut ks: Seq<Seq<char>> = Seq::empty();
@loopvar 1 it
@loop 1
    invariant
        defs == self.fixture_db.defs(), p == pbv(&file_path), m0 == self.fixture_db.definitions.m(), fits == defs_fit2(defs),
        forall|j: int| 0 <= j < it.seq().len() ==> m0.contains_key((#[trigger] it.seq()[j]).k@) && *it.seq()[j].v == m0[it.seq()[j].k@],
        forall|i: int, j: int| 0 <= i < j < it.seq().len() ==> (#[trigger] it.seq()[i]).k@ != (#[trigger] it.seq()[j]).k@,
        forall|key: Seq<char>| m0.contains_key(key) ==> exists|j: int| 0 <= j < it.seq().len() && (#[trigger] it.seq()[j]).k@ == key,
        ks.len() == it.index@,
        forall|j: int| 0 <= j < ks.len() ==> #[trigger] ks[j] == it.seq()[j].k@,
        forall|j: int| 0 <= j < it.index@ ==> ks.contains((#[trigger] it.seq()[j]).k@),
        fits ==> syms_v(symbols@) =~= syms_of_keys(defs, p, ks),
@before for 2
    let ghost mut j: int = 0;
    let ghost dsx = entry.v@;
    let ghost ds = dvs(dsx);
    let ghost base = syms_v(symbols@);
    proof {
        assert(ds == bucket(defs, entry.k@));
        assert(base + syms_of_defs(p, ds.take(0)) =~= base);
    }
@forloop 2 it2
    proof { assert(ds.take(j) =~= ds); }
@loop 2
    invariant 0 <= j <= dsx.len(), it2.remaining() == dsx.as_ref().skip(j),
        defs == self.fixture_db.defs(), p == pbv(&file_path), fits == defs_fit2(defs),
        dsx == entry.v@, ds == dvs(dsx), ds == bucket(defs, entry.k@), defs.contains_key(entry.k@),
        fits ==> syms_v(symbols@) =~= base + syms_of_defs(p, ds.take(j)),
    ensures fits ==> syms_v(symbols@) =~= base + syms_of_defs(p, ds),
    decreases dsx.len() - j
@loopstart 2
    let ghost s0 = symbols@;
    proof {
        assert(*definition == dsx[j]);
        assert(ds[j] == dv(definition));
        assert(ds.take(j + 1).drop_last() =~= ds.take(j));
        assert(ds.take(j + 1).last() == dv(definition));
        assert(fits ==> line_fits(defs[entry.k@][j].line) && line_fits(defs[entry.k@][j].end_line));
        j = j + 1;
    }
@after push 1
    proof {
        assert(symbols@ == s0.push(symbol));
        assert(syms_v(symbols@) =~= syms_v(s0).push(sym_v(symbol)));
        if fits { assert(sym_v(symbol) == sym_for(dv(definition))); }
    }
@loopend 1
    proof {
        let k = entry.k@;
        let ks1 = ks.push(k);
        assert(ks1.drop_last() =~= ks);
        assert(ks1.last() == k);
        assert forall|j: int| 0 <= j <= it.index@ implies ks1.contains((#[trigger] it.seq()[j]).k@) by { assert(ks1[j] == it.seq()[j].k@); }
        ks = ks1;
    }
@before sort_by_key 1
    let ghost pre_sort = symbols@;
    proof {
        assert(ks.no_duplicates());
        assert forall|k: Seq<char>| ks.contains(k) <==> defs.contains_key(k) by {
            if ks.contains(k) { let j = choose|j: int| 0 <= j < ks.len() && ks[j] == k; }
            if defs.contains_key(k) { assert(m0.contains_key(k)); }
        }
        assert(enumerates_keys(ks, defs));
    }
@after sort_by_key 1
    proof {
        let all = syms_of_keys(defs, p, ks);
        let pm = sort_key_perm(pre_sort, symbols@);
        assert(sorted_by_key(symbols@, ds_line_key()));
        assert(sorted_by_start_line(syms_v(symbols@)));
        if fits {
            assert(syms_v(pre_sort) == all);
            assert(is_perm_idx(pm, all.len() as int));
            assert forall|i: int| 0 <= i < symbols@.len() implies #[trigger] syms_v(symbols@)[i] == all[pm[i]] by {
                assert(symbols@[i] == pre_sort[pm[i]]);
            }
            assert(rearranges(all, syms_v(symbols@)));
        }
    }
@return tail
    if fits {
        let all = syms_of_keys(defs, p, ks);
        assert(all.len() == symbols@.len());
        assert(uri_path(params.text_document.uri) is Some && uri_path(params.text_document.uri)->0 == p);
        let r0 = if symbols@.len() == 0 { Ok::<Option<DocumentSymbolResponse>, jsonrpc::Error>(None) }
                 else { Ok::<Option<DocumentSymbolResponse>, jsonrpc::Error>(Some(DocumentSymbolResponse::Nested(symbols))) };
        assert(docsym_ok(all, r0));
        assert(exists|ks2: Seq<Seq<char>>| enumerates_keys(ks2, defs) && docsym_ok(#[trigger] syms_of_keys(defs, p, ks2), r0));
        assert(docsym_post(defs, params.text_document.uri, r0));
    }
@*/

/*@ extract src/providers/workspace_symbol.rs handle_workspace_symbol
@tags C15 C11 C12
@stripasync
@ret r
@rename sort_by vp_sort_by
@closure sort_by:1 |a: &SymbolInformation, b: &SymbolInformation| -> (o: core::cmp::Ordering) ensures o == ws_name_cmp()(*a, *b)
@wrapexpr 1 `params.query.to_lowercase()` => `Self::vp_lower_query(&params)` with fn vp_lower_query(params: &WorkspaceSymbolParams) -> (r: String) ensures r@ == lower(params.query@)
@wrapexpr 1 `definition.name.to_lowercase().contains(&query)` => `Self::vp_name_contains(definition, &query)` with fn vp_name_contains(definition: &FixtureDefinition, query: &str) -> (r: bool) ensures r == str_contains(lower(definition.name@), query@)
@wrapexpr 1 `SymbolKind::FUNCTION` => `Self::vp_sk_function_ws()` with fn vp_sk_function_ws() -> (r: SymbolKind) ensures r == sk_function()
@wrapexpr 1 `definition .file_path .file_name() .and_then(|f| f.to_str()) .map(|s| s.to_string())` => `Self::vp_container_name(definition)` with fn vp_container_name(definition: &FixtureDefinition) -> (r: Option<String>) ensures opt_sv(r) == file_name_of(pbv(&definition.file_path))
@sig
    ensures
        r is Ok,
        defs_fit2(self.fixture_db.defs()) ==> ws_post(self.fixture_db.defs(), self.uri_cache, params.query@, r),
@before for 1
    let ghost defs = self.fixture_db.defs();
    let ghost uc = self.uri_cache;
    let ghost q = query@;
    let ghost m0 = self.fixture_db.definitions.m();
    let ghost fits = defs_fit2(defs);
    let ghost mut ks: Seq<Seq<char>> = Seq::empty();
    proof { assert(q == lower(params.query@)); }
@loopvar 1 it
@loop 1
    invariant
        defs == self.fixture_db.defs(), uc == self.uri_cache, q == query@, m0 == self.fixture_db.definitions.m(), fits == defs_fit2(defs),
        forall|j: int| 0 <= j < it.seq().len() ==> m0.contains_key((#[trigger] it.seq()[j]).k@) && *it.seq()[j].v == m0[it.seq()[j].k@],
        forall|i: int, j: int| 0 <= i < j < it.seq().len() ==> (#[trigger] it.seq()[i]).k@ != (#[trigger] it.seq()[j]).k@,
        forall|key: Seq<char>| m0.contains_key(key) ==> exists|j: int| 0 <= j < it.seq().len() && (#[trigger] it.seq()[j]).k@ == key,
        ks.len() == it.index@,
        forall|j: int| 0 <= j < ks.len() ==> #[trigger] ks[j] == it.seq()[j].k@,
        forall|j: int| 0 <= j < it.index@ ==> ks.contains((#[trigger] it.seq()[j]).k@),
        fits ==> wss_v(symbols@) =~= ws_of_keys(defs, uc, q, ks),
@before for 2
    let ghost mut j: int = 0;
    let ghost dsx = entry.v@;
    let ghost ds = dvs(dsx);
    let ghost base = wss_v(symbols@);
    proof {
        assert(ds == bucket(defs, entry.k@));
        assert(base + ws_of_defs(uc, q, ds.take(0)) =~= base);
    }
@forloop 2 it2
    proof { assert(ds.take(j) =~= ds); }
@loop 2
    invariant 0 <= j <= dsx.len(), it2.remaining() == dsx.as_ref().skip(j),
        defs == self.fixture_db.defs(), uc == self.uri_cache, q == query@, fits == defs_fit2(defs),
        dsx == entry.v@, ds == dvs(dsx), ds == bucket(defs, entry.k@), defs.contains_key(entry.k@),
        fits ==> wss_v(symbols@) =~= base + ws_of_defs(uc, q, ds.take(j)),
    ensures fits ==> wss_v(symbols@) =~= base + ws_of_defs(uc, q, ds),
    decreases dsx.len() - j
@loopstart 2
    let ghost s0 = symbols@;
    proof {
        assert(*definition == dsx[j]);
        assert(ds[j] == dv(definition));
        assert(ds.take(j + 1).drop_last() =~= ds.take(j));
        assert(ds.take(j + 1).last() == dv(definition));
        assert(fits ==> line_fits(defs[entry.k@][j].line));
        j = j + 1;
    }
@after push 1
    proof {
        assert(symbols@ == s0.push(symbol));
        assert(wss_v(symbols@) =~= wss_v(s0).push(ws_v(symbol)));
        if fits { assert(ws_for(uc, dv(definition)) == Some(ws_v(symbol))); }
    }
@loopend 1
    proof {
        let k = entry.k@;
        let ks1 = ks.push(k);
        assert(ks1.drop_last() =~= ks);
        assert(ks1.last() == k);
        assert forall|j: int| 0 <= j <= it.index@ implies ks1.contains((#[trigger] it.seq()[j]).k@) by { assert(ks1[j] == it.seq()[j].k@); }
        ks = ks1;
    }
@before sort_by 1
    let ghost pre_sort = symbols@;
    proof {
        assert(ks.no_duplicates());
        assert forall|k: Seq<char>| ks.contains(k) <==> defs.contains_key(k) by {
            if ks.contains(k) { let j = choose|j: int| 0 <= j < ks.len() && ks[j] == k; }
            if defs.contains_key(k) { assert(m0.contains_key(k)); }
        }
        assert(enumerates_keys(ks, defs));
        lemma_ws_name_cmp_total();
    }
@after sort_by 1
    proof {
        let all = ws_of_keys(defs, uc, q, ks);
        let pm = sort_perm(pre_sort, symbols@);
        lemma_ws_name_cmp_total();
        assert(sorted_by(symbols@, ws_name_cmp()));
        assert(sorted_by_name(wss_v(symbols@))) by {
            assert forall|i: int, j: int| 0 <= i < j < symbols@.len() implies str_le((#[trigger] wss_v(symbols@)[i]).name, (#[trigger] wss_v(symbols@)[j]).name) by {
                assert(!(ws_name_cmp()(symbols@[i], symbols@[j]) is Greater));
            }
        }
        if fits {
            assert(wss_v(pre_sort) == all);
            assert(is_perm_idx(pm, all.len() as int));
            assert forall|i: int| 0 <= i < symbols@.len() implies #[trigger] wss_v(symbols@)[i] == all[pm[i]] by {
                assert(symbols@[i] == pre_sort[pm[i]]);
            }
            assert(rearranges(all, wss_v(symbols@)));
        }
    }
@return tail
    if fits {
        let all = ws_of_keys(defs, uc, q, ks);
        assert(all.len() == symbols@.len());
        let r0 = if symbols@.len() == 0 { Ok::<Option<Vec<SymbolInformation>>, jsonrpc::Error>(None) }
                 else { Ok::<Option<Vec<SymbolInformation>>, jsonrpc::Error>(Some(symbols)) };
        assert(ws_ok(all, r0));
        assert(exists|ks2: Seq<Seq<char>>| enumerates_keys(ks2, defs) && ws_ok(#[trigger] ws_of_keys(defs, uc, lower(params.query@), ks2), r0));
        assert(ws_post(defs, uc, params.query@, r0));
    }
@*/

/*@ extract src/providers/code_action.rs handle_code_action
@tags C17 C15 C11 C12
@stripasync
@ret r
@closure find:1 |f: &&UndeclaredFixture| -> (b: bool) ensures b == (f.line == diag_line && f.start_char == diag_char)
@wrapexpr 1 `only_kinds.iter().any(|k| { k == &CodeActionKind::QUICKFIX || k.as_str().starts_with(CodeActionKind::QUICKFIX.as_str()) })` => `Self::vp_wants_quickfix(only_kinds)` with fn vp_wants_quickfix(only_kinds: &Vec<CodeActionKind>) -> (r: bool) ensures r == wants_quickfix(only_kinds@)
@wrapexpr 1 `code == "undeclared-fixture"` => `Self::vp_is_undeclared_code(code)` with fn vp_is_undeclared_code(code: &String) -> (r: bool) ensures r == (code@ == code_undeclared())
@wrapexpr 1 `content.lines().collect()` => `Self::vp_content_lines(&content)` with fn vp_content_lines<'a>(content: &'a Arc<String>) -> (r: Vec<&'a str>) ensures strs_ref_v2(r@) == lines_of(content.v@)
@wrapexpr 1 `func_line_content.find("):")` => `Self::vp_sig_close(func_line_content)` with fn vp_sig_close(func_line_content: &&str) -> (r: Option<usize>) ensures r == sig_close((*func_line_content)@)
@wrapexpr 1 `func_line_content[..paren_pos] .contains('(')` => `Self::vp_prefix_has_open(func_line_content, paren_pos)` with fn vp_prefix_has_open(func_line_content: &&str, paren_pos: usize) -> (r: bool) ensures r == prefix_has_open((*func_line_content)@, paren_pos)
@wrapexpr 1 `func_line_content.find('(')` => `Self::vp_first_open(func_line_content)` with fn vp_first_open(func_line_content: &&str) -> (r: Option<usize>) ensures r == first_open((*func_line_content)@), r is Some ==> r->0 < usize::MAX
@wrapexpr 1 `&func_line_content[param_start..paren_pos]` => `Self::vp_params_section(func_line_content, param_start, paren_pos)` with fn vp_params_section<'a>(func_line_content: &&'a str, param_start: usize, paren_pos: usize) -> (r: &'a str) ensures params_text(r@) == params_blank((*func_line_content)@, param_start, paren_pos)
@wrapexpr 1 `params_section.trim().is_empty()` => `Self::vp_blank(params_section)` with fn vp_blank(params_section: &str) -> (r: bool) ensures r == params_text(params_section@)
@wrapexpr 1 `!func_line_content[..paren_pos] .split('(') .next_back() .unwrap_or("") .trim() .is_empty()` => `Self::vp_has_params(func_line_content, paren_pos)` with fn vp_has_params(func_line_content: &&str, paren_pos: usize) -> (r: bool) ensures r == has_params((*func_line_content)@, paren_pos)
@wrapexpr 1 `format!(", {}", fixture.name)` => `Self::vp_fmt_comma_name(fixture)` with fn vp_fmt_comma_name(fixture: &UndeclaredFixture) -> (r: String) ensures r@ == fmt_comma_name(fixture.name@)
@wrapexpr 1 `vec![( uri.clone(), vec![TextEdit { range: Self::create_point_range( insert_pos.0, insert_pos.1, ), new_text: text_to_insert, }], )] .into_iter() .collect()` => `Self::vp_one_edit(&uri, insert_pos, text_to_insert)` with fn vp_one_edit(uri: &Uri, insert_pos: (u32, u32), text_to_insert: String) -> (r: std::collections::HashMap<Uri, Vec<TextEdit>>) ensures changes_v(r) == seq![(*uri, seq![TextEditV { range: point_range(insert_pos.0, insert_pos.1), new_text: text_to_insert@ }])]
@wrapexpr 1 `format!( "Add '{}' fixture parameter", fixture.name )` => `Self::vp_fmt_title(fixture)` with fn vp_fmt_title(fixture: &UndeclaredFixture) -> (r: String) ensures r@ == fmt_action_title(fixture.name@)
@wrapexpr 3 `CodeActionKind::QUICKFIX` => `Self::vp_kind_quickfix()` with fn vp_kind_quickfix() -> (r: CodeActionKind) ensures r == kind_quickfix()
@sig
    ensures
        r is Ok,
        fn_lines_fit(bucket(self.fixture_db.undecl(), uri_path(params.text_document.uri)->0)) ==>
            opt_acts_view(r) == op_handle_code_action(self.fixture_db.file_cache.m(), self.fixture_db.undecl(), params.text_document.uri,
                (match params.context.only { Some(v) => Some(v@), None => None }), diags_v(params.context.diagnostics@)),
@before for 1
    let ghost mut i: int = 0;
    let ghost p = pbv(&file_path);
    let ghost uxs = undeclared@;
    let ghost us = udvs(uxs);
    let ghost dgx = context.diagnostics@;
    let ghost dgs = diags_v(dgx);
    let ghost g_content = file_content(self.fixture_db.file_cache.m(), p);
    let ghost fits = fn_lines_fit(us);
    proof {
        lemma_undecl_post_view(self.fixture_db.undeclared_fixtures.m(), p, uxs);
        assert(us == bucket(self.fixture_db.undecl(), p));
        assert(actions_of(uri, g_content, us, dgs.take(0)) =~= Seq::<Option<ActV>>::empty());
        assert(acts_v(actions@) =~= Seq::<Option<ActV>>::empty());
    }
@forloop 1 it
    proof { assert(dgs.take(i) =~= dgs); }
@loop 1
    invariant 0 <= i <= dgx.len(), it.remaining() == dgx.as_ref().skip(i),
        p == pbv(&file_path), uxs == undeclared@, us == udvs(uxs), dgx == context.diagnostics@, dgs == diags_v(dgx),
        g_content == file_content(self.fixture_db.file_cache.m(), p), fits == fn_lines_fit(us),
        fits ==> acts_v(actions@) =~= actions_of(uri, g_content, us, dgs.take(i)),
    ensures fits ==> acts_v(actions@) =~= actions_of(uri, g_content, us, dgs),
    decreases dgx.len() - i
@loopstart 1
    let ghost a0 = actions@;
    let ghost dg = diag_v(*diagnostic);
    let ghost pr = und_at(dg.range.start.line as int + 1, dg.range.start.character as int);
    proof {
        assert(*diagnostic == dgx[i]);
        assert(dgs[i] == dg);
        assert(dgs.take(i + 1).drop_last() =~= dgs.take(i));
        assert(dgs.take(i + 1).last() == dg);
        // `find` found nothing => no recorded finding starts at the diagnostic's start position
        assert((forall|k: int| 0 <= k < uxs.len() ==> !pr(udv(#[trigger] uxs.as_ref()[k]))) ==> first_undecl(us, pr) is None) by {
            if forall|k: int| 0 <= k < uxs.len() ==> !pr(udv(#[trigger] uxs.as_ref()[k])) {
                assert forall|k: int| 0 <= k < us.len() implies !pr(#[trigger] us[k]) by { let y = uxs.as_ref()[k]; }
                lemma_first_undecl_none(us, pr);
            }
        }
        i = i + 1;
    }
@after function_line 1
    proof {
        let s = uxs.as_ref();
        let k0 = choose|k0: int| 0 <= k0 < s.len() && s[k0] == fixture && (forall|j: int| 0 <= j < k0 ==> !pr(udv(#[trigger] s[j])));
        assert forall|j: int| 0 <= j < k0 implies !pr(#[trigger] us[j]) by { let y = s[j]; }
        assert(us[k0] == udv(fixture));
        lemma_first_undecl_idx(us, pr, k0);
    }
@after push 1
    proof {
        let a = actions@.last();
        assert(actions@.drop_last() =~= a0);
        assert(acts_v(actions@) =~= acts_v(a0).push(acts_v(actions@).last()));
        if fits {
            let u = udv(fixture);
            let t = content.v@;
            let l = (*func_line_content)@;
            assert(dg.code_is_string && dg.code == Some(code_undeclared()));
            assert(first_undecl(us, pr) == Some(u));
            assert(line_fits(u.function_line));
            assert(function_line == lsp_line(u.function_line));
            assert(g_content == Some(t));
            assert(strs_ref_v2(lines@) == lines_of(t));
            assert(lines_of(t)[function_line as int] == l);
            let av = act_v(action);
            assert(av.diags->0 =~= seq![dg]);
            assert(av.title == fmt_action_title(u.name));
            assert(av.changes == Some(seq![(uri, seq![TextEditV { range: point_range(insert_pos.0, insert_pos.1), new_text: text_to_insert@ }])]));
            assert(acts_v(actions@).last() == Some(av));
            assert(action_for(uri, t, u, dg) == Some(av));
            assert(acts_v(actions@).last() == action_of_diag(uri, g_content, us, dg));
        }
    }
@*/

// ---- exec vacuity guard (must FAIL): the real body, the publish call constrained to the empty list
/*@ extract src/providers/diagnostics.rs publish_diagnostics_for_file
@as canary_exec_publish_always_empty
@stripasync
@rename join vp_join
@wrapexpr 1 `DiagnosticSeverity::WARNING` => `Self::vp_sev_warning_u_c()` with fn vp_sev_warning_u_c() -> (r: DiagnosticSeverity) ensures r == sev_warning()
@wrapexpr 2 `DiagnosticSeverity::WARNING` => `Self::vp_sev_warning_m_c()` with fn vp_sev_warning_m_c() -> (r: DiagnosticSeverity) ensures r == sev_warning()
@wrapexpr 1 `DiagnosticSeverity::ERROR` => `Self::vp_sev_error_c()` with fn vp_sev_error_c() -> (r: DiagnosticSeverity) ensures r == sev_error()
@wrapexpr 1 `format!( "Fixture '{}' is used but not declared as a parameter", fixture.name )` => `Self::vp_msg_undeclared_c(&fixture)` with fn vp_msg_undeclared_c(fixture: &UndeclaredFixture) -> (r: String) ensures r@ == msg_undeclared(fixture.name@)
@wrapexpr 1 `format!("Circular fixture dependency detected: {}", cycle_str)` => `Self::vp_msg_cycle_c(&cycle_str)` with fn vp_msg_cycle_c(cycle_str: &String) -> (r: String) ensures r@ == msg_cycle(cycle_str@)
@wrapexpr 1 `format!( "{}-scoped fixture '{}' depends on {}-scoped fixture '{}'", mismatch.fixture.scope.as_str(), mismatch.fixture.name, mismatch.dependency.scope.as_str(), mismatch.dependency.name )` => `Self::vp_msg_mismatch_c(&mismatch)` with fn vp_msg_mismatch_c(mismatch: &ScopeMismatch) -> (r: String) ensures r@ == msg_mismatch(mismatch.fixture.scope, mismatch.fixture.name@, mismatch.dependency.scope, mismatch.dependency.name@)
@wrapexpr 1 `self.client .publish_diagnostics(uri.clone(), diagnostics, None)` => `self.vp_publish_c(uri, file_path, diagnostics)` with fn vp_publish_c(&self, uri: &Uri, file_path: &std::path::Path, diagnostics: Vec<Diagnostic>) requires diagnostics@.len() == 0
@sig
    requires wf_names(self.fixture_db.defs()),
@*/
}
} // mod providers

} // verus!
fn main() {}
