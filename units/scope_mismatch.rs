//@include prelude/header.rs
verus! {
global size_of usize == 8;  // A6: 64-bit target
pub mod pre {
use super::*;
//@include prelude/path.rs
//@include prelude/types.rs
//@include prelude/dashmap.rs
//@include prelude/hashset.rs
//@include prelude/atomic.rs
//@include prelude/dbview.rs
//@include prelude/hof.rs
//@include prelude/resolve_spec.rs
//@include prelude/scope_order.rs
//@include prelude/resolve_l2.rs
//@include prelude/sort.rs
//@include prelude/path_ext.rs
//@include prelude/avail_spec.rs
} // mod pre
use pre::*;

//@dbstruct definitions file_cache file_definitions

//@include prelude/db_specs.rs

#[verifier::external_type_specification] pub struct ExScopeMismatch(ScopeMismatch);

pub mod resolver { // mirrors crate::fixtures::resolver so that `super::types::…` paths in the source resolve
use super::*;
impl FixtureDatabase {
    pub open spec fn fdefs(&self) -> Map<PV, Set<Seq<char>>> { fdefs_view(self.file_definitions.m()) }
    pub open spec fn provf(&self) -> spec_fn(Seq<char>) -> spec_fn(PV) -> bool { |n: Seq<char>| self.prov(n) }

//@stub available resolve_fixture_for_file
//@stub resolver_core find_closest_definition
//@stub resolver_core find_closest_definition_excluding

/*@ extract src/fixtures/resolver.rs detect_scope_mismatches_in_file
@tags C16 C08
@ret r
@nocontinue 1
@closure find:1 |d: &&FixtureDefinition| -> (b: bool) ensures b == (pbv(&d.file_path) == pv(file_path))
@sig
    requires wf_names(self.defs()),
    ensures
        // soundness: every reported pair is a mismatch under pytest's resolution from this file
        forall|k: int| 0 <= k < r@.len() ==> #[trigger] is_mismatch(self.defs(), self.fdefs(), self.provf(), pv(file_path), dv(&r@[k].fixture), dv(&r@[k].dependency)),
        // completeness: every such mismatch is reported
        forall|f: DefV, d: DefV| #[trigger] is_mismatch(self.defs(), self.fdefs(), self.provf(), pv(file_path), f, d) ==> reported(r@, f, d),
@after fixture_names 1
    let ghost names0 = fixture_names.r.s();
    let ghost mut done: Set<Seq<char>> = Set::empty();
    let ghost file = pv(file_path);
    proof { assert(names0 == self.fdefs()[file]); }
@loopvar 1 it
@loop 1
    invariant
        file == pv(file_path), self.fdefs().contains_key(file), names0 == self.fdefs()[file], wf_names(self.defs()),
        forall|j: int| 0 <= j < it.seq().len() ==> names0.contains((#[trigger] it.seq()[j])@),
        forall|n: Seq<char>| names0.contains(n) ==> exists|j: int| 0 <= j < it.seq().len() && (#[trigger] it.seq()[j])@ == n,
        forall|j: int| 0 <= j < it.index@ ==> done.contains((#[trigger] it.seq()[j])@),
        forall|k: int| 0 <= k < mismatches@.len() ==> #[trigger] is_mismatch(self.defs(), self.fdefs(), self.provf(), file, dv(&mismatches@[k].fixture), dv(&mismatches@[k].dependency)),
        forall|n: Seq<char>| done.contains(n) ==> #[trigger] name_done(self.defs(), self.provf(), file, n, mismatches@),
@loopstart 1
    let ghost nm = fixture_name@;
@before for 2
    let ghost fx = dv(fixture_def);
    proof {
        let s = definitions.r@.as_ref();
        let i = choose|i: int| 0 <= i < s.len() && s[i] == fixture_def && (forall|j: int| 0 <= j < i ==> pbv(&(#[trigger] s[j]).file_path) != file);
        assert forall|j: int| 0 <= j < i implies !p_same(file, fs_true())(#[trigger] dvs(definitions.r@)[j]) by { let y = s[j]; }
        lemma_first_idx(dvs(definitions.r@), p_same(file, fs_true()), i);
        assert(first_match(self.defs()[nm], p_same(file, fs_true())) == Some(fx));
        assert(self.defs()[nm][i] == fx);
        assert(self.defs()[nm][i].name == nm);
    }
@loopvar 2 it2
@loop 2
    invariant
        file == pv(file_path), self.fdefs().contains_key(file), names0 == self.fdefs()[file], names0.contains(nm), wf_names(self.defs()),
        fx == dv(fixture_def), fx.name == nm, self.defs().contains_key(nm),
        first_match(self.defs()[nm], p_same(file, fs_true())) == Some(fx),
        it2.seq() == fixture_def.dependencies@.as_ref(),
        forall|k: int| 0 <= k < mismatches@.len() ==> #[trigger] is_mismatch(self.defs(), self.fdefs(), self.provf(), file, dv(&mismatches@[k].fixture), dv(&mismatches@[k].dependency)),
        forall|n: Seq<char>| done.contains(n) ==> #[trigger] name_done(self.defs(), self.provf(), file, n, mismatches@),
        forall|j: int| 0 <= j < it2.index@ ==> (match #[trigger] dep_target(self.defs(), self.provf(), file, fx, j) {
            Some(d) => rank(fx.scope) > rank(d.scope) ==> reported(mismatches@, fx, d), None => true }),
@loopstart 2
    let ghost j0 = it2.index@ as int;
    let ghost before = mismatches@;
    proof { assert(fixture_def.dependencies@[j0] == *dep_name); assert(fx.dependencies[j0] == dep_name@); }
@loopend 2
    proof {
        assert(opt_dv(dep_def) == dep_target(self.defs(), self.provf(), file, fx, j0));
        lemma_reported_mono(before, mismatches@);
        lemma_name_done_mono(self.defs(), self.provf(), file, before, mismatches@);
        assert forall|n: Seq<char>| done.contains(n) implies #[trigger] name_done(self.defs(), self.provf(), file, n, mismatches@) by {
            assert(name_done(self.defs(), self.provf(), file, n, before));
        }
        if mismatches@.len() > before.len() {
            let k = before.len() as int;
            assert(dv(&mismatches@[k].fixture) == fx);
            let d = dv(&mismatches@[k].dependency);
            assert(is_mismatch(self.defs(), self.fdefs(), self.provf(), file, fx, d)) by { reveal(is_mismatch); }
            assert(reported(mismatches@, fx, d)) by { reveal(reported); }
        }
    }
@after for 2
    proof {
        assert(name_done(self.defs(), self.provf(), file, nm, mismatches@)) by { reveal(name_done); }
    }
@continueproof 1 1
    assert(name_done(self.defs(), self.provf(), file, nm, mismatches@)) by { reveal(name_done); }
@continueproof 1 2
    assert(name_done(self.defs(), self.provf(), file, nm, mismatches@)) by {
        reveal(name_done);
        let s = definitions.r@.as_ref();
        let ds = dvs(definitions.r@);
        assert forall|j: int| 0 <= j < ds.len() implies !p_same(file, fs_true())(#[trigger] ds[j]) by { let y = s[j]; }
        lemma_first_none(ds, p_same(file, fs_true()));
    }
@loopend 1
    proof {
        assert(name_done(self.defs(), self.provf(), file, nm, mismatches@));
        done = done.insert(nm);
    }
@return tail
    assert forall|f: DefV, d: DefV| #[trigger] is_mismatch(self.defs(), self.fdefs(), self.provf(), file, f, d) implies reported(mismatches@, f, d) by {
        assert(names0.contains(f.name)) by { reveal(is_mismatch); }
        assert(done.contains(f.name));
        lemma_complete(self.defs(), self.fdefs(), self.provf(), file, f, d, mismatches@);
    }
@return 1
    assert forall|f: DefV, d: DefV| !#[trigger] is_mismatch(self.defs(), self.fdefs(), self.provf(), pv(file_path), f, d) by { reveal(is_mismatch); }
@*/
}
} // mod resolver
use resolver::*;

/// the definition pytest resolves F's j-th dependency to, seen from F's file (own name -> overridden parent)
pub open spec fn wf_names(defs: Map<Seq<char>, Seq<DefV>>) -> bool {
    forall|n: Seq<char>, i: int| defs.contains_key(n) && 0 <= i < defs[n].len() ==> (#[trigger] defs[n][i]).name == n
}
pub proof fn lemma_reported_mono(a: Seq<ScopeMismatch>, b: Seq<ScopeMismatch>)
    requires a.len() <= b.len(), forall|k: int| 0 <= k < a.len() ==> a[k] == b[k]
    ensures forall|f: DefV, d: DefV| #[trigger] reported(a, f, d) ==> reported(b, f, d)
{
    reveal(reported);
    assert forall|f: DefV, d: DefV| #[trigger] reported(a, f, d) implies reported(b, f, d) by {
        let k = choose|k: int| 0 <= k < a.len() && dv(&(#[trigger] a[k]).fixture) == f && dv(&a[k].dependency) == d;
        assert(b[k] == a[k]);
    }
}
/// all mismatches of the fixture registered for `file` under name n have been reported
#[verifier::opaque]
pub open spec fn name_done(defs: Map<Seq<char>, Seq<DefV>>, provf: spec_fn(Seq<char>) -> spec_fn(PV) -> bool, file: PV, n: Seq<char>, ms: Seq<ScopeMismatch>) -> bool {
    defs.contains_key(n) ==> match first_match(defs[n], p_same(file, fs_true())) {
        None => true,
        Some(fx) => forall|j: int| 0 <= j < fx.dependencies.len() ==> (match #[trigger] dep_target(defs, provf, file, fx, j) {
            Some(d) => rank(fx.scope) > rank(d.scope) ==> reported(ms, fx, d), None => true }),
    }
}
pub proof fn lemma_name_done_mono(defs: Map<Seq<char>, Seq<DefV>>, provf: spec_fn(Seq<char>) -> spec_fn(PV) -> bool, file: PV, a: Seq<ScopeMismatch>, b: Seq<ScopeMismatch>)
    requires a.len() <= b.len(), forall|k: int| 0 <= k < a.len() ==> a[k] == b[k]
    ensures forall|n: Seq<char>| #[trigger] name_done(defs, provf, file, n, a) ==> name_done(defs, provf, file, n, b)
{
    reveal(name_done);
    lemma_reported_mono(a, b);
}
pub proof fn lemma_complete(defs: Map<Seq<char>, Seq<DefV>>, fdefs: Map<PV, Set<Seq<char>>>, provf: spec_fn(Seq<char>) -> spec_fn(PV) -> bool, file: PV, f: DefV, d: DefV, ms: Seq<ScopeMismatch>)
    requires is_mismatch(defs, fdefs, provf, file, f, d), name_done(defs, provf, file, f.name, ms)
    ensures reported(ms, f, d)
{
    reveal(is_mismatch); reveal(name_done);
    let j = choose|j: int| 0 <= j < f.dependencies.len() && #[trigger] dep_target(defs, provf, file, f, j) == Some(d);
}
pub open spec fn dep_target(defs: Map<Seq<char>, Seq<DefV>>, provf: spec_fn(Seq<char>) -> spec_fn(PV) -> bool, file: PV, f: DefV, j: int) -> Option<DefV> {
    let dep = f.dependencies[j];
    if dep == f.name { op_resolve(bucket(defs, dep), file, provf(dep), fs_excl(Some(f))) }
    else { op_resolve(bucket(defs, dep), file, provf(dep), fs_true()) }
}
/// what one reported pair is: F = the first definition in `file` of a name listed for the file, D = the
/// definition resolution selects from `file` for one of F's dependencies, and F's scope is broader than D's
#[verifier::opaque]
pub open spec fn is_mismatch(defs: Map<Seq<char>, Seq<DefV>>, fdefs: Map<PV, Set<Seq<char>>>, provf: spec_fn(Seq<char>) -> spec_fn(PV) -> bool, file: PV, f: DefV, d: DefV) -> bool {
    fdefs.contains_key(file) && fdefs[file].contains(f.name) && defs.contains_key(f.name)
    && first_match(defs[f.name], p_same(file, fs_true())) == Some(f)
    && (exists|j: int| 0 <= j < f.dependencies.len() && #[trigger] dep_target(defs, provf, file, f, j) == Some(d))
    && rank(f.scope) > rank(d.scope)
}
#[verifier::opaque]
pub open spec fn reported(rs: Seq<ScopeMismatch>, f: DefV, d: DefV) -> bool {
    exists|k: int| 0 <= k < rs.len() && dv(&(#[trigger] rs[k]).fixture) == f && dv(&rs[k].dependency) == d
}
} // verus!
fn main() {}
