//@include prelude/header.rs
verus! {
global size_of usize == 8;  // A6: 64-bit target
pub mod pre {
use super::*;
//@include prelude/path.rs
//@include prelude/types.rs
//@include prelude/dashmap.rs
//@include prelude/hashset.rs
//@include prelude/atomic.rs
//@include prelude/dbview.rs
//@include prelude/hof.rs
//@include prelude/resolve_spec.rs
//@include prelude/scope_order.rs
} // mod pre
use pre::*;

//@dbstruct definitions file_cache file_definitions

//@include prelude/db_specs.rs

#[verifier::external_type_specification] pub struct ExScopeMismatch(ScopeMismatch);

pub mod resolver { // mirrors crate::fixtures::resolver so that `super::types::…` paths in the source resolve
use super::*;
impl FixtureDatabase {
    pub open spec fn fdefs(&self) -> Map<PV, Set<Seq<char>>> { fdefs_view(self.file_definitions.m()) }

/*@ extract src/fixtures/resolver.rs detect_scope_mismatches_in_file
@tags C16 C08
@ret r
@nocontinue 1
@sig
    ensures
        forall|k: int| 0 <= k < r@.len() ==> #[trigger] is_mismatch(self.defs(), self.fdefs(), pv(file_path), dv(&r@[k].fixture), dv(&r@[k].dependency)),
@*/
}
} // mod resolver
use resolver::*;

/// what one reported pair is: F = the first definition in `file` of a name listed for the file, D = the first
/// registered definition of one of F's dependencies, and F's scope is broader than D's
pub open spec fn is_mismatch(defs: Map<Seq<char>, Seq<DefV>>, fdefs: Map<PV, Set<Seq<char>>>, file: PV, f: DefV, d: DefV) -> bool {
    fdefs.contains_key(file) && fdefs[file].contains(f.name) && defs.contains_key(f.name)
    && first_match(defs[f.name], p_same(file, fs_true())) == Some(f)
    && (exists|j: int| 0 <= j < f.dependencies.len() && defs.contains_key(#[trigger] f.dependencies[j])
            && defs[f.dependencies[j]].len() > 0 && defs[f.dependencies[j]][0] == d)
    && rank(f.scope) > rank(d.scope)
}
} // verus!
fn main() {}
