//@include prelude/header.rs
// Unit undeclared_scan (property C17, scanner part): the REAL undeclared-fixture scanner of src/fixtures/undeclared.rs
// (scan_function_body_for_undeclared_fixtures, collect_local_variables, visit_stmt_for_names, visit_expr_for_names)
// against the operational specification prelude/undecl_spec.rs (scan_expr / scan_stmt / scan_body / locals_body /
// scan_fn: WHICH names of a function body are flagged, in which order, with which fields).
//   L1  every function moves the database by exactly `und_rel(old, new, file, <spec fn>(..))`: the findings are pushed
//       onto undeclared_fixtures[file] in order, every other field and every other file's list untouched;
//       collect_local_variables builds exactly locals_body(..)
//   L2  lemma_C17_a_*: precision (declared / imported / unavailable names are never flagged; a name with ANY recorded
//       binder on an earlier line is never flagged however often it is re-bound: lemma_C17_a_earlier_binding_protects;
//       exactly those: lemma_C17_a_in_scope_iff), lemma_C17_b_*: completeness for the plain uses the scanner visits,
//       lemma_C17_c_*: as statements of fact, what it still does NOT visit / record (incl. known findings F-17d, F-17e)
// Assumptions: callee contracts through //@stub only (get_line_from_offset, get_char_position_from_offset: unit
// line_index; collect_names_from_expr: unit ast_helpers; is_available_fixture: unit undeclared_avail); one T5 wrapper,
// prelude/undecl_shims.rs `vp_flatten` (`dict.keys.iter().flatten()`); one @wrapexpr (`alias.name.split('.').next()
// .unwrap_or("").to_string()` -> uninterpreted dotted_head); the shims of prelude/{dashmap,hashset,hashmap}.rs.
// T9 alpha-renaming of the 14 loop variables `stmt` of visit_stmt_for_names (they shadow the parameter).
use rustpython_parser::ast::{Expr, Stmt, Keyword, Identifier, Constant, ExceptHandler, ExprCall, Alias, Arguments, ArgWithDefault};
use rustpython_parser::text_size::TextRange;
verus! {
global size_of usize == 8;  // A6: 64-bit target
pub mod pre {
use super::*;
//@include prelude/path.rs
//@include prelude/path_ext.rs
//@include prelude/types.rs
//@include prelude/dashmap.rs
//@include prelude/hashset.rs
//@include prelude/hashmap.rs
//@include prelude/atomic.rs
//@include prelude/dbview.rs
//@include prelude/hof.rs
//@include prelude/arc.rs
//@include prelude/strings.rs
//@include prelude/iter_ext.rs
//@include prelude/iter_slice.rs
//@include prelude/bytes.rs
//@include build/astspec.rs
//@include prelude/ast_spec.rs
//@include prelude/line_spec.rs
//@include prelude/visit_spec.rs
//@include prelude/undecl_avail_spec.rs
//@include prelude/undecl_spec.rs
//@include prelude/undecl_shims.rs
} // mod pre
use pre::*;

#[verifier::external_type_specification] pub struct ExUndeclaredFixture(UndeclaredFixture);
#[verifier::external_type_specification] pub struct ExFixtureCycle(FixtureCycle);
//@item src/fixtures/mod.rs struct EditableInstall

// v2: EVERY field of the database except ast_cache, so that the frame of scan_function_body_for_undeclared_fixtures
// (`only undeclared_fixtures changes`, struct-update clause added to its @sig) is PROVED for the memo tables and the
// environment fields too (same_rest: prelude/undecl_dbspecs_v2.rs)
//@dbstruct_arc definitions file_definitions usages usage_by_fixture definitions_version file_cache undeclared_fixtures imports canonical_path_cache line_index_cache cycle_cache available_fixtures_cache imported_fixtures_cache site_packages_paths editable_install_roots workspace_root plugin_fixture_files

//@include prelude/index_dbspecs.rs
//@include prelude/undecl_dbspecs_v2.rs

broadcast use {axiom_string_to_string, axiom_identifier_to_string, axiom_default_vec};

//@item src/fixtures/undeclared.rs struct BodyScanContext

/// what the scanner reads of its context (+ the definitions index, read through is_available_fixture)
pub(crate) closed spec fn ctxv(ctx: &BodyScanContext, defs: Map<Seq<char>, Seq<DefV>>) -> ScanV {
    ScanV { file: pbv(ctx.file_path), li: ctx.line_index@, declared: ctx.declared_params.s(), locals: ctx.local_vars.m(),
            fname: ctx.function_name@, fline: ctx.function_line, defs }
}

// ---- helpers for the L1 proofs --------------------------------------------------------------------------------
/// findings of a sequence of expression REFERENCES (what the flattened dict-key iterator yields)
pub open spec fn scan_refs(s: Seq<&Expr>, n: int, c: ScanV) -> Seq<UndV>
    decreases n
{
    if n <= 0 || n > s.len() { Seq::empty() } else { scan_refs(s, n - 1, c) + scan_expr(*s[n - 1], c) }
}
//@tags C17
pub proof fn lemma_scan_keys_refs(ks: Seq<Option<Expr>>, s: Seq<&Option<Expr>>, n: int, c: ScanV)
    requires s.len() == ks.len(), forall|i: int| 0 <= i < ks.len() ==> *(#[trigger] s[i]) == ks[i], 0 <= n <= ks.len(),
    ensures scan_refs(somes_ref(s, n), somes_ref(s, n).len() as int, c) == scan_keys(ks, n, c),
    decreases n
{
    if n > 0 {
        lemma_scan_keys_refs(ks, s, n - 1, c);
        let p = somes_ref(s, n - 1);
        assert(*s[n - 1] == ks[n - 1]);
        match s[n - 1] {
            Some(x) => {
                let q = somes_ref(s, n);
                assert(q == p.push(x));
                lemma_scan_refs_prefix(q, p, p.len() as int, c);
                assert(scan_keys(ks, n, c) == scan_keys(ks, n - 1, c) + scan_expr(*x, c));
            }
            None => {}
        }
    }
}
//@tags C17
pub proof fn lemma_scan_refs_prefix(q: Seq<&Expr>, p: Seq<&Expr>, n: int, c: ScanV)
    requires 0 <= n <= p.len() <= q.len(), forall|i: int| 0 <= i < p.len() ==> q[i] == p[i],
    ensures scan_refs(q, n, c) == scan_refs(p, n, c),
    decreases n
{
    if n > 0 { lemma_scan_refs_prefix(q, p, n - 1, c); }
}
/// names of the first n strings of an enumeration
pub open spec fn prefix_names(s: Seq<String>, n: int) -> Set<Seq<char>>
    decreases n
{
    if n <= 0 || n > s.len() { Set::empty() } else { prefix_names(s, n - 1).insert(s[n - 1]@) }
}
pub open spec fn prefix_names_r(s: Seq<&String>, n: int) -> Set<Seq<char>>
    decreases n
{
    if n <= 0 || n > s.len() { Set::empty() } else { prefix_names_r(s, n - 1).insert(s[n - 1]@) }
}
/// hash iteration = SOME enumeration of the set: every element is in it, everything in it is enumerated
pub open spec fn is_enum(s: Seq<String>, names: Set<Seq<char>>) -> bool {
    &&& forall|i: int| 0 <= i < s.len() ==> names.contains((#[trigger] s[i])@)
    &&& forall|k: Seq<char>| names.contains(k) ==> exists|i: int| 0 <= i < s.len() && (#[trigger] s[i])@ == k
}
pub open spec fn is_enum_r(s: Seq<&String>, names: Set<Seq<char>>) -> bool {
    &&& forall|i: int| 0 <= i < s.len() ==> names.contains((#[trigger] s[i])@)
    &&& forall|k: Seq<char>| names.contains(k) ==> exists|i: int| 0 <= i < s.len() && (#[trigger] s[i])@ == k
}
//@tags C17
pub proof fn lemma_prefix_names_in(s: Seq<String>, n: int, k: Seq<char>)
    requires 0 <= n <= s.len(),
    ensures prefix_names(s, n).contains(k) <==> exists|i: int| 0 <= i < n && (#[trigger] s[i])@ == k,
    decreases n
{
    if n > 0 {
        lemma_prefix_names_in(s, n - 1, k);
        if prefix_names(s, n - 1).contains(k) { let i = choose|i: int| 0 <= i < n - 1 && (#[trigger] s[i])@ == k; assert(0 <= i < n && s[i]@ == k); }
        if s[n - 1]@ == k { assert(0 <= n - 1 < n && s[n - 1]@ == k); }
    }
}
//@tags C17
pub proof fn lemma_enum_all(s: Seq<String>, names: Set<Seq<char>>)
    requires is_enum(s, names),
    ensures prefix_names(s, s.len() as int) == names,
{
    assert forall|k: Seq<char>| prefix_names(s, s.len() as int).contains(k) <==> names.contains(k) by {
        lemma_prefix_names_in(s, s.len() as int, k);
        if names.contains(k) { let i = choose|i: int| 0 <= i < s.len() && (#[trigger] s[i])@ == k; }
    }
    assert(prefix_names(s, s.len() as int) =~= names);
}
//@tags C17
pub proof fn lemma_prefix_names_r_in(s: Seq<&String>, n: int, k: Seq<char>)
    requires 0 <= n <= s.len(),
    ensures prefix_names_r(s, n).contains(k) <==> exists|i: int| 0 <= i < n && (#[trigger] s[i])@ == k,
    decreases n
{
    if n > 0 {
        lemma_prefix_names_r_in(s, n - 1, k);
        if prefix_names_r(s, n - 1).contains(k) { let i = choose|i: int| 0 <= i < n - 1 && (#[trigger] s[i])@ == k; assert(0 <= i < n && s[i]@ == k); }
        if s[n - 1]@ == k { assert(0 <= n - 1 < n && s[n - 1]@ == k); }
    }
}
//@tags C17
pub proof fn lemma_enum_r_all(s: Seq<&String>, names: Set<Seq<char>>)
    requires is_enum_r(s, names),
    ensures prefix_names_r(s, s.len() as int) == names,
{
    assert forall|k: Seq<char>| prefix_names_r(s, s.len() as int).contains(k) <==> names.contains(k) by {
        lemma_prefix_names_r_in(s, s.len() as int, k);
        if names.contains(k) { let i = choose|i: int| 0 <= i < s.len() && (#[trigger] s[i])@ == k; }
    }
    assert(prefix_names_r(s, s.len() as int) =~= names);
}


/// the loop `for name in temp_names { Self::bind_local(local_vars, name, line); }` after n rounds over the enumeration s of nm
pub open spec fn bind_inv(s: Seq<String>, n: int, nm: Set<Seq<char>>, m1: Map<Seq<char>, usize>, m: Map<Seq<char>, usize>, line: usize) -> bool {
    &&& is_enum(s, nm)
    &&& 0 <= n <= s.len()
    &&& m == bind_min(m1, prefix_names(s, n), line)
    &&& (n == s.len() ==> m == bind_min(m1, nm, line))
}
//@tags C17
pub proof fn lemma_bind_start(nm: Set<Seq<char>>, m1: Map<Seq<char>, usize>, line: usize)
    ensures forall|s: Seq<String>| is_enum(s, nm) ==> #[trigger] bind_inv(s, 0, nm, m1, m1, line),
{
    assert forall|s: Seq<String>| is_enum(s, nm) implies #[trigger] bind_inv(s, 0, nm, m1, m1, line) by {
        lemma_bind_min_empty(m1, line);
        if s.len() == 0 { lemma_enum_all(s, nm); }
    }
}
//@tags C17
pub proof fn lemma_bind_step(s: Seq<String>, n: int, nm: Set<Seq<char>>, m1: Map<Seq<char>, usize>, m: Map<Seq<char>, usize>, line: usize)
    requires bind_inv(s, n, nm, m1, m, line), n < s.len(),
    ensures bind_inv(s, n + 1, nm, m1, min_bind(m, s[n]@, line), line),
{
    lemma_bind_min_step(m1, prefix_names(s, n), s[n]@, line);
    if n + 1 == s.len() { lemma_enum_all(s, nm); }
}

/// the loop `for import in imports.iter() { local_vars.insert(import.clone(), 0); }` after n rounds
pub open spec fn bind_inv_r(s: Seq<&String>, n: int, nm: Set<Seq<char>>, m1: Map<Seq<char>, usize>, m: Map<Seq<char>, usize>, line: usize) -> bool {
    &&& is_enum_r(s, nm)
    &&& 0 <= n <= s.len()
    &&& m == bind_all(m1, prefix_names_r(s, n), line)
    &&& (n == s.len() ==> m == bind_all(m1, nm, line))
}
//@tags C17
pub proof fn lemma_bind_start_r(nm: Set<Seq<char>>, m1: Map<Seq<char>, usize>, line: usize)
    ensures forall|s: Seq<&String>| is_enum_r(s, nm) ==> #[trigger] bind_inv_r(s, 0, nm, m1, m1, line),
{
    assert forall|s: Seq<&String>| is_enum_r(s, nm) implies #[trigger] bind_inv_r(s, 0, nm, m1, m1, line) by {
        lemma_bind_all_empty(m1, line);
        if s.len() == 0 { lemma_enum_r_all(s, nm); }
    }
}
//@tags C17
pub proof fn lemma_bind_step_r(s: Seq<&String>, n: int, nm: Set<Seq<char>>, m1: Map<Seq<char>, usize>, m: Map<Seq<char>, usize>, line: usize)
    requires bind_inv_r(s, n, nm, m1, m, line), n < s.len(),
    ensures bind_inv_r(s, n + 1, nm, m1, m.insert(s[n]@, line), line),
{
    lemma_bind_all_insert(m1, prefix_names_r(s, n), s[n]@, line);
    if n + 1 == s.len() { lemma_enum_r_all(s, nm); }
}

impl FixtureDatabase {
//@stub line_index get_line_from_offset
//@stub line_index get_char_position_from_offset
//@stub ast_helpers collect_names_from_expr
//@stub undeclared_avail is_available_fixture

/*@ extract src/fixtures/undeclared.rs visit_expr_for_names
@tags C17
@recv mut
@rename flatten vp_flatten
@closure map:1 |def_line: &usize| -> (b: bool) ensures b == (*def_line < line)
@sig
    requires is_line_index(ints(ctx.line_index@)),
    ensures same_rest(*old(self), *final(self)),
        und_rel(*old(self), *final(self), pbv(ctx.file_path), scan_expr(*expr, ctxv(ctx, old(self).defs()))),
    decreases expr,
@start
    let ghost f = pbv(ctx.file_path);
    let ghost c = ctxv(ctx, old(self).defs());
    let ghost mut acc: Seq<UndV> = Seq::empty();
    proof { lemma_und_refl(*old(self), f); }
@before entry 1
    let ghost x = undv(&undeclared);
    let ghost s0 = *self;
@after entry 1
    proof {
        assert(x == name_entry(*name, c));
        assert(undecl_view(self.undeclared_fixtures.m()) =~~= undecl_view(s0.undeclared_fixtures.m()).insert(f, bucket(undecl_view(s0.undeclared_fixtures.m()), f).push(x)));
        assert(self.undeclared_fixtures.m().remove(f) =~= s0.undeclared_fixtures.m().remove(f));
        lemma_und_push(s0, *self, f, x);
        assert(und_rel(*old(self), *self, f, scan_expr(*expr, c)));
    }
@before visit_expr_for_names 1
    let ghost s0 = *self;
@after visit_expr_for_names 1
    proof { lemma_und_trans(*old(self), s0, *self, f, acc, scan_expr(*call.func, c)); acc = acc + scan_expr(*call.func, c); }
@before for 1
    let ghost b1 = acc;
    proof { assert(b1 + scan_exprs(call.args@, 0, c) =~= b1); }
@loopvar 1 it1
@loop 1
    invariant is_line_index(ints(ctx.line_index@)), f == pbv(ctx.file_path), c == ctxv(ctx, old(self).defs()),
        it1.seq() == call.args@.as_ref(), *expr == Expr::Call(*call),
        acc == b1 + scan_exprs(call.args@, it1.index@ as int, c),
        same_rest(*old(self), *self), und_rel(*old(self), *self, f, acc),
@loopstart 1
    let ghost i = it1.index@ as int;
    let ghost s0 = *self;
    proof { assert(*arg == call.args@[i]); assert(decreases_to!(call.args => call.args@[i])); assert(match *expr { Expr::Call(y) => y == *call, _ => false }); }
@loopend 1
    proof {
        lemma_und_trans(*old(self), s0, *self, f, acc, scan_expr(*arg, c));
        assert((b1 + scan_exprs(call.args@, i, c)) + scan_expr(*arg, c) =~= b1 + scan_exprs(call.args@, i + 1, c));
        acc = acc + scan_expr(*arg, c);
    }
@before for 2
    let ghost b2 = acc;
    proof { assert(b2 + scan_kws(call.keywords@, 0, c) =~= b2); }
@loopvar 2 it2
@loop 2
    invariant is_line_index(ints(ctx.line_index@)), f == pbv(ctx.file_path), c == ctxv(ctx, old(self).defs()),
        it2.seq() == call.keywords@.as_ref(), *expr == Expr::Call(*call),
        acc == b2 + scan_kws(call.keywords@, it2.index@ as int, c),
        same_rest(*old(self), *self), und_rel(*old(self), *self, f, acc),
@loopstart 2
    let ghost i = it2.index@ as int;
    let ghost s0 = *self;
    proof { assert(*keyword == call.keywords@[i]); assert(decreases_to!(call.keywords => call.keywords@[i])); assert(match *expr { Expr::Call(y) => y == *call, _ => false }); }
@loopend 2
    proof {
        lemma_und_trans(*old(self), s0, *self, f, acc, scan_expr(keyword.value, c));
        assert((b2 + scan_kws(call.keywords@, i, c)) + scan_expr(keyword.value, c) =~= b2 + scan_kws(call.keywords@, i + 1, c));
        acc = acc + scan_expr(keyword.value, c);
    }
@after for 2
    proof { assert(acc =~= scan_expr(*expr, c)); }
@before for 3
    let ghost b3 = acc;
    proof { assert(b3 + scan_exprs(boolop.values@, 0, c) =~= b3); }
@loopvar 3 it3
@loop 3
    invariant is_line_index(ints(ctx.line_index@)), f == pbv(ctx.file_path), c == ctxv(ctx, old(self).defs()),
        it3.seq() == boolop.values@.as_ref(), *expr == Expr::BoolOp(*boolop),
        acc == b3 + scan_exprs(boolop.values@, it3.index@ as int, c),
        same_rest(*old(self), *self), und_rel(*old(self), *self, f, acc),
@loopstart 3
    let ghost i = it3.index@ as int;
    let ghost s0 = *self;
    proof { assert(*value == boolop.values@[i]); assert(decreases_to!(boolop.values => boolop.values@[i])); assert(match *expr { Expr::BoolOp(y) => y == *boolop, _ => false }); }
@loopend 3
    proof {
        lemma_und_trans(*old(self), s0, *self, f, acc, scan_expr(*value, c));
        assert((b3 + scan_exprs(boolop.values@, i, c)) + scan_expr(*value, c) =~= b3 + scan_exprs(boolop.values@, i + 1, c));
        acc = acc + scan_expr(*value, c);
    }
@after for 3
    proof { assert(acc =~= scan_expr(*expr, c)); }
@before visit_expr_for_names 6
    let ghost s0 = *self;
@after visit_expr_for_names 6
    proof { lemma_und_trans(*old(self), s0, *self, f, acc, scan_expr(*ifexp.test, c)); acc = acc + scan_expr(*ifexp.test, c); }
@before visit_expr_for_names 7
    let ghost s0 = *self;
@after visit_expr_for_names 7
    proof { lemma_und_trans(*old(self), s0, *self, f, acc, scan_expr(*ifexp.body, c)); acc = acc + scan_expr(*ifexp.body, c); }
@before visit_expr_for_names 8
    let ghost s0 = *self;
@after visit_expr_for_names 8
    proof { lemma_und_trans(*old(self), s0, *self, f, acc, scan_expr(*ifexp.orelse, c)); acc = acc + scan_expr(*ifexp.orelse, c);
        assert(acc =~= scan_expr(*expr, c)); }
@before for 4
    let ghost b4 = acc;
    proof { assert(b4 + scan_exprs(set.elts@, 0, c) =~= b4); }
@loopvar 4 it4
@loop 4
    invariant is_line_index(ints(ctx.line_index@)), f == pbv(ctx.file_path), c == ctxv(ctx, old(self).defs()),
        it4.seq() == set.elts@.as_ref(), *expr == Expr::Set(*set),
        acc == b4 + scan_exprs(set.elts@, it4.index@ as int, c),
        same_rest(*old(self), *self), und_rel(*old(self), *self, f, acc),
@loopstart 4
    let ghost i = it4.index@ as int;
    let ghost s0 = *self;
    proof { assert(*elt == set.elts@[i]); assert(decreases_to!(set.elts => set.elts@[i])); assert(match *expr { Expr::Set(y) => y == *set, _ => false }); }
@loopend 4
    proof {
        lemma_und_trans(*old(self), s0, *self, f, acc, scan_expr(*elt, c));
        assert((b4 + scan_exprs(set.elts@, i, c)) + scan_expr(*elt, c) =~= b4 + scan_exprs(set.elts@, i + 1, c));
        acc = acc + scan_expr(*elt, c);
    }
@after for 4
    proof { assert(acc =~= scan_expr(*expr, c)); }
@before lower 1
    let ghost s0 = *self;
@after lower 1
    proof {
        if slice.lower is None { lemma_und_refl(s0, f); }
        lemma_und_trans(*old(self), s0, *self, f, acc, scan_opt(slice.lower, c)); acc = acc + scan_opt(slice.lower, c);
    }
@before upper 1
    let ghost s0 = *self;
@after upper 1
    proof {
        if slice.upper is None { lemma_und_refl(s0, f); }
        lemma_und_trans(*old(self), s0, *self, f, acc, scan_opt(slice.upper, c)); acc = acc + scan_opt(slice.upper, c);
    }
@before step 1
    let ghost s0 = *self;
@after step 1
    proof {
        if slice.step is None { lemma_und_refl(s0, f); }
        lemma_und_trans(*old(self), s0, *self, f, acc, scan_opt(slice.step, c)); acc = acc + scan_opt(slice.step, c);
        assert(acc =~= scan_expr(*expr, c));
    }
@before visit_expr_for_names 14
    let ghost s0 = *self;
@after visit_expr_for_names 14
    proof { lemma_und_trans(*old(self), s0, *self, f, acc, scan_expr(*binop.left, c)); acc = acc + scan_expr(*binop.left, c); }
@before visit_expr_for_names 15
    let ghost s0 = *self;
@after visit_expr_for_names 15
    proof { lemma_und_trans(*old(self), s0, *self, f, acc, scan_expr(*binop.right, c)); acc = acc + scan_expr(*binop.right, c);
        assert(acc =~= scan_expr(*expr, c)); }
@before visit_expr_for_names 17
    let ghost s0 = *self;
@after visit_expr_for_names 17
    proof { lemma_und_trans(*old(self), s0, *self, f, acc, scan_expr(*compare.left, c)); acc = acc + scan_expr(*compare.left, c); }
@before for 5
    let ghost b5 = acc;
    proof { assert(b5 + scan_exprs(compare.comparators@, 0, c) =~= b5); }
@loopvar 5 it5
@loop 5
    invariant is_line_index(ints(ctx.line_index@)), f == pbv(ctx.file_path), c == ctxv(ctx, old(self).defs()),
        it5.seq() == compare.comparators@.as_ref(), *expr == Expr::Compare(*compare),
        acc == b5 + scan_exprs(compare.comparators@, it5.index@ as int, c),
        same_rest(*old(self), *self), und_rel(*old(self), *self, f, acc),
@loopstart 5
    let ghost i = it5.index@ as int;
    let ghost s0 = *self;
    proof { assert(*comparator == compare.comparators@[i]); assert(decreases_to!(compare.comparators => compare.comparators@[i])); assert(match *expr { Expr::Compare(y) => y == *compare, _ => false }); }
@loopend 5
    proof {
        lemma_und_trans(*old(self), s0, *self, f, acc, scan_expr(*comparator, c));
        assert((b5 + scan_exprs(compare.comparators@, i, c)) + scan_expr(*comparator, c) =~= b5 + scan_exprs(compare.comparators@, i + 1, c));
        acc = acc + scan_expr(*comparator, c);
    }
@after for 5
    proof { assert(acc =~= scan_expr(*expr, c)); }
@before visit_expr_for_names 19
    let ghost s0 = *self;
@after visit_expr_for_names 19
    proof { lemma_und_trans(*old(self), s0, *self, f, acc, scan_expr(*subscript.value, c)); acc = acc + scan_expr(*subscript.value, c); }
@before visit_expr_for_names 20
    let ghost s0 = *self;
@after visit_expr_for_names 20
    proof { lemma_und_trans(*old(self), s0, *self, f, acc, scan_expr(*subscript.slice, c)); acc = acc + scan_expr(*subscript.slice, c);
        assert(acc =~= scan_expr(*expr, c)); }
@before for 6
    let ghost b6 = acc;
    proof { assert(b6 + scan_exprs(list.elts@, 0, c) =~= b6); }
@loopvar 6 it6
@loop 6
    invariant is_line_index(ints(ctx.line_index@)), f == pbv(ctx.file_path), c == ctxv(ctx, old(self).defs()),
        it6.seq() == list.elts@.as_ref(), *expr == Expr::List(*list),
        acc == b6 + scan_exprs(list.elts@, it6.index@ as int, c),
        same_rest(*old(self), *self), und_rel(*old(self), *self, f, acc),
@loopstart 6
    let ghost i = it6.index@ as int;
    let ghost s0 = *self;
    proof { assert(*elt == list.elts@[i]); assert(decreases_to!(list.elts => list.elts@[i])); assert(match *expr { Expr::List(y) => y == *list, _ => false }); }
@loopend 6
    proof {
        lemma_und_trans(*old(self), s0, *self, f, acc, scan_expr(*elt, c));
        assert((b6 + scan_exprs(list.elts@, i, c)) + scan_expr(*elt, c) =~= b6 + scan_exprs(list.elts@, i + 1, c));
        acc = acc + scan_expr(*elt, c);
    }
@after for 6
    proof { assert(acc =~= scan_expr(*expr, c)); }
@before for 7
    let ghost b7 = acc;
    proof { assert(b7 + scan_exprs(tuple.elts@, 0, c) =~= b7); }
@loopvar 7 it7
@loop 7
    invariant is_line_index(ints(ctx.line_index@)), f == pbv(ctx.file_path), c == ctxv(ctx, old(self).defs()),
        it7.seq() == tuple.elts@.as_ref(), *expr == Expr::Tuple(*tuple),
        acc == b7 + scan_exprs(tuple.elts@, it7.index@ as int, c),
        same_rest(*old(self), *self), und_rel(*old(self), *self, f, acc),
@loopstart 7
    let ghost i = it7.index@ as int;
    let ghost s0 = *self;
    proof { assert(*elt == tuple.elts@[i]); assert(decreases_to!(tuple.elts => tuple.elts@[i])); assert(match *expr { Expr::Tuple(y) => y == *tuple, _ => false }); }
@loopend 7
    proof {
        lemma_und_trans(*old(self), s0, *self, f, acc, scan_expr(*elt, c));
        assert((b7 + scan_exprs(tuple.elts@, i, c)) + scan_expr(*elt, c) =~= b7 + scan_exprs(tuple.elts@, i + 1, c));
        acc = acc + scan_expr(*elt, c);
    }
@after for 7
    proof { assert(acc =~= scan_expr(*expr, c)); }
@before for 8
    let ghost ks = dict.keys@;
    let ghost kr = somes_ref(ks.as_ref(), ks.len() as int);
    proof { assert(acc =~= scan_refs(kr, 0, c)); }
@loopvar 8 it8
@loop 8
    invariant is_line_index(ints(ctx.line_index@)), f == pbv(ctx.file_path), c == ctxv(ctx, old(self).defs()),
        ks == dict.keys@, kr == somes_ref(ks.as_ref(), ks.len() as int), it8.seq() == kr, *expr == Expr::Dict(*dict),
        acc == scan_refs(kr, it8.index@ as int, c),
        same_rest(*old(self), *self), und_rel(*old(self), *self, f, acc),
@loopstart 8
    let ghost i = it8.index@ as int;
    let ghost s0 = *self;
    proof {
        assert(k == kr[i]);
        lemma_somes_ref_src(ks.as_ref(), ks.len() as int, i);
        let j = choose|j: int| 0 <= j < ks.len() && #[trigger] ks.as_ref()[j] == &Some(*kr[i]);
        assert(ks[j] == Some(*k));
        assert(decreases_to!(dict.keys => dict.keys@[j]));
        assert(decreases_to!(ks[j] => ks[j]->0));
        assert(match *expr { Expr::Dict(y) => y == *dict, _ => false });
    }
@loopend 8
    proof {
        lemma_und_trans(*old(self), s0, *self, f, acc, scan_expr(*k, c));
        acc = acc + scan_expr(*k, c);
    }
@before for 9
    let ghost b9 = acc;
    proof {
        lemma_scan_keys_refs(ks, ks.as_ref(), ks.len() as int, c);
        assert(b9 == scan_keys(ks, ks.len() as int, c));
        assert(b9 + scan_exprs(dict.values@, 0, c) =~= b9);
    }
@loopvar 9 it9
@loop 9
    invariant is_line_index(ints(ctx.line_index@)), f == pbv(ctx.file_path), c == ctxv(ctx, old(self).defs()),
        it9.seq() == dict.values@.as_ref(), *expr == Expr::Dict(*dict),
        acc == b9 + scan_exprs(dict.values@, it9.index@ as int, c),
        same_rest(*old(self), *self), und_rel(*old(self), *self, f, acc),
@loopstart 9
    let ghost i = it9.index@ as int;
    let ghost s0 = *self;
    proof { assert(*value == dict.values@[i]); assert(decreases_to!(dict.values => dict.values@[i])); assert(match *expr { Expr::Dict(y) => y == *dict, _ => false }); }
@loopend 9
    proof {
        lemma_und_trans(*old(self), s0, *self, f, acc, scan_expr(*value, c));
        assert((b9 + scan_exprs(dict.values@, i, c)) + scan_expr(*value, c) =~= b9 + scan_exprs(dict.values@, i + 1, c));
        acc = acc + scan_expr(*value, c);
    }
@after for 9
    proof { assert(acc =~= scan_expr(*expr, c)); }
@*/

// T9 (alpha-renaming): the loop variables of this function are all called `stmt` and shadow the parameter the termination
// measure refers to, so no loop invariant could name that parameter; the k-th `for stmt in` and the k-th `(stmt, ctx)`
// (= the one recursive call inside that loop) are renamed to `stmt_<loop number>` -- nothing else is touched
/*@ extract src/fixtures/undeclared.rs visit_stmt_for_names
@replace 1 `for stmt in` => `for stmt_1 in`
@replace 1 `(stmt, ctx)` => `(stmt_1, ctx)`
@replace 2 `for stmt in` => `for stmt_3 in`
@replace 2 `(stmt, ctx)` => `(stmt_3, ctx)`
@replace 3 `for stmt in` => `for stmt_4 in`
@replace 3 `(stmt, ctx)` => `(stmt_4, ctx)`
@replace 4 `for stmt in` => `for stmt_5 in`
@replace 4 `(stmt, ctx)` => `(stmt_5, ctx)`
@replace 5 `for stmt in` => `for stmt_6 in`
@replace 5 `(stmt, ctx)` => `(stmt_6, ctx)`
@replace 6 `for stmt in` => `for stmt_7 in`
@replace 6 `(stmt, ctx)` => `(stmt_7, ctx)`
@replace 7 `for stmt in` => `for stmt_8 in`
@replace 7 `(stmt, ctx)` => `(stmt_8, ctx)`
@replace 8 `for stmt in` => `for stmt_9 in`
@replace 8 `(stmt, ctx)` => `(stmt_9, ctx)`
@replace 9 `for stmt in` => `for stmt_10 in`
@replace 9 `(stmt, ctx)` => `(stmt_10, ctx)`
@replace 10 `for stmt in` => `for stmt_11 in`
@replace 10 `(stmt, ctx)` => `(stmt_11, ctx)`
@replace 11 `for stmt in` => `for stmt_13 in`
@replace 11 `(stmt, ctx)` => `(stmt_13, ctx)`
@replace 12 `for stmt in` => `for stmt_14 in`
@replace 12 `(stmt, ctx)` => `(stmt_14, ctx)`
@replace 13 `for stmt in` => `for stmt_15 in`
@replace 13 `(stmt, ctx)` => `(stmt_15, ctx)`
@replace 14 `for stmt in` => `for stmt_17 in`
@replace 14 `(stmt, ctx)` => `(stmt_17, ctx)`
@tags C17
@recv mut
@sig
    requires is_line_index(ints(ctx.line_index@)),
    ensures same_rest(*old(self), *final(self)),
        und_rel(*old(self), *final(self), pbv(ctx.file_path), scan_stmt(*stmt, ctxv(ctx, old(self).defs()))),
    decreases stmt,
@start
    let ghost f = pbv(ctx.file_path);
    let ghost c = ctxv(ctx, old(self).defs());
    let ghost st0 = *stmt;
    let ghost mut acc: Seq<UndV> = Seq::empty();
    proof { lemma_und_refl(*old(self), f); }
@before value 4
    let ghost s0 = *self;
@after value 4
    proof {
        if ann_assign.value is None { lemma_und_refl(s0, f); }
        lemma_und_trans(*old(self), s0, *self, f, acc, scan_opt(ann_assign.value, c)); acc = acc + scan_opt(ann_assign.value, c);
        assert(acc =~= scan_stmt(st0, c));
    }
@before exc 1
    let ghost s0 = *self;
@after exc 1
    proof {
        if raise_stmt.exc is None { lemma_und_refl(s0, f); }
        lemma_und_trans(*old(self), s0, *self, f, acc, scan_opt(raise_stmt.exc, c)); acc = acc + scan_opt(raise_stmt.exc, c);
    }
@before cause 1
    let ghost s0 = *self;
@after cause 1
    proof {
        if raise_stmt.cause is None { lemma_und_refl(s0, f); }
        lemma_und_trans(*old(self), s0, *self, f, acc, scan_opt(raise_stmt.cause, c)); acc = acc + scan_opt(raise_stmt.cause, c);
        assert(acc =~= scan_stmt(st0, c));
    }
@before for 1
    let ghost b1 = acc;
    proof { assert(b1 + scan_body(try_stmt.body@, 0, c) =~= b1); }
@loopvar 1 it1
@loop 1
    invariant is_line_index(ints(ctx.line_index@)), f == pbv(ctx.file_path), c == ctxv(ctx, old(self).defs()),
        it1.seq() == try_stmt.body@.as_ref(), st0 == *stmt, *stmt == Stmt::Try(*try_stmt),
        acc == b1 + scan_body(try_stmt.body@, it1.index@ as int, c),
        same_rest(*old(self), *self), und_rel(*old(self), *self, f, acc),
@loopstart 1
    let ghost i1 = it1.index@ as int;
    let ghost s0 = *self;
    proof { assert(*stmt_1 == try_stmt.body@[i1]); assert(decreases_to!(try_stmt.body => try_stmt.body@[i1])); assert(match *stmt { Stmt::Try(y) => y == *try_stmt, _ => false }); }
@loopend 1
    proof {
        lemma_und_trans(*old(self), s0, *self, f, acc, scan_stmt(*stmt_1, c));
        assert((b1 + scan_body(try_stmt.body@, i1, c)) + scan_stmt(*stmt_1, c) =~= b1 + scan_body(try_stmt.body@, i1 + 1, c));
        acc = acc + scan_stmt(*stmt_1, c);
    }
@before for 2
    let ghost b2 = acc;
    let ghost hs = try_stmt.handlers@;
    proof { assert(b2 + scan_handlers(hs, 0, c) =~= b2); }
@loopvar 2 it2
@loop 2
    invariant is_line_index(ints(ctx.line_index@)), f == pbv(ctx.file_path), c == ctxv(ctx, old(self).defs()),
        it2.seq() == hs.as_ref(), hs == try_stmt.handlers@, st0 == *stmt, *stmt == Stmt::Try(*try_stmt),
        acc == b2 + scan_handlers(hs, it2.index@ as int, c),
        same_rest(*old(self), *self), und_rel(*old(self), *self, f, acc),
@loopstart 2
    let ghost hi = it2.index@ as int;
    proof { assert(*handler == hs[hi]); assert(decreases_to!(try_stmt.handlers => try_stmt.handlers@[hi])); }
@after h 1
    proof { assert(hs[hi] == rustpython_parser::ast::ExceptHandler::ExceptHandler(*h)); }
@loopend 2
    proof { assert((b2 + scan_handlers(hs, hi, c)) + scan_body(h.body@, h.body@.len() as int, c) =~= b2 + scan_handlers(hs, hi + 1, c)); }
@before for 3
    let ghost b3 = acc;
    proof { assert(b3 + scan_body(h.body@, 0, c) =~= b3); }
@loopvar 3 it3
@loop 3
    invariant is_line_index(ints(ctx.line_index@)), f == pbv(ctx.file_path), c == ctxv(ctx, old(self).defs()),
        it3.seq() == h.body@.as_ref(), st0 == *stmt, *stmt == Stmt::Try(*try_stmt), hs == try_stmt.handlers@, 0 <= hi < hs.len(), hs[hi] == rustpython_parser::ast::ExceptHandler::ExceptHandler(*h),
        acc == b3 + scan_body(h.body@, it3.index@ as int, c),
        same_rest(*old(self), *self), und_rel(*old(self), *self, f, acc),
@loopstart 3
    let ghost i3 = it3.index@ as int;
    let ghost s0 = *self;
    proof { assert(*stmt_3 == h.body@[i3]); assert(decreases_to!(h.body => h.body@[i3])); assert(match *stmt { Stmt::Try(y) => y == *try_stmt, _ => false }); assert(decreases_to!(try_stmt.handlers => try_stmt.handlers@[hi])); assert(match hs[hi] { rustpython_parser::ast::ExceptHandler::ExceptHandler(y) => y == *h }); }
@loopend 3
    proof {
        lemma_und_trans(*old(self), s0, *self, f, acc, scan_stmt(*stmt_3, c));
        assert((b3 + scan_body(h.body@, i3, c)) + scan_stmt(*stmt_3, c) =~= b3 + scan_body(h.body@, i3 + 1, c));
        acc = acc + scan_stmt(*stmt_3, c);
    }
@before for 4
    let ghost b4 = acc;
    proof { assert(b4 + scan_body(try_stmt.orelse@, 0, c) =~= b4); }
@loopvar 4 it4
@loop 4
    invariant is_line_index(ints(ctx.line_index@)), f == pbv(ctx.file_path), c == ctxv(ctx, old(self).defs()),
        it4.seq() == try_stmt.orelse@.as_ref(), st0 == *stmt, *stmt == Stmt::Try(*try_stmt),
        acc == b4 + scan_body(try_stmt.orelse@, it4.index@ as int, c),
        same_rest(*old(self), *self), und_rel(*old(self), *self, f, acc),
@loopstart 4
    let ghost i4 = it4.index@ as int;
    let ghost s0 = *self;
    proof { assert(*stmt_4 == try_stmt.orelse@[i4]); assert(decreases_to!(try_stmt.orelse => try_stmt.orelse@[i4])); assert(match *stmt { Stmt::Try(y) => y == *try_stmt, _ => false }); }
@loopend 4
    proof {
        lemma_und_trans(*old(self), s0, *self, f, acc, scan_stmt(*stmt_4, c));
        assert((b4 + scan_body(try_stmt.orelse@, i4, c)) + scan_stmt(*stmt_4, c) =~= b4 + scan_body(try_stmt.orelse@, i4 + 1, c));
        acc = acc + scan_stmt(*stmt_4, c);
    }
@before for 5
    let ghost b5 = acc;
    proof { assert(b5 + scan_body(try_stmt.finalbody@, 0, c) =~= b5); }
@loopvar 5 it5
@loop 5
    invariant is_line_index(ints(ctx.line_index@)), f == pbv(ctx.file_path), c == ctxv(ctx, old(self).defs()),
        it5.seq() == try_stmt.finalbody@.as_ref(), st0 == *stmt, *stmt == Stmt::Try(*try_stmt),
        acc == b5 + scan_body(try_stmt.finalbody@, it5.index@ as int, c),
        same_rest(*old(self), *self), und_rel(*old(self), *self, f, acc),
@loopstart 5
    let ghost i5 = it5.index@ as int;
    let ghost s0 = *self;
    proof { assert(*stmt_5 == try_stmt.finalbody@[i5]); assert(decreases_to!(try_stmt.finalbody => try_stmt.finalbody@[i5])); assert(match *stmt { Stmt::Try(y) => y == *try_stmt, _ => false }); }
@loopend 5
    proof {
        lemma_und_trans(*old(self), s0, *self, f, acc, scan_stmt(*stmt_5, c));
        assert((b5 + scan_body(try_stmt.finalbody@, i5, c)) + scan_stmt(*stmt_5, c) =~= b5 + scan_body(try_stmt.finalbody@, i5 + 1, c));
        acc = acc + scan_stmt(*stmt_5, c);
    }
@after for 5
    proof { assert(acc =~= scan_stmt(st0, c)); }
@before visit_expr_for_names 8
    let ghost s0 = *self;
@after visit_expr_for_names 8
    proof { lemma_und_trans(*old(self), s0, *self, f, acc, scan_expr(*if_stmt.test, c)); acc = acc + scan_expr(*if_stmt.test, c); }
@before for 6
    let ghost b6 = acc;
    proof { assert(b6 + scan_body(if_stmt.body@, 0, c) =~= b6); }
@loopvar 6 it6
@loop 6
    invariant is_line_index(ints(ctx.line_index@)), f == pbv(ctx.file_path), c == ctxv(ctx, old(self).defs()),
        it6.seq() == if_stmt.body@.as_ref(), st0 == *stmt, *stmt == Stmt::If(*if_stmt),
        acc == b6 + scan_body(if_stmt.body@, it6.index@ as int, c),
        same_rest(*old(self), *self), und_rel(*old(self), *self, f, acc),
@loopstart 6
    let ghost i6 = it6.index@ as int;
    let ghost s0 = *self;
    proof { assert(*stmt_6 == if_stmt.body@[i6]); assert(decreases_to!(if_stmt.body => if_stmt.body@[i6])); assert(match *stmt { Stmt::If(y) => y == *if_stmt, _ => false }); }
@loopend 6
    proof {
        lemma_und_trans(*old(self), s0, *self, f, acc, scan_stmt(*stmt_6, c));
        assert((b6 + scan_body(if_stmt.body@, i6, c)) + scan_stmt(*stmt_6, c) =~= b6 + scan_body(if_stmt.body@, i6 + 1, c));
        acc = acc + scan_stmt(*stmt_6, c);
    }
@before for 7
    let ghost b7 = acc;
    proof { assert(b7 + scan_body(if_stmt.orelse@, 0, c) =~= b7); }
@loopvar 7 it7
@loop 7
    invariant is_line_index(ints(ctx.line_index@)), f == pbv(ctx.file_path), c == ctxv(ctx, old(self).defs()),
        it7.seq() == if_stmt.orelse@.as_ref(), st0 == *stmt, *stmt == Stmt::If(*if_stmt),
        acc == b7 + scan_body(if_stmt.orelse@, it7.index@ as int, c),
        same_rest(*old(self), *self), und_rel(*old(self), *self, f, acc),
@loopstart 7
    let ghost i7 = it7.index@ as int;
    let ghost s0 = *self;
    proof { assert(*stmt_7 == if_stmt.orelse@[i7]); assert(decreases_to!(if_stmt.orelse => if_stmt.orelse@[i7])); assert(match *stmt { Stmt::If(y) => y == *if_stmt, _ => false }); }
@loopend 7
    proof {
        lemma_und_trans(*old(self), s0, *self, f, acc, scan_stmt(*stmt_7, c));
        assert((b7 + scan_body(if_stmt.orelse@, i7, c)) + scan_stmt(*stmt_7, c) =~= b7 + scan_body(if_stmt.orelse@, i7 + 1, c));
        acc = acc + scan_stmt(*stmt_7, c);
    }
@after for 7
    proof { assert(acc =~= scan_stmt(st0, c)); }
@before visit_expr_for_names 9
    let ghost s0 = *self;
@after visit_expr_for_names 9
    proof { lemma_und_trans(*old(self), s0, *self, f, acc, scan_expr(*while_stmt.test, c)); acc = acc + scan_expr(*while_stmt.test, c); }
@before for 8
    let ghost b8 = acc;
    proof { assert(b8 + scan_body(while_stmt.body@, 0, c) =~= b8); }
@loopvar 8 it8
@loop 8
    invariant is_line_index(ints(ctx.line_index@)), f == pbv(ctx.file_path), c == ctxv(ctx, old(self).defs()),
        it8.seq() == while_stmt.body@.as_ref(), st0 == *stmt, *stmt == Stmt::While(*while_stmt),
        acc == b8 + scan_body(while_stmt.body@, it8.index@ as int, c),
        same_rest(*old(self), *self), und_rel(*old(self), *self, f, acc),
@loopstart 8
    let ghost i8 = it8.index@ as int;
    let ghost s0 = *self;
    proof { assert(*stmt_8 == while_stmt.body@[i8]); assert(decreases_to!(while_stmt.body => while_stmt.body@[i8])); assert(match *stmt { Stmt::While(y) => y == *while_stmt, _ => false }); }
@loopend 8
    proof {
        lemma_und_trans(*old(self), s0, *self, f, acc, scan_stmt(*stmt_8, c));
        assert((b8 + scan_body(while_stmt.body@, i8, c)) + scan_stmt(*stmt_8, c) =~= b8 + scan_body(while_stmt.body@, i8 + 1, c));
        acc = acc + scan_stmt(*stmt_8, c);
    }
@before for 9
    let ghost b9 = acc;
    proof { assert(b9 + scan_body(while_stmt.orelse@, 0, c) =~= b9); }
@loopvar 9 it9
@loop 9
    invariant is_line_index(ints(ctx.line_index@)), f == pbv(ctx.file_path), c == ctxv(ctx, old(self).defs()),
        it9.seq() == while_stmt.orelse@.as_ref(), st0 == *stmt, *stmt == Stmt::While(*while_stmt),
        acc == b9 + scan_body(while_stmt.orelse@, it9.index@ as int, c),
        same_rest(*old(self), *self), und_rel(*old(self), *self, f, acc),
@loopstart 9
    let ghost i9 = it9.index@ as int;
    let ghost s0 = *self;
    proof { assert(*stmt_9 == while_stmt.orelse@[i9]); assert(decreases_to!(while_stmt.orelse => while_stmt.orelse@[i9])); assert(match *stmt { Stmt::While(y) => y == *while_stmt, _ => false }); }
@loopend 9
    proof {
        lemma_und_trans(*old(self), s0, *self, f, acc, scan_stmt(*stmt_9, c));
        assert((b9 + scan_body(while_stmt.orelse@, i9, c)) + scan_stmt(*stmt_9, c) =~= b9 + scan_body(while_stmt.orelse@, i9 + 1, c));
        acc = acc + scan_stmt(*stmt_9, c);
    }
@after for 9
    proof { assert(acc =~= scan_stmt(st0, c)); }
@before visit_expr_for_names 10
    let ghost s0 = *self;
@after visit_expr_for_names 10
    proof { lemma_und_trans(*old(self), s0, *self, f, acc, scan_expr(*for_stmt.iter, c)); acc = acc + scan_expr(*for_stmt.iter, c); }
@before for 10
    let ghost b10 = acc;
    proof { assert(b10 + scan_body(for_stmt.body@, 0, c) =~= b10); }
@loopvar 10 it10
@loop 10
    invariant is_line_index(ints(ctx.line_index@)), f == pbv(ctx.file_path), c == ctxv(ctx, old(self).defs()),
        it10.seq() == for_stmt.body@.as_ref(), st0 == *stmt, *stmt == Stmt::For(*for_stmt),
        acc == b10 + scan_body(for_stmt.body@, it10.index@ as int, c),
        same_rest(*old(self), *self), und_rel(*old(self), *self, f, acc),
@loopstart 10
    let ghost i10 = it10.index@ as int;
    let ghost s0 = *self;
    proof { assert(*stmt_10 == for_stmt.body@[i10]); assert(decreases_to!(for_stmt.body => for_stmt.body@[i10])); assert(match *stmt { Stmt::For(y) => y == *for_stmt, _ => false }); }
@loopend 10
    proof {
        lemma_und_trans(*old(self), s0, *self, f, acc, scan_stmt(*stmt_10, c));
        assert((b10 + scan_body(for_stmt.body@, i10, c)) + scan_stmt(*stmt_10, c) =~= b10 + scan_body(for_stmt.body@, i10 + 1, c));
        acc = acc + scan_stmt(*stmt_10, c);
    }
@before for 11
    let ghost b11 = acc;
    proof { assert(b11 + scan_body(for_stmt.orelse@, 0, c) =~= b11); }
@loopvar 11 it11
@loop 11
    invariant is_line_index(ints(ctx.line_index@)), f == pbv(ctx.file_path), c == ctxv(ctx, old(self).defs()),
        it11.seq() == for_stmt.orelse@.as_ref(), st0 == *stmt, *stmt == Stmt::For(*for_stmt),
        acc == b11 + scan_body(for_stmt.orelse@, it11.index@ as int, c),
        same_rest(*old(self), *self), und_rel(*old(self), *self, f, acc),
@loopstart 11
    let ghost i11 = it11.index@ as int;
    let ghost s0 = *self;
    proof { assert(*stmt_11 == for_stmt.orelse@[i11]); assert(decreases_to!(for_stmt.orelse => for_stmt.orelse@[i11])); assert(match *stmt { Stmt::For(y) => y == *for_stmt, _ => false }); }
@loopend 11
    proof {
        lemma_und_trans(*old(self), s0, *self, f, acc, scan_stmt(*stmt_11, c));
        assert((b11 + scan_body(for_stmt.orelse@, i11, c)) + scan_stmt(*stmt_11, c) =~= b11 + scan_body(for_stmt.orelse@, i11 + 1, c));
        acc = acc + scan_stmt(*stmt_11, c);
    }
@after for 11
    proof { assert(acc =~= scan_stmt(st0, c)); }
@before for 12
    proof { assert(acc =~= scan_items(with_stmt.items@, 0, c)); }
@loopvar 12 it12
@loop 12
    invariant is_line_index(ints(ctx.line_index@)), f == pbv(ctx.file_path), c == ctxv(ctx, old(self).defs()),
        it12.seq() == with_stmt.items@.as_ref(),
        acc == scan_items(with_stmt.items@, it12.index@ as int, c),
        same_rest(*old(self), *self), und_rel(*old(self), *self, f, acc),
@loopstart 12
    let ghost i12 = it12.index@ as int;
    let ghost s0 = *self;
    proof { assert(*item == with_stmt.items@[i12]); }
@loopend 12
    proof {
        lemma_und_trans(*old(self), s0, *self, f, acc, scan_expr(item.context_expr, c));
        acc = acc + scan_expr(item.context_expr, c);
    }
@before for 13
    let ghost b13 = acc;
    proof { assert(b13 + scan_body(with_stmt.body@, 0, c) =~= b13); }
@loopvar 13 it13
@loop 13
    invariant is_line_index(ints(ctx.line_index@)), f == pbv(ctx.file_path), c == ctxv(ctx, old(self).defs()),
        it13.seq() == with_stmt.body@.as_ref(), st0 == *stmt, *stmt == Stmt::With(*with_stmt),
        acc == b13 + scan_body(with_stmt.body@, it13.index@ as int, c),
        same_rest(*old(self), *self), und_rel(*old(self), *self, f, acc),
@loopstart 13
    let ghost i13 = it13.index@ as int;
    let ghost s0 = *self;
    proof { assert(*stmt_13 == with_stmt.body@[i13]); assert(decreases_to!(with_stmt.body => with_stmt.body@[i13])); assert(match *stmt { Stmt::With(y) => y == *with_stmt, _ => false }); }
@loopend 13
    proof {
        lemma_und_trans(*old(self), s0, *self, f, acc, scan_stmt(*stmt_13, c));
        assert((b13 + scan_body(with_stmt.body@, i13, c)) + scan_stmt(*stmt_13, c) =~= b13 + scan_body(with_stmt.body@, i13 + 1, c));
        acc = acc + scan_stmt(*stmt_13, c);
    }
@after for 13
    proof { assert(acc =~= scan_stmt(st0, c)); }
@before visit_expr_for_names 12
    let ghost s0 = *self;
@after visit_expr_for_names 12
    proof { lemma_und_trans(*old(self), s0, *self, f, acc, scan_expr(*for_stmt.iter, c)); acc = acc + scan_expr(*for_stmt.iter, c); }
@before for 14
    let ghost b14 = acc;
    proof { assert(b14 + scan_body(for_stmt.body@, 0, c) =~= b14); }
@loopvar 14 it14
@loop 14
    invariant is_line_index(ints(ctx.line_index@)), f == pbv(ctx.file_path), c == ctxv(ctx, old(self).defs()),
        it14.seq() == for_stmt.body@.as_ref(), st0 == *stmt, *stmt == Stmt::AsyncFor(*for_stmt),
        acc == b14 + scan_body(for_stmt.body@, it14.index@ as int, c),
        same_rest(*old(self), *self), und_rel(*old(self), *self, f, acc),
@loopstart 14
    let ghost i14 = it14.index@ as int;
    let ghost s0 = *self;
    proof { assert(*stmt_14 == for_stmt.body@[i14]); assert(decreases_to!(for_stmt.body => for_stmt.body@[i14])); assert(match *stmt { Stmt::AsyncFor(y) => y == *for_stmt, _ => false }); }
@loopend 14
    proof {
        lemma_und_trans(*old(self), s0, *self, f, acc, scan_stmt(*stmt_14, c));
        assert((b14 + scan_body(for_stmt.body@, i14, c)) + scan_stmt(*stmt_14, c) =~= b14 + scan_body(for_stmt.body@, i14 + 1, c));
        acc = acc + scan_stmt(*stmt_14, c);
    }
@before for 15
    let ghost b15 = acc;
    proof { assert(b15 + scan_body(for_stmt.orelse@, 0, c) =~= b15); }
@loopvar 15 it15
@loop 15
    invariant is_line_index(ints(ctx.line_index@)), f == pbv(ctx.file_path), c == ctxv(ctx, old(self).defs()),
        it15.seq() == for_stmt.orelse@.as_ref(), st0 == *stmt, *stmt == Stmt::AsyncFor(*for_stmt),
        acc == b15 + scan_body(for_stmt.orelse@, it15.index@ as int, c),
        same_rest(*old(self), *self), und_rel(*old(self), *self, f, acc),
@loopstart 15
    let ghost i15 = it15.index@ as int;
    let ghost s0 = *self;
    proof { assert(*stmt_15 == for_stmt.orelse@[i15]); assert(decreases_to!(for_stmt.orelse => for_stmt.orelse@[i15])); assert(match *stmt { Stmt::AsyncFor(y) => y == *for_stmt, _ => false }); }
@loopend 15
    proof {
        lemma_und_trans(*old(self), s0, *self, f, acc, scan_stmt(*stmt_15, c));
        assert((b15 + scan_body(for_stmt.orelse@, i15, c)) + scan_stmt(*stmt_15, c) =~= b15 + scan_body(for_stmt.orelse@, i15 + 1, c));
        acc = acc + scan_stmt(*stmt_15, c);
    }
@after for 15
    proof { assert(acc =~= scan_stmt(st0, c)); }
@before for 16
    proof { assert(acc =~= scan_items(with_stmt.items@, 0, c)); }
@loopvar 16 it16
@loop 16
    invariant is_line_index(ints(ctx.line_index@)), f == pbv(ctx.file_path), c == ctxv(ctx, old(self).defs()),
        it16.seq() == with_stmt.items@.as_ref(),
        acc == scan_items(with_stmt.items@, it16.index@ as int, c),
        same_rest(*old(self), *self), und_rel(*old(self), *self, f, acc),
@loopstart 16
    let ghost i16 = it16.index@ as int;
    let ghost s0 = *self;
    proof { assert(*item == with_stmt.items@[i16]); }
@loopend 16
    proof {
        lemma_und_trans(*old(self), s0, *self, f, acc, scan_expr(item.context_expr, c));
        acc = acc + scan_expr(item.context_expr, c);
    }
@before for 17
    let ghost b17 = acc;
    proof { assert(b17 + scan_body(with_stmt.body@, 0, c) =~= b17); }
@loopvar 17 it17
@loop 17
    invariant is_line_index(ints(ctx.line_index@)), f == pbv(ctx.file_path), c == ctxv(ctx, old(self).defs()),
        it17.seq() == with_stmt.body@.as_ref(), st0 == *stmt, *stmt == Stmt::AsyncWith(*with_stmt),
        acc == b17 + scan_body(with_stmt.body@, it17.index@ as int, c),
        same_rest(*old(self), *self), und_rel(*old(self), *self, f, acc),
@loopstart 17
    let ghost i17 = it17.index@ as int;
    let ghost s0 = *self;
    proof { assert(*stmt_17 == with_stmt.body@[i17]); assert(decreases_to!(with_stmt.body => with_stmt.body@[i17])); assert(match *stmt { Stmt::AsyncWith(y) => y == *with_stmt, _ => false }); }
@loopend 17
    proof {
        lemma_und_trans(*old(self), s0, *self, f, acc, scan_stmt(*stmt_17, c));
        assert((b17 + scan_body(with_stmt.body@, i17, c)) + scan_stmt(*stmt_17, c) =~= b17 + scan_body(with_stmt.body@, i17 + 1, c));
        acc = acc + scan_stmt(*stmt_17, c);
    }
@after for 17
    proof { assert(acc =~= scan_stmt(st0, c)); }
@before visit_expr_for_names 14
    let ghost s0 = *self;
@after visit_expr_for_names 14
    proof { lemma_und_trans(*old(self), s0, *self, f, acc, scan_expr(*assert_stmt.test, c)); acc = acc + scan_expr(*assert_stmt.test, c); }
@before msg 1
    let ghost s0 = *self;
@after msg 1
    proof {
        if assert_stmt.msg is None { lemma_und_refl(s0, f); }
        lemma_und_trans(*old(self), s0, *self, f, acc, scan_opt(assert_stmt.msg, c)); acc = acc + scan_opt(assert_stmt.msg, c);
        assert(acc =~= scan_stmt(st0, c));
    }
@*/

/*@ extract src/fixtures/undeclared.rs bind_local
@tags C17
@sig
    ensures final(local_vars).m() == min_bind(old(local_vars).m(), name@, line),
@*/

/*@ extract src/fixtures/undeclared.rs collect_local_variables
@tags C17
@wrapexpr_opt 1 `alias.name.split('.').next().unwrap_or("").to_string()` => `Self::vp_dotted_head(alias)` with fn vp_dotted_head(alias: &rustpython_parser::ast::Alias) -> (r: String) ensures r@ == dotted_head(idv(&alias.name))
@sig
    requires is_line_index(ints(line_index@)),
    ensures final(local_vars).m() == locals_body(body@, body@.len() as int, line_index@, old(local_vars).m()),
    decreases body@,
@start
    let ghost li = line_index@;
    let ghost m0 = local_vars.m();
@loopvar 1 it
@loop 1
    invariant is_line_index(ints(line_index@)), li == line_index@, it.seq() == body@.as_ref(),
        local_vars.m() == locals_body(body@, it.index@ as int, li, m0),
@loopstart 1
    let ghost oi = it.index@ as int;
    let ghost m1 = local_vars.m();
    proof { assert(*stmt == body@[oi]); assert(decreases_to!(body@ => body@[oi])); }
@loopend 1
    proof { assert(local_vars.m() == locals_stmt(*stmt, li, m1)); }
@loopvar 2 it2
@loop 2
    invariant it2.seq() == assign.targets@.as_ref(),
        temp_names.s().union(targets_from(assign.targets@, it2.index@ as int)) =~= targets_from(assign.targets@, 0),
@loopstart 2
    proof { let i = it2.index@ as int; assert(*target == assign.targets@[i]);
        assert(targets_from(assign.targets@, i) == target_names(*target).union(targets_from(assign.targets@, i + 1))); }
@before for 3
    let ghost nm3 = temp_names.s();
    proof { lemma_bind_start(nm3, m1, line); }
@loopvar 3 it3
@loop 3
    invariant bind_inv(it3.seq(), it3.index@ as int, nm3, m1, local_vars.m(), line),
@loopstart 3
    proof { assert(name == it3.seq()[it3.index@ as int]); lemma_bind_step(it3.seq(), it3.index@ as int, nm3, m1, local_vars.m(), line); }
@after for 3
    proof { assert(nm3 =~= targets_from(assign.targets@, 0)); assert(local_vars.m() == locals_stmt(*stmt, li, m1)); }
@before for 4
    let ghost nm4 = temp_names.s();
    proof { lemma_bind_start(nm4, m1, line); }
@loopvar 4 it4
@loop 4
    invariant bind_inv(it4.seq(), it4.index@ as int, nm4, m1, local_vars.m(), line),
@loopstart 4
    proof { assert(name == it4.seq()[it4.index@ as int]); lemma_bind_step(it4.seq(), it4.index@ as int, nm4, m1, local_vars.m(), line); }
@after for 4
    proof { assert(nm4 =~= target_names(*ann_assign.target)); assert(local_vars.m() == locals_stmt(*stmt, li, m1)); }
@before for 5
    let ghost nm5 = temp_names.s();
    proof { lemma_bind_start(nm5, m1, line); }
@loopvar 5 it5
@loop 5
    invariant bind_inv(it5.seq(), it5.index@ as int, nm5, m1, local_vars.m(), line),
@loopstart 5
    proof { assert(name == it5.seq()[it5.index@ as int]); lemma_bind_step(it5.seq(), it5.index@ as int, nm5, m1, local_vars.m(), line); }
@after for 5
    proof { assert(nm5 =~= target_names(*aug_assign.target)); assert(local_vars.m() == locals_stmt(*stmt, li, m1)); }
@before for 6
    let ghost nm6 = temp_names.s();
    proof { lemma_bind_start(nm6, m1, line); }
@loopvar 6 it6
@loop 6
    invariant bind_inv(it6.seq(), it6.index@ as int, nm6, m1, local_vars.m(), line),
@loopstart 6
    proof { assert(name == it6.seq()[it6.index@ as int]); lemma_bind_step(it6.seq(), it6.index@ as int, nm6, m1, local_vars.m(), line); }
@after for 6
    proof { assert(nm6 =~= target_names(*for_stmt.target)); }
@after collect_local_variables 2
    proof { assert(local_vars.m() == locals_stmt(*stmt, li, m1)); }
@before for 7
    let ghost nm7 = temp_names.s();
    proof { lemma_bind_start(nm7, m1, line); }
@loopvar 7 it7
@loop 7
    invariant bind_inv(it7.seq(), it7.index@ as int, nm7, m1, local_vars.m(), line),
@loopstart 7
    proof { assert(name == it7.seq()[it7.index@ as int]); lemma_bind_step(it7.seq(), it7.index@ as int, nm7, m1, local_vars.m(), line); }
@after for 7
    proof { assert(nm7 =~= target_names(*for_stmt.target)); }
@after collect_local_variables 4
    proof { assert(local_vars.m() == locals_stmt(*stmt, li, m1)); }
@after collect_local_variables 6
    proof { assert(local_vars.m() == locals_stmt(*stmt, li, m1)); }
@after collect_local_variables 8
    proof { assert(local_vars.m() == locals_stmt(*stmt, li, m1)); }
@loopvar 8 it8
@loop 8
    invariant is_line_index(ints(line_index@)), it8.seq() == with_stmt.items@.as_ref(),
        local_vars.m() == with_bind(with_stmt.items@, it8.index@ as int, m1, line),
@loopstart 8
    let ghost wi = it8.index@ as int;
    let ghost m2 = local_vars.m();
    proof { assert(*item == with_stmt.items@[wi]); }
@loopend 8
    proof { assert(local_vars.m() == with_bind(with_stmt.items@, wi + 1, m1, line)); }
@before for 9
    let ghost nm9 = temp_names.s();
    proof { lemma_bind_start(nm9, m2, line); }
@loopvar 9 it9
@loop 9
    invariant bind_inv(it9.seq(), it9.index@ as int, nm9, m2, local_vars.m(), line),
@loopstart 9
    proof { assert(name == it9.seq()[it9.index@ as int]); lemma_bind_step(it9.seq(), it9.index@ as int, nm9, m2, local_vars.m(), line); }
@after for 9
    proof { assert(nm9 =~= target_names(**optional_vars)); }
@after collect_local_variables 9
    proof { assert(local_vars.m() == locals_stmt(*stmt, li, m1)); }
@loopvar 10 it10
@loop 10
    invariant is_line_index(ints(line_index@)), it10.seq() == with_stmt.items@.as_ref(),
        local_vars.m() == with_bind(with_stmt.items@, it10.index@ as int, m1, line),
@loopstart 10
    let ghost wi = it10.index@ as int;
    let ghost m2 = local_vars.m();
    proof { assert(*item == with_stmt.items@[wi]); }
@loopend 10
    proof { assert(local_vars.m() == with_bind(with_stmt.items@, wi + 1, m1, line)); }
@before for 11
    let ghost nm11 = temp_names.s();
    proof { lemma_bind_start(nm11, m2, line); }
@loopvar 11 it11
@loop 11
    invariant bind_inv(it11.seq(), it11.index@ as int, nm11, m2, local_vars.m(), line),
@loopstart 11
    proof { assert(name == it11.seq()[it11.index@ as int]); lemma_bind_step(it11.seq(), it11.index@ as int, nm11, m2, local_vars.m(), line); }
@after for 11
    proof { assert(nm11 =~= target_names(**optional_vars)); }
@after collect_local_variables 10
    proof { assert(local_vars.m() == locals_stmt(*stmt, li, m1)); }
@before for 12
    let ghost mt = local_vars.m();
    let ghost hs = try_stmt.handlers@;
@loopvar 12 it12
@loop 12
    invariant is_line_index(ints(line_index@)), li == line_index@, it12.seq() == hs.as_ref(), hs == try_stmt.handlers@,
        *stmt == Stmt::Try(*try_stmt), 0 <= oi < body@.len(), *stmt == body@[oi],
        local_vars.m() == locals_handlers(hs, it12.index@ as int, li, mt),
@loopstart 12
    let ghost hi = it12.index@ as int;
    let ghost mh = local_vars.m();
    proof { assert(*handler == hs[hi]); }
@after h 1
    proof { assert(hs[hi] == rustpython_parser::ast::ExceptHandler::ExceptHandler(*h));
        assert(decreases_to!(body@ => body@[oi]));
        assert(match *stmt { Stmt::Try(t) => t == *try_stmt, _ => false });
        assert(decreases_to!(try_stmt.handlers => try_stmt.handlers@[hi]));
        assert(match hs[hi] { rustpython_parser::ast::ExceptHandler::ExceptHandler(y) => y == *h }); }
@before collect_local_variables 12
    proof { assert(local_vars.m() == handler_name_bind(h.name, mh, vline(li, r_start(h.range)))); }
@loopend 12
    proof { assert(local_vars.m() == locals_handlers(hs, hi + 1, li, mt)); }
@after collect_local_variables 14
    proof { assert(local_vars.m() == locals_stmt(*stmt, li, m1)); }
@loopvar 13 it13
@loop 13
    invariant it13.seq() == import_stmt.names@.as_ref(),
        local_vars.m() == import_bind(import_stmt.names@, it13.index@ as int, true, m1, line),
@loopstart 13
    proof { assert(*alias == import_stmt.names@[it13.index@ as int]); }
@after for 13
    proof { assert(local_vars.m() == locals_stmt(*stmt, li, m1)); }
@loopvar 14 it14
@loop 14
    invariant it14.seq() == import_from.names@.as_ref(),
        local_vars.m() == import_bind(import_from.names@, it14.index@ as int, false, m1, line),
@loopstart 14
    proof { assert(*alias == import_from.names@[it14.index@ as int]); }
@after for 14
    proof { assert(local_vars.m() == locals_stmt(*stmt, li, m1)); }
@after bind_local 11
    proof { assert(local_vars.m() == locals_stmt(*stmt, li, m1)); }
@after bind_local 12
    proof { assert(local_vars.m() == locals_stmt(*stmt, li, m1)); }
@after bind_local 13
    proof { assert(local_vars.m() == locals_stmt(*stmt, li, m1)); }
@*/

/*@ extract src/fixtures/undeclared.rs scan_function_body_for_undeclared_fixtures
@tags C17
@recv mut
@sig
    requires is_line_index(ints(line_index@)),
    ensures
        final(self).definitions == old(self).definitions, final(self).file_definitions == old(self).file_definitions,
        final(self).usages == old(self).usages, final(self).usage_by_fixture == old(self).usage_by_fixture,
        final(self).definitions_version == old(self).definitions_version,
        final(self).file_cache == old(self).file_cache, final(self).imports == old(self).imports,
        final(self).plugin_fixture_files == old(self).plugin_fixture_files,
        // v2: NOTHING but undeclared_fixtures changes (whatever other fields the database struct of the reader has)
        *final(self) == (FixtureDatabase { undeclared_fixtures: final(self).undeclared_fixtures, ..*old(self) }),
        final(self).undeclared_fixtures.m().remove(pbv(file_path)) == old(self).undeclared_fixtures.m().remove(pbv(file_path)),
        undecl_view(final(self).undeclared_fixtures.m()) == push_undecl(undecl_view(old(self).undeclared_fixtures.m()), pbv(file_path),
            scan_fn(body@, pbv(file_path), line_index@, declared_params.s(), function_name@, function_line,
                    old(self).defs(), imps_of(old(self).imports.m(), pbv(file_path)))),
@start
    let ghost f = pbv(file_path);
    let ghost li = line_index@;
    let ghost imps = imps_of(old(self).imports.m(), f);
    let ghost c = fn_ctx(body@, f, li, declared_params.s(), function_name@, function_line, old(self).defs(), imps);
    let ghost mut acc: Seq<UndV> = Seq::empty();
    proof { lemma_und_refl(*old(self), f); }
@after collect_local_variables 1
    let ghost m1 = local_vars.m();
    proof { assert(m1 == locals_body(body@, body@.len() as int, li, Map::empty())); }
@before for 1
    proof { assert(imports.r.s() == imps); lemma_bind_start_r(imps, m1, 0); }
@loopvar 1 it1
@loop 1
    invariant bind_inv_r(it1.seq(), it1.index@ as int, imps, m1, local_vars.m(), 0),
@loopstart 1
    proof { assert(import == it1.seq()[it1.index@ as int]); lemma_bind_step_r(it1.seq(), it1.index@ as int, imps, m1, local_vars.m(), 0); }
@before ctx 1
    proof {
        if !old(self).imports.m().contains_key(f) { lemma_bind_all_empty(m1, 0); }
        assert(local_vars.m() == fn_locals(body@, li, imps));
    }
@before for 2
    proof { assert(ctxv(&ctx, old(self).defs()) == c); assert(acc =~= scan_body(body@, 0, c)); }
@loopvar 2 it2
@loop 2
    invariant is_line_index(ints(ctx.line_index@)), f == pbv(ctx.file_path), c == ctxv(&ctx, old(self).defs()),
        it2.seq() == body@.as_ref(),
        acc == scan_body(body@, it2.index@ as int, c),
        same_rest(*old(self), *self), und_rel(*old(self), *self, f, acc),
@loopstart 2
    let ghost i = it2.index@ as int;
    let ghost s0 = *self;
    proof { assert(*stmt == body@[i]); }
@loopend 2
    proof {
        lemma_und_trans(*old(self), s0, *self, f, acc, scan_stmt(*stmt, c));
        acc = acc + scan_stmt(*stmt, c);
    }
@end
    proof { lemma_und_open(*old(self), *self, f, acc); }
@*/

// exec canary (must FAIL): the same real body, claiming the file's module-level names (`imports`) play no role
/*@ extract src/fixtures/undeclared.rs scan_function_body_for_undeclared_fixtures
@tags C17
@as canary_scan_ignores_module_level_names
@recv mut
@sig
    requires is_line_index(ints(line_index@)),
    ensures
        final(self).definitions == old(self).definitions, final(self).file_definitions == old(self).file_definitions,
        final(self).usages == old(self).usages, final(self).usage_by_fixture == old(self).usage_by_fixture,
        final(self).definitions_version == old(self).definitions_version,
        final(self).file_cache == old(self).file_cache, final(self).imports == old(self).imports,
        final(self).plugin_fixture_files == old(self).plugin_fixture_files,
        // v2: NOTHING but undeclared_fixtures changes (whatever other fields the database struct of the reader has)
        *final(self) == (FixtureDatabase { undeclared_fixtures: final(self).undeclared_fixtures, ..*old(self) }),
        final(self).undeclared_fixtures.m().remove(pbv(file_path)) == old(self).undeclared_fixtures.m().remove(pbv(file_path)),
        undecl_view(final(self).undeclared_fixtures.m()) == push_undecl(undecl_view(old(self).undeclared_fixtures.m()), pbv(file_path),
            scan_fn(body@, pbv(file_path), line_index@, declared_params.s(), function_name@, function_line,
                    old(self).defs(), Set::empty())),
@start
    let ghost f = pbv(file_path);
    let ghost li = line_index@;
    let ghost imps = imps_of(old(self).imports.m(), f);
    let ghost c = fn_ctx(body@, f, li, declared_params.s(), function_name@, function_line, old(self).defs(), imps);
    let ghost mut acc: Seq<UndV> = Seq::empty();
    proof { lemma_und_refl(*old(self), f); }
@after collect_local_variables 1
    let ghost m1 = local_vars.m();
    proof { assert(m1 == locals_body(body@, body@.len() as int, li, Map::empty())); }
@before for 1
    proof { assert(imports.r.s() == imps); lemma_bind_start_r(imps, m1, 0); }
@loopvar 1 it1
@loop 1
    invariant bind_inv_r(it1.seq(), it1.index@ as int, imps, m1, local_vars.m(), 0),
@loopstart 1
    proof { assert(import == it1.seq()[it1.index@ as int]); lemma_bind_step_r(it1.seq(), it1.index@ as int, imps, m1, local_vars.m(), 0); }
@before ctx 1
    proof {
        if !old(self).imports.m().contains_key(f) { lemma_bind_all_empty(m1, 0); }
        assert(local_vars.m() == fn_locals(body@, li, imps));
    }
@before for 2
    proof { assert(ctxv(&ctx, old(self).defs()) == c); assert(acc =~= scan_body(body@, 0, c)); }
@loopvar 2 it2
@loop 2
    invariant is_line_index(ints(ctx.line_index@)), f == pbv(ctx.file_path), c == ctxv(&ctx, old(self).defs()),
        it2.seq() == body@.as_ref(),
        acc == scan_body(body@, it2.index@ as int, c),
        same_rest(*old(self), *self), und_rel(*old(self), *self, f, acc),
@loopstart 2
    let ghost i = it2.index@ as int;
    let ghost s0 = *self;
    proof { assert(*stmt == body@[i]); }
@loopend 2
    proof {
        lemma_und_trans(*old(self), s0, *self, f, acc, scan_stmt(*stmt, c));
        acc = acc + scan_stmt(*stmt, c);
    }
@end
    proof { lemma_und_open(*old(self), *self, f, acc); }
@*/
}

// ================================================================================================================
// L2: property C17 (scanner part) from the operational specification
// ================================================================================================================
// ---- (a) precision ---------------------------------------------------------------------------------------------
/// what holds of every finding recorded with context c: its name is not a declared parameter, it is not a local
/// variable recorded with an EARLIER line, some definition of it is visible from the file (is_available_fixture,
/// unit undeclared_avail), its line is a real (1-based) line, and it is filed under the scanned file / function
pub open spec fn entry_ok(u: UndV, c: ScanV) -> bool {
    &&& !c.declared.contains(u.name)
    &&& !local_in_scope(c.locals, u.name, u.line)
    &&& op_is_available(bucket(c.defs, u.name), c.file)
    &&& (is_line_index(ints(c.li)) && c.li.len() <= usize::MAX ==> u.line >= 1)
    &&& u.file == c.file && u.function_name == c.fname && u.function_line == c.fline
}
pub open spec fn all_ok(s: Seq<UndV>, c: ScanV) -> bool { forall|i: int| 0 <= i < s.len() ==> entry_ok(#[trigger] s[i], c) }
//@tags C17
pub proof fn lemma_vline_ge1(li: Seq<usize>, off: usize)
    requires is_line_index(ints(li)), li.len() <= usize::MAX,
    ensures vline(li, off) >= 1,
{
    lemma_line_sound(ints(li), off as int);
}
//@tags C17
pub proof fn lemma_scan_opt_ok(o: Option<Box<Expr>>, c: ScanV)
    ensures all_ok(scan_opt(o, c), c),
{
    match o { Some(b) => { lemma_scan_expr_ok(*b, c); } None => {} }
}
//@tags C17
pub proof fn lemma_scan_expr_ok(e: Expr, c: ScanV)
    ensures all_ok(scan_expr(e, c), c),
    decreases e, 0int
{
    match e {
        Expr::Name(n) => { if is_line_index(ints(c.li)) && c.li.len() <= usize::MAX { lemma_vline_ge1(c.li, r_start(n.range)); } }
        Expr::Call(x) => { lemma_scan_expr_ok(*x.func, c); lemma_scan_exprs_ok(x.args@, x.args@.len() as int, c); lemma_scan_kws_ok(x.keywords@, x.keywords@.len() as int, c); }
        Expr::Starred(x) => { lemma_scan_expr_ok(*x.value, c); }
        Expr::BoolOp(x) => { lemma_scan_exprs_ok(x.values@, x.values@.len() as int, c); }
        Expr::IfExp(x) => { lemma_scan_expr_ok(*x.test, c); lemma_scan_expr_ok(*x.body, c); lemma_scan_expr_ok(*x.orelse, c); }
        Expr::Set(x) => { lemma_scan_exprs_ok(x.elts@, x.elts@.len() as int, c); }
        Expr::Slice(x) => {
            match x.lower { Some(b) => { lemma_scan_expr_ok(*b, c); } None => {} }
            match x.upper { Some(b) => { lemma_scan_expr_ok(*b, c); } None => {} }
            match x.step { Some(b) => { lemma_scan_expr_ok(*b, c); } None => {} }
        }
        Expr::Attribute(x) => { lemma_scan_expr_ok(*x.value, c); }
        Expr::BinOp(x) => { lemma_scan_expr_ok(*x.left, c); lemma_scan_expr_ok(*x.right, c); }
        Expr::UnaryOp(x) => { lemma_scan_expr_ok(*x.operand, c); }
        Expr::Compare(x) => { lemma_scan_expr_ok(*x.left, c); lemma_scan_exprs_ok(x.comparators@, x.comparators@.len() as int, c); }
        Expr::Subscript(x) => { lemma_scan_expr_ok(*x.value, c); lemma_scan_expr_ok(*x.slice, c); }
        Expr::List(x) => { lemma_scan_exprs_ok(x.elts@, x.elts@.len() as int, c); }
        Expr::Tuple(x) => { lemma_scan_exprs_ok(x.elts@, x.elts@.len() as int, c); }
        Expr::Dict(x) => { lemma_scan_keys_ok(x.keys@, x.keys@.len() as int, c); lemma_scan_exprs_ok(x.values@, x.values@.len() as int, c); }
        Expr::Await(x) => { lemma_scan_expr_ok(*x.value, c); }
        _ => {}
    }
}
//@tags C17
pub proof fn lemma_scan_kws_ok(ks: Seq<AKeyword>, n: int, c: ScanV)
    ensures all_ok(scan_kws(ks, n, c), c),
    decreases ks, n
{
    if 0 < n <= ks.len() { lemma_scan_kws_ok(ks, n - 1, c); lemma_scan_expr_ok(ks[n - 1].value, c); }
}
//@tags C17
pub proof fn lemma_scan_exprs_ok(es: Seq<Expr>, n: int, c: ScanV)
    ensures all_ok(scan_exprs(es, n, c), c),
    decreases es, n
{
    if 0 < n <= es.len() { lemma_scan_exprs_ok(es, n - 1, c); lemma_scan_expr_ok(es[n - 1], c); }
}
//@tags C17
pub proof fn lemma_scan_keys_ok(ks: Seq<Option<Expr>>, n: int, c: ScanV)
    ensures all_ok(scan_keys(ks, n, c), c),
    decreases ks, n
{
    if 0 < n <= ks.len() {
        lemma_scan_keys_ok(ks, n - 1, c);
        match ks[n - 1] { Some(k) => { lemma_scan_expr_ok(k, c); } None => {} }
    }
}
//@tags C17
pub proof fn lemma_scan_items_ok(items: Seq<AWithItem>, n: int, c: ScanV)
    ensures all_ok(scan_items(items, n, c), c),
    decreases n
{
    if 0 < n <= items.len() { lemma_scan_items_ok(items, n - 1, c); lemma_scan_expr_ok(items[n - 1].context_expr, c); }
}
//@tags C17
pub proof fn lemma_scan_stmt_ok(s: Stmt, c: ScanV)
    ensures all_ok(scan_stmt(s, c), c),
    decreases s, 0int
{
    match s {
        Stmt::Expr(x) => { lemma_scan_expr_ok(*x.value, c); }
        Stmt::Assign(x) => { lemma_scan_expr_ok(*x.value, c); }
        Stmt::AugAssign(x) => { lemma_scan_expr_ok(*x.value, c); }
        Stmt::AnnAssign(x) => { lemma_scan_opt_ok(x.value, c); }
        Stmt::Raise(x) => { lemma_scan_opt_ok(x.exc, c); lemma_scan_opt_ok(x.cause, c); }
        Stmt::Try(x) => {
            lemma_scan_body_ok(x.body@, x.body@.len() as int, c); lemma_scan_handlers_ok(x.handlers@, x.handlers@.len() as int, c);
            lemma_scan_body_ok(x.orelse@, x.orelse@.len() as int, c); lemma_scan_body_ok(x.finalbody@, x.finalbody@.len() as int, c);
        }
        Stmt::Return(x) => { lemma_scan_opt_ok(x.value, c); }
        Stmt::If(x) => { lemma_scan_expr_ok(*x.test, c); lemma_scan_body_ok(x.body@, x.body@.len() as int, c); lemma_scan_body_ok(x.orelse@, x.orelse@.len() as int, c); }
        Stmt::While(x) => { lemma_scan_expr_ok(*x.test, c); lemma_scan_body_ok(x.body@, x.body@.len() as int, c); lemma_scan_body_ok(x.orelse@, x.orelse@.len() as int, c); }
        Stmt::For(x) => { lemma_scan_expr_ok(*x.iter, c); lemma_scan_body_ok(x.body@, x.body@.len() as int, c); lemma_scan_body_ok(x.orelse@, x.orelse@.len() as int, c); }
        Stmt::With(x) => { lemma_scan_items_ok(x.items@, x.items@.len() as int, c); lemma_scan_body_ok(x.body@, x.body@.len() as int, c); }
        Stmt::AsyncFor(x) => { lemma_scan_expr_ok(*x.iter, c); lemma_scan_body_ok(x.body@, x.body@.len() as int, c); lemma_scan_body_ok(x.orelse@, x.orelse@.len() as int, c); }
        Stmt::AsyncWith(x) => { lemma_scan_items_ok(x.items@, x.items@.len() as int, c); lemma_scan_body_ok(x.body@, x.body@.len() as int, c); }
        Stmt::Assert(x) => { lemma_scan_expr_ok(*x.test, c); lemma_scan_opt_ok(x.msg, c); }
        _ => {}
    }
}
//@tags C17
pub proof fn lemma_scan_handlers_ok(hs: Seq<AHandler>, n: int, c: ScanV)
    ensures all_ok(scan_handlers(hs, n, c), c),
    decreases hs, n
{
    if 0 < n <= hs.len() {
        lemma_scan_handlers_ok(hs, n - 1, c);
        match hs[n - 1] { rustpython_parser::ast::ExceptHandler::ExceptHandler(h) => { lemma_scan_body_ok(h.body@, h.body@.len() as int, c); } }
    }
}
//@tags C17
pub proof fn lemma_scan_body_ok(b: Seq<Stmt>, n: int, c: ScanV)
    ensures all_ok(scan_body(b, n, c), c),
    decreases b, n
{
    if 0 < n <= b.len() { lemma_scan_body_ok(b, n - 1, c); lemma_scan_stmt_ok(b[n - 1], c); }
}

/// C17.a -- precision, all four clauses at once, for EVERY finding of a function scan:
///  * its name is not in declared_params (what unit visit passes: the parameters, `self`, `request` and -- for a
///    fixture -- the function's own name; lemma_C17_a_declared_has_params below),
///  * it is not recorded in local_vars with a line STRICTLY SMALLER than the line of the use (local_vars holds the
///    EARLIEST line of every recorded binder of the name: lemma_C17_a_earlier_binding_protects / _in_scope_iff below),
///  * it is not a name of the file's `imports` entry (module-level names: they are recorded with line 0 and every
///    use is on a line >= 1),
///  * is_available_fixture holds for it: some registered definition of that name is visible from the file,
/// and it is filed under the scanned file with the scanned function's name and line.
//@tags C17
pub proof fn lemma_C17_a_precision(body: Seq<Stmt>, file: PV, li: Seq<usize>, declared: Set<Seq<char>>, fname: Seq<char>, fline: usize,
                                   defs: Map<Seq<char>, Seq<DefV>>, imps: Set<Seq<char>>, i: int)
    requires is_line_index(ints(li)), li.len() <= usize::MAX,
        0 <= i < scan_fn(body, file, li, declared, fname, fline, defs, imps).len(),
    ensures ({
        let u = scan_fn(body, file, li, declared, fname, fline, defs, imps)[i];
        let locals = fn_locals(body, li, imps);
        &&& !declared.contains(u.name)
        &&& !(locals.contains_key(u.name) && locals[u.name] < u.line)
        &&& !imps.contains(u.name)
        &&& op_is_available(bucket(defs, u.name), file)
        &&& bucket(defs, u.name).len() > 0
        &&& u.file == file && u.function_name == fname && u.function_line == fline
    }),
{
    let c = fn_ctx(body, file, li, declared, fname, fline, defs, imps);
    lemma_scan_body_ok(body, body.len() as int, c);
    let u = scan_fn(body, file, li, declared, fname, fline, defs, imps)[i];
    assert(entry_ok(u, c));
    if imps.contains(u.name) { assert(c.locals[u.name] == 0); }
}
/// ... a name no fixture carries is never flagged (empty bucket)
//@tags C17
pub proof fn lemma_C17_a_unknown_name_never_flagged(n: AExprName, c: ScanV)
    requires bucket(c.defs, idv(&n.id)).len() == 0,
    ensures !name_flag(n, c), scan_expr(Expr::Name(n), c).len() == 0,
{
}
/// ... what unit visit hands over as declared_params contains every parameter name (positional-only, ordinary,
/// keyword-only -- NOT *args / **kwargs), `self` and `request`; for a fixture also the function's own name
//@tags C17
pub proof fn lemma_declared_of_has(ps: Seq<AArg>, n: int, base: Set<Seq<char>>, k: int)
    requires 0 <= k < n <= ps.len(),
    ensures declared_of(ps, n, base).contains(pname(ps[k])),
        forall|x: Seq<char>| base.contains(x) ==> declared_of(ps, n, base).contains(x),
    decreases n
{
    if k < n - 1 { lemma_declared_of_has(ps, n - 1, base, k); }
    else { lemma_declared_of_base(ps, n - 1, base); }
}
//@tags C17
pub proof fn lemma_declared_of_base(ps: Seq<AArg>, n: int, base: Set<Seq<char>>)
    ensures forall|x: Seq<char>| base.contains(x) ==> declared_of(ps, n, base).contains(x),
    decreases n
{
    if 0 < n <= ps.len() { lemma_declared_of_base(ps, n - 1, base); }
}
//@tags C17
pub proof fn lemma_C17_a_declared_has_params(fname: Seq<char>, a: AArguments, k: int)
    requires 0 <= k < all_params(a).len(),
    ensures declared_test(a).contains(pname(all_params(a)[k])), declared_fixture(fname, a).contains(pname(all_params(a)[k])),
        declared_test(a).contains("self"@), declared_test(a).contains("request"@),
        declared_fixture(fname, a).contains("self"@), declared_fixture(fname, a).contains("request"@), declared_fixture(fname, a).contains(fname),
{
    let ps = all_params(a);
    let b1 = Set::<Seq<char>>::empty().insert("self"@).insert("request"@);
    let b2 = b1.insert(fname);
    lemma_declared_of_has(ps, ps.len() as int, b1, k);
    lemma_declared_of_has(ps, ps.len() as int, b2, k);
    assert(b1.contains("self"@) && b1.contains("request"@));
    assert(b2.contains("self"@) && b2.contains("request"@) && b2.contains(fname));
}

// ---- which bindings protect a use: what collect_local_variables records -------------------------------------------
/// some `as` target among the first n `with` items binds k
pub open spec fn with_binds_at(items: Seq<AWithItem>, n: int, k: Seq<char>) -> bool
    decreases n
{
    if n <= 0 || n > items.len() { false } else {
        with_binds_at(items, n - 1, k) || (match items[n - 1].optional_vars { Some(v) => target_names(*v).contains(k), None => false })
    }
}
/// one of the first n aliases of an import statement binds k
pub open spec fn import_binds_at(names: Seq<AAlias>, n: int, dotted: bool, k: Seq<char>) -> bool
    decreases n
{
    if n <= 0 || n > names.len() { false } else { import_binds_at(names, n - 1, dotted, k) || alias_name(names[n - 1], dotted) == k }
}
/// "a RECORDED BINDER of k at line l occurs in statement s".  The recorded binder kinds:
///   assignment `k = ..` / `k: T = ..` / `k += ..` (also as element of tuple / list targets)        line of the statement
///   `for k in ..` / `async for k in ..` target                                                       line of the for
///   `with .. as k` / `async with .. as k`                                                            line of the with
///   `except E as k`                                                                                   line of the handler
///   `import k` / `import k.x` (first component) / `import m as k` / `from m import k` / `.. as k`   line of the import
///   nested `def k` / `async def k` / `class k`                                                       line of the def
/// at the top level of the function body or nested to any depth in if / else, for / while bodies and else-branches,
/// with bodies, try bodies / handlers / else / finally (NOT inside nested def / class bodies, match, try*)
pub open spec fn binds_at_stmt(s: Stmt, li: Seq<usize>, k: Seq<char>, l: usize) -> bool
    decreases s, 0int
{
    match s {
        Stmt::Assign(x) => targets_from(x.targets@, 0).contains(k) && l == vline(li, r_start(x.range)),
        Stmt::AnnAssign(x) => target_names(*x.target).contains(k) && l == vline(li, r_start(x.range)),
        Stmt::AugAssign(x) => target_names(*x.target).contains(k) && l == vline(li, r_start(x.range)),
        Stmt::For(x) => (target_names(*x.target).contains(k) && l == vline(li, r_start(x.range)))
            || binds_at_body(x.body@, x.body@.len() as int, li, k, l) || binds_at_body(x.orelse@, x.orelse@.len() as int, li, k, l),
        Stmt::AsyncFor(x) => (target_names(*x.target).contains(k) && l == vline(li, r_start(x.range)))
            || binds_at_body(x.body@, x.body@.len() as int, li, k, l) || binds_at_body(x.orelse@, x.orelse@.len() as int, li, k, l),
        Stmt::While(x) => binds_at_body(x.body@, x.body@.len() as int, li, k, l) || binds_at_body(x.orelse@, x.orelse@.len() as int, li, k, l),
        Stmt::If(x) => binds_at_body(x.body@, x.body@.len() as int, li, k, l) || binds_at_body(x.orelse@, x.orelse@.len() as int, li, k, l),
        Stmt::With(x) => (with_binds_at(x.items@, x.items@.len() as int, k) && l == vline(li, r_start(x.range)))
            || binds_at_body(x.body@, x.body@.len() as int, li, k, l),
        Stmt::AsyncWith(x) => (with_binds_at(x.items@, x.items@.len() as int, k) && l == vline(li, r_start(x.range)))
            || binds_at_body(x.body@, x.body@.len() as int, li, k, l),
        Stmt::Try(x) => binds_at_body(x.body@, x.body@.len() as int, li, k, l) || binds_at_handlers(x.handlers@, x.handlers@.len() as int, li, k, l)
            || binds_at_body(x.orelse@, x.orelse@.len() as int, li, k, l) || binds_at_body(x.finalbody@, x.finalbody@.len() as int, li, k, l),
        Stmt::Import(x) => import_binds_at(x.names@, x.names@.len() as int, true, k) && l == vline(li, r_start(x.range)),
        Stmt::ImportFrom(x) => import_binds_at(x.names@, x.names@.len() as int, false, k) && l == vline(li, r_start(x.range)),
        Stmt::FunctionDef(x) => idv(&x.name) == k && l == vline(li, r_start(x.range)),
        Stmt::AsyncFunctionDef(x) => idv(&x.name) == k && l == vline(li, r_start(x.range)),
        Stmt::ClassDef(x) => idv(&x.name) == k && l == vline(li, r_start(x.range)),
        _ => false,
    }
}
pub open spec fn binds_at_body(b: Seq<Stmt>, n: int, li: Seq<usize>, k: Seq<char>, l: usize) -> bool
    decreases b, n
{
    if n <= 0 || n > b.len() { false } else { binds_at_body(b, n - 1, li, k, l) || binds_at_stmt(b[n - 1], li, k, l) }
}
pub open spec fn handler_binds_at(nm: Option<Identifier>, k: Seq<char>) -> bool { match nm { Some(i) => idv(&i) == k, None => false } }
pub open spec fn binds_at_handlers(hs: Seq<AHandler>, n: int, li: Seq<usize>, k: Seq<char>, l: usize) -> bool
    decreases hs, n
{
    if n <= 0 || n > hs.len() { false } else {
        binds_at_handlers(hs, n - 1, li, k, l) || (match hs[n - 1] {
            rustpython_parser::ast::ExceptHandler::ExceptHandler(h) =>
                (handler_binds_at(h.name, k) && l == vline(li, r_start(h.range))) || binds_at_body(h.body@, h.body@.len() as int, li, k, l),
        })
    }
}
/// how one collection step (m -> r) treats name k, `b(l)` = "the step contains a recorded binder of k at line l":
/// an existing entry never grows; every binder of the step bounds the entry from above; and the entry is the old one
/// or the line of one of the step's binders -- together: r[k] = min(m[k], lines of the step's binders of k)
pub open spec fn step_ok(m: Map<Seq<char>, usize>, r: Map<Seq<char>, usize>, k: Seq<char>, b: spec_fn(usize) -> bool) -> bool {
    &&& (m.contains_key(k) ==> r.contains_key(k) && r[k] <= m[k])
    &&& (forall|l: usize| #[trigger] b(l) ==> r.contains_key(k) && r[k] <= l)
    &&& (r.contains_key(k) ==> (m.contains_key(k) && r[k] == m[k]) || b(r[k]))
}
pub open spec fn at_stmt(s: Stmt, li: Seq<usize>, k: Seq<char>) -> spec_fn(usize) -> bool { |l: usize| binds_at_stmt(s, li, k, l) }
pub open spec fn at_body(b: Seq<Stmt>, n: int, li: Seq<usize>, k: Seq<char>) -> spec_fn(usize) -> bool { |l: usize| binds_at_body(b, n, li, k, l) }
pub open spec fn at_handlers(hs: Seq<AHandler>, n: int, li: Seq<usize>, k: Seq<char>) -> spec_fn(usize) -> bool { |l: usize| binds_at_handlers(hs, n, li, k, l) }
pub open spec fn at_line(cond: bool, line: usize) -> spec_fn(usize) -> bool { |l: usize| cond && l == line }
pub open spec fn or_fn(a: spec_fn(usize) -> bool, b: spec_fn(usize) -> bool) -> spec_fn(usize) -> bool { |l: usize| a(l) || b(l) }
/// two steps in sequence
//@tags C17
pub proof fn lemma_step_seq(m: Map<Seq<char>, usize>, r1: Map<Seq<char>, usize>, r2: Map<Seq<char>, usize>, k: Seq<char>,
                            b1: spec_fn(usize) -> bool, b2: spec_fn(usize) -> bool)
    requires step_ok(m, r1, k, b1), step_ok(r1, r2, k, b2),
    ensures step_ok(m, r2, k, or_fn(b1, b2)),
{
    assert forall|l: usize| #[trigger] or_fn(b1, b2)(l) implies r2.contains_key(k) && r2[k] <= l by {
        if b1(l) { assert(r1.contains_key(k) && r1[k] <= l); } else { assert(b2(l)); }
    }
    if r2.contains_key(k) && !(m.contains_key(k) && r2[k] == m[k]) {
        if r1.contains_key(k) && r2[k] == r1[k] { assert(b1(r1[k])); } else { assert(b2(r2[k])); }
        assert(or_fn(b1, b2)(r2[k]));
    }
}
/// the same step described by a pointwise-equal predicate
//@tags C17
pub proof fn lemma_step_ext(m: Map<Seq<char>, usize>, r: Map<Seq<char>, usize>, k: Seq<char>, b: spec_fn(usize) -> bool, b2: spec_fn(usize) -> bool)
    requires step_ok(m, r, k, b), forall|l: usize| b(l) == #[trigger] b2(l),
    ensures step_ok(m, r, k, b2),
{
    assert forall|l: usize| #[trigger] b2(l) implies r.contains_key(k) && r[k] <= l by { assert(b(l)); }
}
//@tags C17
pub proof fn lemma_step_none(m: Map<Seq<char>, usize>, k: Seq<char>)
    ensures step_ok(m, m, k, at_line(false, 0)),
{
}
//@tags C17
pub proof fn lemma_step_min_bind(m: Map<Seq<char>, usize>, k0: Seq<char>, line: usize, k: Seq<char>)
    ensures step_ok(m, min_bind(m, k0, line), k, at_line(k0 == k, line)),
{
    let r = min_bind(m, k0, line);
    if r.contains_key(k) && !(m.contains_key(k) && r[k] == m[k]) { assert(at_line(k0 == k, line)(r[k])); }
}
//@tags C17
pub proof fn lemma_step_bind_min(m: Map<Seq<char>, usize>, names: Set<Seq<char>>, line: usize, k: Seq<char>)
    ensures step_ok(m, bind_min(m, names, line), k, at_line(names.contains(k), line)),
{
    let r = bind_min(m, names, line);
    if r.contains_key(k) && !(m.contains_key(k) && r[k] == m[k]) { assert(at_line(names.contains(k), line)(r[k])); }
}
//@tags C17
pub proof fn lemma_step_with_bind(items: Seq<AWithItem>, n: int, m: Map<Seq<char>, usize>, line: usize, k: Seq<char>)
    ensures step_ok(m, with_bind(items, n, m, line), k, at_line(with_binds_at(items, n, k), line)),
    decreases n
{
    if 0 < n <= items.len() {
        lemma_step_with_bind(items, n - 1, m, line, k);
        let r1 = with_bind(items, n - 1, m, line);
        match items[n - 1].optional_vars {
            Some(v) => {
                lemma_step_bind_min(r1, target_names(*v), line, k);
                lemma_step_seq(m, r1, with_bind(items, n, m, line), k, at_line(with_binds_at(items, n - 1, k), line), at_line(target_names(*v).contains(k), line));
                lemma_step_ext(m, with_bind(items, n, m, line), k, or_fn(at_line(with_binds_at(items, n - 1, k), line), at_line(target_names(*v).contains(k), line)),
                    at_line(with_binds_at(items, n, k), line));
            }
            None => { lemma_step_ext(m, r1, k, at_line(with_binds_at(items, n - 1, k), line), at_line(with_binds_at(items, n, k), line)); }
        }
    } else { lemma_step_none(m, k); lemma_step_ext(m, m, k, at_line(false, 0), at_line(with_binds_at(items, n, k), line)); }
}
//@tags C17
pub proof fn lemma_step_import_bind(names: Seq<AAlias>, n: int, dotted: bool, m: Map<Seq<char>, usize>, line: usize, k: Seq<char>)
    ensures step_ok(m, import_bind(names, n, dotted, m, line), k, at_line(import_binds_at(names, n, dotted, k), line)),
    decreases n
{
    if 0 < n <= names.len() {
        lemma_step_import_bind(names, n - 1, dotted, m, line, k);
        let r1 = import_bind(names, n - 1, dotted, m, line);
        let k0 = alias_name(names[n - 1], dotted);
        lemma_step_min_bind(r1, k0, line, k);
        lemma_step_seq(m, r1, import_bind(names, n, dotted, m, line), k, at_line(import_binds_at(names, n - 1, dotted, k), line), at_line(k0 == k, line));
        lemma_step_ext(m, import_bind(names, n, dotted, m, line), k, or_fn(at_line(import_binds_at(names, n - 1, dotted, k), line), at_line(k0 == k, line)),
            at_line(import_binds_at(names, n, dotted, k), line));
    } else { lemma_step_none(m, k); lemma_step_ext(m, m, k, at_line(false, 0), at_line(import_binds_at(names, n, dotted, k), line)); }
}
/// KEY LEMMA: what collect_local_variables does to the entry of k over one statement
//@tags C17
pub proof fn lemma_step_stmt(s: Stmt, li: Seq<usize>, m: Map<Seq<char>, usize>, k: Seq<char>)
    ensures step_ok(m, locals_stmt(s, li, m), k, at_stmt(s, li, k)),
    decreases s, 0int
{
    let r = locals_stmt(s, li, m);
    let g = at_stmt(s, li, k);
    match s {
        Stmt::Assign(x) => { lemma_step_bind_min(m, targets_from(x.targets@, 0), vline(li, r_start(x.range)), k);
            lemma_step_ext(m, r, k, at_line(targets_from(x.targets@, 0).contains(k), vline(li, r_start(x.range))), g); }
        Stmt::AnnAssign(x) => { lemma_step_bind_min(m, target_names(*x.target), vline(li, r_start(x.range)), k);
            lemma_step_ext(m, r, k, at_line(target_names(*x.target).contains(k), vline(li, r_start(x.range))), g); }
        Stmt::AugAssign(x) => { lemma_step_bind_min(m, target_names(*x.target), vline(li, r_start(x.range)), k);
            lemma_step_ext(m, r, k, at_line(target_names(*x.target).contains(k), vline(li, r_start(x.range))), g); }
        Stmt::For(x) => {
            let line = vline(li, r_start(x.range));
            let m1 = bind_min(m, target_names(*x.target), line);
            let m2 = locals_body(x.body@, x.body@.len() as int, li, m1);
            let a0 = at_line(target_names(*x.target).contains(k), line);
            let a1 = at_body(x.body@, x.body@.len() as int, li, k);
            let a2 = at_body(x.orelse@, x.orelse@.len() as int, li, k);
            lemma_step_bind_min(m, target_names(*x.target), line, k);
            lemma_step_body(x.body@, x.body@.len() as int, li, m1, k);
            lemma_step_body(x.orelse@, x.orelse@.len() as int, li, m2, k);
            lemma_step_seq(m, m1, m2, k, a0, a1);
            lemma_step_seq(m, m2, r, k, or_fn(a0, a1), a2);
            lemma_step_ext(m, r, k, or_fn(or_fn(a0, a1), a2), g);
        }
        Stmt::AsyncFor(x) => {
            let line = vline(li, r_start(x.range));
            let m1 = bind_min(m, target_names(*x.target), line);
            let m2 = locals_body(x.body@, x.body@.len() as int, li, m1);
            let a0 = at_line(target_names(*x.target).contains(k), line);
            let a1 = at_body(x.body@, x.body@.len() as int, li, k);
            let a2 = at_body(x.orelse@, x.orelse@.len() as int, li, k);
            lemma_step_bind_min(m, target_names(*x.target), line, k);
            lemma_step_body(x.body@, x.body@.len() as int, li, m1, k);
            lemma_step_body(x.orelse@, x.orelse@.len() as int, li, m2, k);
            lemma_step_seq(m, m1, m2, k, a0, a1);
            lemma_step_seq(m, m2, r, k, or_fn(a0, a1), a2);
            lemma_step_ext(m, r, k, or_fn(or_fn(a0, a1), a2), g);
        }
        Stmt::While(x) => {
            let m1 = locals_body(x.body@, x.body@.len() as int, li, m);
            let a1 = at_body(x.body@, x.body@.len() as int, li, k);
            let a2 = at_body(x.orelse@, x.orelse@.len() as int, li, k);
            lemma_step_body(x.body@, x.body@.len() as int, li, m, k);
            lemma_step_body(x.orelse@, x.orelse@.len() as int, li, m1, k);
            lemma_step_seq(m, m1, r, k, a1, a2);
            lemma_step_ext(m, r, k, or_fn(a1, a2), g);
        }
        Stmt::If(x) => {
            let m1 = locals_body(x.body@, x.body@.len() as int, li, m);
            let a1 = at_body(x.body@, x.body@.len() as int, li, k);
            let a2 = at_body(x.orelse@, x.orelse@.len() as int, li, k);
            lemma_step_body(x.body@, x.body@.len() as int, li, m, k);
            lemma_step_body(x.orelse@, x.orelse@.len() as int, li, m1, k);
            lemma_step_seq(m, m1, r, k, a1, a2);
            lemma_step_ext(m, r, k, or_fn(a1, a2), g);
        }
        Stmt::With(x) => {
            let line = vline(li, r_start(x.range));
            let m1 = with_bind(x.items@, x.items@.len() as int, m, line);
            let a0 = at_line(with_binds_at(x.items@, x.items@.len() as int, k), line);
            let a1 = at_body(x.body@, x.body@.len() as int, li, k);
            lemma_step_with_bind(x.items@, x.items@.len() as int, m, line, k);
            lemma_step_body(x.body@, x.body@.len() as int, li, m1, k);
            lemma_step_seq(m, m1, r, k, a0, a1);
            lemma_step_ext(m, r, k, or_fn(a0, a1), g);
        }
        Stmt::AsyncWith(x) => {
            let line = vline(li, r_start(x.range));
            let m1 = with_bind(x.items@, x.items@.len() as int, m, line);
            let a0 = at_line(with_binds_at(x.items@, x.items@.len() as int, k), line);
            let a1 = at_body(x.body@, x.body@.len() as int, li, k);
            lemma_step_with_bind(x.items@, x.items@.len() as int, m, line, k);
            lemma_step_body(x.body@, x.body@.len() as int, li, m1, k);
            lemma_step_seq(m, m1, r, k, a0, a1);
            lemma_step_ext(m, r, k, or_fn(a0, a1), g);
        }
        Stmt::Try(x) => {
            let m1 = locals_body(x.body@, x.body@.len() as int, li, m);
            let m2 = locals_handlers(x.handlers@, x.handlers@.len() as int, li, m1);
            let m3 = locals_body(x.orelse@, x.orelse@.len() as int, li, m2);
            let a1 = at_body(x.body@, x.body@.len() as int, li, k);
            let a2 = at_handlers(x.handlers@, x.handlers@.len() as int, li, k);
            let a3 = at_body(x.orelse@, x.orelse@.len() as int, li, k);
            let a4 = at_body(x.finalbody@, x.finalbody@.len() as int, li, k);
            lemma_step_body(x.body@, x.body@.len() as int, li, m, k);
            lemma_step_handlers(x.handlers@, x.handlers@.len() as int, li, m1, k);
            lemma_step_body(x.orelse@, x.orelse@.len() as int, li, m2, k);
            lemma_step_body(x.finalbody@, x.finalbody@.len() as int, li, m3, k);
            lemma_step_seq(m, m1, m2, k, a1, a2);
            lemma_step_seq(m, m2, m3, k, or_fn(a1, a2), a3);
            lemma_step_seq(m, m3, r, k, or_fn(or_fn(a1, a2), a3), a4);
            lemma_step_ext(m, r, k, or_fn(or_fn(or_fn(a1, a2), a3), a4), g);
        }
        Stmt::Import(x) => { lemma_step_import_bind(x.names@, x.names@.len() as int, true, m, vline(li, r_start(x.range)), k);
            lemma_step_ext(m, r, k, at_line(import_binds_at(x.names@, x.names@.len() as int, true, k), vline(li, r_start(x.range))), g); }
        Stmt::ImportFrom(x) => { lemma_step_import_bind(x.names@, x.names@.len() as int, false, m, vline(li, r_start(x.range)), k);
            lemma_step_ext(m, r, k, at_line(import_binds_at(x.names@, x.names@.len() as int, false, k), vline(li, r_start(x.range))), g); }
        Stmt::FunctionDef(x) => { lemma_step_min_bind(m, idv(&x.name), vline(li, r_start(x.range)), k);
            lemma_step_ext(m, r, k, at_line(idv(&x.name) == k, vline(li, r_start(x.range))), g); }
        Stmt::AsyncFunctionDef(x) => { lemma_step_min_bind(m, idv(&x.name), vline(li, r_start(x.range)), k);
            lemma_step_ext(m, r, k, at_line(idv(&x.name) == k, vline(li, r_start(x.range))), g); }
        Stmt::ClassDef(x) => { lemma_step_min_bind(m, idv(&x.name), vline(li, r_start(x.range)), k);
            lemma_step_ext(m, r, k, at_line(idv(&x.name) == k, vline(li, r_start(x.range))), g); }
        _ => { lemma_step_none(m, k); lemma_step_ext(m, m, k, at_line(false, 0), g); }
    }
}
//@tags C17
pub proof fn lemma_step_body(b: Seq<Stmt>, n: int, li: Seq<usize>, m: Map<Seq<char>, usize>, k: Seq<char>)
    ensures step_ok(m, locals_body(b, n, li, m), k, at_body(b, n, li, k)),
    decreases b, n
{
    if 0 < n <= b.len() {
        let m1 = locals_body(b, n - 1, li, m);
        lemma_step_body(b, n - 1, li, m, k);
        lemma_step_stmt(b[n - 1], li, m1, k);
        lemma_step_seq(m, m1, locals_body(b, n, li, m), k, at_body(b, n - 1, li, k), at_stmt(b[n - 1], li, k));
        lemma_step_ext(m, locals_body(b, n, li, m), k, or_fn(at_body(b, n - 1, li, k), at_stmt(b[n - 1], li, k)), at_body(b, n, li, k));
    } else { lemma_step_none(m, k); lemma_step_ext(m, m, k, at_line(false, 0), at_body(b, n, li, k)); }
}
//@tags C17
pub proof fn lemma_step_handlers(hs: Seq<AHandler>, n: int, li: Seq<usize>, m: Map<Seq<char>, usize>, k: Seq<char>)
    ensures step_ok(m, locals_handlers(hs, n, li, m), k, at_handlers(hs, n, li, k)),
    decreases hs, n
{
    if 0 < n <= hs.len() {
        let m1 = locals_handlers(hs, n - 1, li, m);
        lemma_step_handlers(hs, n - 1, li, m, k);
        match hs[n - 1] {
            rustpython_parser::ast::ExceptHandler::ExceptHandler(h) => {
                let line = vline(li, r_start(h.range));
                let m2 = handler_name_bind(h.name, m1, line);
                let r = locals_handlers(hs, n, li, m);
                let a0 = at_handlers(hs, n - 1, li, k);
                let a1 = at_line(handler_binds_at(h.name, k), line);
                let a2 = at_body(h.body@, h.body@.len() as int, li, k);
                match h.name {
                    Some(i) => { lemma_step_min_bind(m1, idv(&i), line, k); lemma_step_ext(m1, m2, k, at_line(idv(&i) == k, line), a1); }
                    None => { lemma_step_none(m1, k); lemma_step_ext(m1, m1, k, at_line(false, 0), a1); }
                }
                lemma_step_body(h.body@, h.body@.len() as int, li, m2, k);
                lemma_step_seq(m, m1, m2, k, a0, a1);
                lemma_step_seq(m, m2, r, k, or_fn(a0, a1), a2);
                lemma_step_ext(m, r, k, or_fn(or_fn(a0, a1), a2), at_handlers(hs, n, li, k));
            }
        }
    } else { lemma_step_none(m, k); lemma_step_ext(m, m, k, at_line(false, 0), at_handlers(hs, n, li, k)); }
}
/// C17.a (locals) -- THE precision clause of the property: a name bound by ANY recorded binder kind (binds_at_stmt:
/// assignment / annotated / augmented assignment, for target, with `as`, `except .. as`, import / from-import, nested
/// def / async def / class -- at the top level of the body or nested in if / for / while / with / try blocks) on a
/// line STRICTLY BEFORE the line of the use is never flagged -- however often, and wherever, the name is bound again
//@tags C17
pub proof fn lemma_C17_a_earlier_binding_protects(body: Seq<Stmt>, l: usize, file: PV, li: Seq<usize>, declared: Set<Seq<char>>, fname: Seq<char>,
        fline: usize, defs: Map<Seq<char>, Seq<DefV>>, imps: Set<Seq<char>>, n: AExprName)
    requires binds_at_body(body, body.len() as int, li, idv(&n.id), l), l < vline(li, r_start(n.range)),
    ensures !name_flag(n, fn_ctx(body, file, li, declared, fname, fline, defs, imps)),
        scan_expr(Expr::Name(n), fn_ctx(body, file, li, declared, fname, fline, defs, imps)) == Seq::<UndV>::empty(),
{
    lemma_step_body(body, body.len() as int, li, Map::empty(), idv(&n.id));
    assert(at_body(body, body.len() as int, li, idv(&n.id))(l));
}
/// ... and EXACTLY those: a use of k at line `line` is treated as a local in scope iff k is a module-level name of the
/// file (line >= 1) or some recorded binder of k sits on a line < `line`
//@tags C17
pub proof fn lemma_C17_a_in_scope_iff(body: Seq<Stmt>, li: Seq<usize>, imps: Set<Seq<char>>, k: Seq<char>, line: usize)
    ensures local_in_scope(fn_locals(body, li, imps), k, line) <==>
        (if imps.contains(k) { 0 < line } else { exists|l: usize| #[trigger] binds_at_body(body, body.len() as int, li, k, l) && l < line }),
{
    lemma_step_body(body, body.len() as int, li, Map::empty(), k);
    let r = locals_body(body, body.len() as int, li, Map::empty());
    let g = at_body(body, body.len() as int, li, k);
    if !imps.contains(k) {
        if local_in_scope(fn_locals(body, li, imps), k, line) { assert(g(r[k])); assert(binds_at_body(body, body.len() as int, li, k, r[k])); }
        if exists|l: usize| #[trigger] binds_at_body(body, body.len() as int, li, k, l) && l < line {
            let l = choose|l: usize| #[trigger] binds_at_body(body, body.len() as int, li, k, l) && l < line;
            assert(g(l));
        }
    }
}
/// a statement at position i of a block is "in" the block (binds_at_body is "some statement of the list")
//@tags C17
pub proof fn lemma_binds_at_body_at(b: Seq<Stmt>, n: int, i: int, li: Seq<usize>, k: Seq<char>, l: usize)
    requires 0 <= i < n <= b.len(), binds_at_stmt(b[i], li, k, l),
    ensures binds_at_body(b, n, li, k, l),
    decreases n
{
    if i < n - 1 { lemma_binds_at_body_at(b, n - 1, i, li, k, l); }
}

// ---- (b) completeness for the plain uses the scanner visits -----------------------------------------------------
/// the Name node n occurs in e as a PLAIN USE: e itself, a call target, positional, keyword (`f(x=n)`, `f(**n)`) or
/// starred (`f(*n)`) argument, an attribute base, a binary / unary / boolean (`and`, `or`) operand, an operand of a
/// conditional expression (`a if c else b`: all three), a comparison operand, a subscript value or index, a slice
/// bound (`x[a:b:c]`), a list / tuple / set element, a dict key or value, an await operand -- nested to any depth
/// through these forms only
pub open spec fn plain_in_expr(e: Expr, n: AExprName) -> bool
    decreases e, 0int
{
    match e {
        Expr::Name(x) => x == n,
        Expr::Call(x) => plain_in_expr(*x.func, n) || plain_in_exprs(x.args@, x.args@.len() as int, n) || plain_in_kws(x.keywords@, x.keywords@.len() as int, n),
        Expr::Starred(x) => plain_in_expr(*x.value, n),
        Expr::BoolOp(x) => plain_in_exprs(x.values@, x.values@.len() as int, n),
        Expr::IfExp(x) => plain_in_expr(*x.test, n) || plain_in_expr(*x.body, n) || plain_in_expr(*x.orelse, n),
        Expr::Set(x) => plain_in_exprs(x.elts@, x.elts@.len() as int, n),
        Expr::Slice(x) => (match x.lower { Some(b) => plain_in_expr(*b, n), None => false })
            || (match x.upper { Some(b) => plain_in_expr(*b, n), None => false })
            || (match x.step { Some(b) => plain_in_expr(*b, n), None => false }),
        Expr::Attribute(x) => plain_in_expr(*x.value, n),
        Expr::BinOp(x) => plain_in_expr(*x.left, n) || plain_in_expr(*x.right, n),
        Expr::UnaryOp(x) => plain_in_expr(*x.operand, n),
        Expr::Compare(x) => plain_in_expr(*x.left, n) || plain_in_exprs(x.comparators@, x.comparators@.len() as int, n),
        Expr::Subscript(x) => plain_in_expr(*x.value, n) || plain_in_expr(*x.slice, n),
        Expr::List(x) => plain_in_exprs(x.elts@, x.elts@.len() as int, n),
        Expr::Tuple(x) => plain_in_exprs(x.elts@, x.elts@.len() as int, n),
        Expr::Dict(x) => plain_in_keys(x.keys@, x.keys@.len() as int, n) || plain_in_exprs(x.values@, x.values@.len() as int, n),
        Expr::Await(x) => plain_in_expr(*x.value, n),
        _ => false,
    }
}
pub open spec fn plain_in_exprs(es: Seq<Expr>, k: int, n: AExprName) -> bool
    decreases es, k
{
    if k <= 0 || k > es.len() { false } else { plain_in_exprs(es, k - 1, n) || plain_in_expr(es[k - 1], n) }
}
pub open spec fn plain_in_kws(ks: Seq<AKeyword>, k: int, n: AExprName) -> bool
    decreases ks, k
{
    if k <= 0 || k > ks.len() { false } else { plain_in_kws(ks, k - 1, n) || plain_in_expr(ks[k - 1].value, n) }
}
pub open spec fn plain_in_keys(ks: Seq<Option<Expr>>, k: int, n: AExprName) -> bool
    decreases ks, k
{
    if k <= 0 || k > ks.len() { false } else {
        plain_in_keys(ks, k - 1, n) || (match ks[k - 1] { Some(e) => plain_in_expr(e, n), None => false })
    }
}
pub open spec fn plain_in_items(items: Seq<AWithItem>, k: int, n: AExprName) -> bool
    decreases k
{
    if k <= 0 || k > items.len() { false } else { plain_in_items(items, k - 1, n) || plain_in_expr(items[k - 1].context_expr, n) }
}
pub open spec fn plain_in_opt(o: Option<Box<Expr>>, n: AExprName) -> bool {
    match o { Some(b) => plain_in_expr(*b, n), None => false }
}
/// ... in an ORDINARY STATEMENT: an expression statement, the value of an assignment / augmented / annotated
/// assignment, a returned value, a raised exception or its cause, the test of if / while / assert (and the assert
/// message), the iterable of a for, the context expression of a with, and -- recursively -- the statements of if / for /
/// while bodies and else-branches, with bodies, try bodies, except-handler bodies, try-else and finally blocks
pub open spec fn plain_in_stmt(s: Stmt, n: AExprName) -> bool
    decreases s, 0int
{
    match s {
        Stmt::Expr(x) => plain_in_expr(*x.value, n),
        Stmt::Assign(x) => plain_in_expr(*x.value, n),
        Stmt::AugAssign(x) => plain_in_expr(*x.value, n),
        Stmt::AnnAssign(x) => plain_in_opt(x.value, n),
        Stmt::Raise(x) => plain_in_opt(x.exc, n) || plain_in_opt(x.cause, n),
        Stmt::Try(x) => plain_in_body(x.body@, x.body@.len() as int, n) || plain_in_handlers(x.handlers@, x.handlers@.len() as int, n)
            || plain_in_body(x.orelse@, x.orelse@.len() as int, n) || plain_in_body(x.finalbody@, x.finalbody@.len() as int, n),
        Stmt::Return(x) => plain_in_opt(x.value, n),
        Stmt::If(x) => plain_in_expr(*x.test, n) || plain_in_body(x.body@, x.body@.len() as int, n) || plain_in_body(x.orelse@, x.orelse@.len() as int, n),
        Stmt::While(x) => plain_in_expr(*x.test, n) || plain_in_body(x.body@, x.body@.len() as int, n) || plain_in_body(x.orelse@, x.orelse@.len() as int, n),
        Stmt::For(x) => plain_in_expr(*x.iter, n) || plain_in_body(x.body@, x.body@.len() as int, n) || plain_in_body(x.orelse@, x.orelse@.len() as int, n),
        Stmt::With(x) => plain_in_items(x.items@, x.items@.len() as int, n) || plain_in_body(x.body@, x.body@.len() as int, n),
        Stmt::AsyncFor(x) => plain_in_expr(*x.iter, n) || plain_in_body(x.body@, x.body@.len() as int, n) || plain_in_body(x.orelse@, x.orelse@.len() as int, n),
        Stmt::AsyncWith(x) => plain_in_items(x.items@, x.items@.len() as int, n) || plain_in_body(x.body@, x.body@.len() as int, n),
        Stmt::Assert(x) => plain_in_expr(*x.test, n) || plain_in_opt(x.msg, n),
        _ => false,
    }
}
pub open spec fn plain_in_body(b: Seq<Stmt>, k: int, n: AExprName) -> bool
    decreases b, k
{
    if k <= 0 || k > b.len() { false } else { plain_in_body(b, k - 1, n) || plain_in_stmt(b[k - 1], n) }
}
pub open spec fn plain_in_handlers(hs: Seq<AHandler>, k: int, n: AExprName) -> bool
    decreases hs, k
{
    if k <= 0 || k > hs.len() { false } else {
        plain_in_handlers(hs, k - 1, n) || (match hs[k - 1] { rustpython_parser::ast::ExceptHandler::ExceptHandler(h) => plain_in_body(h.body@, h.body@.len() as int, n) })
    }
}
pub open spec fn has(s: Seq<UndV>, u: UndV) -> bool { exists|i: int| 0 <= i < s.len() && s[i] == u }
//@tags C17
pub proof fn lemma_has_concat(a: Seq<UndV>, b: Seq<UndV>, u: UndV)
    ensures has(a, u) ==> has(a + b, u), has(b, u) ==> has(a + b, u),
{
    if has(a, u) { let i = choose|i: int| 0 <= i < a.len() && a[i] == u; assert((a + b)[i] == u); }
    if has(b, u) { let i = choose|i: int| 0 <= i < b.len() && b[i] == u; assert((a + b)[a.len() + i] == u); }
}
//@tags C17
pub proof fn lemma_has3(a: Seq<UndV>, b: Seq<UndV>, d: Seq<UndV>, u: UndV)
    ensures has(a, u) || has(b, u) || has(d, u) ==> has(a + b + d, u),
{
    lemma_has_concat(a, b, u); lemma_has_concat(a + b, d, u);
}
//@tags C17
pub proof fn lemma_plain_opt_flagged(o: Option<Box<Expr>>, n: AExprName, c: ScanV)
    requires plain_in_opt(o, n), name_flag(n, c),
    ensures has(scan_opt(o, c), name_entry(n, c)),
{
    match o { Some(b) => { lemma_plain_expr_flagged(*b, n, c); } None => {} }
}
//@tags C17
pub proof fn lemma_plain_expr_flagged(e: Expr, n: AExprName, c: ScanV)
    requires plain_in_expr(e, n), name_flag(n, c),
    ensures has(scan_expr(e, c), name_entry(n, c)),
    decreases e, 0int
{
    let u = name_entry(n, c);
    match e {
        Expr::Name(x) => { assert(scan_expr(e, c)[0] == u); }
        Expr::Call(x) => {
            if plain_in_expr(*x.func, n) { lemma_plain_expr_flagged(*x.func, n, c); }
            else if plain_in_exprs(x.args@, x.args@.len() as int, n) { lemma_plain_exprs_flagged(x.args@, x.args@.len() as int, n, c); }
            else { lemma_plain_kws_flagged(x.keywords@, x.keywords@.len() as int, n, c); }
            lemma_has3(scan_expr(*x.func, c), scan_exprs(x.args@, x.args@.len() as int, c), scan_kws(x.keywords@, x.keywords@.len() as int, c), u);
        }
        Expr::Starred(x) => { lemma_plain_expr_flagged(*x.value, n, c); }
        Expr::BoolOp(x) => { lemma_plain_exprs_flagged(x.values@, x.values@.len() as int, n, c); }
        Expr::IfExp(x) => {
            if plain_in_expr(*x.test, n) { lemma_plain_expr_flagged(*x.test, n, c); }
            else if plain_in_expr(*x.body, n) { lemma_plain_expr_flagged(*x.body, n, c); }
            else { lemma_plain_expr_flagged(*x.orelse, n, c); }
            lemma_has3(scan_expr(*x.test, c), scan_expr(*x.body, c), scan_expr(*x.orelse, c), u);
        }
        Expr::Set(x) => { lemma_plain_exprs_flagged(x.elts@, x.elts@.len() as int, n, c); }
        Expr::Slice(x) => {
            let a = match x.lower { Some(b) => scan_expr(*b, c), None => Seq::<UndV>::empty() };
            let b2 = match x.upper { Some(b) => scan_expr(*b, c), None => Seq::<UndV>::empty() };
            let d = match x.step { Some(b) => scan_expr(*b, c), None => Seq::<UndV>::empty() };
            if (match x.lower { Some(b) => plain_in_expr(*b, n), None => false }) { match x.lower { Some(b) => { lemma_plain_expr_flagged(*b, n, c); } None => {} } }
            else if (match x.upper { Some(b) => plain_in_expr(*b, n), None => false }) { match x.upper { Some(b) => { lemma_plain_expr_flagged(*b, n, c); } None => {} } }
            else { match x.step { Some(b) => { lemma_plain_expr_flagged(*b, n, c); } None => {} } }
            lemma_has3(a, b2, d, u);
        }
        Expr::Attribute(x) => { lemma_plain_expr_flagged(*x.value, n, c); }
        Expr::BinOp(x) => {
            if plain_in_expr(*x.left, n) { lemma_plain_expr_flagged(*x.left, n, c); } else { lemma_plain_expr_flagged(*x.right, n, c); }
            lemma_has_concat(scan_expr(*x.left, c), scan_expr(*x.right, c), u);
        }
        Expr::UnaryOp(x) => { lemma_plain_expr_flagged(*x.operand, n, c); }
        Expr::Compare(x) => {
            if plain_in_expr(*x.left, n) { lemma_plain_expr_flagged(*x.left, n, c); } else { lemma_plain_exprs_flagged(x.comparators@, x.comparators@.len() as int, n, c); }
            lemma_has_concat(scan_expr(*x.left, c), scan_exprs(x.comparators@, x.comparators@.len() as int, c), u);
        }
        Expr::Subscript(x) => {
            if plain_in_expr(*x.value, n) { lemma_plain_expr_flagged(*x.value, n, c); } else { lemma_plain_expr_flagged(*x.slice, n, c); }
            lemma_has_concat(scan_expr(*x.value, c), scan_expr(*x.slice, c), u);
        }
        Expr::List(x) => { lemma_plain_exprs_flagged(x.elts@, x.elts@.len() as int, n, c); }
        Expr::Tuple(x) => { lemma_plain_exprs_flagged(x.elts@, x.elts@.len() as int, n, c); }
        Expr::Dict(x) => {
            if plain_in_keys(x.keys@, x.keys@.len() as int, n) { lemma_plain_keys_flagged(x.keys@, x.keys@.len() as int, n, c); }
            else { lemma_plain_exprs_flagged(x.values@, x.values@.len() as int, n, c); }
            lemma_has_concat(scan_keys(x.keys@, x.keys@.len() as int, c), scan_exprs(x.values@, x.values@.len() as int, c), u);
        }
        Expr::Await(x) => { lemma_plain_expr_flagged(*x.value, n, c); }
        _ => {}
    }
}
//@tags C17
pub proof fn lemma_plain_kws_flagged(ks: Seq<AKeyword>, k: int, n: AExprName, c: ScanV)
    requires plain_in_kws(ks, k, n), name_flag(n, c),
    ensures has(scan_kws(ks, k, c), name_entry(n, c)),
    decreases ks, k
{
    if plain_in_kws(ks, k - 1, n) { lemma_plain_kws_flagged(ks, k - 1, n, c); } else { lemma_plain_expr_flagged(ks[k - 1].value, n, c); }
    lemma_has_concat(scan_kws(ks, k - 1, c), scan_expr(ks[k - 1].value, c), name_entry(n, c));
}
//@tags C17
pub proof fn lemma_plain_exprs_flagged(es: Seq<Expr>, k: int, n: AExprName, c: ScanV)
    requires plain_in_exprs(es, k, n), name_flag(n, c),
    ensures has(scan_exprs(es, k, c), name_entry(n, c)),
    decreases es, k
{
    if plain_in_exprs(es, k - 1, n) { lemma_plain_exprs_flagged(es, k - 1, n, c); } else { lemma_plain_expr_flagged(es[k - 1], n, c); }
    lemma_has_concat(scan_exprs(es, k - 1, c), scan_expr(es[k - 1], c), name_entry(n, c));
}
//@tags C17
pub proof fn lemma_plain_keys_flagged(ks: Seq<Option<Expr>>, k: int, n: AExprName, c: ScanV)
    requires plain_in_keys(ks, k, n), name_flag(n, c),
    ensures has(scan_keys(ks, k, c), name_entry(n, c)),
    decreases ks, k
{
    let last = match ks[k - 1] { Some(e) => scan_expr(e, c), None => Seq::<UndV>::empty() };
    if plain_in_keys(ks, k - 1, n) { lemma_plain_keys_flagged(ks, k - 1, n, c); }
    else { match ks[k - 1] { Some(e) => { lemma_plain_expr_flagged(e, n, c); } None => {} } }
    lemma_has_concat(scan_keys(ks, k - 1, c), last, name_entry(n, c));
}
//@tags C17
pub proof fn lemma_plain_items_flagged(items: Seq<AWithItem>, k: int, n: AExprName, c: ScanV)
    requires plain_in_items(items, k, n), name_flag(n, c),
    ensures has(scan_items(items, k, c), name_entry(n, c)),
    decreases k
{
    if plain_in_items(items, k - 1, n) { lemma_plain_items_flagged(items, k - 1, n, c); } else { lemma_plain_expr_flagged(items[k - 1].context_expr, n, c); }
    lemma_has_concat(scan_items(items, k - 1, c), scan_expr(items[k - 1].context_expr, c), name_entry(n, c));
}
//@tags C17
pub proof fn lemma_plain_stmt_flagged(s: Stmt, n: AExprName, c: ScanV)
    requires plain_in_stmt(s, n), name_flag(n, c),
    ensures has(scan_stmt(s, c), name_entry(n, c)),
    decreases s, 0int
{
    let u = name_entry(n, c);
    match s {
        Stmt::Expr(x) => { lemma_plain_expr_flagged(*x.value, n, c); }
        Stmt::Assign(x) => { lemma_plain_expr_flagged(*x.value, n, c); }
        Stmt::AugAssign(x) => { lemma_plain_expr_flagged(*x.value, n, c); }
        Stmt::AnnAssign(x) => { lemma_plain_opt_flagged(x.value, n, c); }
        Stmt::Raise(x) => {
            if plain_in_opt(x.exc, n) { lemma_plain_opt_flagged(x.exc, n, c); } else { lemma_plain_opt_flagged(x.cause, n, c); }
            lemma_has_concat(scan_opt(x.exc, c), scan_opt(x.cause, c), u);
        }
        Stmt::Try(x) => {
            let a = scan_body(x.body@, x.body@.len() as int, c); let b = scan_handlers(x.handlers@, x.handlers@.len() as int, c);
            let d = scan_body(x.orelse@, x.orelse@.len() as int, c); let e = scan_body(x.finalbody@, x.finalbody@.len() as int, c);
            if plain_in_body(x.body@, x.body@.len() as int, n) { lemma_plain_body_flagged(x.body@, x.body@.len() as int, n, c); }
            else if plain_in_handlers(x.handlers@, x.handlers@.len() as int, n) { lemma_plain_handlers_flagged(x.handlers@, x.handlers@.len() as int, n, c); }
            else if plain_in_body(x.orelse@, x.orelse@.len() as int, n) { lemma_plain_body_flagged(x.orelse@, x.orelse@.len() as int, n, c); }
            else { lemma_plain_body_flagged(x.finalbody@, x.finalbody@.len() as int, n, c); }
            lemma_has3(a, b, d, u); lemma_has_concat(a + b + d, e, u);
        }
        Stmt::Return(x) => { lemma_plain_opt_flagged(x.value, n, c); }
        Stmt::If(x) => {
            if plain_in_expr(*x.test, n) { lemma_plain_expr_flagged(*x.test, n, c); }
            else if plain_in_body(x.body@, x.body@.len() as int, n) { lemma_plain_body_flagged(x.body@, x.body@.len() as int, n, c); }
            else { lemma_plain_body_flagged(x.orelse@, x.orelse@.len() as int, n, c); }
            lemma_has3(scan_expr(*x.test, c), scan_body(x.body@, x.body@.len() as int, c), scan_body(x.orelse@, x.orelse@.len() as int, c), u);
        }
        Stmt::While(x) => {
            if plain_in_expr(*x.test, n) { lemma_plain_expr_flagged(*x.test, n, c); }
            else if plain_in_body(x.body@, x.body@.len() as int, n) { lemma_plain_body_flagged(x.body@, x.body@.len() as int, n, c); }
            else { lemma_plain_body_flagged(x.orelse@, x.orelse@.len() as int, n, c); }
            lemma_has3(scan_expr(*x.test, c), scan_body(x.body@, x.body@.len() as int, c), scan_body(x.orelse@, x.orelse@.len() as int, c), u);
        }
        Stmt::For(x) => {
            if plain_in_expr(*x.iter, n) { lemma_plain_expr_flagged(*x.iter, n, c); }
            else if plain_in_body(x.body@, x.body@.len() as int, n) { lemma_plain_body_flagged(x.body@, x.body@.len() as int, n, c); }
            else { lemma_plain_body_flagged(x.orelse@, x.orelse@.len() as int, n, c); }
            lemma_has3(scan_expr(*x.iter, c), scan_body(x.body@, x.body@.len() as int, c), scan_body(x.orelse@, x.orelse@.len() as int, c), u);
        }
        Stmt::With(x) => {
            if plain_in_items(x.items@, x.items@.len() as int, n) { lemma_plain_items_flagged(x.items@, x.items@.len() as int, n, c); } else { lemma_plain_body_flagged(x.body@, x.body@.len() as int, n, c); }
            lemma_has_concat(scan_items(x.items@, x.items@.len() as int, c), scan_body(x.body@, x.body@.len() as int, c), u);
        }
        Stmt::AsyncFor(x) => {
            if plain_in_expr(*x.iter, n) { lemma_plain_expr_flagged(*x.iter, n, c); }
            else if plain_in_body(x.body@, x.body@.len() as int, n) { lemma_plain_body_flagged(x.body@, x.body@.len() as int, n, c); }
            else { lemma_plain_body_flagged(x.orelse@, x.orelse@.len() as int, n, c); }
            lemma_has3(scan_expr(*x.iter, c), scan_body(x.body@, x.body@.len() as int, c), scan_body(x.orelse@, x.orelse@.len() as int, c), u);
        }
        Stmt::AsyncWith(x) => {
            if plain_in_items(x.items@, x.items@.len() as int, n) { lemma_plain_items_flagged(x.items@, x.items@.len() as int, n, c); } else { lemma_plain_body_flagged(x.body@, x.body@.len() as int, n, c); }
            lemma_has_concat(scan_items(x.items@, x.items@.len() as int, c), scan_body(x.body@, x.body@.len() as int, c), u);
        }
        Stmt::Assert(x) => {
            if plain_in_expr(*x.test, n) { lemma_plain_expr_flagged(*x.test, n, c); } else { lemma_plain_opt_flagged(x.msg, n, c); }
            lemma_has_concat(scan_expr(*x.test, c), scan_opt(x.msg, c), u);
        }
        _ => {}
    }
}
//@tags C17
pub proof fn lemma_plain_handlers_flagged(hs: Seq<AHandler>, k: int, n: AExprName, c: ScanV)
    requires plain_in_handlers(hs, k, n), name_flag(n, c),
    ensures has(scan_handlers(hs, k, c), name_entry(n, c)),
    decreases hs, k
{
    match hs[k - 1] {
        rustpython_parser::ast::ExceptHandler::ExceptHandler(h) => {
            if plain_in_handlers(hs, k - 1, n) { lemma_plain_handlers_flagged(hs, k - 1, n, c); } else { lemma_plain_body_flagged(h.body@, h.body@.len() as int, n, c); }
            lemma_has_concat(scan_handlers(hs, k - 1, c), scan_body(h.body@, h.body@.len() as int, c), name_entry(n, c));
        }
    }
}
//@tags C17
pub proof fn lemma_plain_body_flagged(b: Seq<Stmt>, k: int, n: AExprName, c: ScanV)
    requires plain_in_body(b, k, n), name_flag(n, c),
    ensures has(scan_body(b, k, c), name_entry(n, c)),
    decreases b, k
{
    if plain_in_body(b, k - 1, n) { lemma_plain_body_flagged(b, k - 1, n, c); } else { lemma_plain_stmt_flagged(b[k - 1], n, c); }
    lemma_has_concat(scan_body(b, k - 1, c), scan_stmt(b[k - 1], c), name_entry(n, c));
}
/// C17.b -- completeness: a Name that occurs as a plain use (plain_in_*) in the body of a scanned function, is not a
/// declared parameter, is not recorded as a local bound on an earlier line (lemma_C17_a_in_scope_iff: it is not a
/// module-level name and no recorded binder of it sits on an earlier line) and
/// carries a fixture visible from the file IS flagged, with exactly: line = line of range.start, start_char = column
/// of range.start, end_char = column of range.end (byte columns of the line index, C15), the file, the function's
/// name and the function's line
//@tags C17
pub proof fn lemma_C17_b_plain_use_flagged(body: Seq<Stmt>, file: PV, li: Seq<usize>, declared: Set<Seq<char>>, fname: Seq<char>, fline: usize,
                                          defs: Map<Seq<char>, Seq<DefV>>, imps: Set<Seq<char>>, n: AExprName)
    requires plain_in_body(body, body.len() as int, n),
        !declared.contains(idv(&n.id)),
        !local_in_scope(fn_locals(body, li, imps), idv(&n.id), vline(li, r_start(n.range))),
        op_is_available(bucket(defs, idv(&n.id)), file),
    ensures has(scan_fn(body, file, li, declared, fname, fline, defs, imps),
        UndV { name: idv(&n.id), file, line: op_line(ints(li), r_start(n.range) as int) as usize,
               start_char: op_col(ints(li), r_start(n.range) as int) as usize, end_char: op_col(ints(li), r_end(n.range) as int) as usize,
               function_name: fname, function_line: fline }),
{
    let c = fn_ctx(body, file, li, declared, fname, fline, defs, imps);
    lemma_plain_body_flagged(body, body.len() as int, n, c);
}
/// the same, with "not a local in scope" spelled out: not a module-level name, and every recorded binder of the
/// name in the body sits on the line of the use or later
//@tags C17
pub proof fn lemma_C17_b_plain_use_flagged_binders(body: Seq<Stmt>, file: PV, li: Seq<usize>, declared: Set<Seq<char>>, fname: Seq<char>, fline: usize,
                                          defs: Map<Seq<char>, Seq<DefV>>, imps: Set<Seq<char>>, n: AExprName)
    requires plain_in_body(body, body.len() as int, n),
        !declared.contains(idv(&n.id)), !imps.contains(idv(&n.id)),
        forall|l: usize| #[trigger] binds_at_body(body, body.len() as int, li, idv(&n.id), l) ==> l >= vline(li, r_start(n.range)),
        op_is_available(bucket(defs, idv(&n.id)), file),
    ensures has(scan_fn(body, file, li, declared, fname, fline, defs, imps), name_entry(n, fn_ctx(body, file, li, declared, fname, fline, defs, imps))),
{
    lemma_C17_a_in_scope_iff(body, li, imps, idv(&n.id), vline(li, r_start(n.range)));
    lemma_C17_b_plain_use_flagged(body, file, li, declared, fname, fline, defs, imps, n);
}
/// the forms of the property text one by one (each is an instance of plain_in_expr; `e` may itself sit anywhere a
/// plain use may sit): call target, positional / keyword / starred argument, attribute base, arithmetic / boolean /
/// conditional / comparison operands, subscript and slice bounds, collection elements
//@tags C17
pub proof fn lemma_C17_b_forms(e: Expr, n: AExprName, i: int)
    ensures
        match e {
            Expr::Call(x) => (*x.func == Expr::Name(n) ==> plain_in_expr(e, n))
                && (0 <= i < x.args@.len() && x.args@[i] == Expr::Name(n) ==> plain_in_expr(e, n))
                && (0 <= i < x.keywords@.len() && x.keywords@[i].value == Expr::Name(n) ==> plain_in_expr(e, n)),
            Expr::Starred(x) => *x.value == Expr::Name(n) ==> plain_in_expr(e, n),
            Expr::BoolOp(x) => 0 <= i < x.values@.len() && x.values@[i] == Expr::Name(n) ==> plain_in_expr(e, n),
            Expr::IfExp(x) => *x.test == Expr::Name(n) || *x.body == Expr::Name(n) || *x.orelse == Expr::Name(n) ==> plain_in_expr(e, n),
            Expr::Set(x) => 0 <= i < x.elts@.len() && x.elts@[i] == Expr::Name(n) ==> plain_in_expr(e, n),
            Expr::Slice(x) => x.lower == Some(Box::new(Expr::Name(n))) || x.upper == Some(Box::new(Expr::Name(n))) || x.step == Some(Box::new(Expr::Name(n))) ==> plain_in_expr(e, n),
            Expr::Attribute(x) => *x.value == Expr::Name(n) ==> plain_in_expr(e, n),
            Expr::BinOp(x) => *x.left == Expr::Name(n) || *x.right == Expr::Name(n) ==> plain_in_expr(e, n),
            Expr::UnaryOp(x) => *x.operand == Expr::Name(n) ==> plain_in_expr(e, n),
            Expr::Compare(x) => (*x.left == Expr::Name(n) ==> plain_in_expr(e, n))
                && (0 <= i < x.comparators@.len() && x.comparators@[i] == Expr::Name(n) ==> plain_in_expr(e, n)),
            Expr::Subscript(x) => *x.value == Expr::Name(n) || *x.slice == Expr::Name(n) ==> plain_in_expr(e, n),
            Expr::List(x) => 0 <= i < x.elts@.len() && x.elts@[i] == Expr::Name(n) ==> plain_in_expr(e, n),
            Expr::Tuple(x) => 0 <= i < x.elts@.len() && x.elts@[i] == Expr::Name(n) ==> plain_in_expr(e, n),
            Expr::Dict(x) => (0 <= i < x.values@.len() && x.values@[i] == Expr::Name(n) ==> plain_in_expr(e, n))
                && (0 <= i < x.keys@.len() && x.keys@[i] == Some(Expr::Name(n)) ==> plain_in_expr(e, n)),
            Expr::Await(x) => *x.value == Expr::Name(n) ==> plain_in_expr(e, n),
            _ => true,
        },
{
    assert(plain_in_expr(Expr::Name(n), n));
    match e {
        Expr::Call(x) => {
            if 0 <= i < x.args@.len() && x.args@[i] == Expr::Name(n) { lemma_plain_exprs_at(x.args@, x.args@.len() as int, i, n); }
            if 0 <= i < x.keywords@.len() && x.keywords@[i].value == Expr::Name(n) { lemma_plain_kws_at(x.keywords@, x.keywords@.len() as int, i, n); }
        }
        Expr::BoolOp(x) => { if 0 <= i < x.values@.len() && x.values@[i] == Expr::Name(n) { lemma_plain_exprs_at(x.values@, x.values@.len() as int, i, n); } }
        Expr::Set(x) => { if 0 <= i < x.elts@.len() && x.elts@[i] == Expr::Name(n) { lemma_plain_exprs_at(x.elts@, x.elts@.len() as int, i, n); } }
        Expr::Compare(x) => { if 0 <= i < x.comparators@.len() && x.comparators@[i] == Expr::Name(n) { lemma_plain_exprs_at(x.comparators@, x.comparators@.len() as int, i, n); } }
        Expr::List(x) => { if 0 <= i < x.elts@.len() && x.elts@[i] == Expr::Name(n) { lemma_plain_exprs_at(x.elts@, x.elts@.len() as int, i, n); } }
        Expr::Tuple(x) => { if 0 <= i < x.elts@.len() && x.elts@[i] == Expr::Name(n) { lemma_plain_exprs_at(x.elts@, x.elts@.len() as int, i, n); } }
        Expr::Dict(x) => {
            if 0 <= i < x.values@.len() && x.values@[i] == Expr::Name(n) { lemma_plain_exprs_at(x.values@, x.values@.len() as int, i, n); }
            if 0 <= i < x.keys@.len() && x.keys@[i] == Some(Expr::Name(n)) { lemma_plain_keys_at(x.keys@, x.keys@.len() as int, i, n); }
        }
        _ => {}
    }
}
//@tags C17
pub proof fn lemma_plain_kws_at(ks: Seq<AKeyword>, k: int, i: int, n: AExprName)
    requires 0 <= i < k <= ks.len(), plain_in_expr(ks[i].value, n),
    ensures plain_in_kws(ks, k, n),
    decreases k
{
    if i < k - 1 { lemma_plain_kws_at(ks, k - 1, i, n); }
}
//@tags C17
pub proof fn lemma_plain_handlers_at(hs: Seq<AHandler>, k: int, i: int, n: AExprName)
    requires 0 <= i < k <= hs.len(), match hs[i] { rustpython_parser::ast::ExceptHandler::ExceptHandler(h) => plain_in_body(h.body@, h.body@.len() as int, n) },
    ensures plain_in_handlers(hs, k, n),
    decreases k
{
    if i < k - 1 { lemma_plain_handlers_at(hs, k - 1, i, n); }
}
/// ... and the statement positions that are new: a statement i of a try body, of the body of handler j, of the
/// try-else or finally block, of a loop's else-branch; a raised exception / cause; the value of an annotated assignment
//@tags C17
pub proof fn lemma_C17_b_stmt_forms(s: Stmt, n: AExprName, i: int, j: int)
    ensures
        match s {
            Stmt::Try(x) => (0 <= i < x.body@.len() && plain_in_stmt(x.body@[i], n) ==> plain_in_stmt(s, n))
                && (0 <= i < x.orelse@.len() && plain_in_stmt(x.orelse@[i], n) ==> plain_in_stmt(s, n))
                && (0 <= i < x.finalbody@.len() && plain_in_stmt(x.finalbody@[i], n) ==> plain_in_stmt(s, n))
                && (0 <= j < x.handlers@.len() && (match x.handlers@[j] { rustpython_parser::ast::ExceptHandler::ExceptHandler(h) =>
                        0 <= i < h.body@.len() && plain_in_stmt(h.body@[i], n) }) ==> plain_in_stmt(s, n)),
            Stmt::For(x) => 0 <= i < x.orelse@.len() && plain_in_stmt(x.orelse@[i], n) ==> plain_in_stmt(s, n),
            Stmt::AsyncFor(x) => 0 <= i < x.orelse@.len() && plain_in_stmt(x.orelse@[i], n) ==> plain_in_stmt(s, n),
            Stmt::While(x) => 0 <= i < x.orelse@.len() && plain_in_stmt(x.orelse@[i], n) ==> plain_in_stmt(s, n),
            Stmt::Raise(x) => plain_in_opt(x.exc, n) || plain_in_opt(x.cause, n) ==> plain_in_stmt(s, n),
            Stmt::AnnAssign(x) => plain_in_opt(x.value, n) ==> plain_in_stmt(s, n),
            _ => true,
        },
{
    match s {
        Stmt::Try(x) => {
            if 0 <= i < x.body@.len() && plain_in_stmt(x.body@[i], n) { lemma_plain_body_at(x.body@, x.body@.len() as int, i, n); }
            if 0 <= i < x.orelse@.len() && plain_in_stmt(x.orelse@[i], n) { lemma_plain_body_at(x.orelse@, x.orelse@.len() as int, i, n); }
            if 0 <= i < x.finalbody@.len() && plain_in_stmt(x.finalbody@[i], n) { lemma_plain_body_at(x.finalbody@, x.finalbody@.len() as int, i, n); }
            if 0 <= j < x.handlers@.len() {
                match x.handlers@[j] { rustpython_parser::ast::ExceptHandler::ExceptHandler(h) => {
                    if 0 <= i < h.body@.len() && plain_in_stmt(h.body@[i], n) {
                        lemma_plain_body_at(h.body@, h.body@.len() as int, i, n);
                        lemma_plain_handlers_at(x.handlers@, x.handlers@.len() as int, j, n);
                    }
                } }
            }
        }
        Stmt::For(x) => { if 0 <= i < x.orelse@.len() && plain_in_stmt(x.orelse@[i], n) { lemma_plain_body_at(x.orelse@, x.orelse@.len() as int, i, n); } }
        Stmt::AsyncFor(x) => { if 0 <= i < x.orelse@.len() && plain_in_stmt(x.orelse@[i], n) { lemma_plain_body_at(x.orelse@, x.orelse@.len() as int, i, n); } }
        Stmt::While(x) => { if 0 <= i < x.orelse@.len() && plain_in_stmt(x.orelse@[i], n) { lemma_plain_body_at(x.orelse@, x.orelse@.len() as int, i, n); } }
        _ => {}
    }
}
//@tags C17
pub proof fn lemma_plain_exprs_at(es: Seq<Expr>, k: int, i: int, n: AExprName)
    requires 0 <= i < k <= es.len(), plain_in_expr(es[i], n),
    ensures plain_in_exprs(es, k, n),
    decreases k
{
    if i < k - 1 { lemma_plain_exprs_at(es, k - 1, i, n); }
}
//@tags C17
pub proof fn lemma_plain_keys_at(ks: Seq<Option<Expr>>, k: int, i: int, n: AExprName)
    requires 0 <= i < k <= ks.len(), ks[i] is Some, plain_in_expr(ks[i]->0, n),
    ensures plain_in_keys(ks, k, n),
    decreases k
{
    if i < k - 1 { lemma_plain_keys_at(ks, k - 1, i, n); }
}
/// a statement of a body at any position (plain_in_body is "some statement of the list")
//@tags C17
pub proof fn lemma_plain_body_at(b: Seq<Stmt>, k: int, i: int, n: AExprName)
    requires 0 <= i < k <= b.len(), plain_in_stmt(b[i], n),
    ensures plain_in_body(b, k, n),
    decreases k
{
    if i < k - 1 { lemma_plain_body_at(b, k - 1, i, n); }
}

// ---- (c) what the scanner still does NOT visit / record (statements of fact) -------------------------------------
/// expression forms that record nothing and are not descended into, whatever they contain: walrus (`(y := fx)` --
/// neither the value is scanned nor the binding recorded), lambda, all comprehensions and generator expressions,
/// yield / yield from (`yield fx`), f-strings (`f"{fx}"`), constants
pub open spec fn unvisited_expr_form(e: Expr) -> bool {
    match e {
        Expr::NamedExpr(_) | Expr::Lambda(_) | Expr::ListComp(_) | Expr::SetComp(_) | Expr::DictComp(_) | Expr::GeneratorExp(_)
        | Expr::Yield(_) | Expr::YieldFrom(_) | Expr::FormattedValue(_) | Expr::JoinedStr(_) | Expr::Constant(_) => true,
        _ => false,
    }
}
//@tags C17
pub proof fn lemma_C17_c_expr_forms_not_visited(e: Expr, c: ScanV)
    requires unvisited_expr_form(e),
    ensures scan_expr(e, c) == Seq::<UndV>::empty(),
{
}
/// statement forms that record nothing, whatever they contain: nested function / class definitions (decorators,
/// defaults, bodies), del, type aliases, match (subject and case bodies), try*, imports, global / nonlocal, pass /
/// break / continue
pub open spec fn unvisited_stmt_form(s: Stmt) -> bool {
    match s {
        Stmt::FunctionDef(_) | Stmt::AsyncFunctionDef(_) | Stmt::ClassDef(_) | Stmt::Delete(_)
        | Stmt::TypeAlias(_) | Stmt::Match(_) | Stmt::TryStar(_) | Stmt::Import(_)
        | Stmt::ImportFrom(_) | Stmt::Global(_) | Stmt::Nonlocal(_) | Stmt::Pass(_) | Stmt::Break(_) | Stmt::Continue(_) => true,
        _ => false,
    }
}
//@tags C17
pub proof fn lemma_C17_c_stmt_forms_not_visited(s: Stmt, c: ScanV)
    requires unvisited_stmt_form(s),
    ensures scan_stmt(s, c) == Seq::<UndV>::empty(),
{
}
/// KNOWN FINDING F-17d, as a fact: the TARGETS of assignments are never looked at -- `fx.attr = 1`, `fx[0] = 1`,
/// `fx.attr += 1`, `fx.attr: int = 1` record what their VALUE records and nothing else (two statements that differ
/// only in their targets record the same findings) -- and `del fx.attr` / `del fx[0]` record nothing at all
//@tags C17
pub proof fn lemma_C17_c_F17d_target_bases_and_del_not_visited(a: Stmt, b: Stmt, c: ScanV)
    requires match (a, b) {
        (Stmt::Assign(x), Stmt::Assign(y)) => x.value == y.value,
        (Stmt::AugAssign(x), Stmt::AugAssign(y)) => x.value == y.value,
        (Stmt::AnnAssign(x), Stmt::AnnAssign(y)) => x.value == y.value,
        (Stmt::Delete(_), Stmt::Delete(_)) => true,
        _ => false,
    },
    ensures scan_stmt(a, c) == scan_stmt(b, c),
        a is Delete ==> scan_stmt(a, c) == Seq::<UndV>::empty(),
{
}
/// other parts of visited statements that are never looked at: the target of for loops, the `as` targets of with
/// items (lemma below), the TYPE expression of except handlers (`except fx.Error:`)
//@tags C17
pub proof fn lemma_C17_c_stmt_parts_not_visited(a: Stmt, b: Stmt, c: ScanV)
    requires match (a, b) {
        (Stmt::For(x), Stmt::For(y)) => x.iter == y.iter && x.body == y.body && x.orelse == y.orelse,
        (Stmt::AsyncFor(x), Stmt::AsyncFor(y)) => x.iter == y.iter && x.body == y.body && x.orelse == y.orelse,
        _ => false,
    },
    ensures scan_stmt(a, c) == scan_stmt(b, c),
{
}
//@tags C17
pub proof fn lemma_C17_c_handler_types_not_visited(a: Seq<AHandler>, b: Seq<AHandler>, k: int, c: ScanV)
    requires a.len() == b.len(), forall|i: int| 0 <= i < a.len() ==> (match (#[trigger] a[i], b[i]) {
        (rustpython_parser::ast::ExceptHandler::ExceptHandler(x), rustpython_parser::ast::ExceptHandler::ExceptHandler(y)) => x.body == y.body }),
    ensures scan_handlers(a, k, c) == scan_handlers(b, k, c),
    decreases k
{
    if 0 < k <= a.len() {
        lemma_C17_c_handler_types_not_visited(a, b, k - 1, c);
        match (a[k - 1], b[k - 1]) { (rustpython_parser::ast::ExceptHandler::ExceptHandler(x), rustpython_parser::ast::ExceptHandler::ExceptHandler(y)) => { assert(x.body == y.body); } }
    }
}
//@tags C17
pub proof fn lemma_C17_c_with_targets_not_visited(a: Seq<AWithItem>, b: Seq<AWithItem>, k: int, c: ScanV)
    requires a.len() == b.len(), forall|i: int| 0 <= i < a.len() ==> (#[trigger] a[i]).context_expr == b[i].context_expr,
    ensures scan_items(a, k, c) == scan_items(b, k, c),
    decreases k
{
    if 0 < k <= a.len() { lemma_C17_c_with_targets_not_visited(a, b, k - 1, c); assert(a[k - 1].context_expr == b[k - 1].context_expr); }
}
/// KNOWN FINDING F-17e, as a fact: bindings collect_local_variables does NOT record (the statement leaves local_vars
/// exactly as it is): a walrus target (`(fx := 1)` is an expression statement / sits inside an expression: no
/// expression is ever searched for bindings) and the capture patterns of match statements (`case fx:`, `case [fx, *rest]:`);
/// also try*, del, global / nonlocal, return, raise, assert, type aliases, pass / break / continue
pub open spec fn unrecorded_binding_form(s: Stmt) -> bool {
    match s {
        Stmt::Match(_) | Stmt::TryStar(_) | Stmt::Delete(_) | Stmt::Global(_) | Stmt::Nonlocal(_) | Stmt::Expr(_)
        | Stmt::Return(_) | Stmt::Raise(_) | Stmt::Assert(_) | Stmt::TypeAlias(_) | Stmt::Pass(_) | Stmt::Break(_) | Stmt::Continue(_) => true,
        _ => false,
    }
}
//@tags C17
pub proof fn lemma_C17_c_F17e_walrus_and_match_bindings_not_recorded(s: Stmt, li: Seq<usize>, m: Map<Seq<char>, usize>, k: Seq<char>, l: usize)
    requires unrecorded_binding_form(s),
    ensures locals_stmt(s, li, m) == m, !binds_at_stmt(s, li, k, l),
{
}
/// ... and a walrus / match capture anywhere inside a statement that IS descended into changes nothing either: the
/// values, tests and iterables of statements are never searched -- two statements that differ only there record the
/// same locals
//@tags C17
pub proof fn lemma_C17_c_F17e_expressions_never_searched_for_bindings(a: Stmt, b: Stmt, li: Seq<usize>, m: Map<Seq<char>, usize>)
    requires match (a, b) {
        (Stmt::Assign(x), Stmt::Assign(y)) => x.targets == y.targets && x.range == y.range,
        (Stmt::If(x), Stmt::If(y)) => x.body == y.body && x.orelse == y.orelse,
        (Stmt::While(x), Stmt::While(y)) => x.body == y.body && x.orelse == y.orelse,
        (Stmt::For(x), Stmt::For(y)) => x.target == y.target && x.range == y.range && x.body == y.body && x.orelse == y.orelse,
        _ => false,
    },
    ensures locals_stmt(a, li, m) == locals_stmt(b, li, m),
{
}
/// nested def / class: the NAME is recorded, the body is not descended into (bindings inside stay unknown -- they
/// are in another scope)
//@tags C17
pub proof fn lemma_C17_c_nested_bodies_not_searched(a: Stmt, b: Stmt, li: Seq<usize>, m: Map<Seq<char>, usize>)
    requires match (a, b) {
        (Stmt::FunctionDef(x), Stmt::FunctionDef(y)) => x.name == y.name && x.range == y.range,
        (Stmt::AsyncFunctionDef(x), Stmt::AsyncFunctionDef(y)) => x.name == y.name && x.range == y.range,
        (Stmt::ClassDef(x), Stmt::ClassDef(y)) => x.name == y.name && x.range == y.range,
        _ => false,
    },
    ensures locals_stmt(a, li, m) == locals_stmt(b, li, m),
{
}

// ---- vacuity guards: each of these must FAIL ---------------------------------------------------------------------
/// a declared parameter can be flagged
proof fn canary_C17_declared_param_flagged(n: AExprName, c: ScanV)
    requires c.declared.contains(idv(&n.id)), op_is_available(bucket(c.defs, idv(&n.id)), c.file), !c.locals.contains_key(idv(&n.id)),
    ensures scan_expr(Expr::Name(n), c).len() == 1,
{
}
/// a local bound on the SAME line protects the use (the test is strict)
proof fn canary_C17_same_line_local_protected(n: AExprName, c: ScanV)
    requires c.locals.contains_key(idv(&n.id)), c.locals[idv(&n.id)] == vline(c.li, r_start(n.range)),
    ensures !name_flag(n, c),
{
}
/// another file's list changes
proof fn canary_C17_other_file_list_changes(o: FixtureDatabase, s: FixtureDatabase, f: PV, g: PV, us: Seq<UndV>)
    requires und_rel(o, s, f, us), g != f, o.undeclared_fixtures.m().contains_key(g), us.len() > 0,
    ensures s.undeclared_fixtures.m()[g] != o.undeclared_fixtures.m()[g],
{
    lemma_und_open(o, s, f, us);
}
/// UNRESTRICTED completeness claim (F-17d): the base of an assignment target is scanned
proof fn canary_C17_assign_target_base_flagged(x: rustpython_parser::ast::StmtAssign, a: rustpython_parser::ast::ExprAttribute, n: AExprName, c: ScanV)
    requires x.targets@.len() == 1, x.targets@[0] == Expr::Attribute(a), *a.value == Expr::Name(n), name_flag(n, c),
    ensures has(scan_stmt(Stmt::Assign(x), c), name_entry(n, c)),
{
}
/// UNRESTRICTED precision claim (F-17e): a walrus binding on an earlier line protects a later use
proof fn canary_C17_walrus_binding_protects(body: Seq<Stmt>, x: rustpython_parser::ast::StmtExpr, w: rustpython_parser::ast::ExprNamedExpr,
        t: AExprName, n: AExprName, li: Seq<usize>, imps: Set<Seq<char>>)
    requires body.len() == 2, body[0] == Stmt::Expr(x), *x.value == Expr::NamedExpr(w), *w.target == Expr::Name(t), idv(&t.id) == idv(&n.id),
        vline(li, r_start(x.range)) < vline(li, r_start(n.range)),
    ensures local_in_scope(fn_locals(body, li, imps), idv(&n.id), vline(li, r_start(n.range))),
{
}
/// names inside an f-string are scanned
proof fn canary_C17_fstring_scanned(x: rustpython_parser::ast::ExprJoinedStr, n: AExprName, c: ScanV)
    requires x.values@.len() == 1, name_flag(n, c),
    ensures scan_expr(Expr::JoinedStr(x), c).len() > 0,
{
}
/// bind_local keeps the LATEST line
proof fn canary_C17_latest_line_kept(m: Map<Seq<char>, usize>, k: Seq<char>, l1: usize, l2: usize)
    requires l1 < l2,
    ensures min_bind(min_bind(m, k, l1), k, l2)[k] == l2,
{
}
/// a name that no fixture carries can be flagged
proof fn canary_C17_unknown_name_flagged(n: AExprName, c: ScanV)
    requires !c.declared.contains(idv(&n.id)), !c.locals.contains_key(idv(&n.id)), bucket(c.defs, idv(&n.id)).len() == 0,
    ensures name_flag(n, c),
{
}
/// the end column is the START column (a zero-width range)
proof fn canary_C17_end_char_is_start(n: AExprName, c: ScanV)
    ensures name_entry(n, c).end_char == vcol(c.li, r_start(n.range)),
{
}

} // verus!
fn main() {}
