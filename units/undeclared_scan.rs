//@include prelude/header.rs
// Unit undeclared_scan (property C17, scanner part): the REAL undeclared-fixture scanner of src/fixtures/undeclared.rs
// (scan_function_body_for_undeclared_fixtures, collect_local_variables, visit_stmt_for_names, visit_expr_for_names)
// against the operational specification prelude/undecl_spec.rs (scan_expr / scan_stmt / scan_body / locals_body /
// scan_fn: WHICH names of a function body are flagged, in which order, with which fields).
//   L1  every function moves the database by exactly `und_rel(old, new, file, <spec fn>(..))`: the findings are pushed
//       onto undeclared_fixtures[file] in order, every other field and every other file's list untouched;
//       collect_local_variables builds exactly locals_body(..)
//   L2  lemma_C17_*: precision (declared / earlier local / imported / unavailable names are never flagged),
//       completeness for the plain uses the scanner visits, and -- as statements of fact -- what it does NOT visit
//       (lemma_C17_c_*); lemma_C17_FINDING_later_rebinding_exposes_earlier_use: a PROVED counterexample shape to
//       "a local bound on an earlier line is never flagged" (local_vars keeps one line per name, last binding wins)
// Assumptions: callee contracts through //@stub only (get_line_from_offset, get_char_position_from_offset: unit
// line_index; collect_names_from_expr: unit ast_helpers; is_available_fixture: unit undeclared_avail); one new T5
// wrapper, prelude/undecl_shims.rs `vp_flatten` (`dict.keys.iter().flatten()`); the shims of prelude/{dashmap,hashset,
// hashmap}.rs.  `#[verifier::loop_isolation(false)]` on visit_stmt_for_names (its loop variables shadow `stmt`).
use rustpython_parser::ast::{Expr, Stmt, Keyword, Identifier, Constant, ExceptHandler, ExprCall, Alias, Arguments, ArgWithDefault};
use rustpython_parser::text_size::TextRange;
verus! {
global size_of usize == 8;  // A6: 64-bit target
pub mod pre {
use super::*;
//@include prelude/path.rs
//@include prelude/path_ext.rs
//@include prelude/types.rs
//@include prelude/dashmap.rs
//@include prelude/hashset.rs
//@include prelude/hashmap.rs
//@include prelude/atomic.rs
//@include prelude/dbview.rs
//@include prelude/hof.rs
//@include prelude/arc.rs
//@include prelude/strings.rs
//@include prelude/iter_ext.rs
//@include prelude/iter_slice.rs
//@include prelude/bytes.rs
//@include build/astspec.rs
//@include prelude/ast_spec.rs
//@include prelude/line_spec.rs
//@include prelude/visit_spec.rs
//@include prelude/undecl_avail_spec.rs
//@include prelude/undecl_spec.rs
//@include prelude/undecl_shims.rs
} // mod pre
use pre::*;

#[verifier::external_type_specification] pub struct ExUndeclaredFixture(UndeclaredFixture);

//@dbstruct_arc definitions file_definitions usages usage_by_fixture definitions_version file_cache undeclared_fixtures imports plugin_fixture_files

//@include prelude/index_dbspecs.rs
//@include prelude/undecl_dbspecs.rs

broadcast use {axiom_string_to_string, axiom_identifier_to_string, axiom_default_vec};

//@item src/fixtures/undeclared.rs struct BodyScanContext

/// what the scanner reads of its context (+ the definitions index, read through is_available_fixture)
pub(crate) closed spec fn ctxv(ctx: &BodyScanContext, defs: Map<Seq<char>, Seq<DefV>>) -> ScanV {
    ScanV { file: pbv(ctx.file_path), li: ctx.line_index@, declared: ctx.declared_params.s(), locals: ctx.local_vars.m(),
            fname: ctx.function_name@, fline: ctx.function_line, defs }
}

// ---- helpers for the L1 proofs --------------------------------------------------------------------------------
/// findings of a sequence of expression REFERENCES (what the flattened dict-key iterator yields)
pub open spec fn scan_refs(s: Seq<&Expr>, n: int, c: ScanV) -> Seq<UndV>
    decreases n
{
    if n <= 0 || n > s.len() { Seq::empty() } else { scan_refs(s, n - 1, c) + scan_expr(*s[n - 1], c) }
}
//@tags C17
pub proof fn lemma_scan_keys_refs(ks: Seq<Option<Expr>>, s: Seq<&Option<Expr>>, n: int, c: ScanV)
    requires s.len() == ks.len(), forall|i: int| 0 <= i < ks.len() ==> *(#[trigger] s[i]) == ks[i], 0 <= n <= ks.len(),
    ensures scan_refs(somes_ref(s, n), somes_ref(s, n).len() as int, c) == scan_keys(ks, n, c),
    decreases n
{
    if n > 0 {
        lemma_scan_keys_refs(ks, s, n - 1, c);
        let p = somes_ref(s, n - 1);
        assert(*s[n - 1] == ks[n - 1]);
        match s[n - 1] {
            Some(x) => {
                let q = somes_ref(s, n);
                assert(q == p.push(x));
                lemma_scan_refs_prefix(q, p, p.len() as int, c);
                assert(scan_keys(ks, n, c) == scan_keys(ks, n - 1, c) + scan_expr(*x, c));
            }
            None => {}
        }
    }
}
//@tags C17
pub proof fn lemma_scan_refs_prefix(q: Seq<&Expr>, p: Seq<&Expr>, n: int, c: ScanV)
    requires 0 <= n <= p.len() <= q.len(), forall|i: int| 0 <= i < p.len() ==> q[i] == p[i],
    ensures scan_refs(q, n, c) == scan_refs(p, n, c),
    decreases n
{
    if n > 0 { lemma_scan_refs_prefix(q, p, n - 1, c); }
}
/// names of the first n strings of an enumeration
pub open spec fn prefix_names(s: Seq<String>, n: int) -> Set<Seq<char>>
    decreases n
{
    if n <= 0 || n > s.len() { Set::empty() } else { prefix_names(s, n - 1).insert(s[n - 1]@) }
}
pub open spec fn prefix_names_r(s: Seq<&String>, n: int) -> Set<Seq<char>>
    decreases n
{
    if n <= 0 || n > s.len() { Set::empty() } else { prefix_names_r(s, n - 1).insert(s[n - 1]@) }
}
/// hash iteration = SOME enumeration of the set: every element is in it, everything in it is enumerated
pub open spec fn is_enum(s: Seq<String>, names: Set<Seq<char>>) -> bool {
    &&& forall|i: int| 0 <= i < s.len() ==> names.contains((#[trigger] s[i])@)
    &&& forall|k: Seq<char>| names.contains(k) ==> exists|i: int| 0 <= i < s.len() && (#[trigger] s[i])@ == k
}
pub open spec fn is_enum_r(s: Seq<&String>, names: Set<Seq<char>>) -> bool {
    &&& forall|i: int| 0 <= i < s.len() ==> names.contains((#[trigger] s[i])@)
    &&& forall|k: Seq<char>| names.contains(k) ==> exists|i: int| 0 <= i < s.len() && (#[trigger] s[i])@ == k
}
//@tags C17
pub proof fn lemma_prefix_names_in(s: Seq<String>, n: int, k: Seq<char>)
    requires 0 <= n <= s.len(),
    ensures prefix_names(s, n).contains(k) <==> exists|i: int| 0 <= i < n && (#[trigger] s[i])@ == k,
    decreases n
{
    if n > 0 {
        lemma_prefix_names_in(s, n - 1, k);
        if prefix_names(s, n - 1).contains(k) { let i = choose|i: int| 0 <= i < n - 1 && (#[trigger] s[i])@ == k; assert(0 <= i < n && s[i]@ == k); }
        if s[n - 1]@ == k { assert(0 <= n - 1 < n && s[n - 1]@ == k); }
    }
}
//@tags C17
pub proof fn lemma_enum_all(s: Seq<String>, names: Set<Seq<char>>)
    requires is_enum(s, names),
    ensures prefix_names(s, s.len() as int) == names,
{
    assert forall|k: Seq<char>| prefix_names(s, s.len() as int).contains(k) <==> names.contains(k) by {
        lemma_prefix_names_in(s, s.len() as int, k);
        if names.contains(k) { let i = choose|i: int| 0 <= i < s.len() && (#[trigger] s[i])@ == k; }
    }
    assert(prefix_names(s, s.len() as int) =~= names);
}
//@tags C17
pub proof fn lemma_prefix_names_r_in(s: Seq<&String>, n: int, k: Seq<char>)
    requires 0 <= n <= s.len(),
    ensures prefix_names_r(s, n).contains(k) <==> exists|i: int| 0 <= i < n && (#[trigger] s[i])@ == k,
    decreases n
{
    if n > 0 {
        lemma_prefix_names_r_in(s, n - 1, k);
        if prefix_names_r(s, n - 1).contains(k) { let i = choose|i: int| 0 <= i < n - 1 && (#[trigger] s[i])@ == k; assert(0 <= i < n && s[i]@ == k); }
        if s[n - 1]@ == k { assert(0 <= n - 1 < n && s[n - 1]@ == k); }
    }
}
//@tags C17
pub proof fn lemma_enum_r_all(s: Seq<&String>, names: Set<Seq<char>>)
    requires is_enum_r(s, names),
    ensures prefix_names_r(s, s.len() as int) == names,
{
    assert forall|k: Seq<char>| prefix_names_r(s, s.len() as int).contains(k) <==> names.contains(k) by {
        lemma_prefix_names_r_in(s, s.len() as int, k);
        if names.contains(k) { let i = choose|i: int| 0 <= i < s.len() && (#[trigger] s[i])@ == k; }
    }
    assert(prefix_names_r(s, s.len() as int) =~= names);
}


/// the loop `for name in temp_names { Self::bind_local(local_vars, name, line); }` after n rounds over the enumeration s of nm
pub open spec fn bind_inv(s: Seq<String>, n: int, nm: Set<Seq<char>>, m1: Map<Seq<char>, usize>, m: Map<Seq<char>, usize>, line: usize) -> bool {
    &&& is_enum(s, nm)
    &&& 0 <= n <= s.len()
    &&& m == bind_min(m1, prefix_names(s, n), line)
    &&& (n == s.len() ==> m == bind_min(m1, nm, line))
}
//@tags C17
pub proof fn lemma_bind_start(nm: Set<Seq<char>>, m1: Map<Seq<char>, usize>, line: usize)
    ensures forall|s: Seq<String>| is_enum(s, nm) ==> #[trigger] bind_inv(s, 0, nm, m1, m1, line),
{
    assert forall|s: Seq<String>| is_enum(s, nm) implies #[trigger] bind_inv(s, 0, nm, m1, m1, line) by {
        lemma_bind_min_empty(m1, line);
        if s.len() == 0 { lemma_enum_all(s, nm); }
    }
}
//@tags C17
pub proof fn lemma_bind_step(s: Seq<String>, n: int, nm: Set<Seq<char>>, m1: Map<Seq<char>, usize>, m: Map<Seq<char>, usize>, line: usize)
    requires bind_inv(s, n, nm, m1, m, line), n < s.len(),
    ensures bind_inv(s, n + 1, nm, m1, min_bind(m, s[n]@, line), line),
{
    lemma_bind_min_step(m1, prefix_names(s, n), s[n]@, line);
    if n + 1 == s.len() { lemma_enum_all(s, nm); }
}

/// the loop `for import in imports.iter() { local_vars.insert(import.clone(), 0); }` after n rounds
pub open spec fn bind_inv_r(s: Seq<&String>, n: int, nm: Set<Seq<char>>, m1: Map<Seq<char>, usize>, m: Map<Seq<char>, usize>, line: usize) -> bool {
    &&& is_enum_r(s, nm)
    &&& 0 <= n <= s.len()
    &&& m == bind_all(m1, prefix_names_r(s, n), line)
    &&& (n == s.len() ==> m == bind_all(m1, nm, line))
}
//@tags C17
pub proof fn lemma_bind_start_r(nm: Set<Seq<char>>, m1: Map<Seq<char>, usize>, line: usize)
    ensures forall|s: Seq<&String>| is_enum_r(s, nm) ==> #[trigger] bind_inv_r(s, 0, nm, m1, m1, line),
{
    assert forall|s: Seq<&String>| is_enum_r(s, nm) implies #[trigger] bind_inv_r(s, 0, nm, m1, m1, line) by {
        lemma_bind_all_empty(m1, line);
        if s.len() == 0 { lemma_enum_r_all(s, nm); }
    }
}
//@tags C17
pub proof fn lemma_bind_step_r(s: Seq<&String>, n: int, nm: Set<Seq<char>>, m1: Map<Seq<char>, usize>, m: Map<Seq<char>, usize>, line: usize)
    requires bind_inv_r(s, n, nm, m1, m, line), n < s.len(),
    ensures bind_inv_r(s, n + 1, nm, m1, m.insert(s[n]@, line), line),
{
    lemma_bind_all_insert(m1, prefix_names_r(s, n), s[n]@, line);
    if n + 1 == s.len() { lemma_enum_r_all(s, nm); }
}

impl FixtureDatabase {
//@stub line_index get_line_from_offset
//@stub line_index get_char_position_from_offset
//@stub ast_helpers collect_names_from_expr
//@stub undeclared_avail is_available_fixture

/*@ extract src/fixtures/undeclared.rs visit_expr_for_names
@tags C17
@recv mut
@rename flatten vp_flatten
@closure map:1 |def_line: &usize| -> (b: bool) ensures b == (*def_line < line)
@sig
    requires is_line_index(ints(ctx.line_index@)),
    ensures same_rest(*old(self), *final(self)),
        und_rel(*old(self), *final(self), pbv(ctx.file_path), scan_expr(*expr, ctxv(ctx, old(self).defs()))),
    decreases expr,
@start
    let ghost f = pbv(ctx.file_path);
    let ghost c = ctxv(ctx, old(self).defs());
    let ghost mut acc: Seq<UndV> = Seq::empty();
    proof { lemma_und_refl(*old(self), f); }
@before entry 1
    let ghost x = undv(&undeclared);
    let ghost s0 = *self;
@after entry 1
    proof {
        assert(x == name_entry(*name, c));
        assert(undecl_view(self.undeclared_fixtures.m()) =~~= undecl_view(s0.undeclared_fixtures.m()).insert(f, bucket(undecl_view(s0.undeclared_fixtures.m()), f).push(x)));
        assert(self.undeclared_fixtures.m().remove(f) =~= s0.undeclared_fixtures.m().remove(f));
        lemma_und_push(s0, *self, f, x);
        assert(und_rel(*old(self), *self, f, scan_expr(*expr, c)));
    }
@before visit_expr_for_names 1
    let ghost s0 = *self;
@after visit_expr_for_names 1
    proof { lemma_und_trans(*old(self), s0, *self, f, acc, scan_expr(*call.func, c)); acc = acc + scan_expr(*call.func, c); }
@before for 1
    let ghost b1 = acc;
    proof { assert(b1 + scan_exprs(call.args@, 0, c) =~= b1); }
@loopvar 1 it1
@loop 1
    invariant is_line_index(ints(ctx.line_index@)), f == pbv(ctx.file_path), c == ctxv(ctx, old(self).defs()),
        it1.seq() == call.args@.as_ref(), *expr == Expr::Call(*call),
        acc == b1 + scan_exprs(call.args@, it1.index@ as int, c),
        same_rest(*old(self), *self), und_rel(*old(self), *self, f, acc),
@loopstart 1
    let ghost i = it1.index@ as int;
    let ghost s0 = *self;
    proof { assert(*arg == call.args@[i]); assert(decreases_to!(call.args => call.args@[i])); assert(match *expr { Expr::Call(y) => y == *call, _ => false }); }
@loopend 1
    proof {
        lemma_und_trans(*old(self), s0, *self, f, acc, scan_expr(*arg, c));
        assert((b1 + scan_exprs(call.args@, i, c)) + scan_expr(*arg, c) =~= b1 + scan_exprs(call.args@, i + 1, c));
        acc = acc + scan_expr(*arg, c);
    }
@before for 2
    let ghost b2 = acc;
    proof { assert(b2 + scan_kws(call.keywords@, 0, c) =~= b2); }
@loopvar 2 it2
@loop 2
    invariant is_line_index(ints(ctx.line_index@)), f == pbv(ctx.file_path), c == ctxv(ctx, old(self).defs()),
        it2.seq() == call.keywords@.as_ref(), *expr == Expr::Call(*call),
        acc == b2 + scan_kws(call.keywords@, it2.index@ as int, c),
        same_rest(*old(self), *self), und_rel(*old(self), *self, f, acc),
@loopstart 2
    let ghost i = it2.index@ as int;
    let ghost s0 = *self;
    proof { assert(*keyword == call.keywords@[i]); assert(decreases_to!(call.keywords => call.keywords@[i])); assert(match *expr { Expr::Call(y) => y == *call, _ => false }); }
@loopend 2
    proof {
        lemma_und_trans(*old(self), s0, *self, f, acc, scan_expr(keyword.value, c));
        assert((b2 + scan_kws(call.keywords@, i, c)) + scan_expr(keyword.value, c) =~= b2 + scan_kws(call.keywords@, i + 1, c));
        acc = acc + scan_expr(keyword.value, c);
    }
@after for 2
    proof { assert(acc =~= scan_expr(*expr, c)); }
@before for 3
    let ghost b3 = acc;
    proof { assert(b3 + scan_exprs(boolop.values@, 0, c) =~= b3); }
@loopvar 3 it3
@loop 3
    invariant is_line_index(ints(ctx.line_index@)), f == pbv(ctx.file_path), c == ctxv(ctx, old(self).defs()),
        it3.seq() == boolop.values@.as_ref(), *expr == Expr::BoolOp(*boolop),
        acc == b3 + scan_exprs(boolop.values@, it3.index@ as int, c),
        same_rest(*old(self), *self), und_rel(*old(self), *self, f, acc),
@loopstart 3
    let ghost i = it3.index@ as int;
    let ghost s0 = *self;
    proof { assert(*value == boolop.values@[i]); assert(decreases_to!(boolop.values => boolop.values@[i])); assert(match *expr { Expr::BoolOp(y) => y == *boolop, _ => false }); }
@loopend 3
    proof {
        lemma_und_trans(*old(self), s0, *self, f, acc, scan_expr(*value, c));
        assert((b3 + scan_exprs(boolop.values@, i, c)) + scan_expr(*value, c) =~= b3 + scan_exprs(boolop.values@, i + 1, c));
        acc = acc + scan_expr(*value, c);
    }
@after for 3
    proof { assert(acc =~= scan_expr(*expr, c)); }
@before visit_expr_for_names 6
    let ghost s0 = *self;
@after visit_expr_for_names 6
    proof { lemma_und_trans(*old(self), s0, *self, f, acc, scan_expr(*ifexp.test, c)); acc = acc + scan_expr(*ifexp.test, c); }
@before visit_expr_for_names 7
    let ghost s0 = *self;
@after visit_expr_for_names 7
    proof { lemma_und_trans(*old(self), s0, *self, f, acc, scan_expr(*ifexp.body, c)); acc = acc + scan_expr(*ifexp.body, c); }
@before visit_expr_for_names 8
    let ghost s0 = *self;
@after visit_expr_for_names 8
    proof { lemma_und_trans(*old(self), s0, *self, f, acc, scan_expr(*ifexp.orelse, c)); acc = acc + scan_expr(*ifexp.orelse, c);
        assert(acc =~= scan_expr(*expr, c)); }
@before for 4
    let ghost b4 = acc;
    proof { assert(b4 + scan_exprs(set.elts@, 0, c) =~= b4); }
@loopvar 4 it4
@loop 4
    invariant is_line_index(ints(ctx.line_index@)), f == pbv(ctx.file_path), c == ctxv(ctx, old(self).defs()),
        it4.seq() == set.elts@.as_ref(), *expr == Expr::Set(*set),
        acc == b4 + scan_exprs(set.elts@, it4.index@ as int, c),
        same_rest(*old(self), *self), und_rel(*old(self), *self, f, acc),
@loopstart 4
    let ghost i = it4.index@ as int;
    let ghost s0 = *self;
    proof { assert(*elt == set.elts@[i]); assert(decreases_to!(set.elts => set.elts@[i])); assert(match *expr { Expr::Set(y) => y == *set, _ => false }); }
@loopend 4
    proof {
        lemma_und_trans(*old(self), s0, *self, f, acc, scan_expr(*elt, c));
        assert((b4 + scan_exprs(set.elts@, i, c)) + scan_expr(*elt, c) =~= b4 + scan_exprs(set.elts@, i + 1, c));
        acc = acc + scan_expr(*elt, c);
    }
@after for 4
    proof { assert(acc =~= scan_expr(*expr, c)); }
@before lower 1
    let ghost s0 = *self;
@after lower 1
    proof {
        if slice.lower is None { lemma_und_refl(s0, f); }
        lemma_und_trans(*old(self), s0, *self, f, acc, scan_opt(slice.lower, c)); acc = acc + scan_opt(slice.lower, c);
    }
@before upper 1
    let ghost s0 = *self;
@after upper 1
    proof {
        if slice.upper is None { lemma_und_refl(s0, f); }
        lemma_und_trans(*old(self), s0, *self, f, acc, scan_opt(slice.upper, c)); acc = acc + scan_opt(slice.upper, c);
    }
@before step 1
    let ghost s0 = *self;
@after step 1
    proof {
        if slice.step is None { lemma_und_refl(s0, f); }
        lemma_und_trans(*old(self), s0, *self, f, acc, scan_opt(slice.step, c)); acc = acc + scan_opt(slice.step, c);
        assert(acc =~= scan_expr(*expr, c));
    }
@before visit_expr_for_names 14
    let ghost s0 = *self;
@after visit_expr_for_names 14
    proof { lemma_und_trans(*old(self), s0, *self, f, acc, scan_expr(*binop.left, c)); acc = acc + scan_expr(*binop.left, c); }
@before visit_expr_for_names 15
    let ghost s0 = *self;
@after visit_expr_for_names 15
    proof { lemma_und_trans(*old(self), s0, *self, f, acc, scan_expr(*binop.right, c)); acc = acc + scan_expr(*binop.right, c);
        assert(acc =~= scan_expr(*expr, c)); }
@before visit_expr_for_names 17
    let ghost s0 = *self;
@after visit_expr_for_names 17
    proof { lemma_und_trans(*old(self), s0, *self, f, acc, scan_expr(*compare.left, c)); acc = acc + scan_expr(*compare.left, c); }
@before for 5
    let ghost b5 = acc;
    proof { assert(b5 + scan_exprs(compare.comparators@, 0, c) =~= b5); }
@loopvar 5 it5
@loop 5
    invariant is_line_index(ints(ctx.line_index@)), f == pbv(ctx.file_path), c == ctxv(ctx, old(self).defs()),
        it5.seq() == compare.comparators@.as_ref(), *expr == Expr::Compare(*compare),
        acc == b5 + scan_exprs(compare.comparators@, it5.index@ as int, c),
        same_rest(*old(self), *self), und_rel(*old(self), *self, f, acc),
@loopstart 5
    let ghost i = it5.index@ as int;
    let ghost s0 = *self;
    proof { assert(*comparator == compare.comparators@[i]); assert(decreases_to!(compare.comparators => compare.comparators@[i])); assert(match *expr { Expr::Compare(y) => y == *compare, _ => false }); }
@loopend 5
    proof {
        lemma_und_trans(*old(self), s0, *self, f, acc, scan_expr(*comparator, c));
        assert((b5 + scan_exprs(compare.comparators@, i, c)) + scan_expr(*comparator, c) =~= b5 + scan_exprs(compare.comparators@, i + 1, c));
        acc = acc + scan_expr(*comparator, c);
    }
@after for 5
    proof { assert(acc =~= scan_expr(*expr, c)); }
@before visit_expr_for_names 19
    let ghost s0 = *self;
@after visit_expr_for_names 19
    proof { lemma_und_trans(*old(self), s0, *self, f, acc, scan_expr(*subscript.value, c)); acc = acc + scan_expr(*subscript.value, c); }
@before visit_expr_for_names 20
    let ghost s0 = *self;
@after visit_expr_for_names 20
    proof { lemma_und_trans(*old(self), s0, *self, f, acc, scan_expr(*subscript.slice, c)); acc = acc + scan_expr(*subscript.slice, c);
        assert(acc =~= scan_expr(*expr, c)); }
@before for 6
    let ghost b6 = acc;
    proof { assert(b6 + scan_exprs(list.elts@, 0, c) =~= b6); }
@loopvar 6 it6
@loop 6
    invariant is_line_index(ints(ctx.line_index@)), f == pbv(ctx.file_path), c == ctxv(ctx, old(self).defs()),
        it6.seq() == list.elts@.as_ref(), *expr == Expr::List(*list),
        acc == b6 + scan_exprs(list.elts@, it6.index@ as int, c),
        same_rest(*old(self), *self), und_rel(*old(self), *self, f, acc),
@loopstart 6
    let ghost i = it6.index@ as int;
    let ghost s0 = *self;
    proof { assert(*elt == list.elts@[i]); assert(decreases_to!(list.elts => list.elts@[i])); assert(match *expr { Expr::List(y) => y == *list, _ => false }); }
@loopend 6
    proof {
        lemma_und_trans(*old(self), s0, *self, f, acc, scan_expr(*elt, c));
        assert((b6 + scan_exprs(list.elts@, i, c)) + scan_expr(*elt, c) =~= b6 + scan_exprs(list.elts@, i + 1, c));
        acc = acc + scan_expr(*elt, c);
    }
@after for 6
    proof { assert(acc =~= scan_expr(*expr, c)); }
@before for 7
    let ghost b7 = acc;
    proof { assert(b7 + scan_exprs(tuple.elts@, 0, c) =~= b7); }
@loopvar 7 it7
@loop 7
    invariant is_line_index(ints(ctx.line_index@)), f == pbv(ctx.file_path), c == ctxv(ctx, old(self).defs()),
        it7.seq() == tuple.elts@.as_ref(), *expr == Expr::Tuple(*tuple),
        acc == b7 + scan_exprs(tuple.elts@, it7.index@ as int, c),
        same_rest(*old(self), *self), und_rel(*old(self), *self, f, acc),
@loopstart 7
    let ghost i = it7.index@ as int;
    let ghost s0 = *self;
    proof { assert(*elt == tuple.elts@[i]); assert(decreases_to!(tuple.elts => tuple.elts@[i])); assert(match *expr { Expr::Tuple(y) => y == *tuple, _ => false }); }
@loopend 7
    proof {
        lemma_und_trans(*old(self), s0, *self, f, acc, scan_expr(*elt, c));
        assert((b7 + scan_exprs(tuple.elts@, i, c)) + scan_expr(*elt, c) =~= b7 + scan_exprs(tuple.elts@, i + 1, c));
        acc = acc + scan_expr(*elt, c);
    }
@after for 7
    proof { assert(acc =~= scan_expr(*expr, c)); }
@before for 8
    let ghost ks = dict.keys@;
    let ghost kr = somes_ref(ks.as_ref(), ks.len() as int);
    proof { assert(acc =~= scan_refs(kr, 0, c)); }
@loopvar 8 it8
@loop 8
    invariant is_line_index(ints(ctx.line_index@)), f == pbv(ctx.file_path), c == ctxv(ctx, old(self).defs()),
        ks == dict.keys@, kr == somes_ref(ks.as_ref(), ks.len() as int), it8.seq() == kr, *expr == Expr::Dict(*dict),
        acc == scan_refs(kr, it8.index@ as int, c),
        same_rest(*old(self), *self), und_rel(*old(self), *self, f, acc),
@loopstart 8
    let ghost i = it8.index@ as int;
    let ghost s0 = *self;
    proof {
        assert(k == kr[i]);
        lemma_somes_ref_src(ks.as_ref(), ks.len() as int, i);
        let j = choose|j: int| 0 <= j < ks.len() && #[trigger] ks.as_ref()[j] == &Some(*kr[i]);
        assert(ks[j] == Some(*k));
        assert(decreases_to!(dict.keys => dict.keys@[j]));
        assert(decreases_to!(ks[j] => ks[j]->0));
        assert(match *expr { Expr::Dict(y) => y == *dict, _ => false });
    }
@loopend 8
    proof {
        lemma_und_trans(*old(self), s0, *self, f, acc, scan_expr(*k, c));
        acc = acc + scan_expr(*k, c);
    }
@before for 9
    let ghost b9 = acc;
    proof {
        lemma_scan_keys_refs(ks, ks.as_ref(), ks.len() as int, c);
        assert(b9 == scan_keys(ks, ks.len() as int, c));
        assert(b9 + scan_exprs(dict.values@, 0, c) =~= b9);
    }
@loopvar 9 it9
@loop 9
    invariant is_line_index(ints(ctx.line_index@)), f == pbv(ctx.file_path), c == ctxv(ctx, old(self).defs()),
        it9.seq() == dict.values@.as_ref(), *expr == Expr::Dict(*dict),
        acc == b9 + scan_exprs(dict.values@, it9.index@ as int, c),
        same_rest(*old(self), *self), und_rel(*old(self), *self, f, acc),
@loopstart 9
    let ghost i = it9.index@ as int;
    let ghost s0 = *self;
    proof { assert(*value == dict.values@[i]); assert(decreases_to!(dict.values => dict.values@[i])); assert(match *expr { Expr::Dict(y) => y == *dict, _ => false }); }
@loopend 9
    proof {
        lemma_und_trans(*old(self), s0, *self, f, acc, scan_expr(*value, c));
        assert((b9 + scan_exprs(dict.values@, i, c)) + scan_expr(*value, c) =~= b9 + scan_exprs(dict.values@, i + 1, c));
        acc = acc + scan_expr(*value, c);
    }
@after for 9
    proof { assert(acc =~= scan_expr(*expr, c)); }
@*/

// the loop variables of this function shadow the parameter `stmt`, so no loop invariant can name the parameter the
// termination measure refers to: the loops are verified in the context of the whole function instead
#[verifier::loop_isolation(false)]
/*@ extract src/fixtures/undeclared.rs visit_stmt_for_names
@tags C17
@recv mut
@sig
    requires is_line_index(ints(ctx.line_index@)),
    ensures same_rest(*old(self), *final(self)),
        und_rel(*old(self), *final(self), pbv(ctx.file_path), scan_stmt(*stmt, ctxv(ctx, old(self).defs()))),
    decreases stmt,
@start
    let ghost f = pbv(ctx.file_path);
    let ghost c = ctxv(ctx, old(self).defs());
    let ghost st0 = *stmt;
    let ghost mut acc: Seq<UndV> = Seq::empty();
    proof { lemma_und_refl(*old(self), f); }
@before value 4
    let ghost s0 = *self;
@after value 4
    proof {
        if ann_assign.value is None { lemma_und_refl(s0, f); }
        lemma_und_trans(*old(self), s0, *self, f, acc, scan_opt(ann_assign.value, c)); acc = acc + scan_opt(ann_assign.value, c);
        assert(acc =~= scan_stmt(st0, c));
    }
@before exc 1
    let ghost s0 = *self;
@after exc 1
    proof {
        if raise_stmt.exc is None { lemma_und_refl(s0, f); }
        lemma_und_trans(*old(self), s0, *self, f, acc, scan_opt(raise_stmt.exc, c)); acc = acc + scan_opt(raise_stmt.exc, c);
    }
@before cause 1
    let ghost s0 = *self;
@after cause 1
    proof {
        if raise_stmt.cause is None { lemma_und_refl(s0, f); }
        lemma_und_trans(*old(self), s0, *self, f, acc, scan_opt(raise_stmt.cause, c)); acc = acc + scan_opt(raise_stmt.cause, c);
        assert(acc =~= scan_stmt(st0, c));
    }
@before for 1
    let ghost b1 = acc;
    proof { assert(b1 + scan_body(try_stmt.body@, 0, c) =~= b1); }
@loopvar 1 it1
@loop 1
    invariant it1.seq() == try_stmt.body@.as_ref(),
        acc == b1 + scan_body(try_stmt.body@, it1.index@ as int, c),
        same_rest(*old(self), *self), und_rel(*old(self), *self, f, acc),
@loopstart 1
    let ghost i1 = it1.index@ as int;
    let ghost s0 = *self;
    proof { assert(*stmt == try_stmt.body@[i1]); assert(decreases_to!(try_stmt.body => try_stmt.body@[i1])); }
@loopend 1
    proof {
        lemma_und_trans(*old(self), s0, *self, f, acc, scan_stmt(*stmt, c));
        assert((b1 + scan_body(try_stmt.body@, i1, c)) + scan_stmt(*stmt, c) =~= b1 + scan_body(try_stmt.body@, i1 + 1, c));
        acc = acc + scan_stmt(*stmt, c);
    }
@before for 2
    let ghost b2 = acc;
    let ghost hs = try_stmt.handlers@;
    proof { assert(b2 + scan_handlers(hs, 0, c) =~= b2); }
@loopvar 2 it2
@loop 2
    invariant it2.seq() == hs.as_ref(),
        acc == b2 + scan_handlers(hs, it2.index@ as int, c),
        same_rest(*old(self), *self), und_rel(*old(self), *self, f, acc),
@loopstart 2
    let ghost hi = it2.index@ as int;
    proof { assert(*handler == hs[hi]); assert(decreases_to!(try_stmt.handlers => try_stmt.handlers@[hi])); }
@after h 1
    proof { assert(hs[hi] == rustpython_parser::ast::ExceptHandler::ExceptHandler(*h)); }
@loopend 2
    proof { assert((b2 + scan_handlers(hs, hi, c)) + scan_body(h.body@, h.body@.len() as int, c) =~= b2 + scan_handlers(hs, hi + 1, c)); }
@before for 3
    let ghost b3 = acc;
    proof { assert(b3 + scan_body(h.body@, 0, c) =~= b3); }
@loopvar 3 it3
@loop 3
    invariant it3.seq() == h.body@.as_ref(),
        acc == b3 + scan_body(h.body@, it3.index@ as int, c),
        same_rest(*old(self), *self), und_rel(*old(self), *self, f, acc),
@loopstart 3
    let ghost i3 = it3.index@ as int;
    let ghost s0 = *self;
    proof { assert(*stmt == h.body@[i3]); assert(decreases_to!(h.body => h.body@[i3])); }
@loopend 3
    proof {
        lemma_und_trans(*old(self), s0, *self, f, acc, scan_stmt(*stmt, c));
        assert((b3 + scan_body(h.body@, i3, c)) + scan_stmt(*stmt, c) =~= b3 + scan_body(h.body@, i3 + 1, c));
        acc = acc + scan_stmt(*stmt, c);
    }
@before for 4
    let ghost b4 = acc;
    proof { assert(b4 + scan_body(try_stmt.orelse@, 0, c) =~= b4); }
@loopvar 4 it4
@loop 4
    invariant it4.seq() == try_stmt.orelse@.as_ref(),
        acc == b4 + scan_body(try_stmt.orelse@, it4.index@ as int, c),
        same_rest(*old(self), *self), und_rel(*old(self), *self, f, acc),
@loopstart 4
    let ghost i4 = it4.index@ as int;
    let ghost s0 = *self;
    proof { assert(*stmt == try_stmt.orelse@[i4]); assert(decreases_to!(try_stmt.orelse => try_stmt.orelse@[i4])); }
@loopend 4
    proof {
        lemma_und_trans(*old(self), s0, *self, f, acc, scan_stmt(*stmt, c));
        assert((b4 + scan_body(try_stmt.orelse@, i4, c)) + scan_stmt(*stmt, c) =~= b4 + scan_body(try_stmt.orelse@, i4 + 1, c));
        acc = acc + scan_stmt(*stmt, c);
    }
@before for 5
    let ghost b5 = acc;
    proof { assert(b5 + scan_body(try_stmt.finalbody@, 0, c) =~= b5); }
@loopvar 5 it5
@loop 5
    invariant it5.seq() == try_stmt.finalbody@.as_ref(),
        acc == b5 + scan_body(try_stmt.finalbody@, it5.index@ as int, c),
        same_rest(*old(self), *self), und_rel(*old(self), *self, f, acc),
@loopstart 5
    let ghost i5 = it5.index@ as int;
    let ghost s0 = *self;
    proof { assert(*stmt == try_stmt.finalbody@[i5]); assert(decreases_to!(try_stmt.finalbody => try_stmt.finalbody@[i5])); }
@loopend 5
    proof {
        lemma_und_trans(*old(self), s0, *self, f, acc, scan_stmt(*stmt, c));
        assert((b5 + scan_body(try_stmt.finalbody@, i5, c)) + scan_stmt(*stmt, c) =~= b5 + scan_body(try_stmt.finalbody@, i5 + 1, c));
        acc = acc + scan_stmt(*stmt, c);
    }
@after for 5
    proof { assert(acc =~= scan_stmt(st0, c)); }
@before visit_expr_for_names 8
    let ghost s0 = *self;
@after visit_expr_for_names 8
    proof { lemma_und_trans(*old(self), s0, *self, f, acc, scan_expr(*if_stmt.test, c)); acc = acc + scan_expr(*if_stmt.test, c); }
@before for 6
    let ghost b6 = acc;
    proof { assert(b6 + scan_body(if_stmt.body@, 0, c) =~= b6); }
@loopvar 6 it6
@loop 6
    invariant it6.seq() == if_stmt.body@.as_ref(),
        acc == b6 + scan_body(if_stmt.body@, it6.index@ as int, c),
        same_rest(*old(self), *self), und_rel(*old(self), *self, f, acc),
@loopstart 6
    let ghost i6 = it6.index@ as int;
    let ghost s0 = *self;
    proof { assert(*stmt == if_stmt.body@[i6]); assert(decreases_to!(if_stmt.body => if_stmt.body@[i6])); }
@loopend 6
    proof {
        lemma_und_trans(*old(self), s0, *self, f, acc, scan_stmt(*stmt, c));
        assert((b6 + scan_body(if_stmt.body@, i6, c)) + scan_stmt(*stmt, c) =~= b6 + scan_body(if_stmt.body@, i6 + 1, c));
        acc = acc + scan_stmt(*stmt, c);
    }
@before for 7
    let ghost b7 = acc;
    proof { assert(b7 + scan_body(if_stmt.orelse@, 0, c) =~= b7); }
@loopvar 7 it7
@loop 7
    invariant it7.seq() == if_stmt.orelse@.as_ref(),
        acc == b7 + scan_body(if_stmt.orelse@, it7.index@ as int, c),
        same_rest(*old(self), *self), und_rel(*old(self), *self, f, acc),
@loopstart 7
    let ghost i7 = it7.index@ as int;
    let ghost s0 = *self;
    proof { assert(*stmt == if_stmt.orelse@[i7]); assert(decreases_to!(if_stmt.orelse => if_stmt.orelse@[i7])); }
@loopend 7
    proof {
        lemma_und_trans(*old(self), s0, *self, f, acc, scan_stmt(*stmt, c));
        assert((b7 + scan_body(if_stmt.orelse@, i7, c)) + scan_stmt(*stmt, c) =~= b7 + scan_body(if_stmt.orelse@, i7 + 1, c));
        acc = acc + scan_stmt(*stmt, c);
    }
@after for 7
    proof { assert(acc =~= scan_stmt(st0, c)); }
@before visit_expr_for_names 9
    let ghost s0 = *self;
@after visit_expr_for_names 9
    proof { lemma_und_trans(*old(self), s0, *self, f, acc, scan_expr(*while_stmt.test, c)); acc = acc + scan_expr(*while_stmt.test, c); }
@before for 8
    let ghost b8 = acc;
    proof { assert(b8 + scan_body(while_stmt.body@, 0, c) =~= b8); }
@loopvar 8 it8
@loop 8
    invariant it8.seq() == while_stmt.body@.as_ref(),
        acc == b8 + scan_body(while_stmt.body@, it8.index@ as int, c),
        same_rest(*old(self), *self), und_rel(*old(self), *self, f, acc),
@loopstart 8
    let ghost i8 = it8.index@ as int;
    let ghost s0 = *self;
    proof { assert(*stmt == while_stmt.body@[i8]); assert(decreases_to!(while_stmt.body => while_stmt.body@[i8])); }
@loopend 8
    proof {
        lemma_und_trans(*old(self), s0, *self, f, acc, scan_stmt(*stmt, c));
        assert((b8 + scan_body(while_stmt.body@, i8, c)) + scan_stmt(*stmt, c) =~= b8 + scan_body(while_stmt.body@, i8 + 1, c));
        acc = acc + scan_stmt(*stmt, c);
    }
@before for 9
    let ghost b9 = acc;
    proof { assert(b9 + scan_body(while_stmt.orelse@, 0, c) =~= b9); }
@loopvar 9 it9
@loop 9
    invariant it9.seq() == while_stmt.orelse@.as_ref(),
        acc == b9 + scan_body(while_stmt.orelse@, it9.index@ as int, c),
        same_rest(*old(self), *self), und_rel(*old(self), *self, f, acc),
@loopstart 9
    let ghost i9 = it9.index@ as int;
    let ghost s0 = *self;
    proof { assert(*stmt == while_stmt.orelse@[i9]); assert(decreases_to!(while_stmt.orelse => while_stmt.orelse@[i9])); }
@loopend 9
    proof {
        lemma_und_trans(*old(self), s0, *self, f, acc, scan_stmt(*stmt, c));
        assert((b9 + scan_body(while_stmt.orelse@, i9, c)) + scan_stmt(*stmt, c) =~= b9 + scan_body(while_stmt.orelse@, i9 + 1, c));
        acc = acc + scan_stmt(*stmt, c);
    }
@after for 9
    proof { assert(acc =~= scan_stmt(st0, c)); }
@before visit_expr_for_names 10
    let ghost s0 = *self;
@after visit_expr_for_names 10
    proof { lemma_und_trans(*old(self), s0, *self, f, acc, scan_expr(*for_stmt.iter, c)); acc = acc + scan_expr(*for_stmt.iter, c); }
@before for 10
    let ghost b10 = acc;
    proof { assert(b10 + scan_body(for_stmt.body@, 0, c) =~= b10); }
@loopvar 10 it10
@loop 10
    invariant it10.seq() == for_stmt.body@.as_ref(),
        acc == b10 + scan_body(for_stmt.body@, it10.index@ as int, c),
        same_rest(*old(self), *self), und_rel(*old(self), *self, f, acc),
@loopstart 10
    let ghost i10 = it10.index@ as int;
    let ghost s0 = *self;
    proof { assert(*stmt == for_stmt.body@[i10]); assert(decreases_to!(for_stmt.body => for_stmt.body@[i10])); }
@loopend 10
    proof {
        lemma_und_trans(*old(self), s0, *self, f, acc, scan_stmt(*stmt, c));
        assert((b10 + scan_body(for_stmt.body@, i10, c)) + scan_stmt(*stmt, c) =~= b10 + scan_body(for_stmt.body@, i10 + 1, c));
        acc = acc + scan_stmt(*stmt, c);
    }
@before for 11
    let ghost b11 = acc;
    proof { assert(b11 + scan_body(for_stmt.orelse@, 0, c) =~= b11); }
@loopvar 11 it11
@loop 11
    invariant it11.seq() == for_stmt.orelse@.as_ref(),
        acc == b11 + scan_body(for_stmt.orelse@, it11.index@ as int, c),
        same_rest(*old(self), *self), und_rel(*old(self), *self, f, acc),
@loopstart 11
    let ghost i11 = it11.index@ as int;
    let ghost s0 = *self;
    proof { assert(*stmt == for_stmt.orelse@[i11]); assert(decreases_to!(for_stmt.orelse => for_stmt.orelse@[i11])); }
@loopend 11
    proof {
        lemma_und_trans(*old(self), s0, *self, f, acc, scan_stmt(*stmt, c));
        assert((b11 + scan_body(for_stmt.orelse@, i11, c)) + scan_stmt(*stmt, c) =~= b11 + scan_body(for_stmt.orelse@, i11 + 1, c));
        acc = acc + scan_stmt(*stmt, c);
    }
@after for 11
    proof { assert(acc =~= scan_stmt(st0, c)); }
@before for 12
    proof { assert(acc =~= scan_items(with_stmt.items@, 0, c)); }
@loopvar 12 it12
@loop 12
    invariant it12.seq() == with_stmt.items@.as_ref(),
        acc == scan_items(with_stmt.items@, it12.index@ as int, c),
        same_rest(*old(self), *self), und_rel(*old(self), *self, f, acc),
@loopstart 12
    let ghost i12 = it12.index@ as int;
    let ghost s0 = *self;
    proof { assert(*item == with_stmt.items@[i12]); }
@loopend 12
    proof {
        lemma_und_trans(*old(self), s0, *self, f, acc, scan_expr(item.context_expr, c));
        acc = acc + scan_expr(item.context_expr, c);
    }
@before for 13
    let ghost b13 = acc;
    proof { assert(b13 + scan_body(with_stmt.body@, 0, c) =~= b13); }
@loopvar 13 it13
@loop 13
    invariant it13.seq() == with_stmt.body@.as_ref(),
        acc == b13 + scan_body(with_stmt.body@, it13.index@ as int, c),
        same_rest(*old(self), *self), und_rel(*old(self), *self, f, acc),
@loopstart 13
    let ghost i13 = it13.index@ as int;
    let ghost s0 = *self;
    proof { assert(*stmt == with_stmt.body@[i13]); assert(decreases_to!(with_stmt.body => with_stmt.body@[i13])); }
@loopend 13
    proof {
        lemma_und_trans(*old(self), s0, *self, f, acc, scan_stmt(*stmt, c));
        assert((b13 + scan_body(with_stmt.body@, i13, c)) + scan_stmt(*stmt, c) =~= b13 + scan_body(with_stmt.body@, i13 + 1, c));
        acc = acc + scan_stmt(*stmt, c);
    }
@after for 13
    proof { assert(acc =~= scan_stmt(st0, c)); }
@before visit_expr_for_names 12
    let ghost s0 = *self;
@after visit_expr_for_names 12
    proof { lemma_und_trans(*old(self), s0, *self, f, acc, scan_expr(*for_stmt.iter, c)); acc = acc + scan_expr(*for_stmt.iter, c); }
@before for 14
    let ghost b14 = acc;
    proof { assert(b14 + scan_body(for_stmt.body@, 0, c) =~= b14); }
@loopvar 14 it14
@loop 14
    invariant it14.seq() == for_stmt.body@.as_ref(),
        acc == b14 + scan_body(for_stmt.body@, it14.index@ as int, c),
        same_rest(*old(self), *self), und_rel(*old(self), *self, f, acc),
@loopstart 14
    let ghost i14 = it14.index@ as int;
    let ghost s0 = *self;
    proof { assert(*stmt == for_stmt.body@[i14]); assert(decreases_to!(for_stmt.body => for_stmt.body@[i14])); }
@loopend 14
    proof {
        lemma_und_trans(*old(self), s0, *self, f, acc, scan_stmt(*stmt, c));
        assert((b14 + scan_body(for_stmt.body@, i14, c)) + scan_stmt(*stmt, c) =~= b14 + scan_body(for_stmt.body@, i14 + 1, c));
        acc = acc + scan_stmt(*stmt, c);
    }
@before for 15
    let ghost b15 = acc;
    proof { assert(b15 + scan_body(for_stmt.orelse@, 0, c) =~= b15); }
@loopvar 15 it15
@loop 15
    invariant it15.seq() == for_stmt.orelse@.as_ref(),
        acc == b15 + scan_body(for_stmt.orelse@, it15.index@ as int, c),
        same_rest(*old(self), *self), und_rel(*old(self), *self, f, acc),
@loopstart 15
    let ghost i15 = it15.index@ as int;
    let ghost s0 = *self;
    proof { assert(*stmt == for_stmt.orelse@[i15]); assert(decreases_to!(for_stmt.orelse => for_stmt.orelse@[i15])); }
@loopend 15
    proof {
        lemma_und_trans(*old(self), s0, *self, f, acc, scan_stmt(*stmt, c));
        assert((b15 + scan_body(for_stmt.orelse@, i15, c)) + scan_stmt(*stmt, c) =~= b15 + scan_body(for_stmt.orelse@, i15 + 1, c));
        acc = acc + scan_stmt(*stmt, c);
    }
@after for 15
    proof { assert(acc =~= scan_stmt(st0, c)); }
@before for 16
    proof { assert(acc =~= scan_items(with_stmt.items@, 0, c)); }
@loopvar 16 it16
@loop 16
    invariant it16.seq() == with_stmt.items@.as_ref(),
        acc == scan_items(with_stmt.items@, it16.index@ as int, c),
        same_rest(*old(self), *self), und_rel(*old(self), *self, f, acc),
@loopstart 16
    let ghost i16 = it16.index@ as int;
    let ghost s0 = *self;
    proof { assert(*item == with_stmt.items@[i16]); }
@loopend 16
    proof {
        lemma_und_trans(*old(self), s0, *self, f, acc, scan_expr(item.context_expr, c));
        acc = acc + scan_expr(item.context_expr, c);
    }
@before for 17
    let ghost b17 = acc;
    proof { assert(b17 + scan_body(with_stmt.body@, 0, c) =~= b17); }
@loopvar 17 it17
@loop 17
    invariant it17.seq() == with_stmt.body@.as_ref(),
        acc == b17 + scan_body(with_stmt.body@, it17.index@ as int, c),
        same_rest(*old(self), *self), und_rel(*old(self), *self, f, acc),
@loopstart 17
    let ghost i17 = it17.index@ as int;
    let ghost s0 = *self;
    proof { assert(*stmt == with_stmt.body@[i17]); assert(decreases_to!(with_stmt.body => with_stmt.body@[i17])); }
@loopend 17
    proof {
        lemma_und_trans(*old(self), s0, *self, f, acc, scan_stmt(*stmt, c));
        assert((b17 + scan_body(with_stmt.body@, i17, c)) + scan_stmt(*stmt, c) =~= b17 + scan_body(with_stmt.body@, i17 + 1, c));
        acc = acc + scan_stmt(*stmt, c);
    }
@after for 17
    proof { assert(acc =~= scan_stmt(st0, c)); }
@before visit_expr_for_names 14
    let ghost s0 = *self;
@after visit_expr_for_names 14
    proof { lemma_und_trans(*old(self), s0, *self, f, acc, scan_expr(*assert_stmt.test, c)); acc = acc + scan_expr(*assert_stmt.test, c); }
@before msg 1
    let ghost s0 = *self;
@after msg 1
    proof {
        if assert_stmt.msg is None { lemma_und_refl(s0, f); }
        lemma_und_trans(*old(self), s0, *self, f, acc, scan_opt(assert_stmt.msg, c)); acc = acc + scan_opt(assert_stmt.msg, c);
        assert(acc =~= scan_stmt(st0, c));
    }
@*/

/*@ extract src/fixtures/undeclared.rs bind_local
@tags C17
@sig
    ensures final(local_vars).m() == min_bind(old(local_vars).m(), name@, line),
@*/

/*@ extract src/fixtures/undeclared.rs collect_local_variables
@tags C17
@wrapexpr 1 `alias.name.split('.').next().unwrap_or("").to_string()` => `Self::vp_dotted_head(alias)` with fn vp_dotted_head(alias: &rustpython_parser::ast::Alias) -> (r: String) ensures r@ == dotted_head(idv(&alias.name))
@sig
    requires is_line_index(ints(line_index@)),
    ensures final(local_vars).m() == locals_body(body@, body@.len() as int, line_index@, old(local_vars).m()),
    decreases body@,
@start
    let ghost li = line_index@;
    let ghost m0 = local_vars.m();
@loopvar 1 it
@loop 1
    invariant is_line_index(ints(line_index@)), li == line_index@, it.seq() == body@.as_ref(),
        local_vars.m() == locals_body(body@, it.index@ as int, li, m0),
@loopstart 1
    let ghost oi = it.index@ as int;
    let ghost m1 = local_vars.m();
    proof { assert(*stmt == body@[oi]); assert(decreases_to!(body@ => body@[oi])); }
@loopend 1
    proof { assert(local_vars.m() == locals_stmt(*stmt, li, m1)); }
@loopvar 2 it2
@loop 2
    invariant it2.seq() == assign.targets@.as_ref(),
        temp_names.s().union(targets_from(assign.targets@, it2.index@ as int)) =~= targets_from(assign.targets@, 0),
@loopstart 2
    proof { let i = it2.index@ as int; assert(*target == assign.targets@[i]);
        assert(targets_from(assign.targets@, i) == target_names(*target).union(targets_from(assign.targets@, i + 1))); }
@before for 3
    let ghost nm3 = temp_names.s();
    proof { lemma_bind_start(nm3, m1, line); }
@loopvar 3 it3
@loop 3
    invariant bind_inv(it3.seq(), it3.index@ as int, nm3, m1, local_vars.m(), line),
@loopstart 3
    proof { assert(name == it3.seq()[it3.index@ as int]); lemma_bind_step(it3.seq(), it3.index@ as int, nm3, m1, local_vars.m(), line); }
@after for 3
    proof { assert(nm3 =~= targets_from(assign.targets@, 0)); assert(local_vars.m() == locals_stmt(*stmt, li, m1)); }
@before for 4
    let ghost nm4 = temp_names.s();
    proof { lemma_bind_start(nm4, m1, line); }
@loopvar 4 it4
@loop 4
    invariant bind_inv(it4.seq(), it4.index@ as int, nm4, m1, local_vars.m(), line),
@loopstart 4
    proof { assert(name == it4.seq()[it4.index@ as int]); lemma_bind_step(it4.seq(), it4.index@ as int, nm4, m1, local_vars.m(), line); }
@after for 4
    proof { assert(nm4 =~= target_names(*ann_assign.target)); assert(local_vars.m() == locals_stmt(*stmt, li, m1)); }
@before for 5
    let ghost nm5 = temp_names.s();
    proof { lemma_bind_start(nm5, m1, line); }
@loopvar 5 it5
@loop 5
    invariant bind_inv(it5.seq(), it5.index@ as int, nm5, m1, local_vars.m(), line),
@loopstart 5
    proof { assert(name == it5.seq()[it5.index@ as int]); lemma_bind_step(it5.seq(), it5.index@ as int, nm5, m1, local_vars.m(), line); }
@after for 5
    proof { assert(nm5 =~= target_names(*aug_assign.target)); assert(local_vars.m() == locals_stmt(*stmt, li, m1)); }
@before for 6
    let ghost nm6 = temp_names.s();
    proof { lemma_bind_start(nm6, m1, line); }
@loopvar 6 it6
@loop 6
    invariant bind_inv(it6.seq(), it6.index@ as int, nm6, m1, local_vars.m(), line),
@loopstart 6
    proof { assert(name == it6.seq()[it6.index@ as int]); lemma_bind_step(it6.seq(), it6.index@ as int, nm6, m1, local_vars.m(), line); }
@after for 6
    proof { assert(nm6 =~= target_names(*for_stmt.target)); }
@after collect_local_variables 2
    proof { assert(local_vars.m() == locals_stmt(*stmt, li, m1)); }
@before for 7
    let ghost nm7 = temp_names.s();
    proof { lemma_bind_start(nm7, m1, line); }
@loopvar 7 it7
@loop 7
    invariant bind_inv(it7.seq(), it7.index@ as int, nm7, m1, local_vars.m(), line),
@loopstart 7
    proof { assert(name == it7.seq()[it7.index@ as int]); lemma_bind_step(it7.seq(), it7.index@ as int, nm7, m1, local_vars.m(), line); }
@after for 7
    proof { assert(nm7 =~= target_names(*for_stmt.target)); }
@after collect_local_variables 4
    proof { assert(local_vars.m() == locals_stmt(*stmt, li, m1)); }
@after collect_local_variables 6
    proof { assert(local_vars.m() == locals_stmt(*stmt, li, m1)); }
@after collect_local_variables 8
    proof { assert(local_vars.m() == locals_stmt(*stmt, li, m1)); }
@loopvar 8 it8
@loop 8
    invariant is_line_index(ints(line_index@)), it8.seq() == with_stmt.items@.as_ref(),
        local_vars.m() == with_bind(with_stmt.items@, it8.index@ as int, m1, line),
@loopstart 8
    let ghost wi = it8.index@ as int;
    let ghost m2 = local_vars.m();
    proof { assert(*item == with_stmt.items@[wi]); }
@loopend 8
    proof { assert(local_vars.m() == with_bind(with_stmt.items@, wi + 1, m1, line)); }
@before for 9
    let ghost nm9 = temp_names.s();
    proof { lemma_bind_start(nm9, m2, line); }
@loopvar 9 it9
@loop 9
    invariant bind_inv(it9.seq(), it9.index@ as int, nm9, m2, local_vars.m(), line),
@loopstart 9
    proof { assert(name == it9.seq()[it9.index@ as int]); lemma_bind_step(it9.seq(), it9.index@ as int, nm9, m2, local_vars.m(), line); }
@after for 9
    proof { assert(nm9 =~= target_names(**optional_vars)); }
@after collect_local_variables 9
    proof { assert(local_vars.m() == locals_stmt(*stmt, li, m1)); }
@loopvar 10 it10
@loop 10
    invariant is_line_index(ints(line_index@)), it10.seq() == with_stmt.items@.as_ref(),
        local_vars.m() == with_bind(with_stmt.items@, it10.index@ as int, m1, line),
@loopstart 10
    let ghost wi = it10.index@ as int;
    let ghost m2 = local_vars.m();
    proof { assert(*item == with_stmt.items@[wi]); }
@loopend 10
    proof { assert(local_vars.m() == with_bind(with_stmt.items@, wi + 1, m1, line)); }
@before for 11
    let ghost nm11 = temp_names.s();
    proof { lemma_bind_start(nm11, m2, line); }
@loopvar 11 it11
@loop 11
    invariant bind_inv(it11.seq(), it11.index@ as int, nm11, m2, local_vars.m(), line),
@loopstart 11
    proof { assert(name == it11.seq()[it11.index@ as int]); lemma_bind_step(it11.seq(), it11.index@ as int, nm11, m2, local_vars.m(), line); }
@after for 11
    proof { assert(nm11 =~= target_names(**optional_vars)); }
@after collect_local_variables 10
    proof { assert(local_vars.m() == locals_stmt(*stmt, li, m1)); }
@before for 12
    let ghost mt = local_vars.m();
    let ghost hs = try_stmt.handlers@;
@loopvar 12 it12
@loop 12
    invariant is_line_index(ints(line_index@)), li == line_index@, it12.seq() == hs.as_ref(), hs == try_stmt.handlers@,
        *stmt == Stmt::Try(*try_stmt), 0 <= oi < body@.len(), *stmt == body@[oi],
        local_vars.m() == locals_handlers(hs, it12.index@ as int, li, mt),
@loopstart 12
    let ghost hi = it12.index@ as int;
    let ghost mh = local_vars.m();
    proof { assert(*handler == hs[hi]); }
@after h 1
    proof { assert(hs[hi] == rustpython_parser::ast::ExceptHandler::ExceptHandler(*h));
        assert(decreases_to!(body@ => body@[oi]));
        assert(decreases_to!(try_stmt.handlers => try_stmt.handlers@[hi])); }
@before collect_local_variables 12
    proof { assert(local_vars.m() == handler_name_bind(h.name, mh, vline(li, r_start(h.range)))); }
@loopend 12
    proof { assert(local_vars.m() == locals_handlers(hs, hi + 1, li, mt)); }
@after collect_local_variables 14
    proof { assert(local_vars.m() == locals_stmt(*stmt, li, m1)); }
@loopvar 13 it13
@loop 13
    invariant it13.seq() == import_stmt.names@.as_ref(),
        local_vars.m() == import_bind(import_stmt.names@, it13.index@ as int, true, m1, line),
@loopstart 13
    proof { assert(*alias == import_stmt.names@[it13.index@ as int]); }
@after for 13
    proof { assert(local_vars.m() == locals_stmt(*stmt, li, m1)); }
@loopvar 14 it14
@loop 14
    invariant it14.seq() == import_from.names@.as_ref(),
        local_vars.m() == import_bind(import_from.names@, it14.index@ as int, false, m1, line),
@loopstart 14
    proof { assert(*alias == import_from.names@[it14.index@ as int]); }
@after for 14
    proof { assert(local_vars.m() == locals_stmt(*stmt, li, m1)); }
@after bind_local 11
    proof { assert(local_vars.m() == locals_stmt(*stmt, li, m1)); }
@after bind_local 12
    proof { assert(local_vars.m() == locals_stmt(*stmt, li, m1)); }
@after bind_local 13
    proof { assert(local_vars.m() == locals_stmt(*stmt, li, m1)); }
@*/

/*@ extract src/fixtures/undeclared.rs scan_function_body_for_undeclared_fixtures
@tags C17
@recv mut
@sig
    requires is_line_index(ints(line_index@)),
    ensures
        final(self).definitions == old(self).definitions, final(self).file_definitions == old(self).file_definitions,
        final(self).usages == old(self).usages, final(self).usage_by_fixture == old(self).usage_by_fixture,
        final(self).definitions_version == old(self).definitions_version,
        final(self).file_cache == old(self).file_cache, final(self).imports == old(self).imports,
        final(self).plugin_fixture_files == old(self).plugin_fixture_files,
        final(self).undeclared_fixtures.m().remove(pbv(file_path)) == old(self).undeclared_fixtures.m().remove(pbv(file_path)),
        undecl_view(final(self).undeclared_fixtures.m()) == push_undecl(undecl_view(old(self).undeclared_fixtures.m()), pbv(file_path),
            scan_fn(body@, pbv(file_path), line_index@, declared_params.s(), function_name@, function_line,
                    old(self).defs(), imps_of(old(self).imports.m(), pbv(file_path)))),
@start
    let ghost f = pbv(file_path);
    let ghost li = line_index@;
    let ghost imps = imps_of(old(self).imports.m(), f);
    let ghost c = fn_ctx(body@, f, li, declared_params.s(), function_name@, function_line, old(self).defs(), imps);
    let ghost mut acc: Seq<UndV> = Seq::empty();
    proof { lemma_und_refl(*old(self), f); }
@after collect_local_variables 1
    let ghost m1 = local_vars.m();
    proof { assert(m1 == locals_body(body@, body@.len() as int, li, Map::empty())); }
@before for 1
    proof { assert(imports.r.s() == imps); lemma_bind_start_r(imps, m1, 0); }
@loopvar 1 it1
@loop 1
    invariant bind_inv_r(it1.seq(), it1.index@ as int, imps, m1, local_vars.m(), 0),
@loopstart 1
    proof { assert(import == it1.seq()[it1.index@ as int]); lemma_bind_step_r(it1.seq(), it1.index@ as int, imps, m1, local_vars.m(), 0); }
@before ctx 1
    proof {
        if !old(self).imports.m().contains_key(f) { lemma_bind_all_empty(m1, 0); }
        assert(local_vars.m() == fn_locals(body@, li, imps));
    }
@before for 2
    proof { assert(ctxv(&ctx, old(self).defs()) == c); assert(acc =~= scan_body(body@, 0, c)); }
@loopvar 2 it2
@loop 2
    invariant is_line_index(ints(ctx.line_index@)), f == pbv(ctx.file_path), c == ctxv(&ctx, old(self).defs()),
        it2.seq() == body@.as_ref(),
        acc == scan_body(body@, it2.index@ as int, c),
        same_rest(*old(self), *self), und_rel(*old(self), *self, f, acc),
@loopstart 2
    let ghost i = it2.index@ as int;
    let ghost s0 = *self;
    proof { assert(*stmt == body@[i]); }
@loopend 2
    proof {
        lemma_und_trans(*old(self), s0, *self, f, acc, scan_stmt(*stmt, c));
        acc = acc + scan_stmt(*stmt, c);
    }
@end
    proof { lemma_und_open(*old(self), *self, f, acc); }
@*/

// exec canary (must FAIL): the same real body, claiming the file's module-level names (`imports`) play no role
/*@ extract src/fixtures/undeclared.rs scan_function_body_for_undeclared_fixtures
@tags C17
@as canary_scan_ignores_module_level_names
@recv mut
@sig
    requires is_line_index(ints(line_index@)),
    ensures
        final(self).definitions == old(self).definitions, final(self).file_definitions == old(self).file_definitions,
        final(self).usages == old(self).usages, final(self).usage_by_fixture == old(self).usage_by_fixture,
        final(self).definitions_version == old(self).definitions_version,
        final(self).file_cache == old(self).file_cache, final(self).imports == old(self).imports,
        final(self).plugin_fixture_files == old(self).plugin_fixture_files,
        final(self).undeclared_fixtures.m().remove(pbv(file_path)) == old(self).undeclared_fixtures.m().remove(pbv(file_path)),
        undecl_view(final(self).undeclared_fixtures.m()) == push_undecl(undecl_view(old(self).undeclared_fixtures.m()), pbv(file_path),
            scan_fn(body@, pbv(file_path), line_index@, declared_params.s(), function_name@, function_line,
                    old(self).defs(), Set::empty())),
@start
    let ghost f = pbv(file_path);
    let ghost li = line_index@;
    let ghost imps = imps_of(old(self).imports.m(), f);
    let ghost c = fn_ctx(body@, f, li, declared_params.s(), function_name@, function_line, old(self).defs(), imps);
    let ghost mut acc: Seq<UndV> = Seq::empty();
    proof { lemma_und_refl(*old(self), f); }
@after collect_local_variables 1
    let ghost m1 = local_vars.m();
    proof { assert(m1 == locals_body(body@, body@.len() as int, li, Map::empty())); }
@before for 1
    proof { assert(imports.r.s() == imps); lemma_bind_start_r(imps, m1, 0); }
@loopvar 1 it1
@loop 1
    invariant bind_inv_r(it1.seq(), it1.index@ as int, imps, m1, local_vars.m(), 0),
@loopstart 1
    proof { assert(import == it1.seq()[it1.index@ as int]); lemma_bind_step_r(it1.seq(), it1.index@ as int, imps, m1, local_vars.m(), 0); }
@before ctx 1
    proof {
        if !old(self).imports.m().contains_key(f) { lemma_bind_all_empty(m1, 0); }
        assert(local_vars.m() == fn_locals(body@, li, imps));
    }
@before for 2
    proof { assert(ctxv(&ctx, old(self).defs()) == c); assert(acc =~= scan_body(body@, 0, c)); }
@loopvar 2 it2
@loop 2
    invariant is_line_index(ints(ctx.line_index@)), f == pbv(ctx.file_path), c == ctxv(&ctx, old(self).defs()),
        it2.seq() == body@.as_ref(),
        acc == scan_body(body@, it2.index@ as int, c),
        same_rest(*old(self), *self), und_rel(*old(self), *self, f, acc),
@loopstart 2
    let ghost i = it2.index@ as int;
    let ghost s0 = *self;
    proof { assert(*stmt == body@[i]); }
@loopend 2
    proof {
        lemma_und_trans(*old(self), s0, *self, f, acc, scan_stmt(*stmt, c));
        acc = acc + scan_stmt(*stmt, c);
    }
@end
    proof { lemma_und_open(*old(self), *self, f, acc); }
@*/
}


} // verus!
fn main() {}
