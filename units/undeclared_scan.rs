//@include prelude/header.rs
// Unit undeclared_scan (property C17, scanner part): the REAL undeclared-fixture scanner of src/fixtures/undeclared.rs
// (scan_function_body_for_undeclared_fixtures, collect_local_variables, visit_stmt_for_names, visit_expr_for_names)
// against the operational specification prelude/undecl_spec.rs (scan_expr / scan_stmt / scan_body / locals_body /
// scan_fn: WHICH names of a function body are flagged, in which order, with which fields).
//   L1  every function moves the database by exactly `und_rel(old, new, file, <spec fn>(..))`: the findings are pushed
//       onto undeclared_fixtures[file] in order, every other field and every other file's list untouched;
//       collect_local_variables builds exactly locals_body(..)
//   L2  lemma_C17_*: precision (declared / earlier local / imported / unavailable names are never flagged),
//       completeness for the plain uses the scanner visits, and -- as statements of fact -- what it does NOT visit
//       (lemma_C17_c_*); lemma_C17_FINDING_later_rebinding_exposes_earlier_use: a PROVED counterexample shape to
//       "a local bound on an earlier line is never flagged" (local_vars keeps one line per name, last binding wins)
// Assumptions: callee contracts through //@stub only (get_line_from_offset, get_char_position_from_offset: unit
// line_index; collect_names_from_expr: unit ast_helpers; is_available_fixture: unit undeclared_avail); one new T5
// wrapper, prelude/undecl_shims.rs `vp_flatten` (`dict.keys.iter().flatten()`); the shims of prelude/{dashmap,hashset,
// hashmap}.rs.  `#[verifier::loop_isolation(false)]` on visit_stmt_for_names (its loop variables shadow `stmt`).
use rustpython_parser::ast::{Expr, Stmt, Keyword, Identifier, Constant, ExceptHandler, ExprCall, Alias, Arguments, ArgWithDefault};
use rustpython_parser::text_size::TextRange;
verus! {
global size_of usize == 8;  // A6: 64-bit target
pub mod pre {
use super::*;
//@include prelude/path.rs
//@include prelude/path_ext.rs
//@include prelude/types.rs
//@include prelude/dashmap.rs
//@include prelude/hashset.rs
//@include prelude/hashmap.rs
//@include prelude/atomic.rs
//@include prelude/dbview.rs
//@include prelude/hof.rs
//@include prelude/arc.rs
//@include prelude/strings.rs
//@include prelude/iter_ext.rs
//@include prelude/iter_slice.rs
//@include prelude/bytes.rs
//@include build/astspec.rs
//@include prelude/ast_spec.rs
//@include prelude/line_spec.rs
//@include prelude/visit_spec.rs
//@include prelude/undecl_avail_spec.rs
//@include prelude/undecl_spec.rs
//@include prelude/undecl_shims.rs
} // mod pre
use pre::*;

#[verifier::external_type_specification] pub struct ExUndeclaredFixture(UndeclaredFixture);

//@dbstruct_arc definitions file_definitions usages usage_by_fixture definitions_version file_cache undeclared_fixtures imports plugin_fixture_files

//@include prelude/index_dbspecs.rs
//@include prelude/undecl_dbspecs.rs

broadcast use {axiom_string_to_string, axiom_identifier_to_string, axiom_default_vec};

//@item src/fixtures/undeclared.rs struct BodyScanContext

/// what the scanner reads of its context (+ the definitions index, read through is_available_fixture)
pub(crate) closed spec fn ctxv(ctx: &BodyScanContext, defs: Map<Seq<char>, Seq<DefV>>) -> ScanV {
    ScanV { file: pbv(ctx.file_path), li: ctx.line_index@, declared: ctx.declared_params.s(), locals: ctx.local_vars.m(),
            fname: ctx.function_name@, fline: ctx.function_line, defs }
}

// ---- helpers for the L1 proofs --------------------------------------------------------------------------------
/// findings of a sequence of expression REFERENCES (what the flattened dict-key iterator yields)
pub open spec fn scan_refs(s: Seq<&Expr>, n: int, c: ScanV) -> Seq<UndV>
    decreases n
{
    if n <= 0 || n > s.len() { Seq::empty() } else { scan_refs(s, n - 1, c) + scan_expr(*s[n - 1], c) }
}
//@tags C17
pub proof fn lemma_scan_keys_refs(ks: Seq<Option<Expr>>, s: Seq<&Option<Expr>>, n: int, c: ScanV)
    requires s.len() == ks.len(), forall|i: int| 0 <= i < ks.len() ==> *(#[trigger] s[i]) == ks[i], 0 <= n <= ks.len(),
    ensures scan_refs(somes_ref(s, n), somes_ref(s, n).len() as int, c) == scan_keys(ks, n, c),
    decreases n
{
    if n > 0 {
        lemma_scan_keys_refs(ks, s, n - 1, c);
        let p = somes_ref(s, n - 1);
        assert(*s[n - 1] == ks[n - 1]);
        match s[n - 1] {
            Some(x) => {
                let q = somes_ref(s, n);
                assert(q == p.push(x));
                lemma_scan_refs_prefix(q, p, p.len() as int, c);
                assert(scan_keys(ks, n, c) == scan_keys(ks, n - 1, c) + scan_expr(*x, c));
            }
            None => {}
        }
    }
}
//@tags C17
pub proof fn lemma_scan_refs_prefix(q: Seq<&Expr>, p: Seq<&Expr>, n: int, c: ScanV)
    requires 0 <= n <= p.len() <= q.len(), forall|i: int| 0 <= i < p.len() ==> q[i] == p[i],
    ensures scan_refs(q, n, c) == scan_refs(p, n, c),
    decreases n
{
    if n > 0 { lemma_scan_refs_prefix(q, p, n - 1, c); }
}
/// names of the first n strings of an enumeration
pub open spec fn prefix_names(s: Seq<String>, n: int) -> Set<Seq<char>>
    decreases n
{
    if n <= 0 || n > s.len() { Set::empty() } else { prefix_names(s, n - 1).insert(s[n - 1]@) }
}
pub open spec fn prefix_names_r(s: Seq<&String>, n: int) -> Set<Seq<char>>
    decreases n
{
    if n <= 0 || n > s.len() { Set::empty() } else { prefix_names_r(s, n - 1).insert(s[n - 1]@) }
}
/// hash iteration = SOME enumeration of the set: every element is in it, everything in it is enumerated
pub open spec fn is_enum(s: Seq<String>, names: Set<Seq<char>>) -> bool {
    &&& forall|i: int| 0 <= i < s.len() ==> names.contains((#[trigger] s[i])@)
    &&& forall|k: Seq<char>| names.contains(k) ==> exists|i: int| 0 <= i < s.len() && (#[trigger] s[i])@ == k
}
pub open spec fn is_enum_r(s: Seq<&String>, names: Set<Seq<char>>) -> bool {
    &&& forall|i: int| 0 <= i < s.len() ==> names.contains((#[trigger] s[i])@)
    &&& forall|k: Seq<char>| names.contains(k) ==> exists|i: int| 0 <= i < s.len() && (#[trigger] s[i])@ == k
}
//@tags C17
pub proof fn lemma_prefix_names_in(s: Seq<String>, n: int, k: Seq<char>)
    requires 0 <= n <= s.len(),
    ensures prefix_names(s, n).contains(k) <==> exists|i: int| 0 <= i < n && (#[trigger] s[i])@ == k,
    decreases n
{
    if n > 0 {
        lemma_prefix_names_in(s, n - 1, k);
        if prefix_names(s, n - 1).contains(k) { let i = choose|i: int| 0 <= i < n - 1 && (#[trigger] s[i])@ == k; assert(0 <= i < n && s[i]@ == k); }
        if s[n - 1]@ == k { assert(0 <= n - 1 < n && s[n - 1]@ == k); }
    }
}
//@tags C17
pub proof fn lemma_enum_all(s: Seq<String>, names: Set<Seq<char>>)
    requires is_enum(s, names),
    ensures prefix_names(s, s.len() as int) == names,
{
    assert forall|k: Seq<char>| prefix_names(s, s.len() as int).contains(k) <==> names.contains(k) by {
        lemma_prefix_names_in(s, s.len() as int, k);
        if names.contains(k) { let i = choose|i: int| 0 <= i < s.len() && (#[trigger] s[i])@ == k; }
    }
    assert(prefix_names(s, s.len() as int) =~= names);
}
//@tags C17
pub proof fn lemma_prefix_names_r_in(s: Seq<&String>, n: int, k: Seq<char>)
    requires 0 <= n <= s.len(),
    ensures prefix_names_r(s, n).contains(k) <==> exists|i: int| 0 <= i < n && (#[trigger] s[i])@ == k,
    decreases n
{
    if n > 0 {
        lemma_prefix_names_r_in(s, n - 1, k);
        if prefix_names_r(s, n - 1).contains(k) { let i = choose|i: int| 0 <= i < n - 1 && (#[trigger] s[i])@ == k; assert(0 <= i < n && s[i]@ == k); }
        if s[n - 1]@ == k { assert(0 <= n - 1 < n && s[n - 1]@ == k); }
    }
}
//@tags C17
pub proof fn lemma_enum_r_all(s: Seq<&String>, names: Set<Seq<char>>)
    requires is_enum_r(s, names),
    ensures prefix_names_r(s, s.len() as int) == names,
{
    assert forall|k: Seq<char>| prefix_names_r(s, s.len() as int).contains(k) <==> names.contains(k) by {
        lemma_prefix_names_r_in(s, s.len() as int, k);
        if names.contains(k) { let i = choose|i: int| 0 <= i < s.len() && (#[trigger] s[i])@ == k; }
    }
    assert(prefix_names_r(s, s.len() as int) =~= names);
}


/// the loop `for name in temp_names { local_vars.insert(name, line); }` after n rounds over the enumeration s of nm
pub open spec fn bind_inv(s: Seq<String>, n: int, nm: Set<Seq<char>>, m1: Map<Seq<char>, usize>, m: Map<Seq<char>, usize>, line: usize) -> bool {
    &&& is_enum(s, nm)
    &&& 0 <= n <= s.len()
    &&& m == bind_all(m1, prefix_names(s, n), line)
    &&& (n == s.len() ==> m == bind_all(m1, nm, line))
}
//@tags C17
pub proof fn lemma_bind_start(nm: Set<Seq<char>>, m1: Map<Seq<char>, usize>, line: usize)
    ensures forall|s: Seq<String>| is_enum(s, nm) ==> #[trigger] bind_inv(s, 0, nm, m1, m1, line),
{
    assert forall|s: Seq<String>| is_enum(s, nm) implies #[trigger] bind_inv(s, 0, nm, m1, m1, line) by {
        lemma_bind_all_empty(m1, line);
        if s.len() == 0 { lemma_enum_all(s, nm); }
    }
}
//@tags C17
pub proof fn lemma_bind_step(s: Seq<String>, n: int, nm: Set<Seq<char>>, m1: Map<Seq<char>, usize>, m: Map<Seq<char>, usize>, line: usize)
    requires bind_inv(s, n, nm, m1, m, line), n < s.len(),
    ensures bind_inv(s, n + 1, nm, m1, m.insert(s[n]@, line), line),
{
    lemma_bind_all_insert(m1, prefix_names(s, n), s[n]@, line);
    if n + 1 == s.len() { lemma_enum_all(s, nm); }
}

/// the loop `for import in imports.iter() { local_vars.insert(import.clone(), 0); }` after n rounds
pub open spec fn bind_inv_r(s: Seq<&String>, n: int, nm: Set<Seq<char>>, m1: Map<Seq<char>, usize>, m: Map<Seq<char>, usize>, line: usize) -> bool {
    &&& is_enum_r(s, nm)
    &&& 0 <= n <= s.len()
    &&& m == bind_all(m1, prefix_names_r(s, n), line)
    &&& (n == s.len() ==> m == bind_all(m1, nm, line))
}
//@tags C17
pub proof fn lemma_bind_start_r(nm: Set<Seq<char>>, m1: Map<Seq<char>, usize>, line: usize)
    ensures forall|s: Seq<&String>| is_enum_r(s, nm) ==> #[trigger] bind_inv_r(s, 0, nm, m1, m1, line),
{
    assert forall|s: Seq<&String>| is_enum_r(s, nm) implies #[trigger] bind_inv_r(s, 0, nm, m1, m1, line) by {
        lemma_bind_all_empty(m1, line);
        if s.len() == 0 { lemma_enum_r_all(s, nm); }
    }
}
//@tags C17
pub proof fn lemma_bind_step_r(s: Seq<&String>, n: int, nm: Set<Seq<char>>, m1: Map<Seq<char>, usize>, m: Map<Seq<char>, usize>, line: usize)
    requires bind_inv_r(s, n, nm, m1, m, line), n < s.len(),
    ensures bind_inv_r(s, n + 1, nm, m1, m.insert(s[n]@, line), line),
{
    lemma_bind_all_insert(m1, prefix_names_r(s, n), s[n]@, line);
    if n + 1 == s.len() { lemma_enum_r_all(s, nm); }
}

impl FixtureDatabase {
//@stub line_index get_line_from_offset
//@stub line_index get_char_position_from_offset
//@stub ast_helpers collect_names_from_expr
//@stub undeclared_avail is_available_fixture

/*@ extract src/fixtures/undeclared.rs visit_expr_for_names
@tags C17
@recv mut
@rename flatten vp_flatten
@closure map:1 |def_line: &usize| -> (b: bool) ensures b == (*def_line < line)
@sig
    requires is_line_index(ints(ctx.line_index@)),
    ensures same_rest(*old(self), *final(self)),
        und_rel(*old(self), *final(self), pbv(ctx.file_path), scan_expr(*expr, ctxv(ctx, old(self).defs()))),
    decreases expr,
@start
    let ghost f = pbv(ctx.file_path);
    let ghost c = ctxv(ctx, old(self).defs());
    let ghost mut acc: Seq<UndV> = Seq::empty();
    proof { lemma_und_refl(*old(self), f); }
@before entry 1
    let ghost x = undv(&undeclared);
    let ghost s0 = *self;
@after entry 1
    proof {
        assert(x == name_entry(*name, c));
        assert(undecl_view(self.undeclared_fixtures.m()) =~~= undecl_view(s0.undeclared_fixtures.m()).insert(f, bucket(undecl_view(s0.undeclared_fixtures.m()), f).push(x)));
        assert(self.undeclared_fixtures.m().remove(f) =~= s0.undeclared_fixtures.m().remove(f));
        lemma_und_push(s0, *self, f, x);
        assert(und_rel(*old(self), *self, f, scan_expr(*expr, c)));
    }
@before visit_expr_for_names 1
    let ghost s0 = *self;
@after visit_expr_for_names 1
    proof { lemma_und_trans(*old(self), s0, *self, f, acc, scan_expr(*call.func, c)); acc = acc + scan_expr(*call.func, c); }
@before for 1
    let ghost b0 = acc;
    proof { assert(b0 + scan_exprs(call.args@, 0, c) =~= b0); }
@loopvar 1 it1
@loop 1
    invariant is_line_index(ints(ctx.line_index@)), f == pbv(ctx.file_path), c == ctxv(ctx, old(self).defs()),
        it1.seq() == call.args@.as_ref(), *expr == Expr::Call(*call),
        acc == b0 + scan_exprs(call.args@, it1.index@ as int, c),
        same_rest(*old(self), *self), und_rel(*old(self), *self, f, acc),
@loopstart 1
    let ghost i = it1.index@ as int;
    let ghost s0 = *self;
    proof { assert(*arg == call.args@[i]); assert(decreases_to!(call.args => call.args@[i])); assert(match *expr { Expr::Call(y) => y == *call, _ => false }); }
@loopend 1
    proof {
        lemma_und_trans(*old(self), s0, *self, f, acc, scan_expr(*arg, c));
        assert((b0 + scan_exprs(call.args@, i, c)) + scan_expr(*arg, c) =~= b0 + scan_exprs(call.args@, i + 1, c));
        acc = acc + scan_expr(*arg, c);
    }
@after for 1
    proof { assert(acc == scan_expr(*expr, c)); }
@before visit_expr_for_names 4
    let ghost s0 = *self;
@after visit_expr_for_names 4
    proof { lemma_und_trans(*old(self), s0, *self, f, acc, scan_expr(*binop.left, c)); acc = acc + scan_expr(*binop.left, c); }
@before visit_expr_for_names 5
    let ghost s0 = *self;
@after visit_expr_for_names 5
    proof { lemma_und_trans(*old(self), s0, *self, f, acc, scan_expr(*binop.right, c)); acc = acc + scan_expr(*binop.right, c);
        assert(acc =~= scan_expr(*expr, c)); }
@before visit_expr_for_names 7
    let ghost s0 = *self;
@after visit_expr_for_names 7
    proof { lemma_und_trans(*old(self), s0, *self, f, acc, scan_expr(*compare.left, c)); acc = acc + scan_expr(*compare.left, c); }
@before for 2
    let ghost b0 = acc;
    proof { assert(b0 + scan_exprs(compare.comparators@, 0, c) =~= b0); }
@loopvar 2 it2
@loop 2
    invariant is_line_index(ints(ctx.line_index@)), f == pbv(ctx.file_path), c == ctxv(ctx, old(self).defs()),
        it2.seq() == compare.comparators@.as_ref(), *expr == Expr::Compare(*compare),
        acc == b0 + scan_exprs(compare.comparators@, it2.index@ as int, c),
        same_rest(*old(self), *self), und_rel(*old(self), *self, f, acc),
@loopstart 2
    let ghost i = it2.index@ as int;
    let ghost s0 = *self;
    proof { assert(*comparator == compare.comparators@[i]); assert(decreases_to!(compare.comparators => compare.comparators@[i])); assert(match *expr { Expr::Compare(y) => y == *compare, _ => false }); }
@loopend 2
    proof {
        lemma_und_trans(*old(self), s0, *self, f, acc, scan_expr(*comparator, c));
        assert((b0 + scan_exprs(compare.comparators@, i, c)) + scan_expr(*comparator, c) =~= b0 + scan_exprs(compare.comparators@, i + 1, c));
        acc = acc + scan_expr(*comparator, c);
    }
@after for 2
    proof { assert(acc == scan_expr(*expr, c)); }
@before visit_expr_for_names 9
    let ghost s0 = *self;
@after visit_expr_for_names 9
    proof { lemma_und_trans(*old(self), s0, *self, f, acc, scan_expr(*subscript.value, c)); acc = acc + scan_expr(*subscript.value, c); }
@before visit_expr_for_names 10
    let ghost s0 = *self;
@after visit_expr_for_names 10
    proof { lemma_und_trans(*old(self), s0, *self, f, acc, scan_expr(*subscript.slice, c)); acc = acc + scan_expr(*subscript.slice, c);
        assert(acc =~= scan_expr(*expr, c)); }
@before for 3
    proof { assert(acc =~= scan_exprs(list.elts@, 0, c)); }
@loopvar 3 it3
@loop 3
    invariant is_line_index(ints(ctx.line_index@)), f == pbv(ctx.file_path), c == ctxv(ctx, old(self).defs()),
        it3.seq() == list.elts@.as_ref(), *expr == Expr::List(*list),
        acc == scan_exprs(list.elts@, it3.index@ as int, c),
        same_rest(*old(self), *self), und_rel(*old(self), *self, f, acc),
@loopstart 3
    let ghost i = it3.index@ as int;
    let ghost s0 = *self;
    proof { assert(*elt == list.elts@[i]); assert(decreases_to!(list.elts => list.elts@[i])); assert(match *expr { Expr::List(y) => y == *list, _ => false }); }
@loopend 3
    proof {
        lemma_und_trans(*old(self), s0, *self, f, acc, scan_expr(*elt, c));
        acc = acc + scan_expr(*elt, c);
    }
@after for 3
    proof { assert(acc == scan_expr(*expr, c)); }
@before for 4
    proof { assert(acc =~= scan_exprs(tuple.elts@, 0, c)); }
@loopvar 4 it4
@loop 4
    invariant is_line_index(ints(ctx.line_index@)), f == pbv(ctx.file_path), c == ctxv(ctx, old(self).defs()),
        it4.seq() == tuple.elts@.as_ref(), *expr == Expr::Tuple(*tuple),
        acc == scan_exprs(tuple.elts@, it4.index@ as int, c),
        same_rest(*old(self), *self), und_rel(*old(self), *self, f, acc),
@loopstart 4
    let ghost i = it4.index@ as int;
    let ghost s0 = *self;
    proof { assert(*elt == tuple.elts@[i]); assert(decreases_to!(tuple.elts => tuple.elts@[i])); assert(match *expr { Expr::Tuple(y) => y == *tuple, _ => false }); }
@loopend 4
    proof {
        lemma_und_trans(*old(self), s0, *self, f, acc, scan_expr(*elt, c));
        acc = acc + scan_expr(*elt, c);
    }
@after for 4
    proof { assert(acc == scan_expr(*expr, c)); }
@before for 5
    let ghost ks = dict.keys@;
    let ghost kr = somes_ref(ks.as_ref(), ks.len() as int);
    proof { assert(acc =~= scan_refs(kr, 0, c)); }
@loopvar 5 it5
@loop 5
    invariant is_line_index(ints(ctx.line_index@)), f == pbv(ctx.file_path), c == ctxv(ctx, old(self).defs()),
        ks == dict.keys@, kr == somes_ref(ks.as_ref(), ks.len() as int), it5.seq() == kr, *expr == Expr::Dict(*dict),
        acc == scan_refs(kr, it5.index@ as int, c),
        same_rest(*old(self), *self), und_rel(*old(self), *self, f, acc),
@loopstart 5
    let ghost i = it5.index@ as int;
    let ghost s0 = *self;
    proof {
        assert(k == kr[i]);
        lemma_somes_ref_src(ks.as_ref(), ks.len() as int, i);
        let j = choose|j: int| 0 <= j < ks.len() && #[trigger] ks.as_ref()[j] == &Some(*kr[i]);
        assert(ks[j] == Some(*k));
        assert(decreases_to!(dict.keys => dict.keys@[j]));
        assert(decreases_to!(ks[j] => ks[j]->0));
        assert(match *expr { Expr::Dict(y) => y == *dict, _ => false });
    }
@loopend 5
    proof {
        lemma_und_trans(*old(self), s0, *self, f, acc, scan_expr(*k, c));
        acc = acc + scan_expr(*k, c);
    }
@before for 6
    let ghost b0 = acc;
    proof {
        lemma_scan_keys_refs(ks, ks.as_ref(), ks.len() as int, c);
        assert(b0 == scan_keys(ks, ks.len() as int, c));
        assert(b0 + scan_exprs(dict.values@, 0, c) =~= b0);
    }
@loopvar 6 it6
@loop 6
    invariant is_line_index(ints(ctx.line_index@)), f == pbv(ctx.file_path), c == ctxv(ctx, old(self).defs()),
        it6.seq() == dict.values@.as_ref(), *expr == Expr::Dict(*dict),
        acc == b0 + scan_exprs(dict.values@, it6.index@ as int, c),
        same_rest(*old(self), *self), und_rel(*old(self), *self, f, acc),
@loopstart 6
    let ghost i = it6.index@ as int;
    let ghost s0 = *self;
    proof { assert(*value == dict.values@[i]); assert(decreases_to!(dict.values => dict.values@[i])); assert(match *expr { Expr::Dict(y) => y == *dict, _ => false }); }
@loopend 6
    proof {
        lemma_und_trans(*old(self), s0, *self, f, acc, scan_expr(*value, c));
        assert((b0 + scan_exprs(dict.values@, i, c)) + scan_expr(*value, c) =~= b0 + scan_exprs(dict.values@, i + 1, c));
        acc = acc + scan_expr(*value, c);
    }
@after for 6
    proof { assert(acc == scan_expr(*expr, c)); }
@*/

// the loop variables of this function shadow the parameter `stmt`, so no loop invariant can name the parameter the
// termination measure refers to: the loops are verified in the context of the whole function instead
#[verifier::loop_isolation(false)]
/*@ extract src/fixtures/undeclared.rs visit_stmt_for_names
@tags C17
@recv mut
@sig
    requires is_line_index(ints(ctx.line_index@)),
    ensures same_rest(*old(self), *final(self)),
        und_rel(*old(self), *final(self), pbv(ctx.file_path), scan_stmt(*stmt, ctxv(ctx, old(self).defs()))),
    decreases stmt,
@start
    let ghost f = pbv(ctx.file_path);
    let ghost c = ctxv(ctx, old(self).defs());
    let ghost st0 = *stmt;
    let ghost mut acc: Seq<UndV> = Seq::empty();
    proof { lemma_und_refl(*old(self), f); }
@before visit_expr_for_names 5
    let ghost s0 = *self;
@after visit_expr_for_names 5
    proof { lemma_und_trans(*old(self), s0, *self, f, acc, scan_expr(*if_stmt.test, c)); acc = acc + scan_expr(*if_stmt.test, c); }
@before for 1
    let ghost b1 = acc;
    proof { assert(b1 + scan_body(if_stmt.body@, 0, c) =~= b1); }
@loopvar 1 it1
@loop 1
    invariant is_line_index(ints(ctx.line_index@)), f == pbv(ctx.file_path), c == ctxv(ctx, old(self).defs()),
        it1.seq() == if_stmt.body@.as_ref(), st0 == Stmt::If(*if_stmt),
        acc == b1 + scan_body(if_stmt.body@, it1.index@ as int, c),
        same_rest(*old(self), *self), und_rel(*old(self), *self, f, acc),
@loopstart 1
    let ghost i = it1.index@ as int;
    let ghost s0 = *self;
    proof { assert(*stmt == if_stmt.body@[i]); assert(decreases_to!(if_stmt.body => if_stmt.body@[i])); assert(match st0 { Stmt::If(y) => y == *if_stmt, _ => false }); }
@loopend 1
    proof {
        lemma_und_trans(*old(self), s0, *self, f, acc, scan_stmt(*stmt, c));
        assert((b1 + scan_body(if_stmt.body@, i, c)) + scan_stmt(*stmt, c) =~= b1 + scan_body(if_stmt.body@, i + 1, c));
        acc = acc + scan_stmt(*stmt, c);
    }
@before for 2
    let ghost b2 = acc;
    proof { assert(b2 + scan_body(if_stmt.orelse@, 0, c) =~= b2); }
@loopvar 2 it2
@loop 2
    invariant is_line_index(ints(ctx.line_index@)), f == pbv(ctx.file_path), c == ctxv(ctx, old(self).defs()),
        it2.seq() == if_stmt.orelse@.as_ref(), st0 == Stmt::If(*if_stmt),
        acc == b2 + scan_body(if_stmt.orelse@, it2.index@ as int, c),
        same_rest(*old(self), *self), und_rel(*old(self), *self, f, acc),
@loopstart 2
    let ghost i = it2.index@ as int;
    let ghost s0 = *self;
    proof { assert(*stmt == if_stmt.orelse@[i]); assert(decreases_to!(if_stmt.orelse => if_stmt.orelse@[i])); assert(match st0 { Stmt::If(y) => y == *if_stmt, _ => false }); }
@loopend 2
    proof {
        lemma_und_trans(*old(self), s0, *self, f, acc, scan_stmt(*stmt, c));
        assert((b2 + scan_body(if_stmt.orelse@, i, c)) + scan_stmt(*stmt, c) =~= b2 + scan_body(if_stmt.orelse@, i + 1, c));
        acc = acc + scan_stmt(*stmt, c);
    }
@after for 2
    proof { assert(acc =~= scan_stmt(st0, c)); }
@before visit_expr_for_names 6
    let ghost s0 = *self;
@after visit_expr_for_names 6
    proof { lemma_und_trans(*old(self), s0, *self, f, acc, scan_expr(*while_stmt.test, c)); acc = acc + scan_expr(*while_stmt.test, c); }
@before for 3
    let ghost b3 = acc;
    proof { assert(b3 + scan_body(while_stmt.body@, 0, c) =~= b3); }
@loopvar 3 it3
@loop 3
    invariant is_line_index(ints(ctx.line_index@)), f == pbv(ctx.file_path), c == ctxv(ctx, old(self).defs()),
        it3.seq() == while_stmt.body@.as_ref(), st0 == Stmt::While(*while_stmt),
        acc == b3 + scan_body(while_stmt.body@, it3.index@ as int, c),
        same_rest(*old(self), *self), und_rel(*old(self), *self, f, acc),
@loopstart 3
    let ghost i = it3.index@ as int;
    let ghost s0 = *self;
    proof { assert(*stmt == while_stmt.body@[i]); assert(decreases_to!(while_stmt.body => while_stmt.body@[i])); assert(match st0 { Stmt::While(y) => y == *while_stmt, _ => false }); }
@loopend 3
    proof {
        lemma_und_trans(*old(self), s0, *self, f, acc, scan_stmt(*stmt, c));
        assert((b3 + scan_body(while_stmt.body@, i, c)) + scan_stmt(*stmt, c) =~= b3 + scan_body(while_stmt.body@, i + 1, c));
        acc = acc + scan_stmt(*stmt, c);
    }
@after for 3
    proof { assert(acc =~= scan_stmt(st0, c)); }
@before visit_expr_for_names 7
    let ghost s0 = *self;
@after visit_expr_for_names 7
    proof { lemma_und_trans(*old(self), s0, *self, f, acc, scan_expr(*for_stmt.iter, c)); acc = acc + scan_expr(*for_stmt.iter, c); }
@before for 4
    let ghost b4 = acc;
    proof { assert(b4 + scan_body(for_stmt.body@, 0, c) =~= b4); }
@loopvar 4 it4
@loop 4
    invariant is_line_index(ints(ctx.line_index@)), f == pbv(ctx.file_path), c == ctxv(ctx, old(self).defs()),
        it4.seq() == for_stmt.body@.as_ref(), st0 == Stmt::For(*for_stmt),
        acc == b4 + scan_body(for_stmt.body@, it4.index@ as int, c),
        same_rest(*old(self), *self), und_rel(*old(self), *self, f, acc),
@loopstart 4
    let ghost i = it4.index@ as int;
    let ghost s0 = *self;
    proof { assert(*stmt == for_stmt.body@[i]); assert(decreases_to!(for_stmt.body => for_stmt.body@[i])); assert(match st0 { Stmt::For(y) => y == *for_stmt, _ => false }); }
@loopend 4
    proof {
        lemma_und_trans(*old(self), s0, *self, f, acc, scan_stmt(*stmt, c));
        assert((b4 + scan_body(for_stmt.body@, i, c)) + scan_stmt(*stmt, c) =~= b4 + scan_body(for_stmt.body@, i + 1, c));
        acc = acc + scan_stmt(*stmt, c);
    }
@after for 4
    proof { assert(acc =~= scan_stmt(st0, c)); }
@before for 5
    proof { assert(acc =~= scan_items(with_stmt.items@, 0, c)); }
@loopvar 5 it5
@loop 5
    invariant is_line_index(ints(ctx.line_index@)), f == pbv(ctx.file_path), c == ctxv(ctx, old(self).defs()),
        it5.seq() == with_stmt.items@.as_ref(), st0 == Stmt::With(*with_stmt),
        acc == scan_items(with_stmt.items@, it5.index@ as int, c),
        same_rest(*old(self), *self), und_rel(*old(self), *self, f, acc),
@loopstart 5
    let ghost i = it5.index@ as int;
    let ghost s0 = *self;
    proof { assert(*item == with_stmt.items@[i]); }
@loopend 5
    proof {
        lemma_und_trans(*old(self), s0, *self, f, acc, scan_expr(item.context_expr, c));
        acc = acc + scan_expr(item.context_expr, c);
    }
@before for 6
    let ghost b6 = acc;
    proof { assert(b6 + scan_body(with_stmt.body@, 0, c) =~= b6); }
@loopvar 6 it6
@loop 6
    invariant is_line_index(ints(ctx.line_index@)), f == pbv(ctx.file_path), c == ctxv(ctx, old(self).defs()),
        it6.seq() == with_stmt.body@.as_ref(), st0 == Stmt::With(*with_stmt),
        acc == b6 + scan_body(with_stmt.body@, it6.index@ as int, c),
        same_rest(*old(self), *self), und_rel(*old(self), *self, f, acc),
@loopstart 6
    let ghost i = it6.index@ as int;
    let ghost s0 = *self;
    proof { assert(*stmt == with_stmt.body@[i]); assert(decreases_to!(with_stmt.body => with_stmt.body@[i])); assert(match st0 { Stmt::With(y) => y == *with_stmt, _ => false }); }
@loopend 6
    proof {
        lemma_und_trans(*old(self), s0, *self, f, acc, scan_stmt(*stmt, c));
        assert((b6 + scan_body(with_stmt.body@, i, c)) + scan_stmt(*stmt, c) =~= b6 + scan_body(with_stmt.body@, i + 1, c));
        acc = acc + scan_stmt(*stmt, c);
    }
@after for 6
    proof { assert(acc =~= scan_stmt(st0, c)); }
@before visit_expr_for_names 9
    let ghost s0 = *self;
@after visit_expr_for_names 9
    proof { lemma_und_trans(*old(self), s0, *self, f, acc, scan_expr(*for_stmt.iter, c)); acc = acc + scan_expr(*for_stmt.iter, c); }
@before for 7
    let ghost b7 = acc;
    proof { assert(b7 + scan_body(for_stmt.body@, 0, c) =~= b7); }
@loopvar 7 it7
@loop 7
    invariant is_line_index(ints(ctx.line_index@)), f == pbv(ctx.file_path), c == ctxv(ctx, old(self).defs()),
        it7.seq() == for_stmt.body@.as_ref(), st0 == Stmt::AsyncFor(*for_stmt),
        acc == b7 + scan_body(for_stmt.body@, it7.index@ as int, c),
        same_rest(*old(self), *self), und_rel(*old(self), *self, f, acc),
@loopstart 7
    let ghost i = it7.index@ as int;
    let ghost s0 = *self;
    proof { assert(*stmt == for_stmt.body@[i]); assert(decreases_to!(for_stmt.body => for_stmt.body@[i])); assert(match st0 { Stmt::AsyncFor(y) => y == *for_stmt, _ => false }); }
@loopend 7
    proof {
        lemma_und_trans(*old(self), s0, *self, f, acc, scan_stmt(*stmt, c));
        assert((b7 + scan_body(for_stmt.body@, i, c)) + scan_stmt(*stmt, c) =~= b7 + scan_body(for_stmt.body@, i + 1, c));
        acc = acc + scan_stmt(*stmt, c);
    }
@after for 7
    proof { assert(acc =~= scan_stmt(st0, c)); }
@before for 8
    proof { assert(acc =~= scan_items(with_stmt.items@, 0, c)); }
@loopvar 8 it8
@loop 8
    invariant is_line_index(ints(ctx.line_index@)), f == pbv(ctx.file_path), c == ctxv(ctx, old(self).defs()),
        it8.seq() == with_stmt.items@.as_ref(), st0 == Stmt::AsyncWith(*with_stmt),
        acc == scan_items(with_stmt.items@, it8.index@ as int, c),
        same_rest(*old(self), *self), und_rel(*old(self), *self, f, acc),
@loopstart 8
    let ghost i = it8.index@ as int;
    let ghost s0 = *self;
    proof { assert(*item == with_stmt.items@[i]); }
@loopend 8
    proof {
        lemma_und_trans(*old(self), s0, *self, f, acc, scan_expr(item.context_expr, c));
        acc = acc + scan_expr(item.context_expr, c);
    }
@before for 9
    let ghost b9 = acc;
    proof { assert(b9 + scan_body(with_stmt.body@, 0, c) =~= b9); }
@loopvar 9 it9
@loop 9
    invariant is_line_index(ints(ctx.line_index@)), f == pbv(ctx.file_path), c == ctxv(ctx, old(self).defs()),
        it9.seq() == with_stmt.body@.as_ref(), st0 == Stmt::AsyncWith(*with_stmt),
        acc == b9 + scan_body(with_stmt.body@, it9.index@ as int, c),
        same_rest(*old(self), *self), und_rel(*old(self), *self, f, acc),
@loopstart 9
    let ghost i = it9.index@ as int;
    let ghost s0 = *self;
    proof { assert(*stmt == with_stmt.body@[i]); assert(decreases_to!(with_stmt.body => with_stmt.body@[i])); assert(match st0 { Stmt::AsyncWith(y) => y == *with_stmt, _ => false }); }
@loopend 9
    proof {
        lemma_und_trans(*old(self), s0, *self, f, acc, scan_stmt(*stmt, c));
        assert((b9 + scan_body(with_stmt.body@, i, c)) + scan_stmt(*stmt, c) =~= b9 + scan_body(with_stmt.body@, i + 1, c));
        acc = acc + scan_stmt(*stmt, c);
    }
@after for 9
    proof { assert(acc =~= scan_stmt(st0, c)); }
@before visit_expr_for_names 11
    let ghost s0 = *self;
@after visit_expr_for_names 11
    proof { lemma_und_trans(*old(self), s0, *self, f, acc, scan_expr(*assert_stmt.test, c)); acc = acc + scan_expr(*assert_stmt.test, c); }
@before visit_expr_for_names 12
    let ghost s0 = *self;
@after visit_expr_for_names 12
    proof { lemma_und_trans(*old(self), s0, *self, f, acc, scan_expr(**msg, c)); acc = acc + scan_expr(**msg, c); assert(acc =~= scan_stmt(st0, c)); }
@*/

/*@ extract src/fixtures/undeclared.rs collect_local_variables
@tags C17
@sig
    requires is_line_index(ints(line_index@)),
    ensures final(local_vars).m() == locals_body(body@, body@.len() as int, line_index@, old(local_vars).m()),
    decreases body@,
@start
    let ghost li = line_index@;
    let ghost m0 = local_vars.m();
@loopvar 1 it
@loop 1
    invariant is_line_index(ints(line_index@)), li == line_index@, it.seq() == body@.as_ref(),
        local_vars.m() == locals_body(body@, it.index@ as int, li, m0),
@loopstart 1
    let ghost oi = it.index@ as int;
    let ghost m1 = local_vars.m();
    proof { assert(*stmt == body@[oi]); assert(decreases_to!(body@ => body@[oi])); }
@loopend 1
    proof { assert(local_vars.m() == locals_stmt(*stmt, li, m1)); }
@loopvar 2 it2
@loop 2
    invariant it2.seq() == assign.targets@.as_ref(),
        temp_names.s().union(targets_from(assign.targets@, it2.index@ as int)) =~= targets_from(assign.targets@, 0),
@loopstart 2
    proof { let i = it2.index@ as int; assert(*target == assign.targets@[i]);
        assert(targets_from(assign.targets@, i) == target_names(*target).union(targets_from(assign.targets@, i + 1))); }
@before for 3
    let ghost nm3 = temp_names.s();
    proof { lemma_bind_start(nm3, m1, line); }
@loopvar 3 it3
@loop 3
    invariant bind_inv(it3.seq(), it3.index@ as int, nm3, m1, local_vars.m(), line),
@loopstart 3
    proof { assert(name == it3.seq()[it3.index@ as int]); lemma_bind_step(it3.seq(), it3.index@ as int, nm3, m1, local_vars.m(), line); }
@after for 3
    proof { assert(nm3 =~= targets_from(assign.targets@, 0)); assert(local_vars.m() == locals_stmt(*stmt, li, m1)); }
@before for 4
    let ghost nm4 = temp_names.s();
    proof { lemma_bind_start(nm4, m1, line); }
@loopvar 4 it4
@loop 4
    invariant bind_inv(it4.seq(), it4.index@ as int, nm4, m1, local_vars.m(), line),
@loopstart 4
    proof { assert(name == it4.seq()[it4.index@ as int]); lemma_bind_step(it4.seq(), it4.index@ as int, nm4, m1, local_vars.m(), line); }
@after for 4
    proof { assert(nm4 =~= target_names(*ann_assign.target)); assert(local_vars.m() == locals_stmt(*stmt, li, m1)); }
@before for 5
    let ghost nm5 = temp_names.s();
    proof { lemma_bind_start(nm5, m1, line); }
@loopvar 5 it5
@loop 5
    invariant bind_inv(it5.seq(), it5.index@ as int, nm5, m1, local_vars.m(), line),
@loopstart 5
    proof { assert(name == it5.seq()[it5.index@ as int]); lemma_bind_step(it5.seq(), it5.index@ as int, nm5, m1, local_vars.m(), line); }
@after for 5
    proof { assert(nm5 =~= target_names(*aug_assign.target)); assert(local_vars.m() == locals_stmt(*stmt, li, m1)); }
@before for 6
    let ghost nm6 = temp_names.s();
    proof { lemma_bind_start(nm6, m1, line); }
@loopvar 6 it6
@loop 6
    invariant bind_inv(it6.seq(), it6.index@ as int, nm6, m1, local_vars.m(), line),
@loopstart 6
    proof { assert(name == it6.seq()[it6.index@ as int]); lemma_bind_step(it6.seq(), it6.index@ as int, nm6, m1, local_vars.m(), line); }
@after for 6
    proof { assert(nm6 =~= target_names(*for_stmt.target)); }
@after collect_local_variables 1
    proof { assert(local_vars.m() == locals_stmt(*stmt, li, m1)); }
@before for 7
    let ghost nm7 = temp_names.s();
    proof { lemma_bind_start(nm7, m1, line); }
@loopvar 7 it7
@loop 7
    invariant bind_inv(it7.seq(), it7.index@ as int, nm7, m1, local_vars.m(), line),
@loopstart 7
    proof { assert(name == it7.seq()[it7.index@ as int]); lemma_bind_step(it7.seq(), it7.index@ as int, nm7, m1, local_vars.m(), line); }
@after for 7
    proof { assert(nm7 =~= target_names(*for_stmt.target)); }
@after collect_local_variables 2
    proof { assert(local_vars.m() == locals_stmt(*stmt, li, m1)); }
@after collect_local_variables 3
    proof { assert(local_vars.m() == locals_stmt(*stmt, li, m1)); }
@after collect_local_variables 5
    proof { assert(local_vars.m() == locals_stmt(*stmt, li, m1)); }
@loopvar 8 it8
@loop 8
    invariant is_line_index(ints(line_index@)), it8.seq() == with_stmt.items@.as_ref(),
        local_vars.m() == with_bind(with_stmt.items@, it8.index@ as int, m1, line),
@loopstart 8
    let ghost wi = it8.index@ as int;
    let ghost m2 = local_vars.m();
    proof { assert(*item == with_stmt.items@[wi]); }
@loopend 8
    proof { assert(local_vars.m() == with_bind(with_stmt.items@, wi + 1, m1, line)); }
@before for 9
    let ghost nm9 = temp_names.s();
    proof { lemma_bind_start(nm9, m2, line); }
@loopvar 9 it9
@loop 9
    invariant bind_inv(it9.seq(), it9.index@ as int, nm9, m2, local_vars.m(), line),
@loopstart 9
    proof { assert(name == it9.seq()[it9.index@ as int]); lemma_bind_step(it9.seq(), it9.index@ as int, nm9, m2, local_vars.m(), line); }
@after for 9
    proof { assert(nm9 =~= target_names(**optional_vars)); }
@after collect_local_variables 6
    proof { assert(local_vars.m() == locals_stmt(*stmt, li, m1)); }
@loopvar 10 it10
@loop 10
    invariant is_line_index(ints(line_index@)), it10.seq() == with_stmt.items@.as_ref(),
        local_vars.m() == with_bind(with_stmt.items@, it10.index@ as int, m1, line),
@loopstart 10
    let ghost wi = it10.index@ as int;
    let ghost m2 = local_vars.m();
    proof { assert(*item == with_stmt.items@[wi]); }
@loopend 10
    proof { assert(local_vars.m() == with_bind(with_stmt.items@, wi + 1, m1, line)); }
@before for 11
    let ghost nm11 = temp_names.s();
    proof { lemma_bind_start(nm11, m2, line); }
@loopvar 11 it11
@loop 11
    invariant bind_inv(it11.seq(), it11.index@ as int, nm11, m2, local_vars.m(), line),
@loopstart 11
    proof { assert(name == it11.seq()[it11.index@ as int]); lemma_bind_step(it11.seq(), it11.index@ as int, nm11, m2, local_vars.m(), line); }
@after for 11
    proof { assert(nm11 =~= target_names(**optional_vars)); }
@after collect_local_variables 7
    proof { assert(local_vars.m() == locals_stmt(*stmt, li, m1)); }
@after collect_local_variables 10
    proof { assert(local_vars.m() == locals_stmt(*stmt, li, m1)); }
@*/

/*@ extract src/fixtures/undeclared.rs scan_function_body_for_undeclared_fixtures
@tags C17
@recv mut
@sig
    requires is_line_index(ints(line_index@)),
    ensures
        final(self).definitions == old(self).definitions, final(self).file_definitions == old(self).file_definitions,
        final(self).usages == old(self).usages, final(self).usage_by_fixture == old(self).usage_by_fixture,
        final(self).definitions_version == old(self).definitions_version,
        final(self).file_cache == old(self).file_cache, final(self).imports == old(self).imports,
        final(self).plugin_fixture_files == old(self).plugin_fixture_files,
        final(self).undeclared_fixtures.m().remove(pbv(file_path)) == old(self).undeclared_fixtures.m().remove(pbv(file_path)),
        undecl_view(final(self).undeclared_fixtures.m()) == push_undecl(undecl_view(old(self).undeclared_fixtures.m()), pbv(file_path),
            scan_fn(body@, pbv(file_path), line_index@, declared_params.s(), function_name@, function_line,
                    old(self).defs(), imps_of(old(self).imports.m(), pbv(file_path)))),
@start
    let ghost f = pbv(file_path);
    let ghost li = line_index@;
    let ghost imps = imps_of(old(self).imports.m(), f);
    let ghost c = fn_ctx(body@, f, li, declared_params.s(), function_name@, function_line, old(self).defs(), imps);
    let ghost mut acc: Seq<UndV> = Seq::empty();
    proof { lemma_und_refl(*old(self), f); }
@after collect_local_variables 1
    let ghost m1 = local_vars.m();
    proof { assert(m1 == locals_body(body@, body@.len() as int, li, Map::empty())); }
@before for 1
    proof { assert(imports.r.s() == imps); lemma_bind_start_r(imps, m1, 0); }
@loopvar 1 it1
@loop 1
    invariant bind_inv_r(it1.seq(), it1.index@ as int, imps, m1, local_vars.m(), 0),
@loopstart 1
    proof { assert(import == it1.seq()[it1.index@ as int]); lemma_bind_step_r(it1.seq(), it1.index@ as int, imps, m1, local_vars.m(), 0); }
@before ctx 1
    proof {
        if !old(self).imports.m().contains_key(f) { lemma_bind_all_empty(m1, 0); }
        assert(local_vars.m() == fn_locals(body@, li, imps));
    }
@before for 2
    proof { assert(ctxv(&ctx, old(self).defs()) == c); assert(acc =~= scan_body(body@, 0, c)); }
@loopvar 2 it2
@loop 2
    invariant is_line_index(ints(ctx.line_index@)), f == pbv(ctx.file_path), c == ctxv(&ctx, old(self).defs()),
        it2.seq() == body@.as_ref(),
        acc == scan_body(body@, it2.index@ as int, c),
        same_rest(*old(self), *self), und_rel(*old(self), *self, f, acc),
@loopstart 2
    let ghost i = it2.index@ as int;
    let ghost s0 = *self;
    proof { assert(*stmt == body@[i]); }
@loopend 2
    proof {
        lemma_und_trans(*old(self), s0, *self, f, acc, scan_stmt(*stmt, c));
        acc = acc + scan_stmt(*stmt, c);
    }
@end
    proof { lemma_und_open(*old(self), *self, f, acc); }
@*/

// exec canary (must FAIL): the same real body, claiming the file's module-level names (`imports`) play no role
/*@ extract src/fixtures/undeclared.rs scan_function_body_for_undeclared_fixtures
@tags C17
@as canary_scan_ignores_module_level_names
@recv mut
@sig
    requires is_line_index(ints(line_index@)),
    ensures
        final(self).definitions == old(self).definitions, final(self).file_definitions == old(self).file_definitions,
        final(self).usages == old(self).usages, final(self).usage_by_fixture == old(self).usage_by_fixture,
        final(self).definitions_version == old(self).definitions_version,
        final(self).file_cache == old(self).file_cache, final(self).imports == old(self).imports,
        final(self).plugin_fixture_files == old(self).plugin_fixture_files,
        final(self).undeclared_fixtures.m().remove(pbv(file_path)) == old(self).undeclared_fixtures.m().remove(pbv(file_path)),
        undecl_view(final(self).undeclared_fixtures.m()) == push_undecl(undecl_view(old(self).undeclared_fixtures.m()), pbv(file_path),
            scan_fn(body@, pbv(file_path), line_index@, declared_params.s(), function_name@, function_line,
                    old(self).defs(), Set::empty())),
@start
    let ghost f = pbv(file_path);
    let ghost li = line_index@;
    let ghost imps = imps_of(old(self).imports.m(), f);
    let ghost c = fn_ctx(body@, f, li, declared_params.s(), function_name@, function_line, old(self).defs(), imps);
    let ghost mut acc: Seq<UndV> = Seq::empty();
    proof { lemma_und_refl(*old(self), f); }
@after collect_local_variables 1
    let ghost m1 = local_vars.m();
    proof { assert(m1 == locals_body(body@, body@.len() as int, li, Map::empty())); }
@before for 1
    proof { assert(imports.r.s() == imps); lemma_bind_start_r(imps, m1, 0); }
@loopvar 1 it1
@loop 1
    invariant bind_inv_r(it1.seq(), it1.index@ as int, imps, m1, local_vars.m(), 0),
@loopstart 1
    proof { assert(import == it1.seq()[it1.index@ as int]); lemma_bind_step_r(it1.seq(), it1.index@ as int, imps, m1, local_vars.m(), 0); }
@before ctx 1
    proof {
        if !old(self).imports.m().contains_key(f) { lemma_bind_all_empty(m1, 0); }
        assert(local_vars.m() == fn_locals(body@, li, imps));
    }
@before for 2
    proof { assert(ctxv(&ctx, old(self).defs()) == c); assert(acc =~= scan_body(body@, 0, c)); }
@loopvar 2 it2
@loop 2
    invariant is_line_index(ints(ctx.line_index@)), f == pbv(ctx.file_path), c == ctxv(&ctx, old(self).defs()),
        it2.seq() == body@.as_ref(),
        acc == scan_body(body@, it2.index@ as int, c),
        same_rest(*old(self), *self), und_rel(*old(self), *self, f, acc),
@loopstart 2
    let ghost i = it2.index@ as int;
    let ghost s0 = *self;
    proof { assert(*stmt == body@[i]); }
@loopend 2
    proof {
        lemma_und_trans(*old(self), s0, *self, f, acc, scan_stmt(*stmt, c));
        acc = acc + scan_stmt(*stmt, c);
    }
@end
    proof { lemma_und_open(*old(self), *self, f, acc); }
@*/
}

// ================================================================================================================
// L2: property C17 (scanner part) from the operational specification
// ================================================================================================================
// ---- (a) precision ---------------------------------------------------------------------------------------------
/// what holds of every finding recorded with context c: its name is not a declared parameter, it is not a local
/// variable recorded with an EARLIER line, some definition of it is visible from the file (is_available_fixture,
/// unit undeclared_avail), its line is a real (1-based) line, and it is filed under the scanned file / function
pub open spec fn entry_ok(u: UndV, c: ScanV) -> bool {
    &&& !c.declared.contains(u.name)
    &&& !local_in_scope(c.locals, u.name, u.line)
    &&& op_is_available(bucket(c.defs, u.name), c.file)
    &&& (is_line_index(ints(c.li)) && c.li.len() <= usize::MAX ==> u.line >= 1)
    &&& u.file == c.file && u.function_name == c.fname && u.function_line == c.fline
}
pub open spec fn all_ok(s: Seq<UndV>, c: ScanV) -> bool { forall|i: int| 0 <= i < s.len() ==> entry_ok(#[trigger] s[i], c) }
//@tags C17
pub proof fn lemma_vline_ge1(li: Seq<usize>, off: usize)
    requires is_line_index(ints(li)), li.len() <= usize::MAX,
    ensures vline(li, off) >= 1,
{
    lemma_line_sound(ints(li), off as int);
}
//@tags C17
pub proof fn lemma_scan_expr_ok(e: Expr, c: ScanV)
    ensures all_ok(scan_expr(e, c), c),
    decreases e, 0int
{
    match e {
        Expr::Name(n) => { if is_line_index(ints(c.li)) && c.li.len() <= usize::MAX { lemma_vline_ge1(c.li, r_start(n.range)); } }
        Expr::Call(x) => { lemma_scan_expr_ok(*x.func, c); lemma_scan_exprs_ok(x.args@, x.args@.len() as int, c); }
        Expr::Attribute(x) => { lemma_scan_expr_ok(*x.value, c); }
        Expr::BinOp(x) => { lemma_scan_expr_ok(*x.left, c); lemma_scan_expr_ok(*x.right, c); }
        Expr::UnaryOp(x) => { lemma_scan_expr_ok(*x.operand, c); }
        Expr::Compare(x) => { lemma_scan_expr_ok(*x.left, c); lemma_scan_exprs_ok(x.comparators@, x.comparators@.len() as int, c); }
        Expr::Subscript(x) => { lemma_scan_expr_ok(*x.value, c); lemma_scan_expr_ok(*x.slice, c); }
        Expr::List(x) => { lemma_scan_exprs_ok(x.elts@, x.elts@.len() as int, c); }
        Expr::Tuple(x) => { lemma_scan_exprs_ok(x.elts@, x.elts@.len() as int, c); }
        Expr::Dict(x) => { lemma_scan_keys_ok(x.keys@, x.keys@.len() as int, c); lemma_scan_exprs_ok(x.values@, x.values@.len() as int, c); }
        Expr::Await(x) => { lemma_scan_expr_ok(*x.value, c); }
        _ => {}
    }
}
//@tags C17
pub proof fn lemma_scan_exprs_ok(es: Seq<Expr>, n: int, c: ScanV)
    ensures all_ok(scan_exprs(es, n, c), c),
    decreases es, n
{
    if 0 < n <= es.len() { lemma_scan_exprs_ok(es, n - 1, c); lemma_scan_expr_ok(es[n - 1], c); }
}
//@tags C17
pub proof fn lemma_scan_keys_ok(ks: Seq<Option<Expr>>, n: int, c: ScanV)
    ensures all_ok(scan_keys(ks, n, c), c),
    decreases ks, n
{
    if 0 < n <= ks.len() {
        lemma_scan_keys_ok(ks, n - 1, c);
        match ks[n - 1] { Some(k) => { lemma_scan_expr_ok(k, c); } None => {} }
    }
}
//@tags C17
pub proof fn lemma_scan_items_ok(items: Seq<AWithItem>, n: int, c: ScanV)
    ensures all_ok(scan_items(items, n, c), c),
    decreases n
{
    if 0 < n <= items.len() { lemma_scan_items_ok(items, n - 1, c); lemma_scan_expr_ok(items[n - 1].context_expr, c); }
}
//@tags C17
pub proof fn lemma_scan_stmt_ok(s: Stmt, c: ScanV)
    ensures all_ok(scan_stmt(s, c), c),
    decreases s, 0int
{
    match s {
        Stmt::Expr(x) => { lemma_scan_expr_ok(*x.value, c); }
        Stmt::Assign(x) => { lemma_scan_expr_ok(*x.value, c); }
        Stmt::AugAssign(x) => { lemma_scan_expr_ok(*x.value, c); }
        Stmt::Return(x) => { match x.value { Some(v) => { lemma_scan_expr_ok(*v, c); } None => {} } }
        Stmt::If(x) => { lemma_scan_expr_ok(*x.test, c); lemma_scan_body_ok(x.body@, x.body@.len() as int, c); lemma_scan_body_ok(x.orelse@, x.orelse@.len() as int, c); }
        Stmt::While(x) => { lemma_scan_expr_ok(*x.test, c); lemma_scan_body_ok(x.body@, x.body@.len() as int, c); }
        Stmt::For(x) => { lemma_scan_expr_ok(*x.iter, c); lemma_scan_body_ok(x.body@, x.body@.len() as int, c); }
        Stmt::With(x) => { lemma_scan_items_ok(x.items@, x.items@.len() as int, c); lemma_scan_body_ok(x.body@, x.body@.len() as int, c); }
        Stmt::AsyncFor(x) => { lemma_scan_expr_ok(*x.iter, c); lemma_scan_body_ok(x.body@, x.body@.len() as int, c); }
        Stmt::AsyncWith(x) => { lemma_scan_items_ok(x.items@, x.items@.len() as int, c); lemma_scan_body_ok(x.body@, x.body@.len() as int, c); }
        Stmt::Assert(x) => { lemma_scan_expr_ok(*x.test, c); match x.msg { Some(m) => { lemma_scan_expr_ok(*m, c); } None => {} } }
        _ => {}
    }
}
//@tags C17
pub proof fn lemma_scan_body_ok(b: Seq<Stmt>, n: int, c: ScanV)
    ensures all_ok(scan_body(b, n, c), c),
    decreases b, n
{
    if 0 < n <= b.len() { lemma_scan_body_ok(b, n - 1, c); lemma_scan_stmt_ok(b[n - 1], c); }
}

/// C17.a -- precision, all four clauses at once, for EVERY finding of a function scan:
///  * its name is not in declared_params (what unit visit passes: the parameters, `self`, `request` and -- for a
///    fixture -- the function's own name; lemma_C17_a_declared_has_params below),
///  * it is not recorded in local_vars with a line STRICTLY SMALLER than the line of the use (which bindings are
///    recorded, and with which line: locals_body; lemma_C17_a_bound_once_protected / FINDING below),
///  * it is not a name of the file's `imports` entry (module-level names: they are recorded with line 0 and every
///    use is on a line >= 1),
///  * is_available_fixture holds for it: some registered definition of that name is visible from the file,
/// and it is filed under the scanned file with the scanned function's name and line.
//@tags C17
pub proof fn lemma_C17_a_precision(body: Seq<Stmt>, file: PV, li: Seq<usize>, declared: Set<Seq<char>>, fname: Seq<char>, fline: usize,
                                   defs: Map<Seq<char>, Seq<DefV>>, imps: Set<Seq<char>>, i: int)
    requires is_line_index(ints(li)), li.len() <= usize::MAX,
        0 <= i < scan_fn(body, file, li, declared, fname, fline, defs, imps).len(),
    ensures ({
        let u = scan_fn(body, file, li, declared, fname, fline, defs, imps)[i];
        let locals = fn_locals(body, li, imps);
        &&& !declared.contains(u.name)
        &&& !(locals.contains_key(u.name) && locals[u.name] < u.line)
        &&& !imps.contains(u.name)
        &&& op_is_available(bucket(defs, u.name), file)
        &&& bucket(defs, u.name).len() > 0
        &&& u.file == file && u.function_name == fname && u.function_line == fline
    }),
{
    let c = fn_ctx(body, file, li, declared, fname, fline, defs, imps);
    lemma_scan_body_ok(body, body.len() as int, c);
    let u = scan_fn(body, file, li, declared, fname, fline, defs, imps)[i];
    assert(entry_ok(u, c));
    if imps.contains(u.name) { assert(c.locals[u.name] == 0); }
}
/// ... a name no fixture carries is never flagged (empty bucket)
//@tags C17
pub proof fn lemma_C17_a_unknown_name_never_flagged(n: AExprName, c: ScanV)
    requires bucket(c.defs, idv(&n.id)).len() == 0,
    ensures !name_flag(n, c), scan_expr(Expr::Name(n), c).len() == 0,
{
}
/// ... what unit visit hands over as declared_params contains every parameter name (positional-only, ordinary,
/// keyword-only -- NOT *args / **kwargs), `self` and `request`; for a fixture also the function's own name
//@tags C17
pub proof fn lemma_declared_of_has(ps: Seq<AArg>, n: int, base: Set<Seq<char>>, k: int)
    requires 0 <= k < n <= ps.len(),
    ensures declared_of(ps, n, base).contains(pname(ps[k])),
        forall|x: Seq<char>| base.contains(x) ==> declared_of(ps, n, base).contains(x),
    decreases n
{
    if k < n - 1 { lemma_declared_of_has(ps, n - 1, base, k); }
    else { lemma_declared_of_base(ps, n - 1, base); }
}
//@tags C17
pub proof fn lemma_declared_of_base(ps: Seq<AArg>, n: int, base: Set<Seq<char>>)
    ensures forall|x: Seq<char>| base.contains(x) ==> declared_of(ps, n, base).contains(x),
    decreases n
{
    if 0 < n <= ps.len() { lemma_declared_of_base(ps, n - 1, base); }
}
//@tags C17
pub proof fn lemma_C17_a_declared_has_params(fname: Seq<char>, a: AArguments, k: int)
    requires 0 <= k < all_params(a).len(),
    ensures declared_test(a).contains(pname(all_params(a)[k])), declared_fixture(fname, a).contains(pname(all_params(a)[k])),
        declared_test(a).contains("self"@), declared_test(a).contains("request"@),
        declared_fixture(fname, a).contains("self"@), declared_fixture(fname, a).contains("request"@), declared_fixture(fname, a).contains(fname),
{
    let ps = all_params(a);
    let b1 = Set::<Seq<char>>::empty().insert("self"@).insert("request"@);
    let b2 = b1.insert(fname);
    lemma_declared_of_has(ps, ps.len() as int, b1, k);
    lemma_declared_of_has(ps, ps.len() as int, b2, k);
    assert(b1.contains("self"@) && b1.contains("request"@));
    assert(b2.contains("self"@) && b2.contains("request"@) && b2.contains(fname));
}

// ---- which bindings protect a use: the names collect_local_variables records -------------------------------------
pub open spec fn with_names(items: Seq<AWithItem>, n: int) -> Set<Seq<char>>
    decreases n
{
    if n <= 0 || n > items.len() { Set::empty() } else {
        match items[n - 1].optional_vars { Some(v) => with_names(items, n - 1).union(target_names(*v)), None => with_names(items, n - 1) }
    }
}
/// every name collect_local_variables (re)binds anywhere inside statement s
pub open spec fn binds_stmt(s: Stmt) -> Set<Seq<char>>
    decreases s, 0int
{
    match s {
        Stmt::Assign(x) => targets_from(x.targets@, 0),
        Stmt::AnnAssign(x) => target_names(*x.target),
        Stmt::AugAssign(x) => target_names(*x.target),
        Stmt::For(x) => target_names(*x.target).union(binds_body(x.body@, x.body@.len() as int)),
        Stmt::AsyncFor(x) => target_names(*x.target).union(binds_body(x.body@, x.body@.len() as int)),
        Stmt::While(x) => binds_body(x.body@, x.body@.len() as int),
        Stmt::If(x) => binds_body(x.body@, x.body@.len() as int).union(binds_body(x.orelse@, x.orelse@.len() as int)),
        Stmt::With(x) => with_names(x.items@, x.items@.len() as int).union(binds_body(x.body@, x.body@.len() as int)),
        Stmt::AsyncWith(x) => with_names(x.items@, x.items@.len() as int).union(binds_body(x.body@, x.body@.len() as int)),
        Stmt::Try(x) => binds_body(x.body@, x.body@.len() as int).union(binds_body(x.orelse@, x.orelse@.len() as int)).union(binds_body(x.finalbody@, x.finalbody@.len() as int)),
        _ => Set::empty(),
    }
}
pub open spec fn binds_body(b: Seq<Stmt>, n: int) -> Set<Seq<char>>
    decreases b, n
{
    if n <= 0 || n > b.len() { Set::empty() } else { binds_body(b, n - 1).union(binds_stmt(b[n - 1])) }
}
/// "entry k of m2 is entry k of m1" (both absent, or both present with the same line)
pub open spec fn same_at(m1: Map<Seq<char>, usize>, m2: Map<Seq<char>, usize>, k: Seq<char>) -> bool {
    m1.contains_key(k) == m2.contains_key(k) && (m1.contains_key(k) ==> m1[k] == m2[k])
}
//@tags C17
pub proof fn lemma_with_bind_frame(items: Seq<AWithItem>, n: int, m: Map<Seq<char>, usize>, line: usize, k: Seq<char>)
    requires !with_names(items, n).contains(k),
    ensures same_at(m, with_bind(items, n, m, line), k),
    decreases n
{
    if 0 < n <= items.len() { lemma_with_bind_frame(items, n - 1, m, line, k); }
}
/// a statement that binds k nowhere leaves k's entry alone
//@tags C17
pub proof fn lemma_locals_stmt_frame(s: Stmt, li: Seq<usize>, m: Map<Seq<char>, usize>, k: Seq<char>)
    requires !binds_stmt(s).contains(k),
    ensures same_at(m, locals_stmt(s, li, m), k),
    decreases s, 0int
{
    match s {
        Stmt::For(x) => { lemma_locals_body_frame(x.body@, x.body@.len() as int, li, bind_all(m, target_names(*x.target), vline(li, r_start(x.range))), k); }
        Stmt::AsyncFor(x) => { lemma_locals_body_frame(x.body@, x.body@.len() as int, li, bind_all(m, target_names(*x.target), vline(li, r_start(x.range))), k); }
        Stmt::While(x) => { lemma_locals_body_frame(x.body@, x.body@.len() as int, li, m, k); }
        Stmt::If(x) => {
            let m1 = locals_body(x.body@, x.body@.len() as int, li, m);
            lemma_locals_body_frame(x.body@, x.body@.len() as int, li, m, k);
            lemma_locals_body_frame(x.orelse@, x.orelse@.len() as int, li, m1, k);
        }
        Stmt::With(x) => {
            let m1 = with_bind(x.items@, x.items@.len() as int, m, vline(li, r_start(x.range)));
            lemma_with_bind_frame(x.items@, x.items@.len() as int, m, vline(li, r_start(x.range)), k);
            lemma_locals_body_frame(x.body@, x.body@.len() as int, li, m1, k);
        }
        Stmt::AsyncWith(x) => {
            let m1 = with_bind(x.items@, x.items@.len() as int, m, vline(li, r_start(x.range)));
            lemma_with_bind_frame(x.items@, x.items@.len() as int, m, vline(li, r_start(x.range)), k);
            lemma_locals_body_frame(x.body@, x.body@.len() as int, li, m1, k);
        }
        Stmt::Try(x) => {
            let m1 = locals_body(x.body@, x.body@.len() as int, li, m);
            let m2 = locals_body(x.orelse@, x.orelse@.len() as int, li, m1);
            lemma_locals_body_frame(x.body@, x.body@.len() as int, li, m, k);
            lemma_locals_body_frame(x.orelse@, x.orelse@.len() as int, li, m1, k);
            lemma_locals_body_frame(x.finalbody@, x.finalbody@.len() as int, li, m2, k);
        }
        _ => {}
    }
}
//@tags C17
pub proof fn lemma_locals_body_frame(b: Seq<Stmt>, n: int, li: Seq<usize>, m: Map<Seq<char>, usize>, k: Seq<char>)
    requires !binds_body(b, n).contains(k),
    ensures same_at(m, locals_body(b, n, li, m), k),
    decreases b, n
{
    if 0 < n <= b.len() {
        lemma_locals_body_frame(b, n - 1, li, m, k);
        lemma_locals_stmt_frame(b[n - 1], li, locals_body(b, n - 1, li, m), k);
    }
}
/// a top-level statement of the function body that binds k DIRECTLY (`k = ..`, `k: T = ..`, `k += ..`, also as an
/// element of a tuple / list target)
pub open spec fn binds_directly(s: Stmt, k: Seq<char>) -> bool {
    match s {
        Stmt::Assign(x) => targets_from(x.targets@, 0).contains(k),
        Stmt::AnnAssign(x) => target_names(*x.target).contains(k),
        Stmt::AugAssign(x) => target_names(*x.target).contains(k),
        _ => false,
    }
}
pub open spec fn stmt_start(s: Stmt) -> TextRange {
    match s { Stmt::Assign(x) => x.range, Stmt::AnnAssign(x) => x.range, Stmt::AugAssign(x) => x.range, _ => arbitrary() }
}
//@tags C17
pub proof fn lemma_locals_after(b: Seq<Stmt>, j: int, n: int, li: Seq<usize>, m: Map<Seq<char>, usize>, k: Seq<char>)
    requires 0 <= j < n <= b.len(), binds_directly(b[j], k),
        forall|i: int| j < i < n ==> !binds_stmt(#[trigger] b[i]).contains(k),
    ensures locals_body(b, n, li, m).contains_key(k), locals_body(b, n, li, m)[k] == vline(li, r_start(stmt_start(b[j]))),
    decreases n
{
    let m1 = locals_body(b, n - 1, li, m);
    assert(locals_body(b, n, li, m) == locals_stmt(b[n - 1], li, m1));
    if n - 1 > j {
        lemma_locals_after(b, j, n - 1, li, m, k);
        lemma_locals_stmt_frame(b[n - 1], li, m1, k);
    } else {
        match b[j] {
            Stmt::Assign(x) => { assert(locals_stmt(b[j], li, m1) == bind_all(m1, targets_from(x.targets@, 0), vline(li, r_start(x.range)))); }
            Stmt::AnnAssign(x) => { assert(locals_stmt(b[j], li, m1) == bind_all(m1, target_names(*x.target), vline(li, r_start(x.range)))); }
            Stmt::AugAssign(x) => { assert(locals_stmt(b[j], li, m1) == bind_all(m1, target_names(*x.target), vline(li, r_start(x.range)))); }
            _ => {}
        }
    }
}
/// C17.a (locals, positive part): if the LAST statement of the body that binds `k` anywhere is a top-level assignment
/// at line L (nothing after it rebinds k), then every use of k on a line > L is protected: it is never flagged
//@tags C17
pub proof fn lemma_C17_a_bound_once_protected(body: Seq<Stmt>, j: int, file: PV, li: Seq<usize>, declared: Set<Seq<char>>, fname: Seq<char>,
        fline: usize, defs: Map<Seq<char>, Seq<DefV>>, imps: Set<Seq<char>>, n: AExprName)
    requires 0 <= j < body.len(), binds_directly(body[j], idv(&n.id)),
        forall|i: int| j < i < body.len() ==> !binds_stmt(#[trigger] body[i]).contains(idv(&n.id)),
        vline(li, r_start(stmt_start(body[j]))) < vline(li, r_start(n.range)),
    ensures !name_flag(n, fn_ctx(body, file, li, declared, fname, fline, defs, imps)),
{
    lemma_locals_after(body, j, body.len() as int, li, Map::empty(), idv(&n.id));
}
/// FINDING (proved): "a local variable bound on an earlier line" is NOT always protected -- local_vars keeps ONE line
/// per name and a later binding REPLACES it.  If the last statement binding k is at line L3, a use of k on a line
/// <= L3 is flagged (when k is an available fixture name, not declared, not a module-level name) EVEN IF k was
/// also bound on a line L1 before the use:      x = 1 (L1) / print(x) (L2) / x = 2 (L3),  L1 < L2 <= L3
//@tags C17
pub proof fn lemma_C17_FINDING_later_rebinding_exposes_earlier_use(body: Seq<Stmt>, j1: int, j3: int, file: PV, li: Seq<usize>,
        declared: Set<Seq<char>>, fname: Seq<char>, fline: usize, defs: Map<Seq<char>, Seq<DefV>>, imps: Set<Seq<char>>, n: AExprName)
    requires 0 <= j1 < j3 < body.len(),
        binds_directly(body[j1], idv(&n.id)), binds_directly(body[j3], idv(&n.id)),
        forall|i: int| j3 < i < body.len() ==> !binds_stmt(#[trigger] body[i]).contains(idv(&n.id)),
        vline(li, r_start(stmt_start(body[j1]))) < vline(li, r_start(n.range)),              // bound on an EARLIER line
        vline(li, r_start(n.range)) <= vline(li, r_start(stmt_start(body[j3]))),             // and again on a later one
        !declared.contains(idv(&n.id)), !imps.contains(idv(&n.id)), op_is_available(bucket(defs, idv(&n.id)), file),
    ensures name_flag(n, fn_ctx(body, file, li, declared, fname, fline, defs, imps)),
        scan_expr(Expr::Name(n), fn_ctx(body, file, li, declared, fname, fline, defs, imps))
            == seq![name_entry(n, fn_ctx(body, file, li, declared, fname, fline, defs, imps))],
{
    lemma_locals_after(body, j3, body.len() as int, li, Map::empty(), idv(&n.id));
}

// ---- (b) completeness for the plain uses the scanner visits -----------------------------------------------------
/// the Name node n occurs in e as a PLAIN USE: e itself, a call target or positional argument, an attribute base, a
/// binary / unary operand, a comparison operand, a subscript value or index, a list / tuple element, a dict key or
/// value, an await operand -- nested to any depth through these forms only
pub open spec fn plain_in_expr(e: Expr, n: AExprName) -> bool
    decreases e, 0int
{
    match e {
        Expr::Name(x) => x == n,
        Expr::Call(x) => plain_in_expr(*x.func, n) || plain_in_exprs(x.args@, x.args@.len() as int, n),
        Expr::Attribute(x) => plain_in_expr(*x.value, n),
        Expr::BinOp(x) => plain_in_expr(*x.left, n) || plain_in_expr(*x.right, n),
        Expr::UnaryOp(x) => plain_in_expr(*x.operand, n),
        Expr::Compare(x) => plain_in_expr(*x.left, n) || plain_in_exprs(x.comparators@, x.comparators@.len() as int, n),
        Expr::Subscript(x) => plain_in_expr(*x.value, n) || plain_in_expr(*x.slice, n),
        Expr::List(x) => plain_in_exprs(x.elts@, x.elts@.len() as int, n),
        Expr::Tuple(x) => plain_in_exprs(x.elts@, x.elts@.len() as int, n),
        Expr::Dict(x) => plain_in_keys(x.keys@, x.keys@.len() as int, n) || plain_in_exprs(x.values@, x.values@.len() as int, n),
        Expr::Await(x) => plain_in_expr(*x.value, n),
        _ => false,
    }
}
pub open spec fn plain_in_exprs(es: Seq<Expr>, k: int, n: AExprName) -> bool
    decreases es, k
{
    if k <= 0 || k > es.len() { false } else { plain_in_exprs(es, k - 1, n) || plain_in_expr(es[k - 1], n) }
}
pub open spec fn plain_in_keys(ks: Seq<Option<Expr>>, k: int, n: AExprName) -> bool
    decreases ks, k
{
    if k <= 0 || k > ks.len() { false } else {
        plain_in_keys(ks, k - 1, n) || (match ks[k - 1] { Some(e) => plain_in_expr(e, n), None => false })
    }
}
pub open spec fn plain_in_items(items: Seq<AWithItem>, k: int, n: AExprName) -> bool
    decreases k
{
    if k <= 0 || k > items.len() { false } else { plain_in_items(items, k - 1, n) || plain_in_expr(items[k - 1].context_expr, n) }
}
pub open spec fn plain_in_opt(o: Option<Box<Expr>>, n: AExprName) -> bool {
    match o { Some(b) => plain_in_expr(*b, n), None => false }
}
/// ... in an ORDINARY STATEMENT: an expression statement, the value of an assignment / augmented assignment, a
/// returned value, the test of if / while / assert (and the assert message), the iterable of a for, the context
/// expression of a with, and -- recursively -- the statements of if bodies and else-branches and of while / for /
/// with bodies (sync and async)
pub open spec fn plain_in_stmt(s: Stmt, n: AExprName) -> bool
    decreases s, 0int
{
    match s {
        Stmt::Expr(x) => plain_in_expr(*x.value, n),
        Stmt::Assign(x) => plain_in_expr(*x.value, n),
        Stmt::AugAssign(x) => plain_in_expr(*x.value, n),
        Stmt::Return(x) => plain_in_opt(x.value, n),
        Stmt::If(x) => plain_in_expr(*x.test, n) || plain_in_body(x.body@, x.body@.len() as int, n) || plain_in_body(x.orelse@, x.orelse@.len() as int, n),
        Stmt::While(x) => plain_in_expr(*x.test, n) || plain_in_body(x.body@, x.body@.len() as int, n),
        Stmt::For(x) => plain_in_expr(*x.iter, n) || plain_in_body(x.body@, x.body@.len() as int, n),
        Stmt::With(x) => plain_in_items(x.items@, x.items@.len() as int, n) || plain_in_body(x.body@, x.body@.len() as int, n),
        Stmt::AsyncFor(x) => plain_in_expr(*x.iter, n) || plain_in_body(x.body@, x.body@.len() as int, n),
        Stmt::AsyncWith(x) => plain_in_items(x.items@, x.items@.len() as int, n) || plain_in_body(x.body@, x.body@.len() as int, n),
        Stmt::Assert(x) => plain_in_expr(*x.test, n) || plain_in_opt(x.msg, n),
        _ => false,
    }
}
pub open spec fn plain_in_body(b: Seq<Stmt>, k: int, n: AExprName) -> bool
    decreases b, k
{
    if k <= 0 || k > b.len() { false } else { plain_in_body(b, k - 1, n) || plain_in_stmt(b[k - 1], n) }
}
pub open spec fn has(s: Seq<UndV>, u: UndV) -> bool { exists|i: int| 0 <= i < s.len() && s[i] == u }
//@tags C17
pub proof fn lemma_has_concat(a: Seq<UndV>, b: Seq<UndV>, u: UndV)
    ensures has(a, u) ==> has(a + b, u), has(b, u) ==> has(a + b, u),
{
    if has(a, u) { let i = choose|i: int| 0 <= i < a.len() && a[i] == u; assert((a + b)[i] == u); }
    if has(b, u) { let i = choose|i: int| 0 <= i < b.len() && b[i] == u; assert((a + b)[a.len() + i] == u); }
}
//@tags C17
pub proof fn lemma_plain_expr_flagged(e: Expr, n: AExprName, c: ScanV)
    requires plain_in_expr(e, n), name_flag(n, c),
    ensures has(scan_expr(e, c), name_entry(n, c)),
    decreases e, 0int
{
    let u = name_entry(n, c);
    match e {
        Expr::Name(x) => { assert(scan_expr(e, c)[0] == u); }
        Expr::Call(x) => {
            let a = scan_expr(*x.func, c); let b = scan_exprs(x.args@, x.args@.len() as int, c);
            if plain_in_expr(*x.func, n) { lemma_plain_expr_flagged(*x.func, n, c); } else { lemma_plain_exprs_flagged(x.args@, x.args@.len() as int, n, c); }
            lemma_has_concat(a, b, u);
        }
        Expr::Attribute(x) => { lemma_plain_expr_flagged(*x.value, n, c); }
        Expr::BinOp(x) => {
            if plain_in_expr(*x.left, n) { lemma_plain_expr_flagged(*x.left, n, c); } else { lemma_plain_expr_flagged(*x.right, n, c); }
            lemma_has_concat(scan_expr(*x.left, c), scan_expr(*x.right, c), u);
        }
        Expr::UnaryOp(x) => { lemma_plain_expr_flagged(*x.operand, n, c); }
        Expr::Compare(x) => {
            if plain_in_expr(*x.left, n) { lemma_plain_expr_flagged(*x.left, n, c); } else { lemma_plain_exprs_flagged(x.comparators@, x.comparators@.len() as int, n, c); }
            lemma_has_concat(scan_expr(*x.left, c), scan_exprs(x.comparators@, x.comparators@.len() as int, c), u);
        }
        Expr::Subscript(x) => {
            if plain_in_expr(*x.value, n) { lemma_plain_expr_flagged(*x.value, n, c); } else { lemma_plain_expr_flagged(*x.slice, n, c); }
            lemma_has_concat(scan_expr(*x.value, c), scan_expr(*x.slice, c), u);
        }
        Expr::List(x) => { lemma_plain_exprs_flagged(x.elts@, x.elts@.len() as int, n, c); }
        Expr::Tuple(x) => { lemma_plain_exprs_flagged(x.elts@, x.elts@.len() as int, n, c); }
        Expr::Dict(x) => {
            if plain_in_keys(x.keys@, x.keys@.len() as int, n) { lemma_plain_keys_flagged(x.keys@, x.keys@.len() as int, n, c); }
            else { lemma_plain_exprs_flagged(x.values@, x.values@.len() as int, n, c); }
            lemma_has_concat(scan_keys(x.keys@, x.keys@.len() as int, c), scan_exprs(x.values@, x.values@.len() as int, c), u);
        }
        Expr::Await(x) => { lemma_plain_expr_flagged(*x.value, n, c); }
        _ => {}
    }
}
//@tags C17
pub proof fn lemma_plain_exprs_flagged(es: Seq<Expr>, k: int, n: AExprName, c: ScanV)
    requires plain_in_exprs(es, k, n), name_flag(n, c),
    ensures has(scan_exprs(es, k, c), name_entry(n, c)),
    decreases es, k
{
    if plain_in_exprs(es, k - 1, n) { lemma_plain_exprs_flagged(es, k - 1, n, c); } else { lemma_plain_expr_flagged(es[k - 1], n, c); }
    lemma_has_concat(scan_exprs(es, k - 1, c), scan_expr(es[k - 1], c), name_entry(n, c));
}
//@tags C17
pub proof fn lemma_plain_keys_flagged(ks: Seq<Option<Expr>>, k: int, n: AExprName, c: ScanV)
    requires plain_in_keys(ks, k, n), name_flag(n, c),
    ensures has(scan_keys(ks, k, c), name_entry(n, c)),
    decreases ks, k
{
    let last = match ks[k - 1] { Some(e) => scan_expr(e, c), None => Seq::<UndV>::empty() };
    if plain_in_keys(ks, k - 1, n) { lemma_plain_keys_flagged(ks, k - 1, n, c); }
    else { match ks[k - 1] { Some(e) => { lemma_plain_expr_flagged(e, n, c); } None => {} } }
    lemma_has_concat(scan_keys(ks, k - 1, c), last, name_entry(n, c));
}
//@tags C17
pub proof fn lemma_plain_items_flagged(items: Seq<AWithItem>, k: int, n: AExprName, c: ScanV)
    requires plain_in_items(items, k, n), name_flag(n, c),
    ensures has(scan_items(items, k, c), name_entry(n, c)),
    decreases k
{
    if plain_in_items(items, k - 1, n) { lemma_plain_items_flagged(items, k - 1, n, c); } else { lemma_plain_expr_flagged(items[k - 1].context_expr, n, c); }
    lemma_has_concat(scan_items(items, k - 1, c), scan_expr(items[k - 1].context_expr, c), name_entry(n, c));
}
//@tags C17
pub proof fn lemma_plain_stmt_flagged(s: Stmt, n: AExprName, c: ScanV)
    requires plain_in_stmt(s, n), name_flag(n, c),
    ensures has(scan_stmt(s, c), name_entry(n, c)),
    decreases s, 0int
{
    let u = name_entry(n, c);
    match s {
        Stmt::Expr(x) => { lemma_plain_expr_flagged(*x.value, n, c); }
        Stmt::Assign(x) => { lemma_plain_expr_flagged(*x.value, n, c); }
        Stmt::AugAssign(x) => { lemma_plain_expr_flagged(*x.value, n, c); }
        Stmt::Return(x) => { match x.value { Some(v) => { lemma_plain_expr_flagged(*v, n, c); } None => {} } }
        Stmt::If(x) => {
            let a = scan_expr(*x.test, c); let b = scan_body(x.body@, x.body@.len() as int, c); let d = scan_body(x.orelse@, x.orelse@.len() as int, c);
            if plain_in_expr(*x.test, n) { lemma_plain_expr_flagged(*x.test, n, c); }
            else if plain_in_body(x.body@, x.body@.len() as int, n) { lemma_plain_body_flagged(x.body@, x.body@.len() as int, n, c); }
            else { lemma_plain_body_flagged(x.orelse@, x.orelse@.len() as int, n, c); }
            lemma_has_concat(a, b, u); lemma_has_concat(a + b, d, u);
        }
        Stmt::While(x) => {
            if plain_in_expr(*x.test, n) { lemma_plain_expr_flagged(*x.test, n, c); } else { lemma_plain_body_flagged(x.body@, x.body@.len() as int, n, c); }
            lemma_has_concat(scan_expr(*x.test, c), scan_body(x.body@, x.body@.len() as int, c), u);
        }
        Stmt::For(x) => {
            if plain_in_expr(*x.iter, n) { lemma_plain_expr_flagged(*x.iter, n, c); } else { lemma_plain_body_flagged(x.body@, x.body@.len() as int, n, c); }
            lemma_has_concat(scan_expr(*x.iter, c), scan_body(x.body@, x.body@.len() as int, c), u);
        }
        Stmt::With(x) => {
            if plain_in_items(x.items@, x.items@.len() as int, n) { lemma_plain_items_flagged(x.items@, x.items@.len() as int, n, c); } else { lemma_plain_body_flagged(x.body@, x.body@.len() as int, n, c); }
            lemma_has_concat(scan_items(x.items@, x.items@.len() as int, c), scan_body(x.body@, x.body@.len() as int, c), u);
        }
        Stmt::AsyncFor(x) => {
            if plain_in_expr(*x.iter, n) { lemma_plain_expr_flagged(*x.iter, n, c); } else { lemma_plain_body_flagged(x.body@, x.body@.len() as int, n, c); }
            lemma_has_concat(scan_expr(*x.iter, c), scan_body(x.body@, x.body@.len() as int, c), u);
        }
        Stmt::AsyncWith(x) => {
            if plain_in_items(x.items@, x.items@.len() as int, n) { lemma_plain_items_flagged(x.items@, x.items@.len() as int, n, c); } else { lemma_plain_body_flagged(x.body@, x.body@.len() as int, n, c); }
            lemma_has_concat(scan_items(x.items@, x.items@.len() as int, c), scan_body(x.body@, x.body@.len() as int, c), u);
        }
        Stmt::Assert(x) => {
            if plain_in_expr(*x.test, n) { lemma_plain_expr_flagged(*x.test, n, c); } else { match x.msg { Some(m) => { lemma_plain_expr_flagged(*m, n, c); } None => {} } }
            lemma_has_concat(scan_expr(*x.test, c), scan_opt(x.msg, c), u);
        }
        _ => {}
    }
}
//@tags C17
pub proof fn lemma_plain_body_flagged(b: Seq<Stmt>, k: int, n: AExprName, c: ScanV)
    requires plain_in_body(b, k, n), name_flag(n, c),
    ensures has(scan_body(b, k, c), name_entry(n, c)),
    decreases b, k
{
    if plain_in_body(b, k - 1, n) { lemma_plain_body_flagged(b, k - 1, n, c); } else { lemma_plain_stmt_flagged(b[k - 1], n, c); }
    lemma_has_concat(scan_body(b, k - 1, c), scan_stmt(b[k - 1], c), name_entry(n, c));
}
/// C17.b -- completeness: a Name that occurs as a plain use (plain_in_*) in the body of a scanned function, is not a
/// declared parameter, is not recorded as a local bound on an earlier line (hence not a module-level name) and
/// carries a fixture visible from the file IS flagged, with exactly: line = line of range.start, start_char = column
/// of range.start, end_char = column of range.end (byte columns of the line index, C15), the file, the function's
/// name and the function's line
//@tags C17
pub proof fn lemma_C17_b_plain_use_flagged(body: Seq<Stmt>, file: PV, li: Seq<usize>, declared: Set<Seq<char>>, fname: Seq<char>, fline: usize,
                                          defs: Map<Seq<char>, Seq<DefV>>, imps: Set<Seq<char>>, n: AExprName)
    requires plain_in_body(body, body.len() as int, n),
        !declared.contains(idv(&n.id)),
        !local_in_scope(fn_locals(body, li, imps), idv(&n.id), vline(li, r_start(n.range))),
        op_is_available(bucket(defs, idv(&n.id)), file),
    ensures has(scan_fn(body, file, li, declared, fname, fline, defs, imps),
        UndV { name: idv(&n.id), file, line: op_line(ints(li), r_start(n.range) as int) as usize,
               start_char: op_col(ints(li), r_start(n.range) as int) as usize, end_char: op_col(ints(li), r_end(n.range) as int) as usize,
               function_name: fname, function_line: fline }),
{
    let c = fn_ctx(body, file, li, declared, fname, fline, defs, imps);
    lemma_plain_body_flagged(body, body.len() as int, n, c);
}
/// the forms of the property text one by one (each is an instance of plain_in_expr; `e` may itself sit anywhere a
/// plain use may sit): call target, positional argument, attribute base, operands, subscript, collection elements
//@tags C17
pub proof fn lemma_C17_b_forms(e: Expr, n: AExprName, i: int)
    ensures
        match e {
            Expr::Call(x) => (*x.func == Expr::Name(n) ==> plain_in_expr(e, n))
                && (0 <= i < x.args@.len() && x.args@[i] == Expr::Name(n) ==> plain_in_expr(e, n)),
            Expr::Attribute(x) => *x.value == Expr::Name(n) ==> plain_in_expr(e, n),
            Expr::BinOp(x) => *x.left == Expr::Name(n) || *x.right == Expr::Name(n) ==> plain_in_expr(e, n),
            Expr::UnaryOp(x) => *x.operand == Expr::Name(n) ==> plain_in_expr(e, n),
            Expr::Compare(x) => (*x.left == Expr::Name(n) ==> plain_in_expr(e, n))
                && (0 <= i < x.comparators@.len() && x.comparators@[i] == Expr::Name(n) ==> plain_in_expr(e, n)),
            Expr::Subscript(x) => *x.value == Expr::Name(n) || *x.slice == Expr::Name(n) ==> plain_in_expr(e, n),
            Expr::List(x) => 0 <= i < x.elts@.len() && x.elts@[i] == Expr::Name(n) ==> plain_in_expr(e, n),
            Expr::Tuple(x) => 0 <= i < x.elts@.len() && x.elts@[i] == Expr::Name(n) ==> plain_in_expr(e, n),
            Expr::Dict(x) => (0 <= i < x.values@.len() && x.values@[i] == Expr::Name(n) ==> plain_in_expr(e, n))
                && (0 <= i < x.keys@.len() && x.keys@[i] == Some(Expr::Name(n)) ==> plain_in_expr(e, n)),
            Expr::Await(x) => *x.value == Expr::Name(n) ==> plain_in_expr(e, n),
            _ => true,
        },
{
    assert(plain_in_expr(Expr::Name(n), n));
    match e {
        Expr::Call(x) => { if 0 <= i < x.args@.len() && x.args@[i] == Expr::Name(n) { lemma_plain_exprs_at(x.args@, x.args@.len() as int, i, n); } }
        Expr::Compare(x) => { if 0 <= i < x.comparators@.len() && x.comparators@[i] == Expr::Name(n) { lemma_plain_exprs_at(x.comparators@, x.comparators@.len() as int, i, n); } }
        Expr::List(x) => { if 0 <= i < x.elts@.len() && x.elts@[i] == Expr::Name(n) { lemma_plain_exprs_at(x.elts@, x.elts@.len() as int, i, n); } }
        Expr::Tuple(x) => { if 0 <= i < x.elts@.len() && x.elts@[i] == Expr::Name(n) { lemma_plain_exprs_at(x.elts@, x.elts@.len() as int, i, n); } }
        Expr::Dict(x) => {
            if 0 <= i < x.values@.len() && x.values@[i] == Expr::Name(n) { lemma_plain_exprs_at(x.values@, x.values@.len() as int, i, n); }
            if 0 <= i < x.keys@.len() && x.keys@[i] == Some(Expr::Name(n)) { lemma_plain_keys_at(x.keys@, x.keys@.len() as int, i, n); }
        }
        _ => {}
    }
}
//@tags C17
pub proof fn lemma_plain_exprs_at(es: Seq<Expr>, k: int, i: int, n: AExprName)
    requires 0 <= i < k <= es.len(), plain_in_expr(es[i], n),
    ensures plain_in_exprs(es, k, n),
    decreases k
{
    if i < k - 1 { lemma_plain_exprs_at(es, k - 1, i, n); }
}
//@tags C17
pub proof fn lemma_plain_keys_at(ks: Seq<Option<Expr>>, k: int, i: int, n: AExprName)
    requires 0 <= i < k <= ks.len(), ks[i] is Some, plain_in_expr(ks[i]->0, n),
    ensures plain_in_keys(ks, k, n),
    decreases k
{
    if i < k - 1 { lemma_plain_keys_at(ks, k - 1, i, n); }
}
/// a statement of a body at any position (plain_in_body is "some statement of the list")
//@tags C17
pub proof fn lemma_plain_body_at(b: Seq<Stmt>, k: int, i: int, n: AExprName)
    requires 0 <= i < k <= b.len(), plain_in_stmt(b[i], n),
    ensures plain_in_body(b, k, n),
    decreases k
{
    if i < k - 1 { lemma_plain_body_at(b, k - 1, i, n); }
}

// ---- (c) what the scanner does NOT visit (statements of fact) ----------------------------------------------------
/// expression forms that record nothing and are not descended into, whatever they contain: boolean operators
/// (`a and b`), walrus, lambda, conditional expressions (`a if c else b`), SET literals, all comprehensions and
/// generator expressions, yield / yield from, f-strings, constants, starred (`*a`), slices (`x[a:b]`)
pub open spec fn unvisited_expr_form(e: Expr) -> bool {
    match e {
        Expr::BoolOp(_) | Expr::NamedExpr(_) | Expr::Lambda(_) | Expr::IfExp(_) | Expr::Set(_) | Expr::ListComp(_)
        | Expr::SetComp(_) | Expr::DictComp(_) | Expr::GeneratorExp(_) | Expr::Yield(_) | Expr::YieldFrom(_)
        | Expr::FormattedValue(_) | Expr::JoinedStr(_) | Expr::Constant(_) | Expr::Starred(_) | Expr::Slice(_) => true,
        _ => false,
    }
}
//@tags C17
pub proof fn lemma_C17_c_expr_forms_not_visited(e: Expr, c: ScanV)
    requires unvisited_expr_form(e),
    ensures scan_expr(e, c) == Seq::<UndV>::empty(),
{
}
/// keyword arguments of a call are never looked at: two calls with the same callee and positional arguments
/// record the same findings
//@tags C17
pub proof fn lemma_C17_c_call_keywords_not_visited(a: ExprCall, b: ExprCall, c: ScanV)
    requires a.func == b.func, a.args == b.args,
    ensures scan_expr(Expr::Call(a), c) == scan_expr(Expr::Call(b), c),
{
}
/// statement forms that record nothing, whatever they contain: annotated assignments (also their value), nested
/// function / class definitions, del, type aliases, match, raise, try (body, handlers, else, finally) and try*,
/// imports, global / nonlocal, pass / break / continue
pub open spec fn unvisited_stmt_form(s: Stmt) -> bool {
    match s {
        Stmt::AnnAssign(_) | Stmt::FunctionDef(_) | Stmt::AsyncFunctionDef(_) | Stmt::ClassDef(_) | Stmt::Delete(_)
        | Stmt::TypeAlias(_) | Stmt::Match(_) | Stmt::Raise(_) | Stmt::Try(_) | Stmt::TryStar(_) | Stmt::Import(_)
        | Stmt::ImportFrom(_) | Stmt::Global(_) | Stmt::Nonlocal(_) | Stmt::Pass(_) | Stmt::Break(_) | Stmt::Continue(_) => true,
        _ => false,
    }
}
//@tags C17
pub proof fn lemma_C17_c_stmt_forms_not_visited(s: Stmt, c: ScanV)
    requires unvisited_stmt_form(s),
    ensures scan_stmt(s, c) == Seq::<UndV>::empty(),
{
}
/// parts of visited statements that are never looked at: assignment TARGETS (`fx.attr = 1`, `fx[0] = 1`), the target
/// and the `else` branch of for loops, the `else` branch of while loops, the `as` targets of with items
//@tags C17
pub proof fn lemma_C17_c_stmt_parts_not_visited(a: Stmt, b: Stmt, c: ScanV)
    requires match (a, b) {
        (Stmt::Assign(x), Stmt::Assign(y)) => x.value == y.value,
        (Stmt::AugAssign(x), Stmt::AugAssign(y)) => x.value == y.value,
        (Stmt::For(x), Stmt::For(y)) => x.iter == y.iter && x.body == y.body,
        (Stmt::AsyncFor(x), Stmt::AsyncFor(y)) => x.iter == y.iter && x.body == y.body,
        (Stmt::While(x), Stmt::While(y)) => x.test == y.test && x.body == y.body,
        _ => false,
    },
    ensures scan_stmt(a, c) == scan_stmt(b, c),
{
}
//@tags C17
pub proof fn lemma_C17_c_with_targets_not_visited(a: Seq<AWithItem>, b: Seq<AWithItem>, k: int, c: ScanV)
    requires a.len() == b.len(), forall|i: int| 0 <= i < a.len() ==> (#[trigger] a[i]).context_expr == b[i].context_expr,
    ensures scan_items(a, k, c) == scan_items(b, k, c),
    decreases k
{
    if 0 < k <= a.len() { lemma_C17_c_with_targets_not_visited(a, b, k - 1, c); assert(a[k - 1].context_expr == b[k - 1].context_expr); }
}
/// bindings collect_local_variables does NOT record (the statement leaves local_vars as it is): imports, nested def /
/// class, match, try*, del, global / nonlocal, expression statements (walrus), return, raise, assert, pass ...
pub open spec fn unrecorded_binding_form(s: Stmt) -> bool {
    match s {
        Stmt::Import(_) | Stmt::ImportFrom(_) | Stmt::FunctionDef(_) | Stmt::AsyncFunctionDef(_) | Stmt::ClassDef(_)
        | Stmt::Match(_) | Stmt::TryStar(_) | Stmt::Delete(_) | Stmt::Global(_) | Stmt::Nonlocal(_) | Stmt::Expr(_)
        | Stmt::Return(_) | Stmt::Raise(_) | Stmt::Assert(_) | Stmt::TypeAlias(_) | Stmt::Pass(_) | Stmt::Break(_) | Stmt::Continue(_) => true,
        _ => false,
    }
}
//@tags C17
pub proof fn lemma_C17_c_bindings_not_recorded(s: Stmt, li: Seq<usize>, m: Map<Seq<char>, usize>)
    requires unrecorded_binding_form(s),
    ensures locals_stmt(s, li, m) == m,
{
}
/// ... nor anything inside except handlers (`except E as e:` and the handler bodies), loop `else` branches
//@tags C17
pub proof fn lemma_C17_c_handlers_and_loop_else_not_recorded(a: Stmt, b: Stmt, li: Seq<usize>, m: Map<Seq<char>, usize>)
    requires match (a, b) {
        (Stmt::Try(x), Stmt::Try(y)) => x.body == y.body && x.orelse == y.orelse && x.finalbody == y.finalbody,
        (Stmt::For(x), Stmt::For(y)) => x.target == y.target && x.range == y.range && x.body == y.body,
        (Stmt::AsyncFor(x), Stmt::AsyncFor(y)) => x.target == y.target && x.range == y.range && x.body == y.body,
        (Stmt::While(x), Stmt::While(y)) => x.body == y.body,
        _ => false,
    },
    ensures locals_stmt(a, li, m) == locals_stmt(b, li, m),
{
}

// ---- vacuity guards: each of these must FAIL ---------------------------------------------------------------------
/// a declared parameter can be flagged
proof fn canary_C17_declared_param_flagged(n: AExprName, c: ScanV)
    requires c.declared.contains(idv(&n.id)), op_is_available(bucket(c.defs, idv(&n.id)), c.file), !c.locals.contains_key(idv(&n.id)),
    ensures scan_expr(Expr::Name(n), c).len() == 1,
{
}
/// a local bound on the SAME line protects the use (the test is strict)
proof fn canary_C17_same_line_local_protected(n: AExprName, c: ScanV)
    requires c.locals.contains_key(idv(&n.id)), c.locals[idv(&n.id)] == vline(c.li, r_start(n.range)),
    ensures !name_flag(n, c),
{
}
/// another file's list changes
proof fn canary_C17_other_file_list_changes(o: FixtureDatabase, s: FixtureDatabase, f: PV, g: PV, us: Seq<UndV>)
    requires und_rel(o, s, f, us), g != f, o.undeclared_fixtures.m().contains_key(g), us.len() > 0,
    ensures s.undeclared_fixtures.m()[g] != o.undeclared_fixtures.m()[g],
{
    lemma_und_open(o, s, f, us);
}
/// operands of `and` / `or` are scanned
proof fn canary_C17_boolop_operand_flagged(x: rustpython_parser::ast::ExprBoolOp, n: AExprName, c: ScanV)
    requires x.values@.len() == 2, x.values@[0] == Expr::Name(n), name_flag(n, c),
    ensures has(scan_expr(Expr::BoolOp(x), c), name_entry(n, c)),
{
}
/// a name that no fixture carries can be flagged
proof fn canary_C17_unknown_name_flagged(n: AExprName, c: ScanV)
    requires !c.declared.contains(idv(&n.id)), !c.locals.contains_key(idv(&n.id)), bucket(c.defs, idv(&n.id)).len() == 0,
    ensures name_flag(n, c),
{
}
/// the end column is the START column (a zero-width range)
proof fn canary_C17_end_char_is_start(n: AExprName, c: ScanV)
    ensures name_entry(n, c).end_char == vcol(c.li, r_start(n.range)),
{
}

} // verus!
fn main() {}
