//@include prelude/header.rs
// v3 PROBE COPY of units/handlers_nav2.rs (composition with unit uri_glue): the ONLY differences are the include of
// prelude/lsp_backend.rs (uri_path := op_uri_to_path, path_uri(c, p) := op_path_to_uri(c.m(), p), UriCache = the real
// Arc around the DashMap shim) and the `impl Backend { //@stub uri_glue uri_to_path / path_to_uri }` block.  Nothing else
// had to change; every function verifies as before (+19 lemmas of prelude/uri_l2.rs).
// Unit handlers_nav2: call_hierarchy.rs handle_outgoing_calls + find_parameter_ranges and inlay_hint.rs
// handle_inlay_hint under contract (same method as unit handlers_nav; split off because these two compose with the
// per-file view / resolve_fixture_for_file contracts of unit available: prelude/avail_spec.rs, avail_l2.rs).
//   L1: prelude/handlers2_spec.rs (op_handle_outgoing, param_ranges, inlay_post);  L2: prelude/handlers2_l2.rs.
// Callees: resolve_fixture_for_file = //@stub available; get_available_fixtures = ASSUMED composition of the contracts
// proved in units memo and available; parameter_has_annotation, str::lines (inlay hints), format! = uninterpreted.
// find_parameter_ranges (since the repair of F-15c) reads the recorded usages: fully under contract, no string code.
// Since the repairs of F-05c / F-05d: the item's definition is re-identified by the item's own line (item_def), and a
// self-named dependency goes through //@stub resolver_core find_closest_definition_excluding (dep_target).
// the handler files say `use tower_lsp_server::ls_types::*;` -- tower-lsp-server re-exports the crate ls_types
use ls_types::*;
// the handler code spells the scope type `crate::fixtures::types::FixtureScope`
pub mod fixtures { pub mod types { pub use crate::types::*; } }
verus! {
global size_of usize == 8;  // A6: 64-bit target
pub mod pre {
use super::*;
//@include prelude/path.rs
//@include prelude/types.rs
//@include prelude/dashmap.rs
//@include prelude/hashset.rs
//@include prelude/hashmap.rs
//@include prelude/atomic.rs
//@include prelude/dbview.rs
//@include prelude/hof.rs
//@include prelude/strings.rs
//@include prelude/resolve_spec.rs
//@include prelude/resolve_l2.rs
//@include prelude/sort.rs
//@include prelude/path_ext.rs
//@include prelude/avail_spec.rs
//@include prelude/avail_l2.rs
//@include prelude/refs_spec.rs
//@include prelude/text.rs
//@include prelude/refs_l2.rs
//@include prelude/position_spec.rs
//@include build/lspspec.rs
//@include prelude/handlers_shims.rs
//@include prelude/handlers2_shims.rs
} // mod pre
use pre::*;

#[verifier::external_type_specification] pub struct ExUndeclaredFixture(UndeclaredFixture);

//@dbstruct definitions file_cache usages usage_by_fixture

//@include prelude/db_specs.rs
//@include prelude/lsp_config_opaque.rs
//@include prelude/lsp_backend.rs
//@include prelude/handlers_spec.rs
//@include prelude/handlers2_spec.rs
//@include prelude/handlers2_l2.rs

// Backend::uri_to_path / path_to_uri (src/providers/mod.rs): the contracts PROVED on the real bodies in unit uri_glue
impl Backend {
//@stub uri_glue uri_to_path
//@stub uri_glue path_to_uri
}

impl FixtureDatabase {
    pub open spec fn byfix(&self) -> Map<Seq<char>, Seq<(PV, UseV)>> { byfix_view(self.usage_by_fixture.m()) }
    pub open spec fn uses(&self) -> Map<PV, Seq<UseV>> { usages_view(self.usages.m()) }
    pub open spec fn provf(&self) -> spec_fn(Seq<char>) -> spec_fn(PV) -> bool { |n: Seq<char>| self.prov(n) }
    /// the part of the database compute_available_fixtures depends on (as in unit available)
    pub open spec fn avv(&self) -> AvV { AvV { defs: self.defs(), td: self.text_dom(), imp: imp_of(self.file_cache.m(), self.defs()) } }

//@stub available resolve_fixture_for_file
//@stub resolver_core find_closest_definition_excluding

    // ASSUMED composition of two proved contracts: unit memo proves get_available_fixtures(file) returns what
    // compute_available_fixtures(canonical(file)) returns, cache or not (abstractly: op_avail); unit available
    // proves compute_available_fixtures satisfies avail_post under wf_names.  (&self as in the source; unit memo
    // models the cache insert as a &mut self write.)
    #[verifier::external_body]
    pub fn get_available_fixtures(&self, file_path: &Path) -> (r: Vec<FixtureDefinition>)
        requires wf_names(self.defs()),
        ensures avail_post(dvs(r@), self.avv(), canon_pv(pv(file_path)))
    { unimplemented!() }
}

impl Backend {
    pub open spec fn nv(&self) -> NavV {
        NavV { cache: self.fixture_db.file_cache.m(), defs: self.fixture_db.defs(), uses: self.fixture_db.uses(),
               byfix: self.fixture_db.byfix(), provf: self.fixture_db.provf(), uc: self.uri_cache }
    }
}

pub mod providers {
use super::*;
use jsonrpc::Result;

// ASSUMED callee (src/fixtures/string_utils.rs; string code, bounded checking: Kani -- incl. the known C11 finding
// about slicing inside a multi-byte character, fixed in the current source by `str::get`)
#[verifier::external_body]
pub fn parameter_has_annotation(lines: &[&str], line: usize, end_char: usize) -> (r: bool)
    ensures r == has_annotation(strs_ref_v(lines@), line, end_char)
{ unimplemented!() }

impl Backend {
/*@ extract src/providers/call_hierarchy.rs find_parameter_ranges
@tags C15 C11 C12
@ret r
@sig
    ensures line_fits(line) ==> (match r {
        Some(v) => param_ranges(self.fixture_db.uses(), pv(file_path), line, param_name@) is Some
            && v@ =~= param_ranges(self.fixture_db.uses(), pv(file_path), line, param_name@)->0,
        None => param_ranges(self.fixture_db.uses(), pv(file_path), line, param_name@) is None }),
@before for 1
    let ghost ux = usages.r@;
    let ghost us = uvs(ux);
    let ghost pu = param_use(line, param_name@);
    proof {
        assert(self.fixture_db.uses().contains_key(pv(file_path)) && us == self.fixture_db.uses()[pv(file_path)]);
        assert(us.take(0).filter(pu).map_values(use_range_fn()) =~= Seq::<Range>::empty()) by { reveal(Seq::filter); }
    }
@loopvar 1 it
@loop 1
    invariant ux == usages.r@, us == uvs(ux), it.seq() == ux.as_ref(), pu == param_use(line, param_name@),
        line_fits(line) ==> lsp_line == crate::lsp_line(line),
        line_fits(line) ==> ranges@ =~= us.take(it.index@ as int).filter(pu).map_values(use_range_fn()),
@loopstart 1
    let ghost i0 = it.index@ as int;
    let ghost r0 = ranges@;
    proof { assert(ux[i0] == *usage); assert(us[i0] == uv(usage)); }
@loopend 1
    proof {
        let t1 = us.take(i0 + 1);
        assert(t1.drop_last() =~= us.take(i0));
        assert(t1.last() == us[i0]);
        reveal_with_fuel(Seq::filter, 2);
        let f1 = us.take(i0).filter(pu);
        if pu(us[i0]) {
            assert(t1.filter(pu) =~= f1.push(us[i0]));
            assert(f1.push(us[i0]).map_values(use_range_fn()) =~= f1.map_values(use_range_fn()).push(use_range(us[i0])));
            if line_fits(line) { assert(ranges@ =~= r0.push(use_range(us[i0]))); }
        } else {
            assert(t1.filter(pu) =~= f1);
            assert(ranges@ == r0);
        }
    }
@return tail
    assert(us.take(us.len() as int) =~= us);
@*/

/*@ extract src/providers/call_hierarchy.rs handle_outgoing_calls
@tags C05 C15 C11 C12
@stripasync
@ret r
@closure find:1 |d: &&FixtureDefinition| -> (b: bool) ensures b == x_def_on_line(*d, pbv(&file_path), item_line)
@closure find:2 |d: &&FixtureDefinition| -> (b: bool) ensures b == (pbv(&d.file_path) == pbv(&file_path))
@closure unwrap_or_else:1 || -> (rv: Vec<Range>) ensures rv@ =~= seq![to_range]
@wrapexpr_opt 1 `dep_name == &definition.name` => `Self::vp_is_own_name(dep_name, definition)` with fn vp_is_own_name(dep_name: &String, definition: &FixtureDefinition) -> (r: bool) ensures r == (dep_name@ == definition.name@)
@wrapexpr 1 `SymbolKind::FUNCTION` => `Self::vp_sk_function_out()` with fn vp_sk_function_out() -> (r: SymbolKind) ensures r == sk_function()
@wrapexpr 1 `format!( "@pytest.fixture{}", if dep_def.scope != crate::fixtures::types::FixtureScope::Function { format!("(scope=\"{}\")", dep_def.scope.as_str()) } else { String::new() } )` => `Self::vp_dep_detail_of(&dep_def)` with fn vp_dep_detail_of(dep_def: &FixtureDefinition) -> (r: String) ensures r@ == fixture_detail(dep_def.scope)
@sig
    ensures
        r is Ok,
        out_fits(self.nv(), params.item.name@, params.item.uri, params.item.selection_range.start.line)
            ==> opt_out_calls_view(r) == op_handle_outgoing(self.nv(), params.item.name@, params.item.uri, params.item.selection_range.start.line),
@after defs 1
    let ghost v = self.nv();
    let ghost p = pbv(&file_path);
    let ghost dsx = defs.r@;
    let ghost ds = dvs(dsx);
    let ghost same = p_same(p, fs_true());
    proof { assert(ds == bucket(v.defs, item.name@)); }
@after item_line 1
    let ghost pl = p_def_line(p, item_line as int);
    proof { assert(item_line as int == item.selection_range.start.line as int + 1); }
@replace 1 `Some(d) => d,` => `Some(d) => { proof { let s = dsx.as_ref(); let i = choose|i: int| 0 <= i < s.len() && s[i] == d && (forall|j: int| 0 <= j < i ==> !x_def_on_line(#[trigger] s[j], p, item_line)); assert forall|j: int| 0 <= j < i implies !pl(#[trigger] ds[j]) by { let y = s[j]; } assert(ds[i] == dv(d)); lemma_first_idx(ds, pl, i); assert(item_def(v, item.name@, item.uri, item.selection_range.start.line) == Some(dv(d))); } d },`
@replace 2 `Some(d) => d,` => `Some(d) => { proof { let s = dsx.as_ref(); assert forall|j: int| 0 <= j < ds.len() implies !pl(#[trigger] ds[j]) by { let y = s[j]; } lemma_first_none(ds, pl); let i = choose|i: int| 0 <= i < s.len() && s[i] == d && (forall|j: int| 0 <= j < i ==> pbv(&(#[trigger] s[j]).file_path) != p); assert forall|j: int| 0 <= j < i implies !same(#[trigger] ds[j]) by { let y = s[j]; } assert(ds[i] == dv(d)); lemma_first_idx(ds, same, i); assert(item_def(v, item.name@, item.uri, item.selection_range.start.line) == Some(dv(d))); } d },`
@return 3
    let s = dsx.as_ref();
    assert forall|j: int| 0 <= j < ds.len() implies !pl(#[trigger] ds[j]) by { let y = s[j]; }
    lemma_first_none(ds, pl);
    assert forall|j: int| 0 <= j < ds.len() implies !same(#[trigger] ds[j]) by { let y = s[j]; }
    lemma_first_none(ds, same);
@after definition 1
    proof { assert(item_def(v, item.name@, item.uri, item.selection_range.start.line) == Some(dv(definition))); }
@before for 1
    let ghost mut i: int = 0;
    let ghost depsx = definition.dependencies@;
    let ghost deps = strs_v(depsx);
    let ghost d = dv(definition);
    let ghost fits = line_fits(d.line) && deps_fit(v, p, d, deps);
    proof { assert(out_calls(v, p, d, deps.take(0)) =~= Seq::<OutCallV>::empty()); }
@forloop 1 it
    proof { assert(deps.take(i) =~= deps); }
@loop 1
    invariant 0 <= i <= depsx.len(), it.remaining() == depsx.as_ref().skip(i),
        v == self.nv(), p == pbv(&file_path), d == dv(definition), depsx == definition.dependencies@, deps == strs_v(depsx),
        fits == (line_fits(d.line) && deps_fit(v, p, d, deps)),
        fits ==> out_calls_v(outgoing_calls@) =~= out_calls(v, p, d, deps.take(i)),
    ensures fits ==> out_calls_v(outgoing_calls@) =~= out_calls(v, p, d, deps),
    decreases depsx.len() - i
@loopstart 1
    let ghost c0 = outgoing_calls@;
    proof {
        assert(*dep_name == depsx[i]);
        assert(deps[i] == dep_name@);
        assert(deps.take(i + 1).drop_last() =~= deps.take(i));
        assert(deps.take(i + 1).last() == dep_name@);
        i = i + 1;
    }
@after push 1
    proof {
        let c = outgoing_calls@.last();
        assert(outgoing_calls@.drop_last() =~= c0);
        assert(out_calls_v(outgoing_calls@) =~= out_calls_v(c0).push(out_call_v(c)));
        if fits {
            let dd = dv(&dep_def);
            assert(dep_target(v, p, d, deps[i - 1]) == Some(dd));
            assert(line_fits(dd.line));
            assert(to_range == def_name_range(dd));
            assert(item_v(c.to) == def_item(dep_uri, dd));
            assert(out_call_v(c) == out_call_for(v, p, d, deps[i - 1], dd, dep_uri));
        }
    }
@*/

/*@ extract src/providers/inlay_hint.rs handle_inlay_hint
@tags C05 C15 C11 C12
@stripasync
@ret r
@closure map:1 |c: Ref<'_, PathBuf, String>| -> (s: String) ensures s@ == (*c.r)@
@replace 1 `Some(&return_type) = fixture_map.get(usage.name.as_str())` => `Some(return_type) = fixture_map.get(usage.name.as_str()).copied()`
@wrapexpr 1 `content .as_ref() .map(|c| c.lines().collect()) .unwrap_or_default()` => `Self::vp_lines_of(&content)` with fn vp_lines_of<'a>(content: &'a Option<String>) -> (r: Vec<&'a str>) ensures strs_ref_v(r@) == text_lines(opt_sv(*content))
@wrapexpr 1 `available .iter() .filter_map(|def| { def.return_type .as_ref() .map(|rt| (def.name.as_str(), rt.as_str())) }) .collect()` => `Self::vp_return_type_map(&available)` with fn vp_return_type_map<'a>(available: &'a Vec<FixtureDefinition>) -> (r: HashMap<&'a str, &'a str>) ensures forall|n: Seq<char>| (match #[trigger] rt_lookup(dvs(available@), n) { Some(t) => r.m().contains_key(n) && r.m()[n]@ == t, None => !r.m().contains_key(n) })
@wrapexpr 1 `format!(": {}", return_type)` => `Self::vp_fmt_hint_label(return_type)` with fn vp_fmt_hint_label(return_type: &str) -> (r: String) ensures r@ == fmt_hint_label(return_type@)
@wrapexpr 1 `format!( "Fixture '{}' returns {}", usage.name, return_type )` => `Self::vp_fmt_hint_tooltip(usage, return_type)` with fn vp_fmt_hint_tooltip(usage: &FixtureUsage, return_type: &str) -> (r: String) ensures r@ == fmt_hint_tooltip(usage.name@, return_type@)
@wrapexpr 1 `InlayHintKind::TYPE` => `Self::vp_hint_kind_type()` with fn vp_hint_kind_type() -> (r: InlayHintKind) ensures r == ihk_type()
@sig
    requires wf_names(self.nv().defs),
    ensures
        r is Ok,
        inlay_post(self.nv(), self.fixture_db.avv(), params.text_document.uri, params.range, r),
@after usages 1
    let ghost v = self.nv();
    let ghost p = pbv(&file_path);
    let ghost ux = usages.r@;
    let ghost us = uvs(ux);
    proof { assert(v.uses.contains_key(p) && us == v.uses[p]); }
@after lines 1
    let ghost lv = strs_ref_v(lines@);
    proof { assert(lv == text_lines(cached_text(v.cache, p))); }
@after available 1
    let ghost av = dvs(available@);
    proof { assert(avail_post(av, self.fixture_db.avv(), canon_pv(p))); }
@return 3
    assert(no_rt(av)) by {
        assert forall|n: Seq<char>| rt_lookup(av, n) is None by { if rt_lookup(av, n) is Some { assert(fixture_map.m().contains_key(n)); } }
    }
    assert(hints_v(Seq::<InlayHint>::empty()) =~= Seq::<HintV>::empty());
@before for 1
    let ghost mut i: int = 0;
    let ghost fits = uses_fit(us);
    proof {
        assert(!no_rt(av)) by {
            let k = choose|k: Seq<char>| fixture_map.m().contains_key(k);
            assert(rt_lookup(av, k) is Some);
        }
        assert(hints_of(us.take(0), av, lv, start_line, end_line) =~= Seq::<HintV>::empty());
        assert(hints_v(hints@) =~= Seq::<HintV>::empty());
    }
@forloop 1 it
    proof { assert(us.take(i) =~= us); }
@loop 1
    invariant 0 <= i <= ux.len(), it.remaining() == ux.as_ref().skip(i),
        us == uvs(ux), lv == strs_ref_v(lines@), av == dvs(available@), fits == uses_fit(us),
        forall|n: Seq<char>| (match #[trigger] rt_lookup(av, n) { Some(t) => fixture_map.m().contains_key(n) && fixture_map.m()[n]@ == t, None => !fixture_map.m().contains_key(n) }),
        fits ==> hints_v(hints@) =~= hints_of(us.take(i), av, lv, start_line, end_line),
    ensures fits ==> hints_v(hints@) =~= hints_of(us, av, lv, start_line, end_line),
    decreases ux.len() - i
@loopstart 1
    let ghost h0 = hints@;
    proof {
        assert(*usage == ux[i]);
        assert(us[i] == uv(usage));
        assert(us.take(i + 1).drop_last() =~= us.take(i));
        assert(us.take(i + 1).last() == uv(usage));
        let o = rt_lookup(av, usage.name@);
        i = i + 1;
    }
@after push 1
    proof {
        let h = hints@.last();
        assert(hints@.drop_last() =~= h0);
        assert(hints_v(hints@) =~= hints_v(h0).push(hint_v(h)));
        if fits { assert(hint_v(h) == hint_for(uv(usage), rt_lookup(av, usage.name@)->0)); }
    }
@return tail
    assert(avail_post(av, self.fixture_db.avv(), canon_pv(p)));
    if fits { assert(hints_v(hints@) == inlay_hints(v, av, p, params.range)); }
@*/
}
} // mod providers

} // verus!
fn main() {}
