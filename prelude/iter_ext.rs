// ---------------------------------------------------------------------------------------------
// vstd's `into_iter().filter(p).collect()` speaks about `filter_index`; the contracts speak about
// `Seq::filter`.  PROVED bridge (no assumption), picked up automatically through its triggers.
pub proof fn lemma_filter_index_filter<A>(s: Seq<A>, ip: spec_fn(int) -> bool, p: spec_fn(A) -> bool)
    requires forall|j: int| 0 <= j < s.len() ==> ip(j) == p(#[trigger] s[j]),
    ensures s.filter_index(ip) == s.filter(p),
    decreases s.len(),
{
    reveal(Seq::filter); reveal(Seq::filter_index);
    if s.len() > 0 {
        let t = s.drop_last();
        assert forall|j: int| 0 <= j < t.len() implies ip(j) == p(#[trigger] t[j]) by { assert(t[j] == s[j]); }
        lemma_filter_index_filter(t, ip, p);
        assert(ip(s.len() - 1) == p(s[s.len() - 1]));
    }
}
pub mod iter_ext_ax {
    use super::*;
    pub broadcast proof fn lemma_take_filter_index_is_filter<A>(s: Seq<A>, n: int, ip: spec_fn(int) -> bool, p: spec_fn(A) -> bool)
        requires n == s.len(), forall|j: int| 0 <= j < s.len() ==> ip(j) == p(#[trigger] s[j]),
        ensures #[trigger] s.take(n).filter_index(ip) == #[trigger] s.filter(p),
    {
        assert(s.take(n) =~= s);
        lemma_filter_index_filter(s, ip, p);
    }
}
pub use iter_ext_ax::*;

// ---- T5 wrapper: `Iterator::filter_map` is a provided method Verus cannot specify.  `.filter_map(` is
// renamed to `.vp_filter_map(`; the external body IS the call to the real method (driven to the end, which
// is what the `.collect()` that follows in the source does).  Assumed contract (trusted base A3): the closure
// is called once on every element, in order; the results that are `Some` are yielded, in order.
pub open spec fn somes<B>(o: Seq<Option<B>>) -> Seq<B>
    decreases o.len()
{
    if o.len() == 0 { Seq::empty() } else {
        match o.last() { Some(b) => somes(o.drop_last()).push(b), None => somes(o.drop_last()) }
    }
}
/// `o` = the closure's results, one per input element
pub open spec fn vp_fm_post<T, B, F: FnMut(T) -> Option<B>>(s: Seq<T>, f: F, r: Seq<B>) -> bool {
    exists|o: Seq<Option<B>>| #![trigger somes(o)]
        o.len() == s.len() && (forall|j: int| 0 <= j < s.len() ==> call_ensures(f, (s[j],), #[trigger] o[j])) && r == somes(o)
}
pub trait VpVecIntoIter<T>: Sized {
    fn vp_filter_map<B, F: FnMut(T) -> Option<B>>(self, f: F) -> (r: std::vec::IntoIter<B>)
        requires forall|x: T| #[trigger] call_requires(f, (x,));
}
impl<T> VpVecIntoIter<T> for std::vec::IntoIter<T> {
    #[verifier::external_body]
    fn vp_filter_map<B, F: FnMut(T) -> Option<B>>(self, f: F) -> (r: std::vec::IntoIter<B>)
        ensures
            r.obeys_prophetic_iter_laws(), r.decrease() is Some,
            vp_fm_post(self.remaining(), f, r.remaining()),
    { self.filter_map(f).collect::<Vec<B>>().into_iter() }
}

/// somes(o) seen through element views is the filter of the inputs, when every `o[j]` is `Some` exactly for
/// the inputs that satisfy `keep` and then carries the input's view
pub proof fn lemma_somes_is_filter<T, B, V>(s: Seq<T>, o: Seq<Option<B>>, vt: spec_fn(T) -> V, vb: spec_fn(B) -> V, keep: spec_fn(V) -> bool)
    requires o.len() == s.len(),
        forall|j: int| 0 <= j < s.len() ==> match #[trigger] o[j] { Some(b) => keep(vt(s[j])) && vb(b) == vt(s[j]), None => !keep(vt(s[j])) },
    ensures somes(o).map_values(vb) =~= s.map_values(vt).filter(keep),
    decreases s.len(),
{
    reveal(Seq::filter);
    if s.len() > 0 {
        let s1 = s.drop_last(); let o1 = o.drop_last();
        assert forall|j: int| 0 <= j < s1.len() implies match #[trigger] o1[j] { Some(b) => keep(vt(s1[j])) && vb(b) == vt(s1[j]), None => !keep(vt(s1[j])) } by {
            assert(o1[j] == o[j]); assert(s1[j] == s[j]);
        }
        lemma_somes_is_filter(s1, o1, vt, vb, keep);
        assert(s.map_values(vt).drop_last() =~= s1.map_values(vt));
        assert(s.map_values(vt).last() == vt(s.last()));
        let j = s.len() - 1;
        assert(o.last() == o[j]);
    }
}
