// ---------------------------------------------------------------------------------------------
// Higher-order std functions: assumed specifications (trusted base A3)
pub assume_specification<T, A, F> [std::vec::Vec::<T, A>::retain] (v: &mut std::vec::Vec<T, A>, f: F)
    where A: std::alloc::Allocator, F: std::ops::FnMut(&T) -> bool,
    requires forall|x: &T| #[trigger] call_requires(f, (x,)),
    ensures forall|keep: spec_fn(T) -> bool| (forall|x: &T, b: bool| call_ensures(f, (x,), b) ==> b == keep(*x))
            ==> final(v)@ == #[trigger] old(v)@.filter(keep);

/// filter commutes with an element-wise view when the predicates agree through the view
pub proof fn lemma_filter_map_commute<A, B>(s: Seq<A>, f: spec_fn(A) -> B, p: spec_fn(A) -> bool, q: spec_fn(B) -> bool)
    requires forall|x: A| #[trigger] p(x) == q(f(x)),
    ensures s.filter(p).map_values(f) =~= s.map_values(f).filter(q),
    decreases s.len(),
{
    reveal(Seq::filter);
    if s.len() > 0 {
        let t = s.drop_last();
        lemma_filter_map_commute(t, f, p, q);
        assert(s.map_values(f).drop_last() =~= t.map_values(f));
        assert(s.map_values(f).last() == f(s.last()));
    }
}
