// ---------------------------------------------------------------------------------------------
// Higher-order std functions: assumed specifications (trusted base A3)
pub assume_specification<T, A, F> [std::vec::Vec::<T, A>::retain] (v: &mut std::vec::Vec<T, A>, f: F)
    where A: std::alloc::Allocator, F: std::ops::FnMut(&T) -> bool,
    requires forall|x: &T| #[trigger] call_requires(f, (x,)),
    ensures forall|keep: spec_fn(T) -> bool| (forall|x: &T, b: bool| call_ensures(f, (x,), b) ==> b == keep(*x))
            ==> final(v)@ == #[trigger] old(v)@.filter(keep);

/// filter commutes with an element-wise view when the predicates agree through the view
pub proof fn lemma_filter_map_commute<A, B>(s: Seq<A>, f: spec_fn(A) -> B, p: spec_fn(A) -> bool, q: spec_fn(B) -> bool)
    requires forall|x: A| #[trigger] p(x) == q(f(x)),
    ensures s.filter(p).map_values(f) =~= s.map_values(f).filter(q),
    decreases s.len(),
{
    reveal(Seq::filter);
    if s.len() > 0 {
        let t = s.drop_last();
        lemma_filter_map_commute(t, f, p, q);
        assert(s.map_values(f).drop_last() =~= t.map_values(f));
        assert(s.map_values(f).last() == f(s.last()));
    }
}

/// a filter whose predicate holds everywhere is the identity
pub proof fn lemma_filter_all<A>(s: Seq<A>, p: spec_fn(A) -> bool)
    requires forall|i: int| 0 <= i < s.len() ==> p(#[trigger] s[i]),
    ensures s.filter(p) =~= s,
    decreases s.len(),
{
    reveal(Seq::filter);
    if s.len() > 0 {
        lemma_filter_all(s.drop_last(), p);
        assert(s.drop_last().push(s.last()) =~= s);
    }
}

/// a duplicate-free sequence inside a set of the same size enumerates the whole set
pub proof fn lemma_injective_seq_covers<A>(ks: Seq<A>, d: Set<A>)
    requires ks.no_duplicates(), forall|i: int| 0 <= i < ks.len() ==> d.contains(#[trigger] ks[i]), ks.len() == d.len(),
    ensures forall|k: A| d.contains(k) ==> ks.contains(k),
{
    ks.unique_seq_to_set();
    assert(ks.to_set().subset_of(d)) by {
        assert forall|a: A| ks.to_set().contains(a) implies d.contains(a) by {
            let i = choose|i: int| 0 <= i < ks.len() && ks[i] == a;
        }
    }
    vstd::set_lib::lemma_subset_equality(ks.to_set(), d);
    assert forall|k: A| d.contains(k) implies ks.contains(k) by {
        assert(ks.to_set().contains(k));
    }
}
