// ---------------------------------------------------------------------------------------------
// Higher-order std functions: assumed specifications (trusted base A3)
pub assume_specification<T, A, F> [std::vec::Vec::<T, A>::retain] (v: &mut std::vec::Vec<T, A>, f: F)
    where A: std::alloc::Allocator, F: std::ops::FnMut(&T) -> bool,
    requires forall|x: &T| #[trigger] call_requires(f, (x,)),
    ensures forall|keep: spec_fn(T) -> bool| (forall|x: &T, b: bool| call_ensures(f, (x,), b) ==> b == keep(*x))
            ==> final(v)@ == #[trigger] old(v)@.filter(keep);

/// filter commutes with an element-wise view when the predicates agree through the view
pub proof fn lemma_filter_map_commute<A, B>(s: Seq<A>, f: spec_fn(A) -> B, p: spec_fn(A) -> bool, q: spec_fn(B) -> bool)
    requires forall|x: A| #[trigger] p(x) == q(f(x)),
    ensures s.filter(p).map_values(f) =~= s.map_values(f).filter(q),
    decreases s.len(),
{
    reveal(Seq::filter);
    if s.len() > 0 {
        let t = s.drop_last();
        lemma_filter_map_commute(t, f, p, q);
        assert(s.map_values(f).drop_last() =~= t.map_values(f));
        assert(s.map_values(f).last() == f(s.last()));
    }
}

/// a filter whose predicate holds everywhere is the identity
pub proof fn lemma_filter_all<A>(s: Seq<A>, p: spec_fn(A) -> bool)
    requires forall|i: int| 0 <= i < s.len() ==> p(#[trigger] s[i]),
    ensures s.filter(p) =~= s,
    decreases s.len(),
{
    reveal(Seq::filter);
    if s.len() > 0 {
        lemma_filter_all(s.drop_last(), p);
        assert(s.drop_last().push(s.last()) =~= s);
    }
}

/// a duplicate-free sequence inside a set of the same size enumerates the whole set
pub proof fn lemma_injective_seq_covers<A>(ks: Seq<A>, d: Set<A>)
    requires ks.no_duplicates(), forall|i: int| 0 <= i < ks.len() ==> d.contains(#[trigger] ks[i]), ks.len() == d.len(),
    ensures forall|k: A| d.contains(k) ==> ks.contains(k),
{
    ks.unique_seq_to_set();
    assert(ks.to_set().subset_of(d)) by {
        assert forall|a: A| ks.to_set().contains(a) implies d.contains(a) by {
            let i = choose|i: int| 0 <= i < ks.len() && ks[i] == a;
        }
    }
    vstd::set_lib::lemma_subset_equality(ks.to_set(), d);
    assert forall|k: A| d.contains(k) implies ks.contains(k) by {
        assert(ks.to_set().contains(k));
    }
}

// ---- T5 wrappers: provided iterator methods Verus cannot specify directly.  The external body IS the
// call to the real methods; the ensures clause is the assumed contract of those methods.
// `.filter(p).max_by_key(k)` on a slice iterator is renamed to `.vp_filter(p).vp_max_by_key(k)`: vp_filter
// only pairs the iterator with the closure (a std Filter over a closure type cannot be specified inside a
// generic function), vp_max_by_key runs the real `it.filter(p).max_by_key(k)`.
pub struct VpFilter<'a, T, P> { pub it: core::slice::Iter<'a, T>, pub p: P }
pub trait VpSliceIter<'a, T>: Sized {
    fn vp_filter<P: FnMut(&&'a T) -> bool>(self, p: P) -> (r: VpFilter<'a, T, P>);
}
impl<'a, T> VpSliceIter<'a, T> for core::slice::Iter<'a, T> {
    fn vp_filter<P: FnMut(&&'a T) -> bool>(self, p: P) -> (r: VpFilter<'a, T, P>)
        ensures r.it == self, r.p == p
    { VpFilter { it: self, p } }
}
/// spec of `slice.iter().filter(p).max_by_key(key)`: the LAST element of maximal key among the elements
/// accepted by the filter closure (std: "if several elements are equally maximum, the last element is
/// returned"); None iff no element is accepted.  The filter closure is evaluated on every element and
/// the key closure on every accepted element.
impl<'a, T, P: FnMut(&&'a T) -> bool> VpFilter<'a, T, P> {
    #[verifier::external_body]
    pub fn vp_max_by_key<B: Ord, F: FnMut(&&'a T) -> B>(self, f: F) -> (r: Option<&'a T>)
        requires forall|x: &&'a T| #[trigger] call_requires(self.p, (x,)), forall|x: &&'a T| #[trigger] call_requires(f, (x,)),
        ensures ({
                let s = self.it.remaining();
                let p = self.p;
                &&& forall|j: int| 0 <= j < s.len() ==> call_ensures(p, (&#[trigger] s[j],), true) || call_ensures(p, (&s[j],), false)
                &&& forall|j: int| 0 <= j < s.len() && call_ensures(p, (&#[trigger] s[j],), true) ==> call_ensures(f, (&s[j],), vp_key(f, &s[j]))
                &&& match r {
                    None => forall|i: int| 0 <= i < s.len() ==> !call_ensures(p, (&#[trigger] s[i],), true),
                    Some(x) => ({
                        let i = vp_witness(s, x);
                        0 <= i < s.len() && s[i] == x && call_ensures(p, (&s[i],), true)
                        && (forall|j: int| 0 <= j < s.len() && call_ensures(p, (&#[trigger] s[j],), true)
                                ==> vp_le(vp_key(f, &s[j]), vp_key(f, &s[i])) && (j > i ==> !vp_le(vp_key(f, &s[i]), vp_key(f, &s[j]))))
                    }),
                }
            }),
    { self.it.filter(self.p).max_by_key(f) }
}
/// the position of the returned element (a skolem function: avoids an existential in the contract)
pub uninterp spec fn vp_witness<T>(s: Seq<T>, x: T) -> int;
/// the key the closure produced for x (some value it ensures)
pub open spec fn vp_key<X, B, F: FnMut(&X) -> B>(f: F, x: &X) -> B { choose|k: B| call_ensures(f, (x,), k) }
pub uninterp spec fn vp_le<B>(a: B, b: B) -> bool;
pub mod vp_ax {
    use super::*;
    pub broadcast axiom fn axiom_vp_le_usize(a: usize, b: usize) ensures #[trigger] vp_le::<usize>(a, b) == (a <= b);
}
pub use vp_ax::*;
