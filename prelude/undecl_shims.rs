// ---------------------------------------------------------------------------------------------
// T5 wrapper needed by the undeclared-fixture scanner (trusted base A3).
// `slice.iter().flatten()` over `Option<T>` elements (`Iterator::flatten` is a provided method and `Flatten` has no
// Verus model): renamed to `.vp_flatten(`; the external body IS the call to the real method, driven to the end.
// ASSUMED: the payloads of the `Some` elements, in order (Option's IntoIterator yields its payload once, None nothing).
pub open spec fn somes_ref<'a, T>(s: Seq<&'a Option<T>>, n: int) -> Seq<&'a T>
    decreases n
{
    if n <= 0 || n > s.len() { Seq::empty() } else {
        match s[n - 1] { Some(x) => somes_ref(s, n - 1).push(x), None => somes_ref(s, n - 1) }
    }
}
pub trait VpFlatten<'a, T: 'a>: Sized {
    #[verifier::prophetic]
    spec fn vp_opts(self) -> Seq<&'a Option<T>>;
    fn vp_flatten(self) -> (r: std::vec::IntoIter<&'a T>)
        ensures r.obeys_prophetic_iter_laws(), r.decrease() is Some,
            r.remaining() == somes_ref(self.vp_opts(), self.vp_opts().len() as int);
}
impl<'a, T: 'a> VpFlatten<'a, T> for core::slice::Iter<'a, Option<T>> {
    #[verifier::prophetic]
    open spec fn vp_opts(self) -> Seq<&'a Option<T>> { self.remaining() }
    #[verifier::external_body]
    fn vp_flatten(self) -> (r: std::vec::IntoIter<&'a T>)
    { self.flatten().collect::<Vec<_>>().into_iter() }
}
/// every element the flattened iterator yields is the payload of some `Some` element (PROVED)
pub proof fn lemma_somes_ref_src<'a, T>(s: Seq<&'a Option<T>>, n: int, i: int)
    requires 0 <= n <= s.len(), 0 <= i < somes_ref(s, n).len(),
    ensures exists|j: int| 0 <= j < n && #[trigger] s[j] == &Some(*somes_ref(s, n)[i]),
    decreases n
{
    if n > 0 {
        match s[n - 1] {
            Some(x) => {
                if i < somes_ref(s, n - 1).len() { lemma_somes_ref_src(s, n - 1, i); let j = choose|j: int| 0 <= j < n - 1 && #[trigger] s[j] == &Some(*somes_ref(s, n - 1)[i]); assert(s[j] == &Some(*somes_ref(s, n)[i])); }
                else { assert(s[n - 1] == &Some(*somes_ref(s, n)[i])); }
            }
            None => { lemma_somes_ref_src(s, n - 1, i); let j = choose|j: int| 0 <= j < n - 1 && #[trigger] s[j] == &Some(*somes_ref(s, n - 1)[i]); assert(s[j] == &Some(*somes_ref(s, n)[i])); }
        }
    }
}
