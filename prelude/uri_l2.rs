// ---------------------------------------------------------------------------------------------
// Unit uri_glue, L2: what the handler units assume about URIs ("URI round trip", "URI injectivity", "the URI the client
// sent is the one sent back"), PROVED from  op_uri_to_path / op_path_to_uri (the L1 contracts of Backend::uri_to_path /
// path_to_uri), the cache invariant cache_inv (established by didOpen) and the axioms U1..U3 of prelude/uri_spec.rs.
// Pure specification + proofs; needs prelude/uri_spec.rs.  Where the wished statement is FALSE of the real code, what
// IS true is stated as lemma_*_FACT_* / lemma_*_FINDING_*.

// ---- the cache invariant ---------------------------------------------------------------------------------------------
//@tags C04 C05 C15
/// the empty cache (Backend::new) satisfies the invariant
pub proof fn lemma_cache_inv_initially()
    ensures cache_inv(Map::<PV, Uri>::empty())
{}
//@tags C04 C05 C15
/// didOpen (`if let Some(file_path) = self.uri_to_path(&uri) { self.uri_cache.insert(file_path.clone(), uri.clone()); ..`,
/// unit handlers_main: did_open_post says  cache' == cache.insert(p, uri)  with  uri_path(uri) == Some(p)) keeps the
/// invariant: the URI is remembered under exactly the path uri_to_path gives for it
pub proof fn lemma_did_open_keeps_cache_invariant(m: UriMap, uri: Uri, p: PV)
    requires cache_inv(m), op_uri_to_path(uri) == Some(p)
    ensures cache_inv(m.insert(p, uri))
{
    let m1 = m.insert(p, uri);
    assert forall|q: PV| m1.contains_key(q) implies op_uri_to_path(#[trigger] m1[q]) == Some(q) by {
        if q != p { assert(m.contains_key(q) && m1[q] == m[q]); }
    }
}
//@tags C04 C05 C15
/// didClose (`self.uri_cache.remove(&file_path)`) and didChange (cache untouched) keep it too
pub proof fn lemma_did_close_keeps_cache_invariant(m: UriMap, p: PV)
    requires cache_inv(m)
    ensures cache_inv(m.remove(p))
{
    let m1 = m.remove(p);
    assert forall|q: PV| m1.contains_key(q) implies op_uri_to_path(#[trigger] m1[q]) == Some(q) by {
        assert(m.contains_key(q) && m1[q] == m[q]);
    }
}

// ---- C15: locations identify the right document ----------------------------------------------------------------------
//@tags C15 C05
/// URI ROUND TRIP: the URI the server answers with for a canonical path p is one that the server itself reads back as p
/// -- whether it is the client's own URI (cached: by the invariant; canonicity is not even needed) or a built one
/// (uncached: U1, and p resolves to itself)
pub proof fn lemma_C15_uri_round_trip(m: UriMap, p: PV, u: Uri)
    requires cache_inv(m), is_canon(p), op_path_to_uri(m, p) == Some(u)
    ensures op_uri_to_path(u) == Some(p)
{
    if !m.contains_key(p) { axiom_U1_uri_round_trip(p, u); }
}
//@tags C15 C05
/// the cached half needs no canonicity
pub proof fn lemma_C15_uri_round_trip_cached(m: UriMap, p: PV)
    requires cache_inv(m), m.contains_key(p)
    ensures op_path_to_uri(m, p) == Some(m[p]), op_uri_to_path(m[p]) == Some(p)
{}
//@tags C15
/// a path that uri_to_path returned is canonical (U2, U3) -- provided the URI spelled an absolute path, which matters only
/// when the file does not exist; so the keys didOpen writes into the cache are canonical
pub proof fn lemma_C15_uri_to_path_yields_canonical(u: Uri, p: PV)
    requires op_uri_to_path(u) == Some(p), pv_is_abs(file_path_of(u)->0) || fs_canonical(file_path_of(u)->0) is Some
    ensures is_canon(p)
{
    let q = file_path_of(u)->0;
    if fs_canonical(q) is Some { axiom_U2_canonical_is_fixpoint(q, p); axiom_U3_canonical_is_absolute(q, p); }
}
//@tags C15 C05
/// THE ANSWER DENOTES THE CLIENT'S FILE: if the client names a document by u0 (whose path is absolute), the server works
/// on p = uri_to_path(u0) and answers with u = path_to_uri(p), then u -- whatever its spelling -- is read back as the same p
pub proof fn lemma_C15_answer_uri_denotes_the_clients_file(m: UriMap, u0: Uri, p: PV, u: Uri)
    requires cache_inv(m), op_uri_to_path(u0) == Some(p), pv_is_abs(file_path_of(u0)->0) || fs_canonical(file_path_of(u0)->0) is Some,
        op_path_to_uri(m, p) == Some(u)
    ensures op_uri_to_path(u) == Some(p)
{
    lemma_C15_uri_to_path_yields_canonical(u0, p);
    lemma_C15_uri_round_trip(m, p, u);
}

// ---- C04: no location is listed twice --------------------------------------------------------------------------------
//@tags C04
/// INJECTIVITY on canonical paths: two different canonical paths never get the same URI (so two usages in different
/// files never collapse into one location, and one usage is never listed under two URIs)
pub proof fn lemma_C04_path_to_uri_injective_on_canonical_paths(m: UriMap, p1: PV, p2: PV, u1: Uri, u2: Uri)
    requires cache_inv(m), is_canon(p1), is_canon(p2), p1 != p2,
        op_path_to_uri(m, p1) == Some(u1), op_path_to_uri(m, p2) == Some(u2)
    ensures u1 != u2
{
    lemma_C15_uri_round_trip(m, p1, u1);
    lemma_C15_uri_round_trip(m, p2, u2);
}
/// the same as a statement about a SET of paths, in the shape of `uri_injective_on` (prelude/handlers_l2.rs) -- for the
/// paths that HAVE a URI (two paths without a URI both map to None; such usages are skipped by the handlers)
pub open spec fn uri_injective_on_some(m: UriMap, fs: Set<PV>) -> bool {
    forall|a: PV, b: PV| fs.contains(a) && fs.contains(b) && op_path_to_uri(m, a) is Some
        && op_path_to_uri(m, a) == op_path_to_uri(m, b) ==> a == b
}
//@tags C04
pub proof fn lemma_C04_uri_injective_on_canonical_set(m: UriMap, fs: Set<PV>)
    requires cache_inv(m), forall|p: PV| fs.contains(p) ==> is_canon(p)
    ensures uri_injective_on_some(m, fs)
{
    assert forall|a: PV, b: PV| fs.contains(a) && fs.contains(b) && op_path_to_uri(m, a) is Some
        && op_path_to_uri(m, a) == op_path_to_uri(m, b) implies a == b by {
        if a != b { lemma_C04_path_to_uri_injective_on_canonical_paths(m, a, b, op_path_to_uri(m, a)->0, op_path_to_uri(m, b)->0); }
    }
}
/// EXACTLY the shape of `uri_injective_on(uc, fs)` of prelude/handlers_l2.rs (with path_uri(uc, .) read as
/// op_path_to_uri(m, .)): that shape also equates two paths WITHOUT a URI (None == None), so it additionally needs
/// "every path of the set has a URI" (false in general: from_file_path may fail)
pub open spec fn uri_injective_on_m(m: UriMap, fs: Set<PV>) -> bool {
    forall|a: PV, b: PV| fs.contains(a) && fs.contains(b) && op_path_to_uri(m, a) == op_path_to_uri(m, b) ==> a == b
}
//@tags C04
pub proof fn lemma_C04_uri_injective_on_exact(m: UriMap, fs: Set<PV>)
    requires cache_inv(m), forall|p: PV| fs.contains(p) ==> is_canon(p) && op_path_to_uri(m, p) is Some
    ensures uri_injective_on_m(m, fs)
{
    assert forall|a: PV, b: PV| fs.contains(a) && fs.contains(b) && op_path_to_uri(m, a) == op_path_to_uri(m, b) implies a == b by {
        if a != b { lemma_C04_path_to_uri_injective_on_canonical_paths(m, a, b, op_path_to_uri(m, a)->0, op_path_to_uri(m, b)->0); }
    }
}
//@tags C04
/// uncached absolute paths: injectivity needs neither canonicity nor the invariant (U1 alone)
pub proof fn lemma_C04_built_uris_injective(p1: PV, p2: PV, u: Uri)
    requires pv_is_abs(p1), pv_is_abs(p2), uri_of_path(p1) == Some(u), uri_of_path(p2) == Some(u)
    ensures p1 == p2
{
    axiom_U1_uri_round_trip(p1, u);
    axiom_U1_uri_round_trip(p2, u);
}

// ---- C05 / C04: the URI the client sent is the one sent back -----------------------------------------------------------
//@tags C05 C04
/// after didOpen(uri) every answer about that document's path carries the client's OWN URI (not a rebuilt one), the
/// invariant holds again, and the server reads that URI back as the same path
pub proof fn lemma_opened_document_gets_its_own_uri(m: UriMap, uri: Uri, p: PV)
    requires cache_inv(m), op_uri_to_path(uri) == Some(p)
    ensures op_path_to_uri(m.insert(p, uri), p) == Some(uri), cache_inv(m.insert(p, uri)),
        op_uri_to_path(op_path_to_uri(m.insert(p, uri), p)->0) == Some(p)
{
    lemma_did_open_keeps_cache_invariant(m, uri, p);
}
//@tags C05 C04
/// ... and keeps it while OTHER documents (other paths) are opened, changed or closed
pub proof fn lemma_opened_document_keeps_its_uri(m: UriMap, p: PV, uri2: Uri, p2: PV)
    requires m.contains_key(p), p2 != p
    ensures op_path_to_uri(m.insert(p2, uri2), p) == Some(m[p]), op_path_to_uri(m.remove(p2), p) == Some(m[p])
{}
//@tags C05 C04
/// FINDING (two client URIs of ONE file: a symlinked directory, "/ws/../ws/t.py", a second editor on another mount point):
/// both are read as the same path p, and the cache has ONE slot per path, so the second didOpen REPLACES the first
/// URI: every later answer about the FIRST document (references, definition, call hierarchy items, workspace symbols)
/// carries the second document's URI.  The invariant survives (lemma_did_open_keeps_cache_invariant), identity does not.
pub proof fn lemma_C05_FINDING_second_uri_of_same_file_replaces_the_first(m: UriMap, u1: Uri, u2: Uri, p: PV)
    requires op_uri_to_path(u1) == Some(p), op_uri_to_path(u2) == Some(p), u1 != u2
    ensures op_path_to_uri(m.insert(p, u1).insert(p, u2), p) == Some(u2),
        op_path_to_uri(m.insert(p, u1).insert(p, u2), p) != Some(u1),
{}
//@tags C05 C04
/// FINDING (continued): closing the SECOND document removes the slot although the first document is still open; from
/// then on the first document is answered with the BUILT URI of the canonical path -- which is u1 only if the client
/// happened to spell u1 exactly as the server builds it
pub proof fn lemma_C05_FINDING_closing_the_alias_forgets_the_open_document(m: UriMap, u1: Uri, u2: Uri, p: PV)
    requires op_uri_to_path(u1) == Some(p), op_uri_to_path(u2) == Some(p)
    ensures op_path_to_uri(m.insert(p, u1).insert(p, u2).remove(p), p) == uri_of_path(p),
        uri_of_path(p) != Some(u1) ==> op_path_to_uri(m.insert(p, u1).insert(p, u2).remove(p), p) != Some(u1),
{}
//@tags C04 C15
/// FACT (a path that is NOT canonical): the lookup is by the path as given.  If a file is known to the database under a
/// non-canonical spelling q (a symlinked site-packages entry, say) while the client opened it and the cache holds its
/// URI under the canonical p, then q misses the cache and gets the built URI of q -- and when the client's URI happens
/// to BE the built URI of q (the client spelled the document through the same symlink), p and q get the SAME URI:
/// injectivity fails off the canonical paths, one file can be listed under one URI from two index entries
pub proof fn lemma_C04_FACT_noncanonical_path_can_share_a_uri(m: UriMap, p: PV, q: PV, u: Uri)
    requires m.contains_key(p), m[p] == u, !m.contains_key(q), uri_of_path(q) == Some(u), p != q
    ensures op_path_to_uri(m, p) == op_path_to_uri(m, q)
{}
//@tags C15
/// FACT (a non-canonical uncached path): the built URI is read back as the CANONICAL path, not as the path given
pub proof fn lemma_C15_FACT_round_trip_of_noncanonical_path_lands_on_canonical(m: UriMap, q: PV, u: Uri)
    requires !m.contains_key(q), pv_is_abs(q), op_path_to_uri(m, q) == Some(u)
    ensures op_uri_to_path(u) == Some(canon_now(q)), canon_now(q) != q ==> op_uri_to_path(u) != Some(q)
{
    axiom_U1_uri_round_trip(q, u);
}
//@tags C15 C05
/// FACT (a file the client NEVER opened, in a workspace the client spells through a symlink): the client's spelling q of
/// the file resolves to the canonical p != q, the database knows the file as p, p is not in the cache: the answer is the
/// URI built from p -- and that is NONE of the URIs that spell q (U1): the location names the right file, but not by a
/// name the client uses for it (observed with a symlinked workspace root: go-to-definition into conftest.py answers
/// file://<real>/conftest.py to a client working in file://<link>/; replay/proposed/uri_glue_C_*.json)
pub proof fn lemma_C15_FACT_unopened_file_is_answered_in_canonical_spelling(m: UriMap, u0: Uri, q: PV, p: PV)
    requires file_path_of(u0) == Some(q), fs_canonical(q) == Some(p), p != q, !m.contains_key(p)
    ensures op_uri_to_path(u0) == Some(p), op_path_to_uri(m, p) == uri_of_path(p), op_path_to_uri(m, p) != Some(u0)
{
    axiom_U3_canonical_is_absolute(q, p);
    if uri_of_path(p) == Some(u0) { axiom_U1_uri_round_trip(p, u0); }
}
//@tags C15 C06
/// FACT (canonicalize fails: the file was deleted, or is a buffer not yet saved): uri_to_path answers the path AS SPELLED
/// in the URI (not None) -- the document is analysed and cached under that spelling
pub proof fn lemma_C15_FACT_unresolvable_path_is_used_as_spelled(u: Uri, q: PV)
    requires file_path_of(u) == Some(q), fs_canonical(q) is None
    ensures op_uri_to_path(u) == Some(q)
{}
