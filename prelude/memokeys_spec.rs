// ---------------------------------------------------------------------------------------------
// Unit memo_keys: vocabulary of the CONTENT-HASH keyed memo tables of src/fixtures/mod.rs (line_index_cache,
// ast_cache).  Pure specification: no `assume`, no axiom, no external_body in this file.
// Needs from the including unit: PV (prelude/path.rs), Arc (prelude/arc.rs), ints (prelude/bytes.rs), is_line_index
// (prelude/line_spec.rs), and the three text functions `src_line_index`, `parse_ok`, `ast_of` (whatever the unit
// takes them to be: unit memo_keys DEFINES src_line_index from build_line_index's proved contract and leaves the
// parser uninterpreted).
pub use vstd::std_specs::hash::DefaultHasherAdditionalSpecFns;

/// the byte chunks `<str as Hash>::hash` writes into a hasher for the text t (std: `Hasher::write_str`, i.e. the
/// UTF-8 bytes followed by 0xff): a function of the text alone -- left uninterpreted, nothing proved looks inside
pub uninterp spec fn str_feed(t: Seq<char>) -> Seq<Seq<u8>>;
/// the key hash_content computes for a text: what `DefaultHasher::finish` (vstd: the uninterpreted
/// `DefaultHasher::spec_finish` of everything written since `new()`) returns after the WHOLE text, and nothing but the
/// text, was fed.  No property of this function is assumed anywhere: it is an uninterpreted u64 per text.
pub open spec fn content_hash(t: Seq<char>) -> u64 { std::collections::hash_map::DefaultHasher::spec_finish(str_feed(t)) }

/// THE IDEALISATION OF THE HASH (H-ideal), a HYPOTHESIS about one pair of texts, never an axiom: the two texts do not
/// collide.  (As a statement about ALL pairs it is false of any 64-bit hash: there are more than 2^64 texts.)
pub open spec fn hash_collision_free(t1: Seq<char>, t2: Seq<char>) -> bool {
    content_hash(t1) == content_hash(t2) ==> t1 == t2
}
/// the state-independent (stronger) form a caller without access to the cache may use: t collides with NO other text
pub open spec fn hash_collides_with_nothing(t: Seq<char>) -> bool {
    forall|t2: Seq<char>| #[trigger] hash_collision_free(t, t2)
}

// ---- line_index_cache ------------------------------------------------------------------------------------------
pub type LiEntry = (u64, Arc<Vec<usize>>);
pub type LiMap = Map<PV, LiEntry>;
/// the entry is what get_line_index stores for the text t
pub open spec fn li_built_from(e: LiEntry, t: Seq<char>) -> bool {
    &&& e.0 == content_hash(t)
    &&& (*e.1)@ == src_line_index(t)
    &&& is_line_index(ints((*e.1)@))
}
/// cache invariant: every entry was built from SOME text
pub open spec fn li_entry_ok(e: LiEntry) -> bool { exists|t: Seq<char>| li_built_from(e, t) }
/// skolem witness: a text the entry was built from (any one; meaningful under li_entry_ok)
pub open spec fn li_src(e: LiEntry) -> Seq<char> { choose|t: Seq<char>| li_built_from(e, t) }
pub open spec fn li_cache_wf(m: LiMap) -> bool {
    forall|f: PV| m.contains_key(f) ==> li_entry_ok(#[trigger] m[f])
}
/// the no-collision hypothesis of ONE call get_line_index(f, t): if there is an entry under f, it was built from a
/// text that does not collide with t (weakest form: ANY text the entry was built from will do as the witness;
/// implied by `hash_collision_free(t, li_src(m[f]))` under the invariant -- lemma_li_no_collision_from_witness --
/// and by `hash_collides_with_nothing(t)`)
pub open spec fn li_no_collision(m: LiMap, f: PV, t: Seq<char>) -> bool {
    m.contains_key(f) ==> exists|t0: Seq<char>| #[trigger] li_built_from(m[f], t0) && hash_collision_free(t, t0)
}
/// cache hit: an entry under the file whose stored hash is the hash of the text asked for
pub open spec fn li_hit(m: LiMap, f: PV, t: Seq<char>) -> bool { m.contains_key(f) && m[f].0 == content_hash(t) }
/// OPERATIONAL specification of get_line_index, for ANY cache content (no invariant, no hypothesis):
/// hit  -> the cached Arc itself, cache untouched;
/// miss -> a fresh index of the text, stored under the file together with the hash of the text.
pub open spec fn li_post(m0: LiMap, m1: LiMap, f: PV, t: Seq<char>, r: Arc<Vec<usize>>) -> bool {
    if li_hit(m0, f, t) { r == m0[f].1 && m1 == m0 }
    else { (*r)@ == src_line_index(t) && is_line_index(ints((*r)@)) && m1 == m0.insert(f, (content_hash(t), r)) }
}

// ---- ast_cache -------------------------------------------------------------------------------------------------
pub type AstEntry = (u64, Arc<rustpython_parser::ast::Mod>);
pub type AstMap = Map<PV, AstEntry>;
/// the entry is what get_parsed_ast stores for the text t (only texts that parse are ever stored)
pub open spec fn ast_built_from(e: AstEntry, t: Seq<char>) -> bool {
    &&& e.0 == content_hash(t)
    &&& parse_ok(t)
    &&& *e.1 == ast_of(t)
}
pub open spec fn ast_entry_ok(e: AstEntry) -> bool { exists|t: Seq<char>| ast_built_from(e, t) }
pub open spec fn ast_src(e: AstEntry) -> Seq<char> { choose|t: Seq<char>| ast_built_from(e, t) }
pub open spec fn ast_cache_wf(m: AstMap) -> bool {
    forall|f: PV| m.contains_key(f) ==> ast_entry_ok(#[trigger] m[f])
}
pub open spec fn ast_no_collision(m: AstMap, f: PV, t: Seq<char>) -> bool {
    m.contains_key(f) ==> exists|t0: Seq<char>| #[trigger] ast_built_from(m[f], t0) && hash_collision_free(t, t0)
}
pub open spec fn ast_hit(m: AstMap, f: PV, t: Seq<char>) -> bool { m.contains_key(f) && m[f].0 == content_hash(t) }
/// OPERATIONAL specification of get_parsed_ast, for ANY cache content:
/// hit                -> Some(the cached Arc), cache untouched (the parser is not run);
/// miss, text parses  -> Some(fresh AST), stored under the file with the hash of the text;
/// miss, parse fails  -> None, and NOTHING is stored or removed: an older entry of the file stays in place (stale).
pub open spec fn ast_post(m0: AstMap, m1: AstMap, f: PV, t: Seq<char>, r: Option<Arc<rustpython_parser::ast::Mod>>) -> bool {
    if ast_hit(m0, f, t) { r == Some(m0[f].1) && m1 == m0 }
    else if parse_ok(t) { r is Some && *r->Some_0 == ast_of(t) && m1 == m0.insert(f, (content_hash(t), r->Some_0)) }
    else { r is None && m1 == m0 }
}
/// what the callers are told: Some(arc) with *arc == ast_of(text) iff the text parses
pub open spec fn ast_answer(t: Seq<char>, r: Option<Arc<rustpython_parser::ast::Mod>>) -> bool {
    match r { Some(a) => parse_ok(t) && *a == ast_of(t), None => !parse_ok(t) }
}
