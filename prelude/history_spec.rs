// ---------------------------------------------------------------------------------------------
// Unit history: the quantifier "all histories" of C06 / C10 over the ONE-STEP contract of analyze_file.
// Vocabulary.  Needs dbview.rs (bucket / sbucket), index_spec.rs (clean_*), analyze_spec.rs (push_* / add_fdefs /
// stmts_v*), history_vocab.rs (in_file, named, w1, all_in_file, uses_in_file: the definitions of analyze_l2.rs), history_seq.rs.
//
// A *file* here is a CANONICAL path (canon(p) of the path a notification carries; canon = canon_now is a function of the
// one file-system state A4, so two notifications for paths with the same canonical form are events of the same file).
// An *event* is (file, text): one didOpen / didChange that reached analyze_file (unit handlers_main: did_open_post /
// did_change_post; an empty change list and a URI without a path reach nothing and are no events; didClose does not
// touch the index: lemma_C06_close_keeps_index).

/// the abstract index: the four maps every answer is computed from
pub struct IdxV {
    pub defs: Map<Seq<char>, Seq<DefV>>,
    pub fdefs: Map<PV, Set<Seq<char>>>,
    pub uses: Map<PV, Seq<UseV>>,
    pub byfix: Map<Seq<char>, Seq<(PV, UseV)>>,
}
pub type Ev = (PV, Seq<char>);

pub open spec fn idx_empty() -> IdxV {
    IdxV { defs: Map::empty(), fdefs: Map::empty(), uses: Map::empty(), byfix: Map::empty() }
}
/// what the visitors record for text t analysed as file f (unit analyze: the sequences analyze_file pushes)
pub open spec fn vd(f: PV, t: Seq<char>) -> Seq<DefV> { stmts_vdefs(body_of(ast_of(t)), f, t) }
pub open spec fn vu(f: PV, t: Seq<char>) -> Seq<UseV> { stmts_vuses(body_of(ast_of(t)), f, t) }

/// ONE analysis with cleanup (analyze_file = analyze_file_internal(.., cleanup_previous = true)): clause by clause the
/// post state of the contract proved in unit analyze (checked: lemma_step_is_analyze_post, check_step_is_analyze_file)
pub open spec fn step(s: IdxV, f: PV, t: Seq<char>) -> IdxV {
    if !parse_ok(t) { s } else {
        IdxV {
            defs: push_defs(clean_defs_names(s.defs, f, sbucket(s.fdefs, f)), vd(f, t)),
            fdefs: add_fdefs(s.fdefs.remove(f), vd(f, t)),
            uses: push_uses(s.uses.remove(f), vu(f, t)),
            byfix: push_byfix(clean_byfix(s.byfix, f), vu(f, t)),
        }
    }
}
/// ONE analysis without cleanup of the definitions (analyze_file_fresh: the workspace scan)
pub open spec fn step_fresh(s: IdxV, f: PV, t: Seq<char>) -> IdxV {
    if !parse_ok(t) { s } else {
        IdxV {
            defs: push_defs(s.defs, vd(f, t)),
            fdefs: add_fdefs(s.fdefs, vd(f, t)),
            uses: push_uses(s.uses.remove(f), vu(f, t)),
            byfix: push_byfix(clean_byfix(s.byfix, f), vu(f, t)),
        }
    }
}
/// a history: the left fold of step
pub open spec fn run(s0: IdxV, es: Seq<Ev>) -> IdxV
    decreases es.len()
{
    if es.len() == 0 { s0 } else { step(run(s0, es.drop_last()), es.last().0, es.last().1) }
}
/// the latest syntactically valid content of file f in the history (None: no event of f parsed)
pub open spec fn last_valid(es: Seq<Ev>, f: PV) -> Option<Seq<char>>
    decreases es.len()
{
    if es.len() == 0 { None }
    else if es.last().0 == f && parse_ok(es.last().1) { Some(es.last().1) }
    else { last_valid(es.drop_last(), f) }
}

// ---- hypothesis about the visitors (discharged by unit visit: lemma_C06_visit_defs_in_file / _uses_in_file) -----------
/// everything the visitors record for (file f, text t) is filed under f -- the hypotheses all_in_file / uses_in_file of
/// lemma_C06_a_defs_current_only / lemma_C06_a_uses_current_only (prelude/analyze_l2.rs), for one (f, t)
pub open spec fn ev_local(f: PV, t: Seq<char>) -> bool { all_in_file(vd(f, t), f) && uses_in_file(vu(f, t), f) }
/// ... for every file and text
pub open spec fn visitors_file_local() -> bool { forall|f: PV, t: Seq<char>| #[trigger] ev_local(f, t) }

// ---- per-file projections of an index --------------------------------------------------------------------------------
pub open spec fn use_named(n: Seq<char>) -> spec_fn(UseV) -> bool { |u: UseV| u.name == n }
pub open spec fn pair_in_file(f: PV) -> spec_fn((PV, UseV)) -> bool { |e: (PV, UseV)| e.0 == f }
pub open spec fn pair_of() -> spec_fn(UseV) -> (PV, UseV) { |u: UseV| (u.file, u) }
/// what record_fixture_usage files in the reverse index for a sequence of usages: (file of the usage, usage)
pub open spec fn pairs_of(us: Seq<UseV>) -> Seq<(PV, UseV)> { us.map_values(pair_of()) }
/// the names a sequence of definitions carries
pub open spec fn names_of(ds: Seq<DefV>) -> Set<Seq<char>>
    decreases ds.len()
{
    if ds.len() == 0 { Set::<Seq<char>>::empty() } else { names_of(ds.drop_last()).insert(ds.last().name) }
}
/// the definitions of file f under name n, in bucket order
pub open spec fn pdefs(s: IdxV, f: PV, n: Seq<char>) -> Seq<DefV> { bucket(s.defs, n).filter(in_file(f)) }
/// the names file_definitions lists for f
pub open spec fn pnames(s: IdxV, f: PV) -> Set<Seq<char>> { sbucket(s.fdefs, f) }
/// the usages recorded for f
pub open spec fn puses(s: IdxV, f: PV) -> Seq<UseV> { bucket(s.uses, f) }
/// the reverse-index entries of file f under name n, in bucket order
pub open spec fn pbyfix(s: IdxV, f: PV, n: Seq<char>) -> Seq<(PV, UseV)> { bucket(s.byfix, n).filter(pair_in_file(f)) }

/// the same four projections of a TEXT (None: nothing)
pub open spec fn tdefs(f: PV, ot: Option<Seq<char>>, n: Seq<char>) -> Seq<DefV> {
    match ot { Some(t) => vd(f, t).filter(named(n)), None => Seq::<DefV>::empty() }
}
pub open spec fn tnames(f: PV, ot: Option<Seq<char>>) -> Set<Seq<char>> {
    match ot { Some(t) => names_of(vd(f, t)), None => Set::<Seq<char>>::empty() }
}
pub open spec fn tuses(f: PV, ot: Option<Seq<char>>) -> Seq<UseV> {
    match ot { Some(t) => vu(f, t), None => Seq::<UseV>::empty() }
}
pub open spec fn tbyfix(f: PV, ot: Option<Seq<char>>, n: Seq<char>) -> Seq<(PV, UseV)> {
    match ot { Some(t) => pairs_of(vu(f, t).filter(use_named(n))), None => Seq::<(PV, UseV)>::empty() }
}

// ---- invariants ----------------------------------------------------------------------------------------------------------
/// every definition is filed under its own name (verbatim the wf_names of units scope_mismatch / available / handlers_*)
pub open spec fn wf_names(defs: Map<Seq<char>, Seq<DefV>>) -> bool {
    forall|n: Seq<char>, i: int| defs.contains_key(n) && 0 <= i < defs[n].len() ==> (#[trigger] defs[n][i]).name == n
}
/// every usage is filed under its own file
pub open spec fn uses_filed(uses: Map<PV, Seq<UseV>>) -> bool {
    forall|g: PV, i: int| uses.contains_key(g) && 0 <= i < uses[g].len() ==> (#[trigger] uses[g][i]).file == g
}
/// every reverse-index entry (g, u) under name n has g == u.file and u.name == n
pub open spec fn byfix_wf(byfix: Map<Seq<char>, Seq<(PV, UseV)>>) -> bool {
    forall|n: Seq<char>, i: int| byfix.contains_key(n) && 0 <= i < byfix[n].len() ==>
        (#[trigger] byfix[n][i]).0 == byfix[n][i].1.file && byfix[n][i].1.name == n
}
/// the mirror between usages and usage_by_fixture, ORDER-AWARE: under every name the reverse-index entries of a file
/// are exactly that file's usages of the name, in the order of the file's usage list (implies the multiset mirror of
/// prelude/cli_l2.rs file by file)
pub open spec fn mirror_strong(uses: Map<PV, Seq<UseV>>, byfix: Map<Seq<char>, Seq<(PV, UseV)>>) -> bool {
    forall|g: PV, n: Seq<char>| #[trigger] bucket(byfix, n).filter(pair_in_file(g)) == pairs_of(bucket(uses, g).filter(use_named(n)))
}
/// no map holds an empty bucket (cleanup drops emptied buckets, recording creates non-empty ones)
pub open spec fn ne4(s: IdxV) -> bool { seqmap_ne(s.defs) && setmap_ne(s.fdefs) && seqmap_ne(s.uses) && seqmap_ne(s.byfix) }
/// what the state equalities need: W1 (file_definitions covers every definition) + no empty bucket
pub open spec fn core(s: IdxV) -> bool { w1(s.defs, s.fdefs) && ne4(s) }
/// the remaining well-formedness clauses (consumers: wf_names -> units available / scope_mismatch / handlers_*; mirror -> refs_goto / cli_unused)
pub open spec fn wf(s: IdxV) -> bool { wf_names(s.defs) && uses_filed(s.uses) && byfix_wf(s.byfix) && mirror_strong(s.uses, s.byfix) }
pub open spec fn inv(s: IdxV) -> bool { core(s) && wf(s) }

/// bucket-level normal form of ONE analysis with cleanup: r is s with f's entries replaced by those of t
pub open spec fn step_nf(s: IdxV, f: PV, t: Seq<char>, r: IdxV) -> bool {
    &&& forall|n: Seq<char>| #[trigger] bucket(r.defs, n) == bucket(s.defs, n).filter(not_in_file(f)) + vd(f, t).filter(named(n))
    &&& forall|g: PV| #[trigger] sbucket(r.fdefs, g) == (if g == f { names_of(vd(f, t)) } else { sbucket(s.fdefs, g) })
    &&& forall|g: PV| #[trigger] bucket(r.uses, g) == (if g == f { vu(f, t) } else { bucket(s.uses, g) })
    &&& forall|n: Seq<char>| #[trigger] bucket(r.byfix, n) == bucket(s.byfix, n).filter(pair_not_in_file(f)) + pairs_of(vu(f, t).filter(use_named(n)))
}
/// ... and without cleanup of the definitions (analyze_file_fresh): f's old definitions stay, the new ones are appended
pub open spec fn fresh_nf(s: IdxV, f: PV, t: Seq<char>, r: IdxV) -> bool {
    &&& forall|n: Seq<char>| #[trigger] bucket(r.defs, n) == bucket(s.defs, n) + vd(f, t).filter(named(n))
    &&& forall|g: PV| #[trigger] sbucket(r.fdefs, g) == (if g == f { sbucket(s.fdefs, f).union(names_of(vd(f, t))) } else { sbucket(s.fdefs, g) })
    &&& forall|g: PV| #[trigger] bucket(r.uses, g) == (if g == f { vu(f, t) } else { bucket(s.uses, g) })
    &&& forall|n: Seq<char>| #[trigger] bucket(r.byfix, n) == bucket(s.byfix, n).filter(pair_not_in_file(f)) + pairs_of(vu(f, t).filter(use_named(n)))
}
/// s and s2 agree on everything that is not an entry of file f
pub open spec fn same_except(s: IdxV, s2: IdxV, f: PV) -> bool {
    &&& forall|n: Seq<char>| #[trigger] bucket(s.defs, n).filter(not_in_file(f)) == bucket(s2.defs, n).filter(not_in_file(f))
    &&& forall|g: PV| g != f ==> #[trigger] sbucket(s.fdefs, g) == sbucket(s2.fdefs, g)
    &&& forall|g: PV| g != f ==> #[trigger] bucket(s.uses, g) == bucket(s2.uses, g)
    &&& forall|n: Seq<char>| #[trigger] bucket(s.byfix, n).filter(pair_not_in_file(f)) == bucket(s2.byfix, n).filter(pair_not_in_file(f))
}

// ---- the fresh server ---------------------------------------------------------------------------------------------------
pub open spec fn ev_not_file(f: PV) -> spec_fn(Ev) -> bool { |e: Ev| e.0 != f }
pub open spec fn ev_of_file(f: PV) -> spec_fn(Ev) -> bool { |e: Ev| e.0 == f }
/// the history reduced to what a fresh server needs: for every file ONLY its last parsable event, in the order in which
/// those events happened (superseded and unparsable events dropped)
pub open spec fn fresh(es: Seq<Ev>) -> Seq<Ev>
    decreases es.len()
{
    if es.len() == 0 { Seq::<Ev>::empty() }
    else if parse_ok(es.last().1) { fresh(es.drop_last()).filter(ev_not_file(es.last().0)).push(es.last()) }
    else { fresh(es.drop_last()) }
}
/// a workspace scan: the left fold of analyze_file_fresh
pub open spec fn run_fresh(s0: IdxV, es: Seq<Ev>) -> IdxV
    decreases es.len()
{
    if es.len() == 0 { s0 } else { step_fresh(run_fresh(s0, es.drop_last()), es.last().0, es.last().1) }
}
pub open spec fn files_distinct(es: Seq<Ev>) -> bool { forall|i: int, j: int| 0 <= i < j < es.len() ==> es[i].0 != es[j].0 }
/// two histories leave every file with the same latest valid content
pub open spec fn same_latest(es1: Seq<Ev>, es2: Seq<Ev>) -> bool { forall|f: PV| #[trigger] last_valid(es1, f) == last_valid(es2, f) }
