// ---------------------------------------------------------------------------------------------
// Vocabulary of analyze_file_internal's contract about `imports` (the per-file set of module-level / imported names the
// undeclared-fixture scanner treats as non-fixtures) -- pure specification + the fold lemmas, no assumption.
// Needs prelude/ast_spec.rs (module_level_names: the spec PROVED for collect_module_level_names in unit ast_helpers),
// prelude/analyze_spec.rs (Mod0 / Stmt0 / body_of), prelude/hashset.rs.  Every unit that reads analyze's @sig through
// `//@stub analyze ..` must include this file (after analyze_spec.rs).
/// `if let Mod::Module(module) = parsed`: the only shape whose body is analysed (and for which `imports[f]` is stored)
pub open spec fn is_module(m: Mod0) -> bool {
    match m { rustpython_parser::ast::Mod::Module(_) => true, _ => false }
}
/// the FIRST PASS of analyze_file_internal: collect_module_level_names folded over the top-level statements, in order
/// (left fold, like stmts_vdefs): the union of what each top-level statement binds (module_level_names, prelude/ast_spec.rs)
pub open spec fn module_names(body: Seq<Stmt0>) -> Set<Seq<char>>
    decreases body.len()
{
    if body.len() == 0 { Set::<Seq<char>>::empty() } else { module_names(body.drop_last()).union(module_level_names(body.last())) }
}
/// abstract view of the `imports` map: canonical file -> set of names
pub open spec fn imports_view(m: Map<PV, HashSet<String>>) -> Map<PV, Set<Seq<char>>> {
    m.map_values(|h: HashSet<String>| h.s())
}
/// what a successful analysis of (f, text with AST m) makes of the imports view: f's entry is REPLACED by the names of
/// THIS text (removed, then inserted: nothing of the old entry survives); if the parser did not hand back a
/// `Mod::Module` (it always does for Mode::Module, but that is not assumed) the entry is removed and nothing is stored
pub open spec fn imports_after(iv: Map<PV, Set<Seq<char>>>, f: PV, m: Mod0) -> Map<PV, Set<Seq<char>>> {
    if is_module(m) { iv.insert(f, module_names(body_of(m))) } else { iv.remove(f) }
}
/// the set the scanner reads for file f, on the view ...
pub open spec fn imps_at(iv: Map<PV, Set<Seq<char>>>, f: PV) -> Set<Seq<char>> { sbucket(iv, f) }
/// ... and on the map itself: TEXTUALLY the `imps_of` of prelude/undecl_spec.rs (unit undeclared_scan: the `imps` its
/// scan_fn / lemma_C17_a_precision take is imps_of(db.imports.m(), file)); another name only so that a unit may include both
pub open spec fn imports_entry(m: Map<PV, HashSet<String>>, f: PV) -> Set<Seq<char>> {
    if m.contains_key(f) { m[f].s() } else { Set::empty() }
}
/// THE CONTRACT of a successful analysis of canonical file f whose text parsed to m, about the `imports` map
/// (om before, sm after): on the view f's entry is replaced / removed as imports_after says, and -- at the level of the
/// stored HashSet objects -- no other file's entry is touched, created or dropped.  It is the same for analyze_file
/// (cleanup_previous = true) and analyze_file_fresh (false): `self.imports.remove(&file_path)` is NOT under the
/// `if cleanup_previous`.
pub open spec fn imports_post(om: Map<PV, HashSet<String>>, sm: Map<PV, HashSet<String>>, f: PV, m: Mod0) -> bool {
    &&& imports_view(sm) == imports_after(imports_view(om), f, m)
    &&& sm.remove(f) == om.remove(f)
}

/// one round of the first-pass loop
pub proof fn lemma_module_names_step(body: Seq<Stmt0>, i: int)
    requires 0 <= i < body.len(),
    ensures module_names(body.take(i + 1)) == module_names(body.take(i)).union(module_level_names(body[i])),
{
    let t1 = body.take(i + 1);
    assert(t1.drop_last() =~= body.take(i));
    assert(t1.last() == body[i]);
}
/// declarative reading of the fold: a name is in module_names(body) iff SOME top-level statement binds it
pub proof fn lemma_module_names_iff(body: Seq<Stmt0>, n: Seq<char>)
    ensures module_names(body).contains(n) <==> exists|i: int| 0 <= i < body.len() && module_level_names(#[trigger] body[i]).contains(n),
    decreases body.len()
{
    if body.len() > 0 {
        let t = body.drop_last();
        lemma_module_names_iff(t, n);
        if module_names(body).contains(n) {
            if module_level_names(body.last()).contains(n) {
                assert(module_level_names(body[body.len() - 1]).contains(n));
            } else {
                let i = choose|i: int| 0 <= i < t.len() && module_level_names(#[trigger] t[i]).contains(n);
                assert(t[i] == body[i]);
            }
        }
        if exists|i: int| 0 <= i < body.len() && module_level_names(#[trigger] body[i]).contains(n) {
            let i = choose|i: int| 0 <= i < body.len() && module_level_names(#[trigger] body[i]).contains(n);
            if i < body.len() - 1 { assert(t[i] == body[i]); } else { assert(body[i] == body.last()); }
        }
    }
}
/// the view of a map write is the write on the view
pub proof fn lemma_imports_view_insert(m: Map<PV, HashSet<String>>, f: PV, h: HashSet<String>)
    ensures imports_view(m.insert(f, h)) == imports_view(m).insert(f, h.s()),
{
    assert(imports_view(m.insert(f, h)) =~= imports_view(m).insert(f, h.s()));
}
pub proof fn lemma_imports_view_remove(m: Map<PV, HashSet<String>>, f: PV)
    ensures imports_view(m.remove(f)) == imports_view(m).remove(f),
{
    assert(imports_view(m.remove(f)) =~= imports_view(m).remove(f));
}
