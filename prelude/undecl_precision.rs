// ---------------------------------------------------------------------------------------------
// MECHANICAL COPY of the precision part of units/undeclared_scan.rs (entry_ok .. lemma_C17_a_precision, WITH the proofs:
// everything here is re-PROVED in the unit that includes it, nothing is assumed) so that a unit above the scanner
// (analyze) can compose the scanner's C17.a theorem with its own contract.
// Needs prelude/line_spec.rs (lemma_line_sound), visit_spec.rs (vline), undecl_avail_spec.rs, undecl_spec.rs.
// Regenerate, do not edit:
//   awk '/^\/\/\/ what holds of every finding recorded with context c/,/^\/\/\/ \.\.\. a name no fixture carries is never flagged/' units/undeclared_scan.rs | sed '$d'
/// what holds of every finding recorded with context c: its name is not a declared parameter, it is not a local
/// variable recorded with an EARLIER line, some definition of it is visible from the file (is_available_fixture,
/// unit undeclared_avail), its line is a real (1-based) line, and it is filed under the scanned file / function
pub open spec fn entry_ok(u: UndV, c: ScanV) -> bool {
    &&& !c.declared.contains(u.name)
    &&& !local_in_scope(c.locals, u.name, u.line)
    &&& op_is_available(bucket(c.defs, u.name), c.file)
    &&& (is_line_index(ints(c.li)) && c.li.len() <= usize::MAX ==> u.line >= 1)
    &&& u.file == c.file && u.function_name == c.fname && u.function_line == c.fline
}
pub open spec fn all_ok(s: Seq<UndV>, c: ScanV) -> bool { forall|i: int| 0 <= i < s.len() ==> entry_ok(#[trigger] s[i], c) }
//@tags C17
pub proof fn lemma_vline_ge1(li: Seq<usize>, off: usize)
    requires is_line_index(ints(li)), li.len() <= usize::MAX,
    ensures vline(li, off) >= 1,
{
    lemma_line_sound(ints(li), off as int);
}
//@tags C17
pub proof fn lemma_scan_opt_ok(o: Option<Box<Expr>>, c: ScanV)
    ensures all_ok(scan_opt(o, c), c),
{
    match o { Some(b) => { lemma_scan_expr_ok(*b, c); } None => {} }
}
//@tags C17
pub proof fn lemma_scan_expr_ok(e: Expr, c: ScanV)
    ensures all_ok(scan_expr(e, c), c),
    decreases e, 0int
{
    match e {
        Expr::Name(n) => { if is_line_index(ints(c.li)) && c.li.len() <= usize::MAX { lemma_vline_ge1(c.li, r_start(n.range)); } }
        Expr::Call(x) => { lemma_scan_expr_ok(*x.func, c); lemma_scan_exprs_ok(x.args@, x.args@.len() as int, c); lemma_scan_kws_ok(x.keywords@, x.keywords@.len() as int, c); }
        Expr::Starred(x) => { lemma_scan_expr_ok(*x.value, c); }
        Expr::BoolOp(x) => { lemma_scan_exprs_ok(x.values@, x.values@.len() as int, c); }
        Expr::IfExp(x) => { lemma_scan_expr_ok(*x.test, c); lemma_scan_expr_ok(*x.body, c); lemma_scan_expr_ok(*x.orelse, c); }
        Expr::Set(x) => { lemma_scan_exprs_ok(x.elts@, x.elts@.len() as int, c); }
        Expr::Slice(x) => {
            match x.lower { Some(b) => { lemma_scan_expr_ok(*b, c); } None => {} }
            match x.upper { Some(b) => { lemma_scan_expr_ok(*b, c); } None => {} }
            match x.step { Some(b) => { lemma_scan_expr_ok(*b, c); } None => {} }
        }
        Expr::Attribute(x) => { lemma_scan_expr_ok(*x.value, c); }
        Expr::BinOp(x) => { lemma_scan_expr_ok(*x.left, c); lemma_scan_expr_ok(*x.right, c); }
        Expr::UnaryOp(x) => { lemma_scan_expr_ok(*x.operand, c); }
        Expr::Compare(x) => { lemma_scan_expr_ok(*x.left, c); lemma_scan_exprs_ok(x.comparators@, x.comparators@.len() as int, c); }
        Expr::Subscript(x) => { lemma_scan_expr_ok(*x.value, c); lemma_scan_expr_ok(*x.slice, c); }
        Expr::List(x) => { lemma_scan_exprs_ok(x.elts@, x.elts@.len() as int, c); }
        Expr::Tuple(x) => { lemma_scan_exprs_ok(x.elts@, x.elts@.len() as int, c); }
        Expr::Dict(x) => { lemma_scan_keys_ok(x.keys@, x.keys@.len() as int, c); lemma_scan_exprs_ok(x.values@, x.values@.len() as int, c); }
        Expr::Await(x) => { lemma_scan_expr_ok(*x.value, c); }
        _ => {}
    }
}
//@tags C17
pub proof fn lemma_scan_kws_ok(ks: Seq<AKeyword>, n: int, c: ScanV)
    ensures all_ok(scan_kws(ks, n, c), c),
    decreases ks, n
{
    if 0 < n <= ks.len() { lemma_scan_kws_ok(ks, n - 1, c); lemma_scan_expr_ok(ks[n - 1].value, c); }
}
//@tags C17
pub proof fn lemma_scan_exprs_ok(es: Seq<Expr>, n: int, c: ScanV)
    ensures all_ok(scan_exprs(es, n, c), c),
    decreases es, n
{
    if 0 < n <= es.len() { lemma_scan_exprs_ok(es, n - 1, c); lemma_scan_expr_ok(es[n - 1], c); }
}
//@tags C17
pub proof fn lemma_scan_keys_ok(ks: Seq<Option<Expr>>, n: int, c: ScanV)
    ensures all_ok(scan_keys(ks, n, c), c),
    decreases ks, n
{
    if 0 < n <= ks.len() {
        lemma_scan_keys_ok(ks, n - 1, c);
        match ks[n - 1] { Some(k) => { lemma_scan_expr_ok(k, c); } None => {} }
    }
}
//@tags C17
pub proof fn lemma_scan_items_ok(items: Seq<AWithItem>, n: int, c: ScanV)
    ensures all_ok(scan_items(items, n, c), c),
    decreases n
{
    if 0 < n <= items.len() { lemma_scan_items_ok(items, n - 1, c); lemma_scan_expr_ok(items[n - 1].context_expr, c); }
}
//@tags C17
pub proof fn lemma_scan_stmt_ok(s: Stmt, c: ScanV)
    ensures all_ok(scan_stmt(s, c), c),
    decreases s, 0int
{
    match s {
        Stmt::Expr(x) => { lemma_scan_expr_ok(*x.value, c); }
        Stmt::Assign(x) => { lemma_scan_expr_ok(*x.value, c); }
        Stmt::AugAssign(x) => { lemma_scan_expr_ok(*x.value, c); }
        Stmt::AnnAssign(x) => { lemma_scan_opt_ok(x.value, c); }
        Stmt::Raise(x) => { lemma_scan_opt_ok(x.exc, c); lemma_scan_opt_ok(x.cause, c); }
        Stmt::Try(x) => {
            lemma_scan_body_ok(x.body@, x.body@.len() as int, c); lemma_scan_handlers_ok(x.handlers@, x.handlers@.len() as int, c);
            lemma_scan_body_ok(x.orelse@, x.orelse@.len() as int, c); lemma_scan_body_ok(x.finalbody@, x.finalbody@.len() as int, c);
        }
        Stmt::Return(x) => { lemma_scan_opt_ok(x.value, c); }
        Stmt::If(x) => { lemma_scan_expr_ok(*x.test, c); lemma_scan_body_ok(x.body@, x.body@.len() as int, c); lemma_scan_body_ok(x.orelse@, x.orelse@.len() as int, c); }
        Stmt::While(x) => { lemma_scan_expr_ok(*x.test, c); lemma_scan_body_ok(x.body@, x.body@.len() as int, c); lemma_scan_body_ok(x.orelse@, x.orelse@.len() as int, c); }
        Stmt::For(x) => { lemma_scan_expr_ok(*x.iter, c); lemma_scan_body_ok(x.body@, x.body@.len() as int, c); lemma_scan_body_ok(x.orelse@, x.orelse@.len() as int, c); }
        Stmt::With(x) => { lemma_scan_items_ok(x.items@, x.items@.len() as int, c); lemma_scan_body_ok(x.body@, x.body@.len() as int, c); }
        Stmt::AsyncFor(x) => { lemma_scan_expr_ok(*x.iter, c); lemma_scan_body_ok(x.body@, x.body@.len() as int, c); lemma_scan_body_ok(x.orelse@, x.orelse@.len() as int, c); }
        Stmt::AsyncWith(x) => { lemma_scan_items_ok(x.items@, x.items@.len() as int, c); lemma_scan_body_ok(x.body@, x.body@.len() as int, c); }
        Stmt::Assert(x) => { lemma_scan_expr_ok(*x.test, c); lemma_scan_opt_ok(x.msg, c); }
        _ => {}
    }
}
//@tags C17
pub proof fn lemma_scan_handlers_ok(hs: Seq<AHandler>, n: int, c: ScanV)
    ensures all_ok(scan_handlers(hs, n, c), c),
    decreases hs, n
{
    if 0 < n <= hs.len() {
        lemma_scan_handlers_ok(hs, n - 1, c);
        match hs[n - 1] { rustpython_parser::ast::ExceptHandler::ExceptHandler(h) => { lemma_scan_body_ok(h.body@, h.body@.len() as int, c); } }
    }
}
//@tags C17
pub proof fn lemma_scan_body_ok(b: Seq<Stmt>, n: int, c: ScanV)
    ensures all_ok(scan_body(b, n, c), c),
    decreases b, n
{
    if 0 < n <= b.len() { lemma_scan_body_ok(b, n - 1, c); lemma_scan_stmt_ok(b[n - 1], c); }
}

/// C17.a -- precision, all four clauses at once, for EVERY finding of a function scan:
///  * its name is not in declared_params (what unit visit passes: the parameters, `self`, `request` and -- for a
///    fixture -- the function's own name; lemma_C17_a_declared_has_params below),
///  * it is not recorded in local_vars with a line STRICTLY SMALLER than the line of the use (local_vars holds the
///    EARLIEST line of every recorded binder of the name: lemma_C17_a_earlier_binding_protects / _in_scope_iff below),
///  * it is not a name of the file's `imports` entry (module-level names: they are recorded with line 0 and every
///    use is on a line >= 1),
///  * is_available_fixture holds for it: some registered definition of that name is visible from the file,
/// and it is filed under the scanned file with the scanned function's name and line.
//@tags C17
pub proof fn lemma_C17_a_precision(body: Seq<Stmt>, file: PV, li: Seq<usize>, declared: Set<Seq<char>>, fname: Seq<char>, fline: usize,
                                   defs: Map<Seq<char>, Seq<DefV>>, imps: Set<Seq<char>>, i: int)
    requires is_line_index(ints(li)), li.len() <= usize::MAX,
        0 <= i < scan_fn(body, file, li, declared, fname, fline, defs, imps).len(),
    ensures ({
        let u = scan_fn(body, file, li, declared, fname, fline, defs, imps)[i];
        let locals = fn_locals(body, li, imps);
        &&& !declared.contains(u.name)
        &&& !(locals.contains_key(u.name) && locals[u.name] < u.line)
        &&& !imps.contains(u.name)
        &&& op_is_available(bucket(defs, u.name), file)
        &&& bucket(defs, u.name).len() > 0
        &&& u.file == file && u.function_name == fname && u.function_line == fline
    }),
{
    let c = fn_ctx(body, file, li, declared, fname, fline, defs, imps);
    lemma_scan_body_ok(body, body.len() as int, c);
    let u = scan_fn(body, file, li, declared, fname, fline, defs, imps)[i];
    assert(entry_ok(u, c));
    if imps.contains(u.name) { assert(c.locals[u.name] == 0); }
}
