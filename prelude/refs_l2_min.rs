// generic sequence lemma shared by units
pub proof fn lemma_filter_mem<A>(s: Seq<A>, p: spec_fn(A) -> bool, x: A)
    ensures s.filter(p).contains(x) <==> (s.contains(x) && p(x))
    decreases s.len()
{
    reveal(Seq::filter);
    if s.len() > 0 {
        let t = s.drop_last();
        lemma_filter_mem(t, p, x);
        if s.contains(x) && p(x) {
            let i = choose|i: int| 0 <= i < s.len() && s[i] == x;
            if i < t.len() { assert(t[i] == x); assert(t.contains(x)); }
            else { assert(s.last() == x); }
            if p(s.last()) { let f = t.filter(p).push(s.last());
                if t.filter(p).contains(x) { let k = choose|k: int| 0 <= k < t.filter(p).len() && t.filter(p)[k] == x; assert(f[k] == x); }
                else { assert(f[f.len() - 1] == x); } }
        }
        if s.filter(p).contains(x) {
            if p(s.last()) {
                let f = t.filter(p).push(s.last());
                let k = choose|k: int| 0 <= k < f.len() && f[k] == x;
                if k < t.filter(p).len() { assert(t.filter(p)[k] == x); assert(t.filter(p).contains(x)); let i = choose|i: int| 0 <= i < t.len() && t[i] == x; assert(s[i] == x); }
                else { assert(s[s.len() - 1] == x); }
            } else {
                let i = choose|i: int| 0 <= i < t.len() && t[i] == x; assert(s[i] == x);
            }
        }
    }
}

