// ---------------------------------------------------------------------------------------------
// Stand-ins and assumed specifications for the CLI front end of src/main.rs (handle_fixtures_unused /
// handle_fixtures_list).  Needs path.rs, path_ext.rs (pv_is_prefix), dashmap.rs.
//  * std::path: is_dir, strip_prefix, to_string_lossy (T5 rename -> wrapper type: Cow<str> cannot be specified)
//  * println! with `colored` styling, serde_json::json! / to_string_pretty, std::process::exit: T6 stand-ins (the
//    crates colored / serde_json are not visible to the unit) whose PRECONDITIONS carry the obligations: what is
//    printed is a function of the arguments handed to the stand-in; `exit` is a call followed by `return`.
pub uninterp spec fn fs_is_dir(p: PV) -> bool;
pub assume_specification[ Path::is_dir ](p: &Path) -> (r: bool)
    ensures r == fs_is_dir(pv(p));
#[verifier::external_type_specification] #[verifier::external_body] pub struct ExStripPrefixError(std::path::StripPrefixError);
pub mod cli_path_ax {
    use super::*;
    pub broadcast axiom fn axiom_pathbuf_ref_as_path2<'a>(p: &'a PathBuf)
        ensures #[trigger] as_path_view::<&'a PathBuf>(p) == pbv(p);
}
pub use cli_path_ax::*;
/// `p.strip_prefix(base)`: Ok(the components after base) exactly when base's components are a prefix of p's
#[verifier::allow(undeclared_external_trait)]
pub assume_specification<'a, P: AsRef<Path>>[ Path::strip_prefix::<P> ](p: &'a Path, base: P) -> (r: Result<&'a Path, std::path::StripPrefixError>)
    ensures match r {
        Ok(q) => pv_is_prefix(as_path_view(base), pv(p)) && pv(q) == pv(p).subrange(as_path_view(base).len() as int, pv(p).len() as int),
        Err(_) => !pv_is_prefix(as_path_view(base), pv(p)) };
pub assume_specification<T, E>[ Result::<T, E>::unwrap_or ](r: Result<T, E>, default: T) -> (v: T)
    ensures v == (match r { Ok(x) => x, Err(_) => default });
/// the text `Path::to_string_lossy` gives for a path (uninterpreted function of the components)
pub uninterp spec fn lossy_text(p: PV) -> Seq<char>;
pub struct LossyText { pub t: Ghost<Seq<char>> }
impl LossyText {
    pub open spec fn view(&self) -> Seq<char> { self.t@ }
    #[verifier::external_body]
    pub fn to_string(&self) -> (r: String) ensures r@ == self@ { unimplemented!() }
}
pub trait VpPathLossy { fn vp_to_string_lossy(&self) -> (r: LossyText); }
impl VpPathLossy for Path {
    #[verifier::external_body]
    fn vp_to_string_lossy(&self) -> (r: LossyText) ensures r@ == lossy_text(pv(self)) { unimplemented!() }
}

/// what one line / one JSON object of the report says: (path text, fixture name)
pub type EntryV = (Seq<char>, Seq<char>);
/// the path shown for file p under scanned root: relative to the root when p is below it, else p itself
pub open spec fn shown_path(p: PV, root: PV) -> PV { if pv_is_prefix(root, p) { p.subrange(root.len() as int, p.len() as int) } else { p } }
pub open spec fn entry_of(e: (PathBuf, String), root: PV) -> EntryV { (lossy_text(shown_path(pbv(&e.0), root)), e.1@) }
/// EVERY unused fixture gets an entry, in the order of the list
pub open spec fn expected_entries(unused: Seq<(PathBuf, String)>, root: PV) -> Seq<EntryV> {
    Seq::new(unused.len(), |i: int| entry_of(unused[i], root))
}
/// exit status of `fixtures unused`: 1 iff something is unused
pub open spec fn expected_exit(unused: Seq<(PathBuf, String)>) -> int { if unused.len() == 0 { 0 } else { 1 } }

pub mod serde_json {
    use super::*;
    #[verifier::external_body]
    pub struct Value { _p: () }
    /// the (file, fixture) pair a report object carries
    pub uninterp spec fn jv(v: Value) -> EntryV;
    pub open spec fn jvs(s: Seq<Value>) -> Seq<EntryV> { s.map_values(|v: Value| jv(v)) }
}
/// `serde_json::json!({"file": relative_path, "fixture": fixture_name})`
#[verifier::external_body]
pub fn vp_json_entry(relative_path: String, fixture_name: &String) -> (r: serde_json::Value)
    ensures serde_json::jv(r) == (relative_path@, fixture_name@)
{ unimplemented!() }
/// `println!("{}", serde_json::to_string_pretty(&json_output).unwrap())`: obligation = the objects are the expected entries
#[verifier::external_body]
pub fn vp_print_json(json_output: &Vec<serde_json::Value>, Ghost(expected): Ghost<Seq<EntryV>>)
    requires serde_json::jvs(json_output@) == expected
{ }
/// the per-fixture line of the text report: obligation = it shows the expected entry
#[verifier::external_body]
pub fn vp_print_entry(fixture_name: &String, relative_path: &LossyText, Ghost(expected): Ghost<EntryV>)
    requires (relative_path@, fixture_name@) == expected
{ }
/// header of the text report: obligation = the number shown is the number of unused fixtures
#[verifier::external_body]
pub fn vp_print_header(n: usize, Ghost(expected): Ghost<nat>)
    requires n == expected
{ }
#[verifier::external_body] pub fn vp_print_json_empty() { }
#[verifier::external_body] pub fn vp_print_none_found() { }
#[verifier::external_body] pub fn vp_print_tip() { }
#[verifier::external_body] pub fn vp_eprint_missing(p: &PathBuf) { }
#[verifier::external_body] pub fn vp_eprint_not_dir(p: &PathBuf) { }
/// `std::process::exit(code)` (written `return vp_exit(..)`): obligations = the status is the expected one and
/// everything that had to be printed has been printed
#[verifier::external_body]
pub fn vp_exit(Ghost(expected): Ghost<int>, Ghost(printed_ok): Ghost<bool>, code: i32)
    requires code == expected, printed_ok
{ }
