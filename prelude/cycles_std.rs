// ---------------------------------------------------------------------------------------------
// std functions used by the cycle detection (resolver.rs compute_fixture_cycles / detect_fixture_cycles_in_file):
// assumed specifications (trusted base A3).  Needs prelude/types.rs (strs_v, dv).
#[verifier::external_type_specification] pub struct ExFixtureCycle(FixtureCycle);

/// view of a reported cycle: the names on the path and the view of the fixture it is attached to
pub struct CycV { pub path: Seq<Seq<char>>, pub fixture: DefV }
pub open spec fn cyv(c: &FixtureCycle) -> CycV { CycV { path: strs_v(c.cycle_path@), fixture: dv(&c.fixture) } }
pub open spec fn cyvs(s: Seq<FixtureCycle>) -> Seq<CycV> { s.map_values(|c: FixtureCycle| cyv(&c)) }

// A5: derive(Clone) on FixtureCycle clones both fields
pub assume_specification[ <FixtureCycle as Clone>::clone ](a: &FixtureCycle) -> (r: FixtureCycle)
    ensures cyv(&r) == cyv(a);

// ---- T5 wrapper: `<[String]>::to_vec` (`.to_vec(` is renamed to `.vp_to_vec(`; the external body IS the call
// to the real method): a vector of clones, element by element — stated on the contents, which is all a String
// clone preserves observably.
pub trait VpStringSliceExt { fn vp_to_vec(&self) -> (r: Vec<String>); }
impl VpStringSliceExt for [String] {
    #[verifier::external_body]
    fn vp_to_vec(&self) -> (r: Vec<String>)
        ensures r@.len() == self@.len(), strs_v(r@) == strs_v(self@),
    { self.to_vec() }
}

/// `slice.iter().position(p)`: index of the first element p accepts; None iff p rejects every element
pub assume_specification<'a, T, P: FnMut(&'a T) -> bool>[ <core::slice::Iter<'a, T> as Iterator>::position ](it: &mut core::slice::Iter<'a, T>, p: P) -> (r: Option<usize>)
    where core::slice::Iter<'a, T>: Sized,
    requires forall|x: &'a T| #[trigger] call_requires(p, (x,)),
    ensures match r {
        Some(i) => i < old(it).remaining().len() && call_ensures(p, (old(it).remaining()[i as int],), true)
            && (forall|j: int| 0 <= j < i ==> call_ensures(p, (#[trigger] old(it).remaining()[j],), false)),
        None => forall|j: int| 0 <= j < old(it).remaining().len() ==> call_ensures(p, (#[trigger] old(it).remaining()[j],), false),
    };

// ---- T5 wrapper: `Iterator::cloned` is a provided method Verus cannot specify.  `.cloned(` is renamed to
// `.vp_cloned(`; the external body IS the call to the real method, driven to the end (which is what the
// `.collect()` that follows in the source does): one clone per element, in order.
pub trait VpClonedExt<'a, T: 'a + Clone>: Sized + Iterator<Item = &'a T> {
    fn vp_cloned(self) -> (r: std::vec::IntoIter<T>);
}
impl<'a, T: 'a + Clone, I: Iterator<Item = &'a T>> VpClonedExt<'a, T> for I {
    #[verifier::external_body]
    fn vp_cloned(self) -> (r: std::vec::IntoIter<T>)
        ensures r.obeys_prophetic_iter_laws(), r.decrease() is Some,
            // the source iterator is driven to its end (vstd states the same for the argument of `collect`)
            self.obeys_prophetic_iter_laws() ==> self.will_return_none(),
            r.remaining().len() == self.remaining().len(),
            forall|i: int| #![trigger r.remaining()[i]] #![trigger self.remaining()[i]]
                0 <= i < r.remaining().len() ==> cloned::<T>(*self.remaining()[i], r.remaining()[i]),
    { self.cloned().collect::<Vec<T>>().into_iter() }
}

// ---- the de-duplication key of a cycle: `names.sort(); names.join(",")`.  String contents are opaque to Verus:
// the sorted order and the joined text are UNINTERPRETED functions of the contents.  Assumed:
//   (K1) sorting a Vec<String> leaves, as sequence of contents, a function of the MULTISET of the contents
//        (`String: Ord` is a total order that identifies exactly the equal contents), and that sequence is a
//        rearrangement of the multiset;
//   (K2) `join(sep)` returns a String whose content is a function of the sequence of contents and of sep.
// NOT assumed: that join is injective (it is not, for names containing the separator).
pub uninterp spec fn sorted_names(m: vstd::multiset::Multiset<Seq<char>>) -> Seq<Seq<char>>;
pub uninterp spec fn joined_names(s: Seq<Seq<char>>, sep: Seq<char>) -> Seq<char>;
pub mod cyc_key_ax {
    use super::*;
    pub axiom fn axiom_sorted_names_perm(m: vstd::multiset::Multiset<Seq<char>>)
        ensures sorted_names(m).to_multiset() == m;
}
pub use cyc_key_ax::*;
pub trait VpStringVecExt {
    fn vp_sort(&mut self);
    fn vp_join(&self, sep: &str) -> (r: String);
}
impl VpStringVecExt for Vec<String> {
    #[verifier::external_body]
    fn vp_sort(&mut self)
        ensures strs_v(final(self)@) == sorted_names(strs_v(old(self)@).to_multiset()), final(self)@.len() == old(self)@.len(),
    { self.sort() }
    #[verifier::external_body]
    fn vp_join(&self, sep: &str) -> (r: String)
        ensures r@ == joined_names(strs_v(self@), sep@),
    { self.join(sep) }
}
