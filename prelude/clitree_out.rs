// ---------------------------------------------------------------------------------------------
// Unit cli_tree (CT11): the modelled standard output.  The three functions print with `println!`; every println! is
// replaced, token for token (@replace), by one of the stand-ins below, which APPENDS one event (prelude/clitree_spec.rs
// `Ev`, carrying the views of the very values handed to println!) to `out()`.  `out()` is an uninterpreted function of
// the database value: the receiver becomes `&mut self` (T3) and the stand-ins say nothing about the field VALUES, only
// that the views of the index (`same_index`) are unchanged - the process's stdout is modelled as hidden state that
// travels with the database object.  ASSUMED: println! writes exactly its arguments, in call order, nothing else
// writes to stdout.  Included AFTER //@dbstruct (needs fields definitions, usages, file_cache, usage_by_fixture,
// editable_install_roots, workspace_root).
pub open spec fn same_index(a: FixtureDatabase, b: FixtureDatabase) -> bool {
    &&& a.definitions.m() == b.definitions.m()
    &&& a.usages.m() == b.usages.m()
    &&& a.file_cache.m() == b.file_cache.m()
    &&& a.usage_by_fixture.m() == b.usage_by_fixture.m()
    &&& a.editable_install_roots@ == b.editable_install_roots@
    &&& a.workspace_root == b.workspace_root
}
impl FixtureDatabase {
    pub uninterp spec fn out(&self) -> Seq<Ev>;
    #[verifier::external_body]
    pub fn vp_out_header(&mut self, root_path: &Path)
        ensures final(self).out() == old(self).out().push(Ev::Header { root: pv(root_path) }), same_index(*final(self), *old(self))
    { }
    #[verifier::external_body]
    pub fn vp_out_blank(&mut self)
        ensures final(self).out() == old(self).out().push(Ev::Blank), same_index(*final(self), *old(self))
    { }
    #[verifier::external_body]
    pub fn vp_out_none(&mut self)
        ensures final(self).out() == old(self).out().push(Ev::NoFixtures), same_index(*final(self), *old(self))
    { }
    #[verifier::external_body]
    pub fn vp_out_file(&mut self, prefix: &str, connector: &str, file_display: &ColoredString, n: usize)
        ensures final(self).out() == old(self).out().push(Ev::File { prefix: prefix@, connector: connector@, display: file_display.v@, n: n }),
            same_index(*final(self), *old(self))
    { }
    #[verifier::external_body]
    pub fn vp_out_fixture(&mut self, new_prefix: &String, fixture_connector: &str, fixture_display: &ColoredString, usage_info: &String)
        ensures final(self).out() == old(self).out().push(Ev::Fixture { prefix: new_prefix@, connector: fixture_connector@, display: fixture_display.v@, info: usage_info@ }),
            same_index(*final(self), *old(self))
    { }
    #[verifier::external_body]
    pub fn vp_out_dir(&mut self, prefix: &str, connector: &str, dir_display: &ColoredString)
        ensures final(self).out() == old(self).out().push(Ev::Dir { prefix: prefix@, connector: connector@, display: dir_display.v@ }),
            same_index(*final(self), *old(self))
    { }
    #[verifier::external_body]
    pub fn vp_out_bare(&mut self, prefix: &str, connector: &str, name: &str)
        ensures final(self).out() == old(self).out().push(Ev::Bare { prefix: prefix@, connector: connector@, name: name@ }),
            same_index(*final(self), *old(self))
    { }
}
