// ---------------------------------------------------------------------------------------------
// Operational specification of FixtureDatabase::find_containing_function / find_function_containing_line
// (src/fixtures/resolver.rs; used by callHierarchy/incomingCalls to name the caller of a usage).
// Needs prelude/completion_ctx_spec.rs (in_lines, lno, parse_ok, ast_of, src_line_index, opt_or) and build/astspec.rs.
// DRAFT written by the builder of unit `position` for inclusion in unit completion_ctx (the only unit that has the
// real Arc / AST / get_parsed_ast / get_line_index vocabulary): see the report of unit position.

/// one statement: a (sync or async) function whose line span [line(range.start), line(range.end)] contains the
/// target line gives its name; a class is searched through its body (methods, nested classes; first hit in source
/// order); nothing else is looked into (no functions nested in functions, no `if`/`with`/`try` blocks)
pub open spec fn cf_stmt(s: Stmt, tl: usize, li: Seq<usize>) -> Option<Seq<char>>
    decreases s, 0int
{
    match s {
        Stmt::FunctionDef(f) => if in_lines(f.range, tl, li) { Some(idv(&f.name)) } else { None },
        Stmt::AsyncFunctionDef(f) => if in_lines(f.range, tl, li) { Some(idv(&f.name)) } else { None },
        Stmt::ClassDef(c) => cf_from(c.body@, 0, tl, li),
        _ => None,
    }
}
pub open spec fn cf_from(b: Seq<Stmt>, k: int, tl: usize, li: Seq<usize>) -> Option<Seq<char>>
    decreases b, b.len() - k
{
    if k < 0 || k >= b.len() { None } else { opt_or(cf_stmt(b[k], tl, li), cf_from(b, k + 1, tl, li)) }
}
/// find_containing_function(file, line) for a file whose text is `content` (1-based line)
pub open spec fn spec_containing(content: Option<Seq<char>>, line: usize) -> Option<Seq<char>> {
    match content {
        None => None,
        Some(c) => if parse_ok(c) {
            match ast_of(c) {
                rustpython_parser::ast::Mod::Module(m) => cf_from(m.body@, 0, line, src_line_index(c)),
                _ => None,
            }
        } else { None },
    }
}

// (the two extract blocks that use these specs live in units/completion_ctx.rs)
