// ---------------------------------------------------------------------------------------------
// Unit handlers_completion, L2: properties C18 / C17 from the operational specification of prelude/hcomp_spec.rs
// (completion_post / op_ctx_items) composed with the contracts of units completion_filter (op_offer, op_excluded,
// op_priority) and available (avail_post / avail_pick).  FINDING lemmas state what the real handler does where the
// property text says otherwise.  The canaries at the end must FAIL.

pub open spec fn labels(s: Seq<ItemV>) -> Seq<Seq<char>> { s.map_values(|i: ItemV| i.label) }
/// a fixture named n is visible from the (canonical) file cf: the per-file view has an entry for it (unit available)
pub open spec fn visible(a: AvV, cf: PV, n: Seq<char>) -> bool { avail_pick(a, cf, n) is Some }
/// an item function that copies the enrichment: label = the fixture's name, sort_text, detail
pub open spec fn copies_enr(f: spec_fn(EnrV) -> ItemV) -> bool {
    forall|e: EnrV| (#[trigger] f(e)).label == e.fixture.name && f(e).sort_text == Some(e.sort_text) && f(e).detail == Some(e.detail)
}
pub proof fn lemma_item_fns_copy(root: Option<PV>, prefix: Seq<char>, ins: Option<ParamInsertionInfo>)
    ensures copies_enr(sig_item_fn(root, prefix)), copies_enr(body_item_fn(root, prefix, ins)), copies_enr(str_item_fn(root, prefix)),
{}

/// the list get_available_fixtures returns: one entry per name, and d is in it iff d is the pick of its name
pub proof fn lemma_avail_list(av: Seq<DefV>, a: AvV, cf: PV)
    requires avail_post(av, a, cf),
    ensures names(av).no_duplicates(),
        forall|d: DefV| av.contains(d) <==> avail_pick(a, cf, d.name) == Some(d),
{
    assert forall|i: int, j: int| 0 <= i < names(av).len() && 0 <= j < names(av).len() && i != j implies names(av)[i] != names(av)[j] by {
        if i < j { assert(av[i].name != av[j].name); } else { assert(av[j].name != av[i].name); }
    }
    assert forall|d: DefV| av.contains(d) <==> avail_pick(a, cf, d.name) == Some(d) by {
        if av.contains(d) {
            let k = choose|k: int| 0 <= k < av.len() && av[k] == d;
            assert(avail_pick(a, cf, av[k].name) == Some(av[k]));
        }
        if avail_pick(a, cf, d.name) == Some(d) {
            assert(avail_pick(a, cf, d.name) is Some);
            let k = choose|k: int| 0 <= k < av.len() && (#[trigger] av[k]).name == d.name;
            assert(avail_pick(a, cf, av[k].name) == Some(av[k]));
            assert(av[k] == d);
        }
    }
}

/// the labels of a built list are the names of the kept definitions, in order
pub proof fn lemma_labels_of_offer(av: Seq<DefV>, file: PV, decl: Option<Seq<Seq<char>>>, o: OptsV, f: spec_fn(EnrV) -> ItemV)
    requires copies_enr(f),
    ensures labels(op_offer(av, file, decl, o).map_values(f)) =~= names(av.filter(keep_v(decl, o))),
        op_offer(av, file, decl, o).map_values(f).len() == av.filter(keep_v(decl, o)).len(),
{
    let kept = av.filter(keep_v(decl, o));
    let items = op_offer(av, file, decl, o).map_values(f);
    assert(items.len() == kept.len());
    assert forall|k: int| 0 <= k < kept.len() implies labels(items)[k] == #[trigger] names(kept)[k] by {
        assert(op_offer(av, file, decl, o)[k] == op_enrich(kept[k], file));
    }
}

/// membership of a name among the kept definitions
pub proof fn lemma_kept_names(av: Seq<DefV>, a: AvV, cf: PV, decl: Option<Seq<Seq<char>>>, o: OptsV, n: Seq<char>)
    requires avail_post(av, a, cf),
    ensures names(av.filter(keep_v(decl, o))).no_duplicates(),
        names(av.filter(keep_v(decl, o))).contains(n) <==> (avail_pick(a, cf, n) is Some && !op_excluded(avail_pick(a, cf, n)->0, decl, o)),
{
    lemma_avail_list(av, a, cf);
    lemma_filter_names_nodup(av, keep_v(decl, o));
    let kept = av.filter(keep_v(decl, o));
    if names(kept).contains(n) {
        let k = choose|k: int| 0 <= k < names(kept).len() && names(kept)[k] == n;
        let d = kept[k];
        assert(kept.contains(d));
        av.lemma_filter_contains_rev(keep_v(decl, o), d);
        assert(av.contains(d));
        assert(avail_pick(a, cf, d.name) == Some(d));
    }
    if avail_pick(a, cf, n) is Some && !op_excluded(avail_pick(a, cf, n)->0, decl, o) {
        let d = avail_pick(a, cf, n)->0;
        let k0 = choose|k: int| 0 <= k < av.len() && (#[trigger] av[k]).name == n;
        assert(avail_pick(a, cf, av[k0].name) == Some(av[k0]));
        assert(av[k0] == d);
        av.lemma_filter_contains(keep_v(decl, o), k0);
        let k = choose|k: int| 0 <= k < kept.len() && kept[k] == d;
        assert(names(kept)[k] == n);
    }
}
pub proof fn lemma_excluded_names(n: Seq<char>)
    ensures excluded_names().contains(n) <==> (n == "self"@ || n == "cls"@),
{
    assert(excluded_names()[0] == "self"@ && excluded_names()[1] == "cls"@);
    assert(excluded_names().len() == 2);
}

// =================================== C18: when is anything returned ===================================================
/// "Completion returns fixture names when, and only when, the cursor is inside ...": the handler answers with an item
/// ARRAY exactly when the URI has a path and get_completion_context gives a context for the cursor line -- for EVERY one
/// of the four context kinds (signature, body, usefixtures, parametrize-indirect) and for nothing else; otherwise null.
/// (WHEN spec_completion_ctx is Some, and of which kind: lemma_C18_* of unit completion_ctx.)
//@tags C18
pub proof fn lemma_C18_answers_iff_context(a: AvV, cache: Map<PV, String>, root: Option<PV>, uri: Uri, line: u32,
                                            trig: Option<ls_types::CompletionContext>, r: jsonrpc::Result<Option<CompletionResponse>>)
    requires completion_post(a, cache, root, uri, line, trig, r),
    ensures
        answer_items(r) is Some <==> req_ctx(cache, uri, line) is Some,
        req_ctx(cache, uri, line) is None ==> r == Ok::<Option<CompletionResponse>, jsonrpc::Error>(None),
        req_ctx(cache, uri, line) is Some <==> (uri_path(uri) is Some && spec_completion_ctx(file_content(cache, uri_path(uri)->0), line) is Some),
        // every kind gets its builder's list
        req_ctx(cache, uri, line) is Some ==> exists|av: Seq<DefV>| #[trigger] avail_post(av, a, canon_pv(uri_path(uri)->0))
            && answer_items(r) == Some(op_ctx_items(req_ctx(cache, uri, line)->0, av, uri_path(uri)->0, file_content(cache, uri_path(uri)->0), root, op_prefix(trig))),
{
    if req_ctx(cache, uri, line) is Some {
        let resp = r->Ok_0->0;
        let av = choose|av: Seq<DefV>| #[trigger] avail_post(av, a, canon_pv(uri_path(uri)->0))
            && resp_is(resp, op_ctx_items(req_ctx(cache, uri, line)->0, av, uri_path(uri)->0, file_content(cache, uri_path(uri)->0), root, op_prefix(trig)));
        assert(avail_post(av, a, canon_pv(uri_path(uri)->0)));
    }
}

// =================================== C18: the offered set =============================================================
/// inside the signature or body of a test or fixture function: the labels are, each ONCE, exactly the names n such that
/// a fixture named n is visible from the file and n is not a declared parameter, not the fixture being edited, not of
/// narrower scope than the fixture being edited -- and not `self` / `cls` (see lemma_C18_FINDING_self_cls_never_offered)
//@tags C18
pub proof fn lemma_C18_function_ctx_offers_exactly(a: AvV, av: Seq<DefV>, file: PV, content: Option<Seq<char>>, root: Option<PV>,
                                                    prefix: Seq<char>, f: FnCtxV, n: Seq<char>)
    requires avail_post(av, a, canon_pv(file)),
    ensures ({
        let items = op_ctx_items(CtxV::Func(f), av, file, content, root, prefix);
        let pick = avail_pick(a, canon_pv(file), n);
        &&& labels(items).no_duplicates()
        &&& labels(items) =~= names(av.filter(keep_v(Some(f.declared), op_opts(f, prefix))))
        &&& labels(items).contains(n) <==> (pick is Some
                && !f.declared.contains(n)
                && !(f.is_fixture && n == f.name)
                && (f.scope is Some ==> rank(pick->0.scope) >= rank(f.scope->0))
                && n != "self"@ && n != "cls"@)
    }),
{
    let o = op_opts(f, prefix);
    let decl = Some(f.declared);
    lemma_item_fns_copy(root, prefix, op_insertion(content, f.line as usize));
    if f.in_signature { lemma_labels_of_offer(av, file, decl, o, sig_item_fn(root, prefix)); }
    else { lemma_labels_of_offer(av, file, decl, o, body_item_fn(root, prefix, op_insertion(content, f.line as usize))); }
    lemma_kept_names(av, a, canon_pv(file), decl, o, n);
    lemma_excluded_names(n);
    lemma_avail_list(av, a, canon_pv(file));
    let pick = avail_pick(a, canon_pv(file), n);
    if pick is Some {
        let k = choose|k: int| 0 <= k < av.len() && (#[trigger] av[k]).name == n;
        assert(avail_pick(a, canon_pv(file), av[k].name) == Some(av[k]));
        assert(pick->0.name == n);
    }
}

/// inside a TEST function (no scope, not a fixture): only declared parameters (and self / cls) are removed
//@tags C18
pub proof fn lemma_C18_test_function_offers_all_scopes(a: AvV, av: Seq<DefV>, file: PV, content: Option<Seq<char>>, root: Option<PV>,
                                                        prefix: Seq<char>, f: FnCtxV, n: Seq<char>)
    requires avail_post(av, a, canon_pv(file)), !f.is_fixture, f.scope is None,
    ensures labels(op_ctx_items(CtxV::Func(f), av, file, content, root, prefix)).contains(n)
        <==> (visible(a, canon_pv(file), n) && !f.declared.contains(n) && n != "self"@ && n != "cls"@),
{
    lemma_C18_function_ctx_offers_exactly(a, av, file, content, root, prefix, f, n);
}

/// FINDING (C18, decorator contexts): inside a usefixtures / indirect-parametrize argument list NO function-related
/// exclusion is applied (create_string_fixture_completions passes declared = None, scope = None, current = None): every
/// visible fixture except self / cls is offered -- including names the decorated function already declares as
/// parameters, the decorated fixture ITSELF, and, above a broad-scope fixture, fixtures of narrower scope.
//@tags C18
pub proof fn lemma_C18_FINDING_decorator_ctx_offers_every_visible(a: AvV, av: Seq<DefV>, file: PV, content: Option<Seq<char>>,
                                                                   root: Option<PV>, prefix: Seq<char>, c: CtxV, n: Seq<char>)
    requires avail_post(av, a, canon_pv(file)), c is Usefixtures || c is Parametrize,
    ensures ({
        let items = op_ctx_items(c, av, file, content, root, prefix);
        &&& labels(items).no_duplicates()
        &&& labels(items).contains(n) <==> (visible(a, canon_pv(file), n) && n != "self"@ && n != "cls"@)
    }),
{
    lemma_item_fns_copy(root, prefix, None);
    lemma_labels_of_offer(av, file, None, str_opts(prefix), str_item_fn(root, prefix));
    lemma_kept_names(av, a, canon_pv(file), None, str_opts(prefix), n);
    lemma_excluded_names(n);
    lemma_avail_list(av, a, canon_pv(file));
    let pick = avail_pick(a, canon_pv(file), n);
    if pick is Some {
        let k = choose|k: int| 0 <= k < av.len() && (#[trigger] av[k]).name == n;
        assert(avail_pick(a, canon_pv(file), av[k].name) == Some(av[k]));
        assert(pick->0.name == n);
    }
}
/// ... spelled out against the property text: the SAME name, cursor in the function = excluded, cursor in the
/// function's usefixtures decorator = offered
//@tags C18
pub proof fn lemma_C18_FINDING_decorator_offers_declared_self_and_narrower(a: AvV, av: Seq<DefV>, file: PV, content: Option<Seq<char>>,
        root: Option<PV>, prefix: Seq<char>, f: FnCtxV, n: Seq<char>)
    requires avail_post(av, a, canon_pv(file)), visible(a, canon_pv(file), n), n != "self"@, n != "cls"@,
        f.declared.contains(n) || (f.is_fixture && n == f.name)
            || (f.scope is Some && rank(avail_pick(a, canon_pv(file), n)->0.scope) < rank(f.scope->0)),
    ensures
        !labels(op_ctx_items(CtxV::Func(f), av, file, content, root, prefix)).contains(n),
        labels(op_ctx_items(CtxV::Usefixtures, av, file, content, root, prefix)).contains(n),
        labels(op_ctx_items(CtxV::Parametrize, av, file, content, root, prefix)).contains(n),
{
    lemma_C18_function_ctx_offers_exactly(a, av, file, content, root, prefix, f, n);
    lemma_C18_FINDING_decorator_ctx_offers_every_visible(a, av, file, content, root, prefix, CtxV::Usefixtures, n);
    lemma_C18_FINDING_decorator_ctx_offers_every_visible(a, av, file, content, root, prefix, CtxV::Parametrize, n);
}

/// FINDING (C18, "exactly the fixtures visible ... minus ..."): a visible fixture NAMED `self` or `cls` is never
/// offered, in no context (EXCLUDED_PARAM_NAMES); the property text has no such subtraction
//@tags C18
pub proof fn lemma_C18_FINDING_self_cls_never_offered(a: AvV, av: Seq<DefV>, file: PV, content: Option<Seq<char>>, root: Option<PV>,
                                                       prefix: Seq<char>, c: CtxV, n: Seq<char>)
    requires avail_post(av, a, canon_pv(file)), n == "self"@ || n == "cls"@,
    ensures !labels(op_ctx_items(c, av, file, content, root, prefix)).contains(n),
{
    match c {
        CtxV::Func(f) => { lemma_C18_function_ctx_offers_exactly(a, av, file, content, root, prefix, f, n); }
        _ => { lemma_C18_FINDING_decorator_ctx_offers_every_visible(a, av, file, content, root, prefix, c, n); }
    }
}

// =================================== C18: order ========================================================================
/// strict lexicographic order on texts by code point (= byte order of their UTF-8 encodings)
pub open spec fn lex_lt(a: Seq<char>, b: Seq<char>) -> bool
    decreases a.len()
{
    if b.len() == 0 { false } else if a.len() == 0 { true }
    else if (a[0] as u32) < (b[0] as u32) { true } else if (a[0] as u32) > (b[0] as u32) { false }
    else { lex_lt(a.skip(1), b.skip(1)) }
}
pub proof fn lemma_lex_cons(x: char, s: Seq<char>, y: char, t: Seq<char>)
    ensures lex_lt(seq![x] + s, seq![y] + t) == ((x as u32) < (y as u32) || (x == y && lex_lt(s, t))),
{
    let a = seq![x] + s; let b = seq![y] + t;
    assert(a[0] == x && b[0] == y);
    assert(a.skip(1) =~= s && b.skip(1) =~= t);
}
/// sort_text is built from the priority digit, '_' and the name; comparing two sort texts compares (priority, name):
/// the ORDER clause of C18 ("sorts same-file before conftest before plugin before third-party", then by name)
//@tags C18
pub proof fn lemma_C18_sort_text_orders_by_priority_then_name(p: u8, n: Seq<char>, q: u8, m: Seq<char>)
    requires p < 10, q < 10,
    ensures
        sort_text_of(p, n) =~= seq![digit_char(p as int), '_'] + n,
        lex_lt(sort_text_of(p, n), sort_text_of(q, m)) == (p < q || (p == q && lex_lt(n, m))),
        (sort_text_of(p, n) == sort_text_of(q, m)) == (p == q && n == m),
{
    let dp = digit_char(p as int); let dq = digit_char(q as int);
    assert(dp as u32 == 48 + p && dq as u32 == 48 + q);
    let sa = sort_text_of(p, n); let sb = sort_text_of(q, m);
    assert(sa =~= seq![dp] + (seq!['_'] + n));
    assert(sb =~= seq![dq] + (seq!['_'] + m));
    lemma_lex_cons(dp, seq!['_'] + n, dq, seq!['_'] + m);
    lemma_lex_cons('_', n, '_', m);
    if sa == sb {
        assert(sa[0] == sb[0]);
        assert(sa.skip(2) =~= n && sb.skip(2) =~= m);
    }
}
/// the four priority classes (restated from unit completion_filter) and the bound the order lemma needs
//@tags C18
pub proof fn lemma_C18_priority_classes(d: DefV, file: PV)
    ensures op_priority(d, file) <= 3,
        op_priority(d, file) == 0 <==> d.file == file,
        op_priority(d, file) == 1 <==> d.file != file && !d.is_third_party && !d.is_plugin,
        op_priority(d, file) == 2 <==> d.file != file && !d.is_third_party && d.is_plugin,
        op_priority(d, file) == 3 <==> d.file != file && d.is_third_party,
{}
/// every item of every builder: label, sort_text and detail come from the k-th kept definition
//@tags C18
pub proof fn lemma_C18_item_k(av: Seq<DefV>, file: PV, content: Option<Seq<char>>, root: Option<PV>, prefix: Seq<char>, c: CtxV, k: int)
    requires 0 <= k < op_ctx_items(c, av, file, content, root, prefix).len(),
    ensures ({
        let it = op_ctx_items(c, av, file, content, root, prefix)[k];
        let kept = match c { CtxV::Func(f) => av.filter(keep_v(Some(f.declared), op_opts(f, prefix))), _ => av.filter(keep_v(None, str_opts(prefix))) };
        &&& k < kept.len()
        &&& av.contains(kept[k])
        &&& it.label == kept[k].name
        &&& it.sort_text == Some(sort_text_of(op_priority(kept[k], file), kept[k].name))
        &&& it.detail == Some(detail_of(kept[k]))
        &&& it.doc == Some(DocV::Markdown(doc_text(kept[k], root)))
        &&& it.insert_text == Some(prefix + kept[k].name)
        &&& it.insert_text_format == Some(itf_plain())
        &&& it.kind == Some(match c { CtxV::Func(_) => cik_variable(), _ => cik_text() })
        &&& it.rest_unset
    }),
{
    let kept = match c { CtxV::Func(f) => av.filter(keep_v(Some(f.declared), op_opts(f, prefix))), _ => av.filter(keep_v(None, str_opts(prefix))) };
    match c {
        CtxV::Func(f) => {
            assert(op_offer(av, file, Some(f.declared), op_opts(f, prefix)).len() == kept.len());
            assert(op_offer(av, file, Some(f.declared), op_opts(f, prefix))[k] == op_enrich(kept[k], file));
        }
        _ => {
            assert(op_offer(av, file, None, str_opts(prefix)).len() == kept.len());
            assert(op_offer(av, file, None, str_opts(prefix))[k] == op_enrich(kept[k], file));
        }
    }
    assert(kept.contains(kept[k]));
    match c {
        CtxV::Func(f) => { av.lemma_filter_contains_rev(keep_v(Some(f.declared), op_opts(f, prefix)), kept[k]); }
        _ => { av.lemma_filter_contains_rev(keep_v(None, str_opts(prefix)), kept[k]); }
    }
}
/// two items of one answer compare by sort_text as their fixtures compare by (priority class, name): a same-file
/// fixture sorts before a conftest / project one, that before a workspace plugin's, that before a third-party one
//@tags C18
pub proof fn lemma_C18_items_sort_by_class_then_name(av: Seq<DefV>, file: PV, content: Option<Seq<char>>, root: Option<PV>, prefix: Seq<char>,
                                                      c: CtxV, i: int, j: int)
    requires 0 <= i < op_ctx_items(c, av, file, content, root, prefix).len(), 0 <= j < op_ctx_items(c, av, file, content, root, prefix).len(),
    ensures ({
        let items = op_ctx_items(c, av, file, content, root, prefix);
        let kept = match c { CtxV::Func(f) => av.filter(keep_v(Some(f.declared), op_opts(f, prefix))), _ => av.filter(keep_v(None, str_opts(prefix))) };
        let pi = op_priority(kept[i], file); let pj = op_priority(kept[j], file);
        &&& items[i].sort_text is Some && items[j].sort_text is Some
        &&& lex_lt(items[i].sort_text->0, items[j].sort_text->0) == (pi < pj || (pi == pj && lex_lt(items[i].label, items[j].label)))
        &&& (kept[i].file == file && kept[j].file != file ==> lex_lt(items[i].sort_text->0, items[j].sort_text->0))
        &&& (kept[i].file != file && !kept[i].is_third_party && !kept[i].is_plugin && kept[j].file != file && (kept[j].is_plugin || kept[j].is_third_party)
                ==> lex_lt(items[i].sort_text->0, items[j].sort_text->0))
        &&& (kept[i].file != file && !kept[i].is_third_party && kept[i].is_plugin && kept[j].file != file && kept[j].is_third_party
                ==> lex_lt(items[i].sort_text->0, items[j].sort_text->0))
    }),
{
    lemma_C18_item_k(av, file, content, root, prefix, c, i);
    lemma_C18_item_k(av, file, content, root, prefix, c, j);
    let kept = match c { CtxV::Func(f) => av.filter(keep_v(Some(f.declared), op_opts(f, prefix))), _ => av.filter(keep_v(None, str_opts(prefix))) };
    lemma_C18_priority_classes(kept[i], file);
    lemma_C18_priority_classes(kept[j], file);
    lemma_C18_sort_text_orders_by_priority_then_name(op_priority(kept[i], file), kept[i].name, op_priority(kept[j], file), kept[j].name);
}

// =================================== C17: the parameter edit of a body completion ====================================
/// the auto-add edit: signature and decorator items carry none; EVERY body item carries exactly what op_edit says --
/// when get_function_param_insertion_info found a place `ins` (unit strings_struct: op_insertion of the file text and the
/// context's function_line): ONE edit, an insertion (empty range) at (ins.line - 1, ins.char_pos), of the item's own label,
/// preceded by ", " iff ins.needs_comma; the SAME position for every item; the label is not a declared parameter of the
/// function (so the edit never re-adds a parameter).  Nothing else of the document is touched by the edit.
//@tags C17
pub proof fn lemma_C17_body_edit_is_one_insertion(av: Seq<DefV>, file: PV, content: Option<Seq<char>>, root: Option<PV>, prefix: Seq<char>,
                                                   c: CtxV, k: int)
    requires 0 <= k < op_ctx_items(c, av, file, content, root, prefix).len(),
    ensures ({
        let it = op_ctx_items(c, av, file, content, root, prefix)[k];
        match c {
            CtxV::Func(f) => if f.in_signature { it.edits is None } else {
                match op_insertion(content, f.line as usize) {
                    None => it.edits is None,
                    Some(ins) => it.edits is Some && it.edits->0.len() == 1
                        && it.edits->0[0].range.start == it.edits->0[0].range.end
                        && it.edits->0[0].range.start == (Position { line: lsp_line(ins.line), character: ins.char_pos as u32 })
                        && it.edits->0[0].new_text == (if ins.needs_comma { seq![',', ' '] + it.label } else { it.label })
                        && !f.declared.contains(it.label),
                }
            },
            _ => it.edits is None,
        }
    }),
{
    lemma_C18_item_k(av, file, content, root, prefix, c, k);
    match c {
        CtxV::Func(f) => {
            let o = op_opts(f, prefix);
            let kept = av.filter(keep_v(Some(f.declared), o));
            assert(op_offer(av, file, Some(f.declared), o)[k] == op_enrich(kept[k], file));
            assert(kept.contains(kept[k]));
            av.lemma_filter_contains_rev(keep_v(Some(f.declared), o), kept[k]);
        }
        _ => {}
    }
}
/// FINDING (C17, recorded as F-17f's sibling): when the insertion search finds no "):" (op_insertion is None -- e.g. a
/// signature closed by `) -> T:` near the end of the file), the body completions are offered all the same, WITHOUT the
/// parameter edit: accepting one leaves the fixture undeclared
//@tags C17
pub proof fn lemma_C17_FINDING_body_items_without_edit(a: AvV, av: Seq<DefV>, file: PV, content: Option<Seq<char>>, root: Option<PV>,
                                                       prefix: Seq<char>, f: FnCtxV, k: int)
    requires !f.in_signature, op_insertion(content, f.line as usize) is None,
        0 <= k < op_ctx_items(CtxV::Func(f), av, file, content, root, prefix).len(),
    ensures op_ctx_items(CtxV::Func(f), av, file, content, root, prefix)[k].edits is None,
        op_ctx_items(CtxV::Func(f), av, file, content, root, prefix).len() == av.filter(keep_v(Some(f.declared), op_opts(f, prefix))).len(),
{
    lemma_C17_body_edit_is_one_insertion(av, file, content, root, prefix, CtxV::Func(f), k);
}
/// the text inserted at the cursor: the bare name, preceded by one space iff the request was triggered by typing ","
/// (all kinds -- the decorator items insert NO quotes)
//@tags C18
pub proof fn lemma_C18_insert_text(trig: Option<ls_types::CompletionContext>)
    ensures op_prefix(trig) == (if comma_triggered(trig) { " "@ } else { ""@ }),
        trig is None ==> op_prefix(trig) == ""@,
{}

// =================================== vacuity guards: each must FAIL ====================================================
/// an answer without a context
proof fn canary_answer_without_context(a: AvV, cache: Map<PV, String>, root: Option<PV>, uri: Uri, line: u32,
                                       trig: Option<ls_types::CompletionContext>, r: jsonrpc::Result<Option<CompletionResponse>>)
    requires completion_post(a, cache, root, uri, line, trig, r), req_ctx(cache, uri, line) is None,
    ensures answer_items(r) is Some,
{}
/// the decorator context filters declared parameters
proof fn canary_decorator_filters_declared(av: Seq<DefV>, file: PV, content: Option<Seq<char>>, root: Option<PV>, prefix: Seq<char>,
                                           f: FnCtxV, k: int)
    requires 0 <= k < op_ctx_items(CtxV::Usefixtures, av, file, content, root, prefix).len(),
    ensures !f.declared.contains(op_ctx_items(CtxV::Usefixtures, av, file, content, root, prefix)[k].label),
{
    lemma_C18_item_k(av, file, content, root, prefix, CtxV::Usefixtures, k);
}
/// body items carry no edit although an insertion point exists
proof fn canary_body_items_no_edit(av: Seq<DefV>, file: PV, content: Option<Seq<char>>, root: Option<PV>, prefix: Seq<char>, f: FnCtxV, k: int)
    requires !f.in_signature, op_insertion(content, f.line as usize) is Some,
        0 <= k < op_ctx_items(CtxV::Func(f), av, file, content, root, prefix).len(),
    ensures op_ctx_items(CtxV::Func(f), av, file, content, root, prefix)[k].edits is None,
{}
/// the sort text is the name only
proof fn canary_sort_text_is_name(p: u8, n: Seq<char>)
    ensures sort_text_of(p, n) == n,
{}
/// third-party sorts before plugin
proof fn canary_third_party_before_plugin(n: Seq<char>)
    ensures lex_lt(sort_text_of(3, n), sort_text_of(2, n)),
{
    lemma_C18_sort_text_orders_by_priority_then_name(3, n, 2, n);
}
/// the copied contract of filter_and_enrich_fixtures is not contradictory (the assumed callee contracts along the
/// handler's paths -- avail_post, get_completion_context, op_insertion -- are guarded by the exec canaries of the unit)
proof fn canary_false_from_offer_post(file: PV, en: Seq<EnrichedFixture>, avx: Seq<FixtureDefinition>, o: OptsV)
    requires offer_post(en, avx, file, None, o), en.len() > 0,
    ensures false,
{}

// ---- NON-VACUITY of the assumed contract of get_available_fixtures, by WITNESS (avail_post is hidden inside the exec
// functions, so their canaries do not exercise it; a failing `requires avail_post ... ensures false` canary costs 35 s of
// fruitless search): a database with one definition d gives the one-entry list [d] for d's own file
proof fn lemma_walk_empty(dir: PV, v: AvV, n: Seq<char>)
    ensures avail_walk(Seq::<DefV>::empty(), dir, v, n) is None,
    decreases dir.len(),
{
    if pv_has_parent(dir) && dir.len() > 0 { lemma_walk_empty(dir.drop_last(), v, n); }
}
pub proof fn lemma_avail_post_satisfiable(d: DefV, td: Set<PV>, imp: spec_fn(PV) -> Set<Seq<char>>)
    ensures avail_post(seq![d], AvV { defs: Map::<Seq<char>, Seq<DefV>>::empty().insert(d.name, seq![d]), td: td, imp: imp }, d.file),
{
    let a = AvV { defs: Map::<Seq<char>, Seq<DefV>>::empty().insert(d.name, seq![d]), td: td, imp: imp };
    let av = seq![d];
    assert(bucket(a.defs, d.name) == seq![d]);
    assert(p_same(d.file, fs_true())(d));
    assert(is_best(seq![d], p_same(d.file, fs_true()), 0));
    lemma_best_idx(seq![d], p_same(d.file, fs_true()), 0);
    assert(best_same(seq![d], p_same(d.file, fs_true())) == Some(d));
    assert(avail_pick(a, d.file, d.name) == Some(d));
    assert forall|n: Seq<char>| n != d.name implies avail_pick(a, d.file, n) is None by {
        assert(bucket(a.defs, n) =~= Seq::<DefV>::empty());
        if pv_has_parent(d.file) && d.file.len() > 0 { lemma_walk_empty(d.file.drop_last(), a, n); }
    }
    assert forall|n: Seq<char>| (#[trigger] avail_pick(a, d.file, n)) is Some implies exists|k: int| 0 <= k < av.len() && (#[trigger] av[k]).name == n by {
        assert(n == d.name);
        assert(av[0].name == n);
    }
}
