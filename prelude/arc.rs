// ---------------------------------------------------------------------------------------------
// std::sync::Arc: the real type (vstd specifies Arc::new, Arc::clone and Deref); AsRef is assumed here
pub use std::sync::Arc;
pub assume_specification<T: ?Sized, A: std::alloc::Allocator>[ <Arc<T, A> as AsRef<T>>::as_ref ](a: &Arc<T, A>) -> (r: &T)
    ensures r == &**a;
