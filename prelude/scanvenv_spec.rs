// ---------------------------------------------------------------------------------------------
// Unit scan_venv (C14, plugin-discovery half of the scanner): specification vocabulary for the TEXT functions of
// src/fixtures/scanner.rs — parse_pytest11_entry_points, resolve_entry_point_module_to_path,
// extract_package_name_from_dist_info, find_editable_pth_source_root.  Everything here is DEFINED (open spec fns over
// the uninterpreted primitives of strstruct_prims / scanvenv_str / scanvenv_fs / scansel_shims); no assumption.

pub open spec fn ch(c: char) -> PatV { PatV::Ch(c) }
pub open spec fn st(s: Seq<char>) -> PatV { PatV::Str(s) }

// ---- (E1) entry_points.txt ----------------------------------------------------------------------------------------------
/// one `name = module[:attr]` entry, both sides trimmed
pub struct EpV { pub name: Seq<char>, pub module: Seq<char> }
/// a section header as the code recognises it: the TRIMMED line starts with '[' and ends with ']'
pub open spec fn is_header(t: Seq<char>) -> bool { occurs_at(t, ch('['), 0) && occurs_at(t, ch(']'), t.len() - 1) }
pub open spec fn pytest11_header() -> Seq<char> { "[pytest11]"@ }
/// a line that is looked at inside the section: not blank, not a '#' comment
pub open spec fn is_entry_candidate(t: Seq<char>) -> bool { t.len() > 0 && !occurs_at(t, ch('#'), 0) }
/// the entry of a candidate line: split at the FIRST '='; None when the line has no '='
pub open spec fn entry_of(t: Seq<char>) -> Option<EpV> {
    match find_k(t, ch('=')) {
        Some(k) => Some(EpV { name: trim_v(t.take(k)), module: trim_v(t.skip(k + 1)) }),
        None => None,
    }
}
/// parser state: (inside the [pytest11] section, entries so far)
pub open spec fn pp_step(st: (bool, Seq<EpV>), raw: Seq<char>) -> (bool, Seq<EpV>) {
    let t = trim_v(raw);
    if is_header(t) { (t == pytest11_header(), st.1) }
    else if st.0 && is_entry_candidate(t) {
        match entry_of(t) { Some(e) => (st.0, st.1.push(e)), None => st }
    } else { st }
}
pub open spec fn pp_fold(ls: Seq<Seq<char>>, n: int) -> (bool, Seq<EpV>)
    decreases n
{
    if n <= 0 { (false, Seq::empty()) } else { pp_step(pp_fold(ls, n - 1), ls[n - 1]) }
}
/// (E1) what parse_pytest11_entry_points returns for a text
pub open spec fn op_parse_pytest11(content: Seq<char>) -> Seq<EpV> {
    pp_fold(lines_v(content), lines_v(content).len() as int).1
}

// ---- (E2) module -> file ------------------------------------------------------------------------------------------------
/// a module component the code rejects: contains "..", contains NUL, or is empty
pub open spec fn bad_part(p: Seq<char>) -> bool {
    find_k(p, st(".."@)) is Some || find_k(p, ch('\0')) is Some || p.len() == 0
}
pub open spec fn any_bad_part(parts: Seq<Seq<char>>) -> bool { exists|i: int| 0 <= i < parts.len() && bad_part(#[trigger] parts[i]) }
/// `path.push(part)` for the first n components, in order
pub open spec fn push_all(base: PV, parts: Seq<Seq<char>>, n: int) -> PV
    decreases n
{
    if n <= 0 { base } else { push_str_v(push_all(base, parts, n - 1), parts[n - 1]) }
}
/// the closure check_bounded: the canonical form of the candidate, if it lies under the canonical form of the base
pub open spec fn bounded_v(base: PV, cand: PV) -> Option<PV> {
    match fs_canonical(cand) {
        Some(c) => match fs_canonical(base) {
            Some(b) => if pv_is_prefix(b, c) { Some(c) } else { None },
            None => None },
        None => None,
    }
}
/// the module text before the first ':' (the `:attr` suffix is dropped)
pub open spec fn ep_module(m: Seq<char>) -> Seq<char> { split_def(m, ':')[0] }
pub open spec fn ep_parts(m: Seq<char>) -> Seq<Seq<char>> { split_def(ep_module(m), '.') }
pub open spec fn ep_dir(base: PV, m: Seq<char>) -> PV { push_all(base, ep_parts(m), ep_parts(m).len() as int) }
pub open spec fn init_py() -> Seq<char> { "__init__.py"@ }
/// (E2) resolve_entry_point_module_to_path(base, m): `<base>/<a>/<b>.py` first, then `<base>/<a>/<b>/__init__.py`
/// (only when `<base>/<a>/<b>` is a directory); whichever exists FIRST decides — if it is not bounded the answer is None
pub open spec fn op_resolve_ep(base: PV, m: Seq<char>) -> Option<PV> {
    if any_bad_part(ep_parts(m)) { None }
    else {
        let dir = ep_dir(base, m);
        let py = with_ext_v(dir, "py"@);
        if fs_exists(py) { bounded_v(base, py) }
        else if fs_is_dir(dir) && fs_exists(dir + str_pv(init_py())) { bounded_v(base, dir + str_pv(init_py())) }
        else { None }
    }
}

// ---- (E3) dist-info directory names -------------------------------------------------------------------------------------
pub open spec fn dist_info_sfx() -> Seq<char> { ".dist-info"@ }
pub open spec fn egg_info_sfx() -> Seq<char> { ".egg-info"@ }
/// `name-version` without the metadata suffix; None for any other directory name
pub open spec fn name_version_of(d: Seq<char>) -> Option<Seq<char>> {
    match strip_suffix_v(d, st(dist_info_sfx())) { Some(x) => Some(x), None => strip_suffix_v(d, st(egg_info_sfx())) }
}
/// character k is a '-' that is directly followed by an ASCII digit
pub open spec fn dash_digit_at(s: Seq<char>, k: int) -> bool { 0 <= k && k + 1 < s.len() && s[k] == '-' && is_digit(s[k + 1]) }
/// the FIRST such position at or after k
pub open spec fn first_dash_digit(s: Seq<char>, k: int) -> Option<int>
    decreases s.len() - k
{
    if k < 0 || k >= s.len() { None } else if dash_digit_at(s, k) { Some(k) } else { first_dash_digit(s, k + 1) }
}
/// the package name: up to the first '-' that is followed by a digit, else the whole `name-version`
pub open spec fn raw_name_of(nv: Seq<char>) -> Seq<char> {
    match first_dash_digit(nv, 0) { Some(k) => nv.take(k), None => nv }
}
/// (E3) extract_package_name_from_dist_info(d): (raw name, normalised name)
pub open spec fn op_dist_name(d: Seq<char>) -> Option<(Seq<char>, Seq<char>)> {
    match name_version_of(d) { Some(nv) => Some((raw_name_of(nv), norm_v(raw_name_of(nv)))), None => None }
}
pub proof fn lemma_first_dash_digit(s: Seq<char>, k: int)
    requires 0 <= k <= s.len(),
    ensures match first_dash_digit(s, k) {
        Some(i) => k <= i < s.len() && dash_digit_at(s, i) && (forall|j: int| k <= j < i ==> !dash_digit_at(s, j)),
        None => forall|j: int| k <= j < s.len() ==> !dash_digit_at(s, j),
    },
    decreases s.len() - k,
{
    if k < s.len() && !dash_digit_at(s, k) { lemma_first_dash_digit(s, k + 1); }
}

/// what `char_indices().find(..)` establishes, in the terms the iterator contract offers (pairs of ci_seq)
pub open spec fn dd_found(nv: Seq<char>, j: int, idx: int) -> bool {
    &&& 0 <= j < nv.len() && idx == boff(nv, j) && dash_digit_at(nv, j)
    &&& forall|i: int| 0 <= i < j ==> !dash_digit_at(nv, ci_k(nv, #[trigger] ci_seq(nv)[i]))
}
pub open spec fn dd_none(nv: Seq<char>) -> bool {
    forall|i: int| 0 <= i < nv.len() ==> !dash_digit_at(nv, ci_k(nv, #[trigger] ci_seq(nv)[i]))
}
pub proof fn lemma_dd_found(nv: Seq<char>, j: int, idx: int)
    requires dd_found(nv, j, idx), blen(nv) <= usize::MAX,
    ensures first_dash_digit(nv, 0) == Some(j), is_bnd(nv, idx), cidx(nv, idx) == j, idx <= blen(nv),
{
    lemma_first_dash_digit(nv, 0);
    assert forall|i: int| 0 <= i < j implies !dash_digit_at(nv, i) by { lemma_ci_k(nv, i); }
    lemma_cidx(nv, j);
    lemma_blen_split(nv, j);
}
pub proof fn lemma_dd_none(nv: Seq<char>)
    requires dd_none(nv), blen(nv) <= usize::MAX,
    ensures first_dash_digit(nv, 0) is None,
{
    lemma_first_dash_digit(nv, 0);
    assert forall|i: int| 0 <= i < nv.len() implies !dash_digit_at(nv, i) by { lemma_ci_k(nv, i); }
}

// ---- (E4) the .pth file of an editable install ----------------------------------------------------------------------------
pub open spec fn editable_pfx() -> Seq<char> { "__editable__."@ }
pub open spec fn underscore() -> Seq<char> { "_"@ }
/// the .pth stems looked for, in this order: `__editable__.<n>`, `_<n>`, `<n>` for the normalised name, then (only if
/// it differs) the same three for the raw name
#[verifier::opaque]
pub open spec fn pth_cands(raw: Seq<char>, norm: Seq<char>) -> Seq<Seq<char>> {
    let a = seq![editable_pfx() + norm, underscore() + norm, norm];
    if raw != norm { a + seq![editable_pfx() + raw, underscore() + raw, raw] } else { a }
}
/// a stem matches a candidate: equal, or the candidate followed by `-<digit>…` (a version suffix)
pub open spec fn stem_matches(stem: Seq<char>, c: Seq<char>) -> bool {
    stem == c || match strip_prefix_v(stem, st(c)) { Some(rest) => dash_digit_at(rest, 0), None => false }
}
pub open spec fn stem_matches_any(cands: Seq<Seq<char>>, stem: Seq<char>) -> bool {
    exists|q: int| 0 <= q < cands.len() && stem_matches(stem, #[trigger] cands[q])
}
/// a (trimmed) .pth line that is not a path: blank, comment, `import …`
pub open spec fn line_skipped(t: Seq<char>) -> bool { t.len() == 0 || occurs_at(t, ch('#'), 0) || occurs_at(t, st("import "@), 0) }
/// a (trimmed) .pth line that is rejected: NUL, control byte other than TAB, ".."
pub open spec fn line_invalid(t: Seq<char>) -> bool { find_k(t, ch('\0')) is Some || has_ctl_v(t) || find_k(t, st(".."@)) is Some }
/// the directory a path line denotes: the line as a path, relative to site-packages unless absolute, canonicalised;
/// None unless that exists and is a directory
pub open spec fn line_root(sp: PV, t: Seq<char>) -> Option<PV> {
    let cand = str_pv(t);
    let resolved = if pv_is_abs(cand) { cand } else { sp + cand };
    match fs_canonical(resolved) { Some(c) => if fs_is_dir(c) { Some(c) } else { None }, None => None }
}
/// the first line, from line k on, that is a path line and denotes a directory
#[verifier::opaque]
pub open spec fn pth_lines_root(sp: PV, ls: Seq<Seq<char>>, k: int) -> Option<PV>
    decreases ls.len() - k
{
    if k < 0 || k >= ls.len() { None } else {
        let t = trim_v(ls[k]);
        if !line_skipped(t) && !line_invalid(t) && line_root(sp, t) is Some { line_root(sp, t) } else { pth_lines_root(sp, ls, k + 1) }
    }
}
/// what one entry (stem, path) of the .pth index contributes
pub open spec fn pth_file_root(sp: PV, cands: Seq<Seq<char>>, stem: Seq<char>, path: PV) -> Option<PV> {
    if !stem_matches_any(cands, stem) { None } else {
        match fs_read(path) { Some(c) => pth_lines_root(sp, lines_v(c), 0), None => None }
    }
}
/// the first entry of the enumeration e, from k on, that contributes a root
#[verifier::opaque]
pub open spec fn pth_first(sp: PV, cands: Seq<Seq<char>>, e: Seq<(Seq<char>, PV)>, k: int) -> Option<PV>
    decreases e.len() - k
{
    if k < 0 || k >= e.len() { None } else {
        match pth_file_root(sp, cands, e[k].0, e[k].1) { Some(p) => Some(p), None => pth_first(sp, cands, e, k + 1) }
    }
}
/// (E4) find_editable_pth_source_root: the .pth index is gone through in ITS iteration order (hash order)
pub open spec fn op_pth_root(sp: PV, idx: &PthIndex, raw: Seq<char>, norm: Seq<char>) -> Option<PV> {
    pth_first(sp, pth_cands(raw, norm), pairs_v(hm_enum(idx)), 0)
}

/// PROVED: one unfolding of the two (opaque) searches, and their value past the end
pub proof fn lemma_pth_first_unfold(sp: PV, cands: Seq<Seq<char>>, e: Seq<(Seq<char>, PV)>, k: int)
    ensures pth_first(sp, cands, e, k) == (if k < 0 || k >= e.len() { None } else {
        match pth_file_root(sp, cands, e[k].0, e[k].1) { Some(p) => Some(p), None => pth_first(sp, cands, e, k + 1) } }),
{ reveal_with_fuel(pth_first, 2); }
pub proof fn lemma_pth_lines_unfold(sp: PV, ls: Seq<Seq<char>>, k: int)
    ensures pth_lines_root(sp, ls, k) == (if k < 0 || k >= ls.len() { None } else {
        let t = trim_v(ls[k]);
        if !line_skipped(t) && !line_invalid(t) && line_root(sp, t) is Some { line_root(sp, t) } else { pth_lines_root(sp, ls, k + 1) } }),
{ reveal_with_fuel(pth_lines_root, 2); }
