// ---------------------------------------------------------------------------------------------
// Unit memo_keys: vocabulary of canonical_path_cache (src/fixtures/mod.rs get_canonical_path).  Pure specification.
// Needs PV / pbv (prelude/path.rs) and `fs_canonical` (P6: prelude/memokeys_shims.rs or prelude/scansel_shims.rs).
pub type CanonMap = Map<PV, PathBuf>;
/// what `path.canonicalize().unwrap_or_else(|_| path.clone())` yields in the file system `fs_canonical` (A4: ONE
/// file system state): the canonical form when the path resolves, else the path itself
pub open spec fn canon_now(p: PV) -> PV { match fs_canonical(p) { Some(c) => c, None => p } }
/// the same for an arbitrary resolution function (used to speak about TWO file-system states in the staleness lemma)
pub open spec fn canon_in(fs: spec_fn(PV) -> Option<PV>, p: PV) -> PV { match fs(p) { Some(c) => c, None => p } }
/// cache invariant w.r.t. a resolution function: every entry holds what that file system answers for its key
pub open spec fn canon_cache_wf_in(m: CanonMap, fs: spec_fn(PV) -> Option<PV>) -> bool {
    forall|p: PV| m.contains_key(p) ==> pbv(&#[trigger] m[p]) == canon_in(fs, p)
}
pub open spec fn fs_now() -> spec_fn(PV) -> Option<PV> { |p: PV| fs_canonical(p) }
/// cache invariant: every entry (p, c) has c == canon_now(p)
pub open spec fn canon_cache_wf(m: CanonMap) -> bool { canon_cache_wf_in(m, fs_now()) }
/// OPERATIONAL specification of get_canonical_path, for ANY cache content:
/// hit  -> (a clone of) the cached value, cache untouched -- the file system is NOT consulted;
/// miss -> canon_now(path), stored under the path AS GIVEN (not under its canonical form).
pub open spec fn canon_post(m0: CanonMap, m1: CanonMap, p: PV, r: PV) -> bool {
    if m0.contains_key(p) { r == pbv(&m0[p]) && m1 == m0 }
    else { r == canon_now(p) && m1.dom() == m0.dom().insert(p) && pbv(&m1[p]) == r
           && forall|q: PV| q != p && m0.contains_key(q) ==> #[trigger] m1[q] == m0[q] }
}
/// the same step in an arbitrary file system (model of the step, for sequences across a file-system change)
pub open spec fn canon_step_in(fs: spec_fn(PV) -> Option<PV>, m0: CanonMap, m1: CanonMap, p: PV, r: PV) -> bool {
    if m0.contains_key(p) { r == pbv(&m0[p]) && m1 == m0 }
    else { r == canon_in(fs, p) && m1.dom() == m0.dom().insert(p) && pbv(&m1[p]) == r
           && forall|q: PV| q != p && m0.contains_key(q) ==> #[trigger] m1[q] == m0[q] }
}
