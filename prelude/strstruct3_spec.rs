// ---------------------------------------------------------------------------------------------
// Unit strings_struct3: OPERATIONAL SPECIFICATIONS of the two text-fallback helpers of src/fixtures/resolver.rs
//     get_usefixtures_context_from_text(lines, cursor_idx)   -> op_usefx_ctx(sv(lines), cursor_idx)
//     extract_fixture_scope_from_text(lines, def_line_idx)   -> op_scope_txt(sv(lines), def_line_idx)
// over the Seq<char> / Seq<Seq<char>> views of prelude/strstruct_prims*.rs (+ P20 rfind_k, P24 lower_v of strstruct3_prims.rs).
// Needs from its includer: CtxV, sat_sub, chars_upto (prelude/strstruct3_shared.rs or units/strings_struct2.rs).  Only
// definitions and PROVED lemmas here; nothing is assumed in this file.

// ---- get_usefixtures_context_from_text -----------------------------------------------------------------------------------
/// the searched text: the mark call WITH its dot (`pytest.mark.usefixtures(`, `mark.usefixtures(`); since /repo 14e4153
pub open spec fn ufx_lit() -> Seq<char> { ".usefixtures("@ }
pub open spec fn ufx_pat() -> PatV { PatV::Str(ufx_lit()) }
/// how many lines above the cursor line are searched for the pattern (the source's `saturating_sub(10)`)
pub open spec fn ufx_window() -> int { 10 }
/// the parenthesis counter of the call: '(' counts +1, ')' counts -1, everything else (quotes, '#', brackets) 0 - UNTIL the
/// ')' that brings the count back to zero: from there on (`closed`) nothing counts any more
pub struct PD { pub depth: int, pub closed: bool }
pub open spec fn pd0() -> PD { PD { depth: 0, closed: false } }
pub open spec fn pd_of(depth: i32, closed: bool) -> PD { PD { depth: depth as int, closed } }
pub open spec fn pd_char(st: PD, ch: char) -> PD {
    if st.closed { st }
    else if ch == '(' { PD { depth: st.depth + 1, closed: false } }
    else if ch == ')' { PD { depth: st.depth - 1, closed: st.depth - 1 == 0 } }
    else { st }
}
/// after the first n characters of s
pub open spec fn pd_chars(st: PD, s: Seq<char>, n: int) -> PD
    decreases n
{
    if n <= 0 { st } else { pd_char(pd_chars(st, s, n - 1), s[n - 1]) }
}
pub open spec fn pd_line(st: PD, s: Seq<char>) -> PD { pd_chars(st, s, s.len() as int) }
/// after the n whole lines from, from + 1, ..
pub open spec fn pd_lines(st: PD, ls: Seq<Seq<char>>, from: int, n: int) -> PD
    decreases n
{
    if n <= 0 { st } else { pd_line(pd_lines(st, ls, from, n - 1), ls[from + n - 1]) }
}
/// the counter at the end of the cursor line when counting starts at character k of line i
pub open spec fn ufx_depth(ls: Seq<Seq<char>>, i: int, cur: int, k: int) -> PD {
    pd_lines(pd_line(pd0(), ls[i].skip(k)), ls, i + 1, cur - i)
}
/// the same-line, balanced case: tail = the cursor line from the pattern on.  Byte offsets as in the source:
/// `abs_close == open_pos + 1` with both measured from the start of tail
pub open spec fn ufx_same_line(tail: Seq<char>) -> Option<CtxV> {
    match rfind_k(tail, PatV::Ch(')')) {
        Some(c) => {
            let open = match find_k(tail, PatV::Ch('(')) { Some(o) => boff(tail, o) as int, None => 0int };
            if boff(tail, c) == open + 1 { Some(CtxV::Usefixtures) } else { None }
        },
        None => Some(CtxV::Usefixtures),
    }
}
/// what a line i with the FIRST occurrence of the pattern at character k decides: Some(answer) = the function returns it,
/// None = the scan goes on upwards
pub open spec fn ufx_at(ls: Seq<Seq<char>>, i: int, cur: int, k: int) -> Option<Option<CtxV>> {
    let depth = ufx_depth(ls, i, cur, k).depth;
    if depth > 0 { Some(Some(CtxV::Usefixtures)) }
    else if i == cur && depth == 0 { Some(ufx_same_line(ls[i].skip(k))) }
    else { None }
}
pub open spec fn ufx_here(ls: Seq<Seq<char>>, i: int, cur: int) -> Option<Option<CtxV>> {
    match find_k(ls[i], ufx_pat()) { Some(k) => ufx_at(ls, i, cur, k), None => None }
}
/// scanning upwards from line i, no further than line `limit` (and line 0)
pub open spec fn ufx_scan(ls: Seq<Seq<char>>, i: int, cur: int, limit: int) -> Option<CtxV>
    decreases i + 1
{
    if i < 0 || i >= ls.len() { None } else {
        match ufx_here(ls, i, cur) {
            Some(a) => a,
            None => if i == 0 || i <= limit { None } else { ufx_scan(ls, i - 1, cur, limit) },
        }
    }
}
pub open spec fn op_usefx_ctx(ls: Seq<Seq<char>>, cur: int) -> Option<CtxV> {
    ufx_scan(ls, cur, cur, sat_sub(cur, ufx_window()))
}
/// the precondition of the exec function: the searched window (cursor line and the 10 lines above) holds at most i32::MAX
/// characters (the counter is an i32 with unchecked `+= 1` / `-= 1`)
pub open spec fn ufx_fits(ls: Seq<Seq<char>>, cur: int) -> bool {
    chars_upto(ls, cur + 1) - chars_upto(ls, sat_sub(cur, ufx_window())) <= i32::MAX
}

pub proof fn lemma_ufx_lit()
    ensures ufx_lit() =~= seq!['.', 'u', 's', 'e', 'f', 'i', 'x', 't', 'u', 'r', 'e', 's', '('], ufx_lit().len() == 13, blen(ufx_lit()) == 13,
        pat_len(ufx_pat()) == 13,
{
    reveal_strlit(".usefixtures(");
    lemma_ascii_blen(".usefixtures("@);
}
/// the counter moves by at most one per character
pub proof fn lemma_pd_chars_bound(st: PD, s: Seq<char>, n: int)
    requires 0 <= n <= s.len(),
    ensures st.depth - n <= pd_chars(st, s, n).depth <= st.depth + n,
    decreases n,
{
    if n > 0 { lemma_pd_chars_bound(st, s, n - 1); }
}
/// once the call is closed nothing changes any more
pub proof fn lemma_pd_chars_closed(st: PD, s: Seq<char>, n: int)
    requires st.closed,
    ensures pd_chars(st, s, n) == st,
    decreases n,
{
    if n > 0 { lemma_pd_chars_closed(st, s, n - 1); }
}
pub proof fn lemma_pd_lines_closed(st: PD, ls: Seq<Seq<char>>, from: int, n: int)
    requires st.closed,
    ensures pd_lines(st, ls, from, n) == st,
    decreases n,
{
    if n > 0 { lemma_pd_lines_closed(st, ls, from, n - 1); lemma_pd_chars_closed(st, ls[from + n - 1], ls[from + n - 1].len() as int); }
}
/// the states the counter can be in once the '(' of `usefixtures(` has been counted: open with a count >= 1, or closed at 0
pub open spec fn pd_good(st: PD) -> bool { if st.closed { st.depth == 0 } else { st.depth >= 1 } }
pub proof fn lemma_pd_chars_good(st: PD, s: Seq<char>, n: int)
    requires pd_good(st),
    ensures pd_good(pd_chars(st, s, n)),
    decreases n,
{
    if n > 0 { lemma_pd_chars_good(st, s, n - 1); }
}
pub proof fn lemma_pd_lines_good(st: PD, ls: Seq<Seq<char>>, from: int, n: int)
    requires pd_good(st),
    ensures pd_good(pd_lines(st, ls, from, n)),
    decreases n,
{
    if n > 0 { lemma_pd_lines_good(st, ls, from, n - 1); lemma_pd_chars_good(pd_lines(st, ls, from, n - 1), ls[from + n - 1], ls[from + n - 1].len() as int); }
}

// ---- extract_fixture_scope_from_text ---------------------------------------------------------------------------------------
/// `FixtureScope::parse` (src/fixtures/types.rs): lower-case the text, then compare with the five names
pub open spec fn parse_scope_v(s: Seq<char>) -> Option<FixtureScope> {
    let l = lower_v(s);
    if l == "function"@ { Some(FixtureScope::Function) }
    else if l == "class"@ { Some(FixtureScope::Class) }
    else if l == "module"@ { Some(FixtureScope::Module) }
    else if l == "package"@ { Some(FixtureScope::Package) }
    else if l == "session"@ { Some(FixtureScope::Session) }
    else { None }
}
/// the two search patterns, in the order the source tries them
pub open spec fn scope_pat(j: int) -> Seq<char> { if j == 0 { "scope=\""@ } else { "scope='"@ } }
/// the closing quote looked for after pattern p: '"' if p ends with '"', else '\''
pub open spec fn quote_of(p: Seq<char>) -> char { if occurs_at(p, PatV::Ch('"'), p.len() - 1) { '"' } else { '\'' } }
/// what pattern p decides on the trimmed decorator line t: Some(answer) = the function returns it, None = try the next
pub open spec fn scope_try(t: Seq<char>, p: Seq<char>) -> Option<Option<FixtureScope>> {
    match find_k(t, PatV::Str(p)) {
        Some(k) => {
            let rest = t.skip(k + p.len());
            match find_k(rest, PatV::Ch(quote_of(p))) {
                Some(e) => Some(parse_scope_v(rest.take(e))),
                None => None,
            }
        },
        None => None,
    }
}
/// patterns j, j + 1, .. on the line t
pub open spec fn scope_on_line(t: Seq<char>, j: int) -> Option<Option<FixtureScope>>
    decreases 2 - j
{
    if j < 0 || j >= 2 { None } else {
        match scope_try(t, scope_pat(j)) { Some(a) => Some(a), None => scope_on_line(t, j + 1) }
    }
}
/// scanning upwards from line i: blank lines are skipped, decorator lines are searched, the first other line stops the scan
pub open spec fn scope_from(ls: Seq<Seq<char>>, i: int) -> Option<FixtureScope>
    decreases i + 1
{
    if i < 0 || i >= ls.len() { None } else {
        let t = trim_v(ls[i]);
        if t.len() == 0 { scope_from(ls, i - 1) }
        else if occurs_at(t, PatV::Ch('@'), 0) {
            match scope_on_line(t, 0) { Some(a) => a, None => scope_from(ls, i - 1) }
        }
        else { None }
    }
}
pub open spec fn op_scope_txt(ls: Seq<Seq<char>>, d: int) -> Option<FixtureScope> { if d <= 0 { None } else { scope_from(ls, d - 1) } }

pub proof fn lemma_scope_lits()
    ensures scope_pat(0) =~= seq!['s', 'c', 'o', 'p', 'e', '=', '"'], scope_pat(1) =~= seq!['s', 'c', 'o', 'p', 'e', '=', '\''],
        blen(scope_pat(0)) == 7, blen(scope_pat(1)) == 7, quote_of(scope_pat(0)) == '"', quote_of(scope_pat(1)) == '\'',
{
    reveal_strlit("scope=\""); reveal_strlit("scope='");
    lemma_ascii_blen("scope=\""@); lemma_ascii_blen("scope='"@);
}
/// PROVED, quantifier-free: the byte arithmetic of a hit of pattern p at the trimmed line t and of the closing quote after it
/// (what `pos + pattern.len()`, `trimmed[start..]` and `&trimmed[start..start + end]` need)
pub proof fn lemma_scope_hit(t: Seq<char>, p: Seq<char>)
    requires find_k(t, PatV::Str(p)) is Some,
    ensures ({
        let k = find_k(t, PatV::Str(p))->0;
        let m = k + p.len();
        let start = boff(t, k) + blen(p);
        &&& 0 <= k && m <= t.len() && start == boff(t, m) && start <= blen(t)
        &&& is_bnd(t, start as int) && cidx(t, start as int) == m
        &&& match find_k(t.skip(m), PatV::Ch(quote_of(p))) {
            Some(e) => 0 <= e && m + e <= t.len() && start + boff(t.skip(m), e) == boff(t, m + e) && boff(t, m + e) <= blen(t)
                && is_bnd(t, boff(t, m + e) as int) && cidx(t, boff(t, m + e) as int) == m + e
                && t.subrange(m, m + e) == t.skip(m).take(e),
            None => true,
        }
    }),
{
    let pp = PatV::Str(p);
    lemma_hit(t, pp);
    let k = find_k(t, pp)->0;
    let m = k + p.len();
    assert(t.subrange(k, k + p.len()) == p);
    let rest = t.skip(m);
    let q = PatV::Ch(quote_of(p));
    if find_k(rest, q) is Some {
        let e = find_k(rest, q)->0;
        lemma_find_k(rest, q);
        lemma_boff_skip(t, m, e);
        lemma_cidx(t, m + e);
        lemma_blen_split(t, m + e);
        assert(t.subrange(m, m + e) =~= rest.take(e));
    }
}
