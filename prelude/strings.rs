// ---------------------------------------------------------------------------------------------
// String / &str equality and slice membership: assumed specifications (trusted base A3).
// vstd gives `&str == &str` and `String == String` a meaning but not the mixed forms and not
// `<[T]>::contains`.  `vp_eq` is "what `T::eq` computes"; it is pinned down only for `&str` and `String`
// (content equality — core/alloc implement all of these by comparing the bytes).
pub uninterp spec fn vp_eq<T>(a: T, b: T) -> bool;
pub mod str_ax {
    use super::*;
    pub broadcast axiom fn axiom_vp_eq_str(a: &str, b: &str)
        ensures #[trigger] vp_eq::<&str>(a, b) == (a@ == b@);
    pub broadcast axiom fn axiom_vp_eq_string(a: String, b: String)
        ensures #[trigger] vp_eq::<String>(a, b) == (a@ == b@);
}
pub use str_ax::*;

/// `slice.contains(x)`: some element compares equal to x (core: `self.iter().any(|e| *e == *x)`)
pub assume_specification<T: PartialEq>[ <[T]>::contains ](s: &[T], x: &T) -> (r: bool)
    ensures r == slice_has(s@, *x);
pub open spec fn slice_has<T>(s: Seq<T>, x: T) -> bool { exists|i: int| 0 <= i < s.len() && vp_eq(#[trigger] s[i], x) }

pub assume_specification<'a>[ <String as PartialEq<&'a str>>::eq ](a: &String, b: &&str) -> (r: bool)
    ensures r == (a@ == b@);
pub assume_specification[ <String as PartialEq<str>>::eq ](a: &String, b: &str) -> (r: bool)
    ensures r == (a@ == b@);

/// element-wise views
pub open spec fn str_views(v: Seq<String>) -> Seq<Seq<char>> { v.map_values(|s: String| s@) }
pub open spec fn lit_views(v: Seq<&'static str>) -> Seq<Seq<char>> { v.map_values(|s: &'static str| s@) }

/// membership of a `&str` in a slice of literals / of a String in a slice of Strings, on views (PROVED from
/// the two axioms above; broadcast so that `slice.contains(..)` results read as `Seq::contains` on views)
pub mod str_lemmas {
    use super::*;
    pub broadcast proof fn lemma_lits_contains(s: Seq<&'static str>, x: &'static str)
        ensures #[trigger] slice_has::<&'static str>(s, x) == lit_views(s).contains(x@),
    {
        broadcast use axiom_vp_eq_str;
        if lit_views(s).contains(x@) {
            let i = choose|i: int| 0 <= i < lit_views(s).len() && lit_views(s)[i] == x@;
            assert(vp_eq::<&str>(s[i], x));
        }
        if slice_has::<&'static str>(s, x) {
            let i = choose|i: int| 0 <= i < s.len() && vp_eq::<&str>(#[trigger] s[i], x);
            assert(lit_views(s)[i] == x@);
        }
    }
    pub broadcast proof fn lemma_strings_contains(s: Seq<String>, x: String)
        ensures #[trigger] slice_has::<String>(s, x) == str_views(s).contains(x@),
    {
        broadcast use axiom_vp_eq_string;
        if str_views(s).contains(x@) {
            let i = choose|i: int| 0 <= i < str_views(s).len() && str_views(s)[i] == x@;
            assert(vp_eq::<String>(s[i], x));
        }
        if slice_has::<String>(s, x) {
            let i = choose|i: int| 0 <= i < s.len() && vp_eq::<String>(#[trigger] s[i], x);
            assert(str_views(s)[i] == x@);
        }
    }
}
pub use str_lemmas::*;
