// ---------------------------------------------------------------------------------------------
// Unit constructors, part 3: Backend::format_fixture_documentation (src/providers/mod.rs) -- the markdown text hover and
// completion-item documentation both show for a fixture definition.  STRUCTURAL specification: which parts, in which
// order, under which conditions.  Needs prelude/types.rs (DefV, dv, opt_sv), prelude/path.rs.
// ASSUMED (the string builders inside the function; @wrapexpr helpers in the unit, trusted base A3/std):
//   D1  the workspace-relative spelling of the definition's file:  `file_path.strip_prefix(root).ok().and_then(to_str)
//       .map(to_string).unwrap_or_else(|| <D2>)`   = doc_path_text(file, Some(root)), an UNINTERPRETED function of the two
//       paths (what the spelling of a path is lies outside the component model PV)
//   D2  `file_path.file_name().and_then(to_str).unwrap_or("unknown").to_string()` = doc_path_text(file, None)
//   D3  format!("**from** `{}`\n", p)                                      = from_line(p)
//   D4  format!(" -> {}", t)                                               = ret_ann(Some(t))
//   D5  format!("```python\n@pytest.fixture\ndef {}(...){}:\n```", n, a)   = sig_block(n, a)
//   (String::new / String::push_str: specified by vstd, not assumed here)
pub uninterp spec fn doc_path_text(file: PV, root: Option<PV>) -> Seq<char>;
pub open spec fn from_line(p: Seq<char>) -> Seq<char> { "**from** `"@ + p + "`\n"@ }
pub open spec fn ret_ann(rt: Option<Seq<char>>) -> Seq<char> { match rt { Some(t) => " -> "@ + t, None => Seq::<char>::empty() } }
pub open spec fn sig_block(name: Seq<char>, ann: Seq<char>) -> Seq<char> {
    "```python\n@pytest.fixture\ndef "@ + name + "(...)"@ + ann + ":\n```"@
}
pub open spec fn doc_sep() -> Seq<char> { "\n\n---\n\n"@ }
pub open spec fn doc_tail(ds: Option<Seq<char>>) -> Seq<char> { match ds { Some(d) => doc_sep() + d, None => Seq::<char>::empty() } }
/// OPERATIONAL specification of format_fixture_documentation: from-line (file spelled relative to the workspace root),
/// then the signature block with the fixture's NAME and, iff it has one, its RETURN TYPE, then, iff it has one, a rule
/// and its DOCSTRING.  Nothing else of the definition is shown (not the scope, not the line, not the plugin flags).
pub open spec fn op_fixture_doc(d: DefV, root: Option<PV>) -> Seq<char> {
    from_line(doc_path_text(d.file, root)) + sig_block(d.name, ret_ann(d.return_type)) + doc_tail(d.docstring)
}
pub open spec fn opt_ref_pbv(o: Option<&PathBuf>) -> Option<PV> { match o { Some(p) => Some(pbv(p)), None => None } }


// ---- L2 ---------------------------------------------------------------------------------------------------------------
//@tags C05
/// hover (providers/hover.rs) and completion documentation (providers/completion.rs) call THIS function on the definition
/// they resolved: the text is a function of four fields of that definition (and the workspace root), so two answers about
/// the SAME definition carry the same text, and the text changes with no other field
pub proof fn lemma_C05_doc_is_function_of_shown_fields(d1: DefV, d2: DefV, root: Option<PV>)
    requires d1.file == d2.file, d1.name == d2.name, d1.return_type == d2.return_type, d1.docstring == d2.docstring
    ensures op_fixture_doc(d1, root) == op_fixture_doc(d2, root)
{}
//@tags C05
/// order of the parts: the text STARTS with the from-line of the definition's own file and the signature block of its own
/// name follows immediately; without a docstring the text ENDS there, with one it ends with the rule and the docstring
pub proof fn lemma_C05_doc_parts_in_order(d: DefV, root: Option<PV>)
    ensures ({
        let t = op_fixture_doc(d, root);
        let a = from_line(doc_path_text(d.file, root));
        let b = sig_block(d.name, ret_ann(d.return_type));
        &&& a.is_prefix_of(t) && t.subrange(a.len() as int, (a.len() + b.len()) as int) == b
        &&& d.docstring is None ==> t.len() == a.len() + b.len()
        &&& d.docstring is Some ==> t.subrange((a.len() + b.len()) as int, t.len() as int) == doc_sep() + d.docstring->0
    })
{
    let t = op_fixture_doc(d, root);
    let a = from_line(doc_path_text(d.file, root));
    let b = sig_block(d.name, ret_ann(d.return_type));
    let c = doc_tail(d.docstring);
    assert(t =~= a + b + c);
    assert(t.subrange(a.len() as int, (a.len() + b.len()) as int) =~= b);
    assert(t.subrange((a.len() + b.len()) as int, t.len() as int) =~= c);
}
//@tags C05
/// the return type is shown iff the definition has one: without one the signature block is the bare `def name(...):`
pub proof fn lemma_C05_no_return_type_no_arrow(d: DefV, root: Option<PV>)
    requires d.return_type is None
    ensures sig_block(d.name, ret_ann(d.return_type)) == "```python\n@pytest.fixture\ndef "@ + d.name + "(...)"@ + ":\n```"@
{
    assert(sig_block(d.name, ret_ann(d.return_type)) =~= "```python\n@pytest.fixture\ndef "@ + d.name + "(...)"@ + ":\n```"@);
}
/// canary (must FAIL): the text depends on the scope
pub proof fn canary_doc_depends_on_scope(d1: DefV, d2: DefV, root: Option<PV>)
    requires d1.file == d2.file, d1.name == d2.name, d1.return_type == d2.return_type, d1.docstring == d2.docstring, d1.scope != d2.scope
    ensures op_fixture_doc(d1, root) != op_fixture_doc(d2, root)
{}
/// canary (must FAIL): a docstring is always shown (even when there is none, the rule appears)
pub proof fn canary_doc_always_has_rule(d: DefV, root: Option<PV>)
    ensures op_fixture_doc(d, root).len() >= from_line(doc_path_text(d.file, root)).len() + sig_block(d.name, ret_ann(d.return_type)).len() + doc_sep().len()
{}
