// ---------------------------------------------------------------------------------------------
// Operational specifications of the index-maintenance functions (shared by index_maint and analyze units)
pub open spec fn pair_keep(f: PV) -> spec_fn((PathBuf, FixtureUsage)) -> bool { |e: (PathBuf, FixtureUsage)| pbv(&e.0) != f }
pub open spec fn pair_not_in_file(f: PV) -> spec_fn((PV, UseV)) -> bool { |e: (PV, UseV)| e.0 != f }
/// what cleanup_usages_for_file does to the reverse index: every bucket loses its entries filed under
/// file f; buckets that are (or become) empty disappear
pub open spec fn clean_byfix(m: Map<Seq<char>, Seq<(PV, UseV)>>, f: PV) -> Map<Seq<char>, Seq<(PV, UseV)>> {
    Map::new(m.dom().filter(|k: Seq<char>| m[k].filter(pair_not_in_file(f)).len() > 0),
             |k: Seq<char>| m[k].filter(pair_not_in_file(f)))
}

pub open spec fn clean_byfix_names(m: Map<Seq<char>, Seq<(PV, UseV)>>, f: PV, names: Set<Seq<char>>) -> Map<Seq<char>, Seq<(PV, UseV)>> {
    Map::new(m.dom().filter(|k: Seq<char>| names.contains(k) ==> m[k].filter(pair_not_in_file(f)).len() > 0),
             |k: Seq<char>| if names.contains(k) { m[k].filter(pair_not_in_file(f)) } else { m[k] })
}

pub open spec fn not_in_file(f: PV) -> spec_fn(DefV) -> bool { |d: DefV| d.file != f }
pub open spec fn clean_bucket(s: Seq<DefV>, f: PV) -> Seq<DefV> { s.filter(not_in_file(f)) }

/// what cleanup_definitions_for_file does: the buckets of the listed names lose their entries of
/// file f and disappear when that empties them; every other bucket is untouched
pub open spec fn clean_defs_names(defs: Map<Seq<char>, Seq<DefV>>, f: PV, names: Set<Seq<char>>) -> Map<Seq<char>, Seq<DefV>> {
    Map::new(
        defs.dom().filter(|k: Seq<char>| names.contains(k) ==> clean_bucket(defs[k], f).len() > 0),
        |k: Seq<char>| if names.contains(k) { clean_bucket(defs[k], f) } else { defs[k] })
}

