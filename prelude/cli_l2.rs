// ---------------------------------------------------------------------------------------------
// L2 for C20 (and the CLI clause of C04): the operational specs of prelude/cli_spec.rs satisfy the
// clauses of the property text.  Needs cli_spec.rs, refs_spec.rs, resolve_l2.rs.

pub proof fn lemma_cnt_pos<A>(s: Seq<A>, p: spec_fn(A) -> bool)
    ensures cnt(s, p) > 0 <==> exists|i: int| 0 <= i < s.len() && p(#[trigger] s[i])
    decreases s.len()
{
    if s.len() > 0 {
        let t = s.drop_last();
        lemma_cnt_pos(t, p);
        if cnt(s, p) > 0 {
            if p(s.last()) { assert(p(s[s.len() - 1])); }
            else { let i = choose|i: int| 0 <= i < t.len() && p(#[trigger] t[i]); assert(s[i] == t[i]); }
        }
        if exists|i: int| 0 <= i < s.len() && p(#[trigger] s[i]) {
            let i = choose|i: int| 0 <= i < s.len() && p(#[trigger] s[i]);
            if i < t.len() { assert(t[i] == s[i]); }
        }
    }
}
pub proof fn lemma_occ_contains(s: Seq<CKey>, k: CKey)
    ensures s.contains(k) <==> occ(s, k) > 0
{
    s.to_multiset_ensures();
}

/// (f, n) is listed: some definition registered under n in file f is a project fixture, not autouse, and the
/// usage count of (f, n) is zero
pub open spec fn listable(defs: Map<Seq<char>, Seq<DefV>>, uses: Map<PV, Seq<UseV>>, provf: spec_fn(Seq<char>) -> spec_fn(PV) -> bool, f: PV, n: Seq<char>) -> bool {
    exists|i: int| 0 <= i < bucket(defs, n).len() && (#[trigger] bucket(defs, n)[i]).file == f
        && !bucket(defs, n)[i].is_third_party && !bucket(defs, n)[i].autouse
        && total_hits(defs, uses, provf, (f, n)) == 0
}
//@tags C20
/// C20.a — `fixtures unused` lists (file, name) exactly when a definition of that name in that file is a project
/// fixture, not autouse, and no usage in the workspace is counted for (file, name)
pub proof fn lemma_C20_a_listed_iff(r: Seq<(PathBuf, String)>, defs: Map<Seq<char>, Seq<DefV>>, uses: Map<PV, Seq<UseV>>,
        provf: spec_fn(Seq<char>) -> spec_fn(PV) -> bool, f: PV, n: Seq<char>)
    requires unused_post(r, defs, uses, provf)
    ensures keys_of(r).contains((f, n)) <==> listable(defs, uses, provf, f, n)
{
    let key: CKey = (f, n);
    let p = unused_at(defs, uses, provf, f, n);
    lemma_occ_contains(keys_of(r), key);
    assert(occ(keys_of(r), key) == unused_target(defs, uses, provf, key));
    lemma_cnt_pos(bucket(defs, n), p);
    if listable(defs, uses, provf, f, n) {
        let i = choose|i: int| 0 <= i < bucket(defs, n).len() && (#[trigger] bucket(defs, n)[i]).file == f
            && !bucket(defs, n)[i].is_third_party && !bucket(defs, n)[i].autouse && total_hits(defs, uses, provf, (f, n)) == 0;
        assert(p(bucket(defs, n)[i]));
    }
    if cnt(bucket(defs, n), p) > 0 {
        let i = choose|i: int| 0 <= i < bucket(defs, n).len() && p(#[trigger] bucket(defs, n)[i]);
        assert(bucket(defs, n)[i].file == f);
    }
}
//@tags C20
/// C20.a' — per definition: third-party and autouse definitions are never the reason for a listing, and a
/// project, non-autouse definition whose (file, name) count is zero is listed
pub proof fn lemma_C20_a_definition(r: Seq<(PathBuf, String)>, defs: Map<Seq<char>, Seq<DefV>>, uses: Map<PV, Seq<UseV>>,
        provf: spec_fn(Seq<char>) -> spec_fn(PV) -> bool, n: Seq<char>, i: int)
    requires unused_post(r, defs, uses, provf), 0 <= i < bucket(defs, n).len(),
        // the file defines the name once
        forall|j: int| 0 <= j < bucket(defs, n).len() && (#[trigger] bucket(defs, n)[j]).file == bucket(defs, n)[i].file ==> bucket(defs, n)[j] == bucket(defs, n)[i],
    ensures ({ let d = bucket(defs, n)[i];
        keys_of(r).contains((d.file, n)) <==> (!d.is_third_party && !d.autouse && total_hits(defs, uses, provf, (d.file, n)) == 0) })
{
    let d = bucket(defs, n)[i];
    lemma_C20_a_listed_iff(r, defs, uses, provf, d.file, n);
    if listable(defs, uses, provf, d.file, n) {
        let j = choose|j: int| 0 <= j < bucket(defs, n).len() && (#[trigger] bucket(defs, n)[j]).file == d.file
            && !bucket(defs, n)[j].is_third_party && !bucket(defs, n)[j].autouse && total_hits(defs, uses, provf, (d.file, n)) == 0;
        assert(bucket(defs, n)[j] == d);
    }
}

// ---- C20.b: the printed counts are the reference counts of the server ---------------------------
pub open spec fn tag(g: PV, us: Seq<UseV>) -> Seq<(PV, UseV)> { us.map_values(|u: UseV| (g, u)) }
/// all recorded (file, usage) pairs, file by file along the enumeration ks
pub open spec fn flat(ks: Seq<PV>, uses: Map<PV, Seq<UseV>>) -> Seq<(PV, UseV)>
    decreases ks.len()
{
    if ks.len() == 0 { Seq::empty() } else { flat(ks.drop_last(), uses) + tag(ks.last(), bucket(uses, ks.last())) }
}
pub open spec fn name_is(n: Seq<char>) -> spec_fn((PV, UseV)) -> bool { |e: (PV, UseV)| e.1.name == n }
pub open spec fn hit_pair(defs: Map<Seq<char>, Seq<DefV>>, provf: spec_fn(Seq<char>) -> spec_fn(PV) -> bool, key: CKey) -> spec_fn((PV, UseV)) -> bool {
    |e: (PV, UseV)| hit_in(defs, provf, key, e.0)(e.1)
}
pub open spec fn is_enum(ks: Seq<PV>, s: Set<PV>) -> bool {
    &&& ks.no_duplicates()
    &&& forall|i: int| 0 <= i < ks.len() ==> s.contains(#[trigger] ks[i])
    &&& forall|x: PV| s.contains(x) ==> exists|i: int| 0 <= i < ks.len() && #[trigger] ks[i] == x
}
/// mirror invariant between `usages` (per file) and `usage_by_fixture` (per name): for every name, the entries
/// filed under the name are, as a multiset, the recorded usages of that name in all files.  (Established per
/// mutator in unit index_maint; NOT proved here.)
pub open spec fn mirror_via(uses: Map<PV, Seq<UseV>>, byfix: Map<Seq<char>, Seq<(PV, UseV)>>, ks: Seq<PV>) -> bool {
    &&& is_enum(ks, uses.dom())
    &&& forall|n: Seq<char>| #[trigger] bucket(byfix, n).to_multiset() == flat(ks, uses).filter(name_is(n)).to_multiset()
}
pub open spec fn mirror(uses: Map<PV, Seq<UseV>>, byfix: Map<Seq<char>, Seq<(PV, UseV)>>) -> bool {
    exists|ks: Seq<PV>| mirror_via(uses, byfix, ks)
}
/// every definition is filed under its own name
pub open spec fn names_wf(defs: Map<Seq<char>, Seq<DefV>>) -> bool {
    forall|n: Seq<char>, i: int| defs.contains_key(n) && 0 <= i < defs[n].len() ==> (#[trigger] defs[n][i]).name == n
}

pub proof fn lemma_cnt_add<A>(a: Seq<A>, b: Seq<A>, p: spec_fn(A) -> bool)
    ensures cnt(a + b, p) == cnt(a, p) + cnt(b, p)
    decreases b.len()
{
    if b.len() == 0 { assert(a + b =~= a); }
    else {
        lemma_cnt_add(a, b.drop_last(), p);
        assert((a + b).drop_last() =~= a + b.drop_last());
        assert((a + b).last() == b.last());
    }
}
pub proof fn lemma_cnt_tag(g: PV, us: Seq<UseV>, defs: Map<Seq<char>, Seq<DefV>>, provf: spec_fn(Seq<char>) -> spec_fn(PV) -> bool, key: CKey)
    ensures cnt(tag(g, us), hit_pair(defs, provf, key)) == cnt(us, hit_in(defs, provf, key, g))
    decreases us.len()
{
    if us.len() > 0 {
        lemma_cnt_tag(g, us.drop_last(), defs, provf, key);
        assert(tag(g, us).drop_last() =~= tag(g, us.drop_last()));
        assert(tag(g, us).last() == (g, us.last()));
    }
}
pub proof fn lemma_sum_flat(ks: Seq<PV>, defs: Map<Seq<char>, Seq<DefV>>, uses: Map<PV, Seq<UseV>>, provf: spec_fn(Seq<char>) -> spec_fn(PV) -> bool, key: CKey)
    ensures sum_seq(ks, file_hits(defs, uses, provf, key)) == cnt(flat(ks, uses), hit_pair(defs, provf, key))
    decreases ks.len()
{
    if ks.len() > 0 {
        lemma_sum_flat(ks.drop_last(), defs, uses, provf, key);
        lemma_cnt_add(flat(ks.drop_last(), uses), tag(ks.last(), bucket(uses, ks.last())), hit_pair(defs, provf, key));
        lemma_cnt_tag(ks.last(), bucket(uses, ks.last()), defs, provf, key);
    }
}
pub proof fn lemma_cnt_filter_len<A>(s: Seq<A>, p: spec_fn(A) -> bool)
    ensures cnt(s, p) == s.filter(p).len()
    decreases s.len()
{
    reveal(Seq::filter);
    if s.len() > 0 { lemma_cnt_filter_len(s.drop_last(), p); }
}
/// counting p over the q-filtered sequence, when p implies q
pub proof fn lemma_cnt_filter_sub<A>(s: Seq<A>, p: spec_fn(A) -> bool, q: spec_fn(A) -> bool)
    requires forall|x: A| #[trigger] p(x) ==> q(x)
    ensures cnt(s.filter(q), p) == cnt(s, p)
    decreases s.len()
{
    reveal(Seq::filter);
    if s.len() > 0 {
        let t = s.drop_last();
        lemma_cnt_filter_sub(t, p, q);
        if q(s.last()) { lemma_cnt_push(t.filter(q), s.last(), p); }
    }
}
pub proof fn lemma_cnt_ext<A>(s: Seq<A>, p: spec_fn(A) -> bool, q: spec_fn(A) -> bool)
    requires forall|i: int| 0 <= i < s.len() ==> p(#[trigger] s[i]) == q(s[i])
    ensures cnt(s, p) == cnt(s, q)
    decreases s.len()
{
    if s.len() > 0 {
        let t = s.drop_last();
        assert forall|i: int| 0 <= i < t.len() implies p(#[trigger] t[i]) == q(t[i]) by { assert(t[i] == s[i]); }
        lemma_cnt_ext(t, p, q);
        assert(s.last() == s[s.len() - 1]);
    }
}
/// counting is invariant under permutation
pub proof fn lemma_cnt_perm<A>(a: Seq<A>, b: Seq<A>, p: spec_fn(A) -> bool)
    requires a.to_multiset() == b.to_multiset()
    ensures cnt(a, p) == cnt(b, p)
    decreases a.len()
{
    a.to_multiset_ensures(); b.to_multiset_ensures();
    if a.len() == 0 { assert(b.len() == 0); }
    else {
        let x = a.last(); let a1 = a.drop_last();
        a1.to_multiset_ensures();
        assert(a1.push(x) =~= a);
        assert(a[a.len() - 1] == x);
        assert(a.contains(x));
        assert(a.to_multiset().count(x) > 0);
        assert(b.to_multiset().count(x) > 0);
        assert(b.contains(x));
        let i = choose|i: int| 0 <= i < b.len() && b[i] == x;
        let b1 = b.remove(i);
        assert(a1.to_multiset() =~= b1.to_multiset());
        lemma_cnt_perm(a1, b1, p);
        lemma_cnt_remove(b, i, p);
    }
}
pub proof fn lemma_cnt_remove<A>(s: Seq<A>, i: int, p: spec_fn(A) -> bool)
    requires 0 <= i < s.len()
    ensures cnt(s, p) == cnt(s.remove(i), p) + (if p(s[i]) { 1nat } else { 0nat })
    decreases s.len()
{
    if i == s.len() - 1 { assert(s.remove(i) =~= s.drop_last()); }
    else {
        lemma_cnt_remove(s.drop_last(), i, p);
        assert(s.remove(i).drop_last() =~= s.drop_last().remove(i));
        assert(s.remove(i).last() == s.last());
    }
}

//@tags C20 C04
/// C20.b — the usage count printed by `fixtures list` for a definition equals the number of references the
/// server reports for it (find_references_for_definition == op_refs, unit refs_goto), when the definition's file
/// defines the name once.  Hypotheses: the mirror invariant usages <-> usage_by_fixture (not proved here) and
/// "every definition is filed under its own name".
pub proof fn lemma_C20_b_counts_are_refs(defs: Map<Seq<char>, Seq<DefV>>, uses: Map<PV, Seq<UseV>>, byfix: Map<Seq<char>, Seq<(PV, UseV)>>,
        provf: spec_fn(Seq<char>) -> spec_fn(PV) -> bool, d: DefV)
    requires mirror(uses, byfix), names_wf(defs), in_seq(bucket(defs, d.name), d),
        forall|j: int| 0 <= j < bucket(defs, d.name).len() && (#[trigger] bucket(defs, d.name)[j]).file == d.file ==> bucket(defs, d.name)[j] == d,
    ensures total_hits(defs, uses, provf, (d.file, d.name)) == op_refs(defs, byfix, provf, d).len()
{
    let key: CKey = (d.file, d.name);
    let n = d.name;
    let ks = choose|ks: Seq<PV>| mirror_via(uses, byfix, ks);
    let hp = hit_pair(defs, provf, key);
    let rt = refers_to(defs, provf, d);
    let fl = flat(ks, uses);
    let bs = bucket(byfix, n);
    lemma_sum_seq_set(ks, uses.dom(), file_hits(defs, uses, provf, key));
    lemma_sum_flat(ks, defs, uses, provf, key);
    assert(total_hits(defs, uses, provf, key) == cnt(fl, hp));
    assert forall|e: (PV, UseV)| #[trigger] hp(e) implies name_is(n)(e) by { }
    lemma_cnt_filter_sub(fl, hp, name_is(n));
    assert(bs.to_multiset() == fl.filter(name_is(n)).to_multiset());
    lemma_cnt_perm(bs, fl.filter(name_is(n)), hp);
    // on every pair, "counted for (d.file, d.name)" is "resolves to d"
    assert forall|e: (PV, UseV)| hp(e) == #[trigger] rt(e) by {
        lemma_resolve_usage_in(defs, provf, e.0, e.1);
        match resolve_usage(defs, provf, e.0, e.1) {
            Some(x) => {
                let ds = bucket(defs, e.1.name);
                let i = choose|i: int| 0 <= i < ds.len() && ds[i] == x;
                assert(defs.contains_key(e.1.name) && defs[e.1.name][i].name == e.1.name);
                if hp(e) { assert(bucket(defs, n)[i].file == d.file); }
            }
            None => {}
        }
    }
    lemma_cnt_ext(bs, hp, rt);
    lemma_cnt_filter_len(bs, rt);
}

// ---- C20.c: reproducible output ------------------------------------------------------------------
pub open spec fn key_le() -> spec_fn(CKey, CKey) -> bool { |a: CKey, b: CKey| !(key_cmp(a, b) is Greater) }
pub proof fn lemma_key_le_total()
    ensures vstd::relations::total_ordering(key_le())
{
    axiom_path_ord_total(); axiom_str_ord_total();
    let le = key_le(); let po = path_ord_fn(); let so = str_ord_fn();
    assert forall|a: CKey| #[trigger] le(a, a) by { assert(po(a.0, a.0) is Equal); assert(so(a.1, a.1) is Equal); }
    assert forall|a: CKey, b: CKey| #[trigger] le(a, b) || #[trigger] le(b, a) by {
        assert((po(a.0, b.0) is Less) <==> (po(b.0, a.0) is Greater));
        assert((po(b.0, a.0) is Less) <==> (po(a.0, b.0) is Greater));
        assert((po(a.0, b.0) is Equal) <==> a.0 == b.0);
        assert((po(b.0, a.0) is Equal) <==> a.0 == b.0);
        assert((so(a.1, b.1) is Less) <==> (so(b.1, a.1) is Greater));
        assert((so(b.1, a.1) is Less) <==> (so(a.1, b.1) is Greater));
    }
    assert forall|a: CKey, b: CKey| #[trigger] le(a, b) && #[trigger] le(b, a) implies a == b by {
        assert((po(a.0, b.0) is Less) <==> (po(b.0, a.0) is Greater));
        assert((po(b.0, a.0) is Less) <==> (po(a.0, b.0) is Greater));
        assert((po(a.0, b.0) is Equal) <==> a.0 == b.0);
        assert((po(b.0, a.0) is Equal) <==> a.0 == b.0);
        assert((so(a.1, b.1) is Less) <==> (so(b.1, a.1) is Greater));
        assert((so(b.1, a.1) is Less) <==> (so(a.1, b.1) is Greater));
        assert((so(a.1, b.1) is Equal) <==> a.1 == b.1);
    }
    assert forall|a: CKey, b: CKey, c: CKey| #[trigger] le(a, b) && #[trigger] le(b, c) implies le(a, c) by {
        assert(!(po(a.0, b.0) is Greater) && !(po(b.0, c.0) is Greater));
        assert(!(po(a.0, c.0) is Greater));
        if po(a.0, c.0) is Equal {
            assert(a.0 == c.0);
            assert((po(a.0, b.0) is Less) <==> (po(b.0, a.0) is Greater));
            assert((po(a.0, b.0) is Equal) <==> a.0 == b.0);
            assert(a.0 == b.0);
            assert(po(b.0, c.0) is Equal);
            assert(!(so(a.1, b.1) is Greater) && !(so(b.1, c.1) is Greater));
            assert(!(so(a.1, c.1) is Greater));
        }
    }
}
//@tags C20
/// C20.c — the listing is a function of the index (definitions, usages, import facts): two runs on the same
/// index produce the same sequence of (path, name) keys, whatever order the hash maps were traversed in
pub proof fn lemma_C20_c_reproducible(r1: Seq<(PathBuf, String)>, r2: Seq<(PathBuf, String)>, defs: Map<Seq<char>, Seq<DefV>>, uses: Map<PV, Seq<UseV>>,
        provf: spec_fn(Seq<char>) -> spec_fn(PV) -> bool)
    requires unused_post(r1, defs, uses, provf), unused_post(r2, defs, uses, provf)
    ensures keys_of(r1) == keys_of(r2)
{
    let a = keys_of(r1); let b = keys_of(r2);
    lemma_key_le_total();
    assert(vstd::relations::sorted_by(a, key_le())) by {
        assert forall|i: int, j: int| 0 <= i < j < a.len() implies #[trigger] key_le()(a[i], a[j]) by { assert(!(key_cmp_fn()(a[i], a[j]) is Greater)); }
    }
    assert(vstd::relations::sorted_by(b, key_le())) by {
        assert forall|i: int, j: int| 0 <= i < j < b.len() implies #[trigger] key_le()(b[i], b[j]) by { assert(!(key_cmp_fn()(b[i], b[j]) is Greater)); }
    }
    assert(a.to_multiset() =~= b.to_multiset()) by {
        assert forall|k: CKey| a.to_multiset().count(k) == b.to_multiset().count(k) by {
            assert(occ(a, k) == unused_target(defs, uses, provf, k));
            assert(occ(b, k) == unused_target(defs, uses, provf, k));
        }
    }
    vstd::seq_lib::lemma_sorted_unique(a, b, key_le());
}
//@tags C20
/// C20.c' — the counts themselves are a function of the index
pub proof fn lemma_C20_c_counts_function(c1: Map<CKey, usize>, c2: Map<CKey, usize>, defs: Map<Seq<char>, Seq<DefV>>, uses: Map<PV, Seq<UseV>>,
        provf: spec_fn(Seq<char>) -> spec_fn(PV) -> bool)
    requires counts_post(c1, defs, uses, provf), counts_post(c2, defs, uses, provf)
    ensures c1 =~= c2
{
    assert forall|k: CKey| c1.contains_key(k) == c2.contains_key(k) by { assert(c1.contains_key(k) <==> has_def_in(defs, k)); assert(c2.contains_key(k) <==> has_def_in(defs, k)); }
    assert forall|k: CKey| c1.contains_key(k) implies c1[k] == c2[k] by {
        assert(cval(c1, k) == total_hits(defs, uses, provf, k));
        assert(cval(c2, k) == total_hits(defs, uses, provf, k));
    }
}

//@tags C20
/// C20 known defect, stated positively: the listing is decided per (file, name).  As soon as one usage is counted
/// for (f, n), NO definition of n in f is listed - also a shadowed earlier definition to which nothing resolves.
pub proof fn lemma_C20_shared_key_hides_shadowed(r: Seq<(PathBuf, String)>, defs: Map<Seq<char>, Seq<DefV>>, uses: Map<PV, Seq<UseV>>,
        provf: spec_fn(Seq<char>) -> spec_fn(PV) -> bool, f: PV, n: Seq<char>)
    requires unused_post(r, defs, uses, provf), total_hits(defs, uses, provf, (f, n)) > 0
    ensures !keys_of(r).contains((f, n))
{
    lemma_C20_a_listed_iff(r, defs, uses, provf, f, n);
}

// ---- canaries: must FAIL -------------------------------------------------------------------------
/// KNOWN DEFECT (C20/C04): counts are shared per (file, name).  A definition shadowed by a later same-named
/// definition in the same file has no references (op_refs is empty) yet is NOT listed as unused when the
/// effective definition is used.  The claim "no references ==> listed" must therefore not be provable.
pub proof fn canary_C20_shadowed_definition_listed(r: Seq<(PathBuf, String)>, defs: Map<Seq<char>, Seq<DefV>>, uses: Map<PV, Seq<UseV>>,
        byfix: Map<Seq<char>, Seq<(PV, UseV)>>, provf: spec_fn(Seq<char>) -> spec_fn(PV) -> bool, d: DefV)
    requires unused_post(r, defs, uses, provf), mirror(uses, byfix), names_wf(defs), in_seq(bucket(defs, d.name), d),
        !d.is_third_party, !d.autouse, op_refs(defs, byfix, provf, d).len() == 0,
    ensures keys_of(r).contains((d.file, d.name))
{
    lemma_C20_a_listed_iff(r, defs, uses, provf, d.file, d.name);
}
/// counts are NOT keyed by name only
pub proof fn canary_C20_counts_by_name_only(defs: Map<Seq<char>, Seq<DefV>>, uses: Map<PV, Seq<UseV>>, provf: spec_fn(Seq<char>) -> spec_fn(PV) -> bool,
        f1: PV, f2: PV, n: Seq<char>)
    ensures total_hits(defs, uses, provf, (f1, n)) == total_hits(defs, uses, provf, (f2, n))
{
}
/// autouse fixtures are NOT listed
pub proof fn canary_C20_autouse_listed(r: Seq<(PathBuf, String)>, defs: Map<Seq<char>, Seq<DefV>>, uses: Map<PV, Seq<UseV>>,
        provf: spec_fn(Seq<char>) -> spec_fn(PV) -> bool, n: Seq<char>, i: int)
    requires unused_post(r, defs, uses, provf), 0 <= i < bucket(defs, n).len(), !bucket(defs, n)[i].is_third_party,
        total_hits(defs, uses, provf, (bucket(defs, n)[i].file, n)) == 0,
    ensures keys_of(r).contains((bucket(defs, n)[i].file, n))
{
    lemma_C20_a_listed_iff(r, defs, uses, provf, bucket(defs, n)[i].file, n);
}
/// the listing is NOT just any permutation: order matters
pub proof fn canary_C20_unsorted_ok(r1: Seq<(PathBuf, String)>, r2: Seq<(PathBuf, String)>, defs: Map<Seq<char>, Seq<DefV>>, uses: Map<PV, Seq<UseV>>,
        provf: spec_fn(Seq<char>) -> spec_fn(PV) -> bool)
    requires unused_post(r1, defs, uses, provf), keys_of(r2).to_multiset() == keys_of(r1).to_multiset(),
    ensures keys_of(r1) == keys_of(r2)
{
}
/// the assumed order axioms (and everything else in scope) are not contradictory
pub proof fn canary_C20_axioms_inconsistent()
    ensures false
{
    axiom_path_ord_total(); axiom_str_ord_total();
}
