// ---------------------------------------------------------------------------------------------
// L2 for C04: find-references is the inverse of go-to-definition (over the operational specs)

//@include prelude/refs_l2_min.rs
//@tags C04
/// C04.a — an index entry (f, u) filed under D's name is listed among D's references iff it resolves to D
pub proof fn lemma_C04_a_refs_iff_resolves(defs: Map<Seq<char>, Seq<DefV>>, byfix: Map<Seq<char>, Seq<(PV, UseV)>>,
        provf: spec_fn(Seq<char>) -> spec_fn(PV) -> bool, dx: DefV, e: (PV, UseV))
    requires bucket(byfix, dx.name).contains(e)
    ensures bucket(byfix, dx.name).filter(refers_to(defs, provf, dx)).contains(e) <==> resolve_usage(defs, provf, e.0, e.1) == Some(dx)
{
    lemma_filter_mem(bucket(byfix, dx.name), refers_to(defs, provf, dx), e);
}

//@tags C04
/// C04.b — a usage that resolves to nothing is listed under no definition; one that resolves to D is listed
/// under no other definition
pub proof fn lemma_C04_b_unresolved_unlisted(defs: Map<Seq<char>, Seq<DefV>>, byfix: Map<Seq<char>, Seq<(PV, UseV)>>,
        provf: spec_fn(Seq<char>) -> spec_fn(PV) -> bool, dx: DefV, e: (PV, UseV))
    requires resolve_usage(defs, provf, e.0, e.1) != Some(dx)
    ensures !bucket(byfix, dx.name).filter(refers_to(defs, provf, dx)).contains(e)
{
    lemma_filter_mem(bucket(byfix, dx.name), refers_to(defs, provf, dx), e);
}

//@tags C04
/// C04.c — multiplicity: the reference list has exactly one element per index entry that resolves to D
/// (no usage is listed twice unless it is recorded twice)
pub proof fn lemma_C04_c_multiplicity(defs: Map<Seq<char>, Seq<DefV>>, byfix: Map<Seq<char>, Seq<(PV, UseV)>>,
        provf: spec_fn(Seq<char>) -> spec_fn(PV) -> bool, dx: DefV)
    ensures op_refs(defs, byfix, provf, dx).len() == bucket(byfix, dx.name).filter(refers_to(defs, provf, dx)).len(),
        op_refs(defs, byfix, provf, dx).len() <= bucket(byfix, dx.name).len(),
{
    let s = bucket(byfix, dx.name);
    let p = refers_to(defs, provf, dx);
    lemma_filter_len_le(s, p);
}
pub proof fn lemma_filter_len_le<A>(s: Seq<A>, p: spec_fn(A) -> bool)
    ensures s.filter(p).len() <= s.len()
    decreases s.len()
{
    reveal(Seq::filter);
    if s.len() > 0 { lemma_filter_len_le(s.drop_last(), p); }
}

//@tags C04 C01
/// C04.d — go-to-definition on a recorded usage resolves exactly that usage: if the text under the cursor is
/// the usage's name and no earlier recorded usage of the file covers the same position, goto == resolve_usage
pub proof fn lemma_C04_d_goto_resolves_usage(cache: Map<PV, String>, defs: Map<Seq<char>, Seq<DefV>>, uses: Map<PV, Seq<UseV>>,
        provf: spec_fn(Seq<char>) -> spec_fn(PV) -> bool, file: PV, line: u32, ch: u32, t: Seq<char>, lc: Seq<char>, i: int)
    requires
        file_content(cache, file) == Some(t), line_of(t, line as int) == Some(lc),
        0 <= i < bucket(uses, file).len(),
        word_at(lc, ch as int) == Some(bucket(uses, file)[i].name),
        bucket(uses, file)[i].line == line as int + 1,
        bucket(uses, file)[i].start_char <= ch < bucket(uses, file)[i].end_char,
        // spans of same-named usages on one line do not overlap (established by the visitor, A7)
        forall|j: int| 0 <= j < i ==> !hit(line as int + 1, bucket(uses, file)[i].name, ch as int)(#[trigger] bucket(uses, file)[j]),
    ensures op_goto(cache, defs, uses, provf, file, line, ch) == resolve_usage(defs, provf, file, bucket(uses, file)[i])
{
    let us = bucket(uses, file);
    lemma_first_use_idx(us, hit(line as int + 1, us[i].name, ch as int), i);
}

// ---- canary: must FAIL — references are NOT all entries filed under the name
pub proof fn canary_refs_all_entries(defs: Map<Seq<char>, Seq<DefV>>, byfix: Map<Seq<char>, Seq<(PV, UseV)>>,
        provf: spec_fn(Seq<char>) -> spec_fn(PV) -> bool, dx: DefV)
    ensures op_refs(defs, byfix, provf, dx).len() == bucket(byfix, dx.name).len()
{
    lemma_filter_len_le(bucket(byfix, dx.name), refers_to(defs, provf, dx));
}
