// ---------------------------------------------------------------------------------------------
// L2 (C05): "All features agree on which definition a name denotes ... The per-file view used by completion and
// inlay hints contains exactly one entry per fixture name visible from the file, and it is the entry
// go-to-definition would navigate to."   Statements from the property text; proofs over the operational
// specifications avail_pick (compute_available_fixtures), op_resolve (find_closest_definition = go-to-definition)
// and op_resolve_ff (resolve_fixture_for_file = call-hierarchy outgoing calls).

//@tags C05
/// (a) one entry per name of the view: a name has an entry iff the view's pick for it exists, the entry is unique
/// and it is that pick  (from the L1 postcondition alone)
pub proof fn lemma_C05_a_one_entry_per_name(r: Seq<DefV>, v: AvV, file: PV, n: Seq<char>)
    requires avail_post(r, v, file)
    ensures
        avail_pick(v, file, n) is Some <==> exists|k: int| 0 <= k < r.len() && (#[trigger] r[k]).name == n,
        forall|k1: int, k2: int| 0 <= k1 < r.len() && 0 <= k2 < r.len() && (#[trigger] r[k1]).name == n && (#[trigger] r[k2]).name == n ==> k1 == k2,
        forall|k: int| 0 <= k < r.len() && (#[trigger] r[k]).name == n ==> avail_pick(v, file, n) == Some(r[k]),
{
    assert forall|k1: int, k2: int| 0 <= k1 < r.len() && 0 <= k2 < r.len() && (#[trigger] r[k1]).name == n && (#[trigger] r[k2]).name == n implies k1 == k2 by {
        if k1 < k2 { assert(r[k1].name != r[k2].name); }
        if k2 < k1 { assert(r[k2].name != r[k1].name); }
    }
    if exists|k: int| 0 <= k < r.len() && (#[trigger] r[k]).name == n {
        let k = choose|k: int| 0 <= k < r.len() && (#[trigger] r[k]).name == n;
        assert(avail_pick(v, file, r[k].name) == Some(r[k]));
    }
}

/// the file defines the name at most once.  NOT a hypothesis of the view/goto agreement any more (F-05a repaired);
/// still the hypothesis under which resolve_fixture_for_file (first same-file definition, F-05b) agrees
pub open spec fn at_most_one_in(ds: Seq<DefV>, file: PV) -> bool {
    forall|i: int, j: int| 0 <= i < ds.len() && 0 <= j < ds.len() && (#[trigger] ds[i]).file == file && (#[trigger] ds[j]).file == file ==> i == j
}
/// H3: the resolver's import test for name n (`prov`) and the view's import test coincide on every conftest:
/// same existence gate (cached or on disk — in the code since the F-07b fix) and is_fixture_imported_in_file
/// agrees with membership in get_imported_fixtures
pub open spec fn import_tests_agree(v: AvV, prov: spec_fn(PV) -> bool, n: Seq<char>) -> bool {
    forall|c: PV| #[trigger] prov(c) == (av_gate(v, c) && (v.imp)(c).contains(n))
}

/// "first" and "last of maximal line" coincide when at most one element qualifies (used for resolve_fixture_for_file)
pub proof fn lemma_unique_first_is_best(ds: Seq<DefV>, p: spec_fn(DefV) -> bool)
    requires forall|i: int, j: int| 0 <= i < ds.len() && 0 <= j < ds.len() && p(#[trigger] ds[i]) && p(#[trigger] ds[j]) ==> i == j
    ensures first_match(ds, p) == best_same(ds, p)
{
    lemma_best_props(ds, p);
    lemma_first_match_in(ds, p);
    match best_same(ds, p) {
        None => { lemma_first_none(ds, p); }
        Some(b) => {
            let i = choose|i: int| is_best(ds, p, i) && ds[i] == b;
            match first_match(ds, p) {
                None => { assert(!p(ds[i])); }
                Some(d) => { let k = choose|k: int| 0 <= k < ds.len() && ds[k] == d; assert(k == i); }
            }
        }
    }
}
/// H2 holds outright: the import branch of both takes the first registered definition
pub proof fn lemma_first_true_is_head(ds: Seq<DefV>)
    ensures first_match(ds, fs_true()) == (if ds.len() > 0 { Some(ds[0]) } else { None::<DefV> })
{
}
pub proof fn lemma_walks_agree(ds: Seq<DefV>, dir: PV, v: AvV, prov: spec_fn(PV) -> bool, n: Seq<char>)
    requires import_tests_agree(v, prov, n)
    ensures avail_walk(ds, dir, v, n) == walk(ds, dir, prov, fs_true())
    decreases dir.len()
{
    lemma_first_true_is_head(ds);
    let c = conftest_of(dir);
    assert(prov(c) == (av_gate(v, c) && (v.imp)(c).contains(n)));
    if pv_has_parent(dir) && dir.len() > 0 { lemma_walks_agree(ds, dir.drop_last(), v, prov, n); }
}

//@tags C05
/// (b) AGREEMENT of the per-file view with go-to-definition, for one name, under
///  H3 the two import tests coincide,  H4 the file has a parent directory.
/// Same file: both take `best_same` — the same-file definition of greatest line, the last such among equals —
/// however often the file defines the name (H1 "at most once" is gone with the repair of F-05a).
/// (H2 — both import branches return the first registered definition — is proved, not assumed.)
pub proof fn lemma_C05_b_view_agrees_with_goto(v: AvV, file: PV, prov: spec_fn(PV) -> bool, n: Seq<char>)
    requires
        import_tests_agree(v, prov, n),
        pv_has_parent(file) && file.len() > 0,
    ensures avail_pick(v, file, n) == op_resolve(bucket(v.defs, n), file, prov, fs_true())
{
    lemma_walks_agree(bucket(v.defs, n), file.drop_last(), v, prov, n);
}

//@tags C05
/// (b') the same-file case needs NO hypothesis at all: as soon as the file defines the name — once or several times —
/// the view's entry and go-to-definition's answer are the same definition: one of the file, of maximal line, and no
/// same-file definition registered after it reaches that line ("the last redefinition", clause C01.a)
pub proof fn lemma_C05_b_same_file_redefinitions(v: AvV, file: PV, prov: spec_fn(PV) -> bool, n: Seq<char>, k: int)
    requires 0 <= k < bucket(v.defs, n).len(), bucket(v.defs, n)[k].file == file,
    ensures
        avail_pick(v, file, n) == op_resolve(bucket(v.defs, n), file, prov, fs_true()),
        exists|i: int| is_best(bucket(v.defs, n), p_same(file, fs_true()), i) && avail_pick(v, file, n) == Some(bucket(v.defs, n)[i]),
{
    let ds = bucket(v.defs, n);
    let p = p_same(file, fs_true());
    lemma_best_props(ds, p);
    assert(p(ds[k]));
}

//@tags C05
/// the property's sentence for the view: under H3/H4 for every name, the list has exactly one entry per name
/// that go-to-definition resolves from the file, and the entry is the definition go-to-definition selects
pub proof fn lemma_C05_view_is_goto(r: Seq<DefV>, v: AvV, file: PV, provf: spec_fn(Seq<char>) -> spec_fn(PV) -> bool, n: Seq<char>)
    requires avail_post(r, v, file),
        import_tests_agree(v, provf(n), n), pv_has_parent(file) && file.len() > 0,
    ensures
        op_resolve(bucket(v.defs, n), file, provf(n), fs_true()) is Some <==> exists|k: int| 0 <= k < r.len() && (#[trigger] r[k]).name == n,
        forall|k1: int, k2: int| 0 <= k1 < r.len() && 0 <= k2 < r.len() && (#[trigger] r[k1]).name == n && (#[trigger] r[k2]).name == n ==> k1 == k2,
        forall|k: int| 0 <= k < r.len() && (#[trigger] r[k]).name == n ==> op_resolve(bucket(v.defs, n), file, provf(n), fs_true()) == Some(r[k]),
{
    lemma_C05_a_one_entry_per_name(r, v, file, n);
    lemma_C05_b_view_agrees_with_goto(v, file, provf(n), n);
}

//@tags C05
/// resolve_fixture_for_file agrees with go-to-definition in the simplest case the property covers: the file itself
/// defines the name exactly once -> both answer that definition
pub proof fn lemma_C05_c_ff_same_file(ds: Seq<DefV>, file: PV, cfile: PV, prov: spec_fn(PV) -> bool, k: int)
    requires 0 <= k < ds.len(), ds[k].file == file, at_most_one_in(ds, file)
    ensures op_resolve_ff(ds, file, cfile) == Some(ds[k]), op_resolve(ds, file, prov, fs_true()) == Some(ds[k])
{
    let p = p_same(file, fs_true());
    assert forall|i: int, j: int| 0 <= i < ds.len() && 0 <= j < ds.len() && p(#[trigger] ds[i]) && p(#[trigger] ds[j]) implies i == j by {}
    lemma_unique_first_is_best(ds, p);
    lemma_first_match_in(ds, p);
    assert(p(ds[k]));
    match first_match(ds, p) {
        None => { assert(!p(ds[k])); }
        Some(d) => { let i = choose|i: int| 0 <= i < ds.len() && ds[i] == d; assert(i == k); }
    }
}

// ---- canaries: must FAIL.  They document known differences between the features (findings), so a canary that
// verifies means either the defect was fixed (update the statement) or the contracts became vacuous.
/// F-05a (repaired): the OLD behaviour of the view — the FIRST same-file definition (avail_pick_first) — does not
/// agree with go-to-definition under the hypotheses the agreement lemma has now (H3, H4).  If this verifies, the
/// agreement lemma no longer distinguishes "first" from "last of maximal line".
pub proof fn canary_C05_first_same_file_agrees_with_goto(v: AvV, file: PV, prov: spec_fn(PV) -> bool, n: Seq<char>)
    requires import_tests_agree(v, prov, n), pv_has_parent(file) && file.len() > 0,
    ensures avail_pick_first(v, file, n) == op_resolve(bucket(v.defs, n), file, prov, fs_true())
{
    lemma_walks_agree(bucket(v.defs, n), file.drop_last(), v, prov, n);
    lemma_best_props(bucket(v.defs, n), p_same(file, fs_true()));
    lemma_first_match_in(bucket(v.defs, n), p_same(file, fs_true()));
}
/// F-05a (repaired), on the L1 contract: an entry of a list satisfying the postcondition proved for
/// compute_available_fixtures need not be what the OLD behaviour offered (the first same-file definition) — the
/// contract tells "first" from "last of maximal line"
pub proof fn canary_avail_post_entry_is_first_same_file(r: Seq<DefV>, v: AvV, file: PV, k: int)
    requires avail_post(r, v, file), 0 <= k < r.len(),
    ensures avail_pick_first(v, file, r[k].name) == Some(r[k])
{
    assert(avail_pick(v, file, r[k].name) == Some(r[k]));
    lemma_best_props(bucket(v.defs, r[k].name), p_same(file, fs_true()));
    lemma_first_match_in(bucket(v.defs, r[k].name), p_same(file, fs_true()));
}
/// F-05b: resolve_fixture_for_file is NOT go-to-definition's resolution (first instead of last same-file
/// definition, imports ignored, fallback to a definition that is not visible from the file), even for a file
/// that is its own canonical path and defines the name at most once
pub proof fn canary_C05_ff_is_goto(ds: Seq<DefV>, file: PV, prov: spec_fn(PV) -> bool)
    requires pv_has_parent(file) && file.len() > 0, at_most_one_in(ds, file),
    ensures op_resolve_ff(ds, file, file) == op_resolve(ds, file, prov, fs_true())
{
    lemma_unique_first_is_best(ds, p_same(file, fs_true()));
    lemma_ff_best_props(ds, ff_cand(file));
    lemma_walk_result(ds, file.drop_last(), prov, fs_true());
}
/// F-05b, same-file part alone: without "at most once" resolve_fixture_for_file (FIRST same-file definition) and
/// go-to-definition (last of maximal line) differ even when the file defines the name
pub proof fn canary_C05_ff_same_file_without_unique(ds: Seq<DefV>, file: PV, cfile: PV, prov: spec_fn(PV) -> bool, k: int)
    requires 0 <= k < ds.len(), ds[k].file == file,
    ensures op_resolve_ff(ds, file, cfile) == op_resolve(ds, file, prov, fs_true())
{
    lemma_best_props(ds, p_same(file, fs_true()));
    lemma_first_match_in(ds, p_same(file, fs_true()));
}
/// a file without a parent directory: the view still offers plugin / third-party fixtures, goto resolves nothing
pub proof fn canary_C05_agreement_without_parent(v: AvV, file: PV, prov: spec_fn(PV) -> bool, n: Seq<char>)
    requires import_tests_agree(v, prov, n),
    ensures avail_pick(v, file, n) == op_resolve(bucket(v.defs, n), file, prov, fs_true())
{
    if pv_has_parent(file) && file.len() > 0 { lemma_walks_agree(bucket(v.defs, n), file.drop_last(), v, prov, n); }
}
/// the import hypothesis H3 is needed: with an arbitrary `prov` the two walks differ
pub proof fn canary_C05_agreement_without_H3(v: AvV, file: PV, prov: spec_fn(PV) -> bool, n: Seq<char>)
    requires pv_has_parent(file) && file.len() > 0,
    ensures avail_pick(v, file, n) == op_resolve(bucket(v.defs, n), file, prov, fs_true())
{
    lemma_first_true_is_head(bucket(v.defs, n));
}
/// vacuity guard for the L1 contract: the postcondition does not make every list acceptable
pub proof fn canary_avail_post_any(r: Seq<DefV>, v: AvV, file: PV)
    requires forall|i: int, j: int| 0 <= i < j < r.len() ==> str_le((#[trigger] r[i]).name, (#[trigger] r[j]).name) && r[i].name != r[j].name,
    ensures avail_post(r, v, file)
{
}
