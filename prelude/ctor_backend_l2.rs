// ---------------------------------------------------------------------------------------------
// Unit constructors, L2 for the server state.  Needs ctor_backend_spec.rs, ctor_l2.rs, main_spec_v2.rs, uri_l2.rs.
//@tags C19 C04 C05
/// the URI cache of a fresh Backend satisfies cache_inv (prelude/uri_spec.rs) -- lemma_cache_inv_initially of unit
/// uri_glue, here on the cache Backend::new is PROVED to build
pub proof fn lemma_C19_new_backend_cache_inv(b: providers::Backend)
    requires backend_fresh(b)
    ensures cache_inv(model_of(b).uri_cache.m()), cache_inv(b.uri_cache.m()),
{
    lemma_cache_inv_initially();
}
//@tags C19 C10
/// srv_inv (prelude/main_spec_v2.rs: db_inv of the database + cache_inv of the URI cache), the invariant unit
/// handlers_main proves every notification handler keeps (lemma_srv_inv_is_invariant), holds of the state the server
/// starts serving in -- under the environment hypothesis env_is_fresh() and nothing else
pub proof fn lemma_C19_initial_srv_inv(b: providers::Backend)
    requires server_initial(b), env_is_fresh(),
    ensures srv_inv(model_of(b)),
{
    lemma_cache_inv_initially();
    let m = model_of(b);
    lemma_C19_new_db_inv_iff_env(m.fixture_db);
}
//@tags C19 C10
/// ... and the environment hypothesis is exactly what is missing
pub proof fn lemma_C19_initial_srv_inv_iff_env(b: providers::Backend)
    requires server_initial(b)
    ensures srv_inv(model_of(b)) <==> env_is_fresh(),
{
    lemma_cache_inv_initially();
    let m = model_of(b);
    lemma_C19_new_db_inv_iff_env(m.fixture_db);
}
//@tags C19 C04
/// before any didOpen, path_to_uri answers every path with the URI BUILT from it (nothing is remembered)
pub proof fn lemma_C19_initial_path_uri_is_built(b: providers::Backend, p: PV)
    requires backend_fresh(b)
    ensures path_uri(model_of(b).uri_cache, p) == uri_of_path(p)
{}
//@tags C06 C10 C19
/// the whole chain: the state start_lsp_server hands to `serve` (server_initial: PROVED as the precondition of the
/// serve stand-in on the real body) is the base of unit history's induction and satisfies every index invariant
pub proof fn lemma_C06_initial_server_is_history_base(b: providers::Backend)
    requires server_initial(b)
    ensures idx(model_of(b).fixture_db) == idx_empty(), inv(idx(model_of(b).fixture_db)), model_of(b).fixture_db.version() == 0,
{
    let m = model_of(b);
    lemma_C06_new_is_history_base(m.fixture_db);
    lemma_fresh_views(m.fixture_db);
}
