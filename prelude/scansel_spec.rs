// ---------------------------------------------------------------------------------------------
// Unit scan_select (C13, selection part): specification vocabulary for FixtureDatabase::should_skip_directory and
// FixtureDatabase::scan_workspace_with_excludes (src/fixtures/scanner.rs).  Everything in this file is DEFINED
// (open spec fns over the uninterpreted views of prelude/scansel_shims.rs); there is no assumption here.

// ---- (S1) ignored directory names ---------------------------------------------------------------------------------
/// the 25 names of the property text's "VCS, virtualenv, cache and build directories" as the source lists them
/// (FixtureDatabase::SKIP_DIRECTORIES); `//@item … const` PROVES the source initializer has exactly these elements
pub open spec fn skip_names() -> Seq<Seq<char>> {
    seq![".git"@, ".hg"@, ".svn"@,
         ".venv"@, "venv"@, "env"@, ".env"@,
         "__pycache__"@, ".pytest_cache"@, ".mypy_cache"@, ".ruff_cache"@, ".tox"@, ".nox"@, "build"@, "dist"@, ".eggs"@,
         "node_modules"@, "bower_components"@,
         "target"@,
         ".idea"@, ".vscode"@,
         ".cache"@, ".local"@, "vendor"@, "site-packages"@]
}
/// an ignored directory name: one of skip_names(), or `*.egg-info`
pub open spec fn is_skip_name(n: Seq<char>) -> bool { skip_names().contains(n) || sv_ends_with(n, ".egg-info"@) }
pub open spec fn is_skip_name_fn() -> spec_fn(Seq<char>) -> bool { |n: Seq<char>| is_skip_name(n) }

// ---- the file-name test -------------------------------------------------------------------------------------------
/// conftest.py, test_*.py, *_test.py.  Rust parses `a || b && c || d` as `(a || (b && c)) || d`.
pub open spec fn is_pytest_file_name(n: Seq<char>) -> bool {
    (n == "conftest.py"@ || (sv_starts_with(n, "test_"@) && sv_ends_with(n, ".py"@))) || sv_ends_with(n, "_test.py"@)
}

// ---- paths relative to the root -----------------------------------------------------------------------------------
/// `path.strip_prefix(root)`: the components after the root's, when the root's components are a prefix
pub open spec fn rel_to(root: PV, path: PV) -> Option<PV> {
    if pv_is_prefix(root, path) { Some(path.skip(root.len() as int)) } else { None }
}
/// `path.strip_prefix(root).unwrap_or(path)`
pub open spec fn below_root(root: PV, path: PV) -> PV { match rel_to(root, path) { Some(r) => r, None => path } }
/// some component is an ignored directory name
pub open spec fn has_skip_component(p: PV) -> bool { exists|i: int| 0 <= i < p.len() && is_skip_name(#[trigger] p[i]) }

// ---- (S2) phase 1: which walk entries are collected -----------------------------------------------------------------
/// the filter_entry predicate of the scanner: the root entry and files pass; a directory passes unless its name is
/// an ignored directory name (a name that is not UTF-8 passes)
pub open spec fn entry_pred(e: DirEntry) -> bool {
    entry_depth(e) == 0 || entry_is_file(e) || match entry_name(e) { Some(n) => !is_skip_name(n), None => true }
}
pub open spec fn entry_pred_fn() -> spec_fn(DirEntry) -> bool { |e: DirEntry| entry_pred(e) }
/// the path is matched by a configured exclude pattern: only when there are patterns and the path lies under the
/// root; the patterns see the path RELATIVE to the root
pub open spec fn excluded(root: PV, pats: Seq<Seq<char>>, path: PV) -> bool {
    pats.len() > 0 && match rel_to(root, path) { Some(rel) => any_glob_match(pats, rel), None => false }
}
/// the tests of the collection loop on one entry that survived the pruning
pub open spec fn selected(root: PV, pats: Seq<Seq<char>>, e: DirEntry) -> bool {
    &&& !has_skip_component(below_root(root, entry_path(e)))
    &&& !excluded(root, pats, entry_path(e))
    &&& match file_name_v(entry_path(e)) { Some(n) => is_pytest_file_name(n), None => false }
    // only regular files (or links to them) are collected (after fix of F-13b)
    &&& fs_is_file(entry_path(e))
}
pub open spec fn sel_item_fn(root: PV, pats: Seq<Seq<char>>) -> spec_fn(WalkItem) -> bool {
    |it: WalkItem| match it { Ok(e) => selected(root, pats, e), Err(_) => false }
}
pub open spec fn item_path(it: WalkItem) -> PV { match it { Ok(e) => entry_path(e), Err(_) => Seq::<Seq<char>>::empty() } }
pub open spec fn item_path_fn() -> spec_fn(WalkItem) -> PV { |it: WalkItem| item_path(it) }
/// the paths collected from a sequence of (already pruned) walk items, in walk order
pub open spec fn op_collect(root: PV, pats: Seq<Seq<char>>, items: Seq<WalkItem>) -> Seq<PV> {
    items.filter(sel_item_fn(root, pats)).map_values(item_path_fn())
}
/// (S2) what phase 1 of scan_workspace_with_excludes collects for a root and exclude patterns
pub open spec fn op_select(root: PV, pats: Seq<Seq<char>>) -> Seq<PV> {
    op_collect(root, pats, pruned(walk(root), entry_pred_fn()))
}
pub open spec fn pbv_seq(s: Seq<PathBuf>) -> Seq<PV> { s.map_values(|p: PathBuf| pbv(&p)) }

/// PROVED: one step of the collection loop
pub proof fn lemma_collect_step(root: PV, pats: Seq<Seq<char>>, items: Seq<WalkItem>, i: int)
    requires 0 <= i < items.len(),
    ensures op_collect(root, pats, items.take(i + 1)) ==
        (if sel_item_fn(root, pats)(items[i]) { op_collect(root, pats, items.take(i)).push(item_path(items[i])) }
         else { op_collect(root, pats, items.take(i)) }),
{
    reveal(Seq::filter);
    let s = items.take(i + 1);
    assert(s.drop_last() =~= items.take(i));
    assert(s.last() == items[i]);
    let f = items.take(i).filter(sel_item_fn(root, pats));
    if sel_item_fn(root, pats)(items[i]) {
        assert(s.filter(sel_item_fn(root, pats)) == f.push(items[i]));
        assert(f.push(items[i]).map_values(item_path_fn()) =~= f.map_values(item_path_fn()).push(item_path(items[i])));
    } else {
        assert(s.filter(sel_item_fn(root, pats)) == f);
    }
}
