// ---------------------------------------------------------------------------------------------
// L2 for unit completion_ctx: property C18 (context part) from the operational specification
// prelude/completion_ctx_spec.rs.  Pure lemmas; nothing here is assumed.

/// the statements get_function_completion_context can get a context from
pub open spec fn is_def_or_class(s: Stmt) -> bool { s is FunctionDef || s is AsyncFunctionDef || s is ClassDef }
/// a function definition that is neither a test (by name) nor a fixture (by decorator): a plain helper
pub open spec fn plain_helper(s: Stmt) -> bool {
    match s {
        Stmt::FunctionDef(f) => !is_test_name(idv(&f.name)) && !has_fixture_decorator(f.decorator_list@),
        Stmt::AsyncFunctionDef(f) => !is_test_name(idv(&f.name)) && !has_fixture_decorator(f.decorator_list@),
        _ => false,
    }
}
/// a function definition none of whose lines is the cursor line
pub open spec fn def_elsewhere(s: Stmt, tl: usize, li: Seq<usize>) -> bool {
    match s {
        Stmt::FunctionDef(f) => !in_lines(f.range, tl, li),
        Stmt::AsyncFunctionDef(f) => !in_lines(f.range, tl, li),
        _ => false,
    }
}

// ---- (a) first match in statement order ----------------------------------------------------------------------
//@tags C18
pub proof fn lemma_fc_from_none(b: Seq<Stmt>, k: int, content: Seq<char>, tl: usize, li: Seq<usize>)
    requires 0 <= k, forall|i: int| k <= i < b.len() ==> fc_stmt(#[trigger] b[i], content, tl, li) is None,
    ensures fc_from(b, k, content, tl, li) is None,
    decreases b.len() - k
{
    if k < b.len() { lemma_fc_from_none(b, k + 1, content, tl, li); }
}
/// the FIRST statement (source order) that gives a context decides; later ones are not consulted
//@tags C18
pub proof fn lemma_C18_first_statement_wins(b: Seq<Stmt>, i: int, content: Seq<char>, tl: usize, li: Seq<usize>)
    requires 0 <= i < b.len(), fc_stmt(b[i], content, tl, li) is Some,
        forall|j: int| 0 <= j < i ==> fc_stmt(#[trigger] b[j], content, tl, li) is None,
    ensures spec_first_ctx(b, content, tl, li) == fc_stmt(b[i], content, tl, li),
{
    lemma_fc_first(b, i, 0, content, tl, li);
}
pub proof fn lemma_fc_first(b: Seq<Stmt>, i: int, k: int, content: Seq<char>, tl: usize, li: Seq<usize>)
    requires 0 <= k <= i < b.len(), fc_stmt(b[i], content, tl, li) is Some,
        forall|j: int| k <= j < i ==> fc_stmt(#[trigger] b[j], content, tl, li) is None,
    ensures fc_from(b, k, content, tl, li) == fc_stmt(b[i], content, tl, li),
    decreases i - k
{
    if k < i { lemma_fc_first(b, i, k + 1, content, tl, li); }
}

// ---- (b) "only when": no function context outside test / fixture functions -------------------------------------
/// whatever the function path returns is a FUNCTION context of a test (by name) or a fixture (by decorator) whose
/// first line is not after the cursor line -- never a decorator context, never a plain helper
//@tags C18
pub proof fn lemma_C18_only_in_test_or_fixture(s: Stmt, content: Seq<char>, tl: usize, li: Seq<usize>)
    requires fc_stmt(s, content, tl, li) is Some,
    ensures fc_stmt(s, content, tl, li)->0 matches CtxV::Func(f)
        && (f.is_fixture || is_test_name(f.name)) && f.line <= tl,
    decreases s, 0int
{
    match s {
        Stmt::ClassDef(c) => { lemma_only_from(c.body@, 0, content, tl, li); }
        _ => {}
    }
}
//@tags C18
pub proof fn lemma_only_from(b: Seq<Stmt>, k: int, content: Seq<char>, tl: usize, li: Seq<usize>)
    requires fc_from(b, k, content, tl, li) is Some,
    ensures fc_from(b, k, content, tl, li)->0 matches CtxV::Func(f)
        && (f.is_fixture || is_test_name(f.name)) && f.line <= tl,
    decreases b, b.len() - k
{
    if 0 <= k < b.len() {
        if fc_stmt(b[k], content, tl, li) is Some { lemma_C18_only_in_test_or_fixture(b[k], content, tl, li); }
        else { lemma_only_from(b, k + 1, content, tl, li); }
    }
}
/// a cursor line outside every test / fixture function gets NO function context:
///   - module level: a file whose top-level statements are neither `def` nor `class` (imports, assignments, `if`
///     blocks ... -- functions nested in those are not looked at either)
///   - a plain helper function (not `test*`, no fixture decorator), wherever the cursor is in it
///   - any function none of whose lines is the cursor line
///   - a class-body line outside its methods: every statement of the class body is one of the above
//@tags C18
pub proof fn lemma_C18_outside_functions_no_context(b: Seq<Stmt>, content: Seq<char>, tl: usize, li: Seq<usize>)
    requires forall|i: int| 0 <= i < b.len() ==> no_ctx_stmt(#[trigger] b[i], tl, li),
    ensures spec_first_ctx(b, content, tl, li) is None,
    decreases b, 1int
{
    assert forall|i: int| 0 <= i < b.len() implies fc_stmt(#[trigger] b[i], content, tl, li) is None by {
        lemma_no_ctx_stmt(b[i], content, tl, li);
    }
    lemma_fc_from_none(b, 0, content, tl, li);
}
/// the shapes listed above, closed under class nesting
pub open spec fn no_ctx_stmt(s: Stmt, tl: usize, li: Seq<usize>) -> bool
    decreases s
{
    ||| !is_def_or_class(s)
    ||| plain_helper(s)
    ||| def_elsewhere(s, tl, li)
    ||| (s matches Stmt::ClassDef(c) && forall|i: int| 0 <= i < c.body@.len() ==> no_ctx_stmt(#[trigger] c.body@[i], tl, li))
}
//@tags C18
pub proof fn lemma_no_ctx_stmt(s: Stmt, content: Seq<char>, tl: usize, li: Seq<usize>)
    requires no_ctx_stmt(s, tl, li),
    ensures fc_stmt(s, content, tl, li) is None,
    decreases s, 0int
{
    match s {
        Stmt::ClassDef(c) => { lemma_C18_outside_functions_no_context(c.body@, content, tl, li); }
        _ => {}
    }
}

// ---- (c) "minus names already declared as parameters": ALL parameter kinds -------------------------------------
/// inside a test / fixture function the context names EVERY parameter: positional-only (before `/`), regular and
/// keyword-only (after `*`), in that order, nothing else
//@tags C18
pub proof fn lemma_C18_declared_params_all_kinds(name: Identifier, decos: Seq<Expr>, args: CArguments, returns: Option<Box<Expr>>,
        body: Seq<Stmt>, range: TextRange, content: Seq<char>, tl: usize, li: Seq<usize>)
    requires spec_func_ctx(name, decos, args, returns, body, range, content, tl, li) is Some,
    ensures ({
        let f = spec_func_ctx(name, decos, args, returns, body, range, content, tl, li)->0->Func_0;
        &&& f.declared == declared_names(args)
        &&& f.declared.len() == args.posonlyargs@.len() + args.args@.len() + args.kwonlyargs@.len()
        &&& forall|i: int| 0 <= i < args.posonlyargs@.len() ==> f.declared[i] == pname(#[trigger] args.posonlyargs@[i])
        &&& forall|i: int| 0 <= i < args.args@.len() ==> f.declared[args.posonlyargs@.len() + i] == pname(#[trigger] args.args@[i])
        &&& forall|i: int| 0 <= i < args.kwonlyargs@.len() ==> f.declared[args.posonlyargs@.len() + args.args@.len() + i] == pname(#[trigger] args.kwonlyargs@[i])
        &&& forall|i: int| 0 <= i < args.posonlyargs@.len() ==> f.declared.contains(pname(#[trigger] args.posonlyargs@[i]))
        &&& forall|i: int| 0 <= i < args.args@.len() ==> f.declared.contains(pname(#[trigger] args.args@[i]))
        &&& forall|i: int| 0 <= i < args.kwonlyargs@.len() ==> f.declared.contains(pname(#[trigger] args.kwonlyargs@[i]))
    }),
{
    let d = declared_names(args);
    let np = args.posonlyargs@.len() as int; let na = args.args@.len() as int;
    assert forall|i: int| 0 <= i < np implies d.contains(pname(#[trigger] args.posonlyargs@[i])) by { assert(d[i] == pname(args.posonlyargs@[i])); }
    assert forall|i: int| 0 <= i < na implies d.contains(pname(#[trigger] args.args@[i])) by { assert(d[np + i] == pname(args.args@[i])); }
    assert forall|i: int| 0 <= i < args.kwonlyargs@.len() implies d.contains(pname(#[trigger] args.kwonlyargs@[i])) by { assert(d[np + na + i] == pname(args.kwonlyargs@[i])); }
}

// ---- (d) "inside a fixture - minus fixtures of narrower scope": which scope ------------------------------------
/// inside a fixture the context carries the scope its decorator declares (pytest's default, function, without a
/// usable `scope=`); inside a test it carries none (no scope filtering)
//@tags C18
pub proof fn lemma_C18_scope_of_context(name: Identifier, decos: Seq<Expr>, args: CArguments, returns: Option<Box<Expr>>,
        body: Seq<Stmt>, range: TextRange, content: Seq<char>, tl: usize, li: Seq<usize>, i: int)
    requires spec_func_ctx(name, decos, args, returns, body, range, content, tl, li) is Some,
    ensures ({
        let f = spec_func_ctx(name, decos, args, returns, body, range, content, tl, li)->0->Func_0;
        &&& f.is_fixture == has_fixture_decorator(decos)
        &&& !f.is_fixture ==> f.scope is None
        &&& f.is_fixture ==> f.scope == Some(fixture_scope_of(decos))
        // the FIRST decorator that declares a scope decides
        &&& (f.is_fixture && 0 <= i < decos.len() && spec_kw(&decos[i], kw_scope_fn()) is Some
              && (forall|j: int| 0 <= j < i ==> spec_kw(&#[trigger] decos[j], kw_scope_fn()) is None))
            ==> f.scope == spec_kw(&decos[i], kw_scope_fn())
        // no decorator declares one: function scope
        &&& (f.is_fixture && (forall|j: int| 0 <= j < decos.len() ==> spec_kw(&#[trigger] decos[j], kw_scope_fn()) is None))
            ==> f.scope == Some(FixtureScope::Function)
    }),
{
    let g = deco_scope_fn();
    if 0 <= i < decos.len() && spec_kw(&decos[i], kw_scope_fn()) is Some
        && (forall|j: int| 0 <= j < i ==> spec_kw(&#[trigger] decos[j], kw_scope_fn()) is None) {
        assert forall|j: int| 0 <= j < i implies g(#[trigger] decos[j]) is None by {}
        lemma_first_some_from(decos, g, i, 0);
    }
    if forall|j: int| 0 <= j < decos.len() ==> spec_kw(&#[trigger] decos[j], kw_scope_fn()) is None {
        assert forall|j: int| 0 <= j < decos.len() implies g(#[trigger] decos[j]) is None by {}
        lemma_first_some_from(decos, g, decos.len() as int, 0);
    }
}
/// the scope the context carries is the scope the INDEX records for the fixture (analyzer.rs visit_stmt: the scope of
/// the first fixture decorator, default function) whenever the function has ONE fixture decorator
//@tags C18
pub proof fn lemma_C18_scope_agrees_with_index(decos: Seq<Expr>, i: int)
    requires 0 <= i < decos.len(), spec_is_fixture_decorator(&decos[i]),
        forall|j: int| 0 <= j < decos.len() && j != i ==> !spec_is_fixture_decorator(&#[trigger] decos[j]),
    ensures fixture_scope_of(decos) == (match spec_kw(&decos[i], kw_scope_fn()) { Some(s) => s, None => FixtureScope::Function }),
{
    let g = deco_scope_fn();
    assert forall|j: int| 0 <= j < decos.len() && j != i implies g(#[trigger] decos[j]) is None by {
        lemma_C18_scope_needs_fixture_decorator(decos[j]);
    }
    lemma_first_some_from(decos, g, i, 0);
    if g(decos[i]) is None { lemma_first_some_from(decos, g, decos.len() as int, i + 1); }
}
/// only a fixture decorator can declare a scope
//@tags C18
pub proof fn lemma_C18_scope_needs_fixture_decorator(d: Expr)
    ensures !spec_is_fixture_decorator(&d) ==> spec_kw(&d, kw_scope_fn()) is None,
{
    match d { Expr::Call(c) => {} _ => {} }
}

// ---- (e) signature / body ----------------------------------------------------------------------------------------
/// every line of a test / fixture function is either signature or body: up to and including the line the signature
/// ends on it is the signature, after it the body
//@tags C18
pub proof fn lemma_C18_signature_or_body(name: Identifier, decos: Seq<Expr>, args: CArguments, returns: Option<Box<Expr>>,
        body: Seq<Stmt>, range: TextRange, content: Seq<char>, tl: usize, li: Seq<usize>)
    requires in_lines(range, tl, li), is_test_name(idv(&name)) || has_fixture_decorator(decos),
    ensures ({
        let r = spec_func_ctx(name, decos, args, returns, body, range, content, tl, li);
        &&& r is Some
        &&& r->0 matches CtxV::Func(f) && f.name == idv(&name) && f.line == lno(li, tsv(tr_start(range)))
            && f.in_signature == (tl <= sig_end_line(lno(li, tsv(tr_start(range))) as usize, args, returns, body, content, li))
    }),
{}

// ---- (f) decorators, pytestmark, and the whole query -----------------------------------------------------------
/// decorator contexts as the code gives them.  STATED, NOT HIDDEN: the property speaks of the ARGUMENT LIST of a
/// usefixtures / INDIRECT parametrize decorator; the code gives the context on every LINE the decorator touches
/// (before the parenthesis too) and for EVERY parametrize mark (with or without `indirect=`), called or bare.
//@tags C18
pub proof fn lemma_C18_decorator_context(d: Expr, tl: usize, li: Seq<usize>)
    ensures
        !in_lines(expr_range(d), tl, li) ==> deco_ctx(d, tl, li) is None,
        in_lines(expr_range(d), tl, li) && spec_is_mark(&d, "usefixtures"@) ==> deco_ctx(d, tl, li) == Some(CtxV::Usefixtures),
        in_lines(expr_range(d), tl, li) && !spec_is_mark(&d, "usefixtures"@) && spec_is_mark(&d, "parametrize"@)
            ==> deco_ctx(d, tl, li) == Some(CtxV::Parametrize),
        !spec_is_mark(&d, "usefixtures"@) && !spec_is_mark(&d, "parametrize"@) ==> deco_ctx(d, tl, li) is None,
        // in particular: no `indirect` keyword is needed
        (in_lines(expr_range(d), tl, li) && spec_is_mark(&d, "parametrize"@) && !spec_is_mark(&d, "usefixtures"@)
            && spec_parametrize_indirect(&d).len() == 0) ==> deco_ctx(d, tl, li) == Some(CtxV::Parametrize),
{}
/// a decorator context is only ever given by a decorator of a function / class or by a pytestmark assignment
//@tags C18
pub proof fn lemma_C18_decorator_context_sources(s: Stmt, tl: usize, li: Seq<usize>)
    requires !is_def_or_class(s), spec_pytestmark_value(s) is None,
    ensures dc_stmt(s, tl, li) is None,
{}
/// `pytestmark = <value>`: usefixtures context iff the cursor line is on the statement AND on some usefixtures call
/// inside the value; never a parametrize context
//@tags C18
pub proof fn lemma_C18_pytestmark(s: Stmt, v: Expr, tl: usize, li: Seq<usize>)
    requires spec_pytestmark_value(s) == Some(v), s is Assign || s is AnnAssign,
    ensures dc_stmt(s, tl, li) == (if in_lines(stmt_range(s), tl, li) && inside_uf(v, tl, li) { Some(CtxV::Usefixtures) } else { None }),
{}
/// the whole query: no text -> nothing; a text that does not parse -> the text fallback alone; otherwise the
/// decorator context wins over the function context, which wins over the text fallback
//@tags C18
pub proof fn lemma_C18_query_order(c: Seq<char>, line: u32)
    ensures
        spec_completion_ctx(None, line) is None,
        !parse_ok(c) ==> spec_completion_ctx(Some(c), line) == text_ctx(c, (line as usize + 1) as usize),
        parse_ok(c) ==> ({
            let tl = (line as usize + 1) as usize;
            let li = src_line_index(c);
            match ast_of(c) {
                rustpython_parser::ast::Mod::Module(m) => ({
                    let d = spec_deco_ctx(m.body@, tl, li);
                    let f = spec_first_ctx(m.body@, c, tl, li);
                    &&& d is Some ==> spec_completion_ctx(Some(c), line) == d
                    &&& d is None && f is Some ==> spec_completion_ctx(Some(c), line) == f
                    &&& d is None && f is None ==> spec_completion_ctx(Some(c), line) == text_ctx(c, tl)
                }),
                _ => spec_completion_ctx(Some(c), line) == text_ctx(c, tl),
            }
        }),
{}

// ---- (g) the test-only helper is_inside_function ---------------------------------------------------------------
/// STATED, NOT HIDDEN: is_inside_function / find_enclosing_function (dead code outside the test-suite) reports the
/// REGULAR parameters only -- the middle segment of what the completion context declares; the two agree exactly on
/// signatures without positional-only and keyword-only parameters
//@tags C18
pub proof fn lemma_C18_is_inside_function_regular_only(a: CArguments)
    ensures
        regular_names(a) =~= declared_names(a).subrange(a.posonlyargs@.len() as int, (a.posonlyargs@.len() + a.args@.len()) as int),
        a.posonlyargs@.len() == 0 && a.kwonlyargs@.len() == 0 ==> regular_names(a) =~= declared_names(a),
        regular_names(a).len() == a.args@.len(),
{}
