// ---------------------------------------------------------------------------------------------
// Unit constructors: the initial state of the database.  Needs the all-fields FixtureDatabase struct.
/// the state `FixtureDatabase::new()` returns: one clause per field of src/fixtures/mod.rs
pub open spec fn db_fresh(r: FixtureDatabase) -> bool {
    &&& r.definitions.m() == Map::<Seq<char>, Vec<FixtureDefinition>>::empty()
    &&& r.file_definitions.m() == Map::<PV, HashSet<String>>::empty()
    &&& r.usages.m() == Map::<PV, Vec<FixtureUsage>>::empty()
    &&& r.usage_by_fixture.m() == Map::<Seq<char>, Vec<(PathBuf, FixtureUsage)>>::empty()
    &&& r.file_cache.m() == Map::<PV, Arc<String>>::empty()
    &&& r.undeclared_fixtures.m() == Map::<PV, Vec<UndeclaredFixture>>::empty()
    &&& r.imports.m() == Map::<PV, HashSet<String>>::empty()
    &&& r.canonical_path_cache.m() == Map::<PV, PathBuf>::empty()
    &&& r.line_index_cache.m() == Map::<PV, (u64, Arc<Vec<usize>>)>::empty()
    &&& r.ast_cache.m() == Map::<PV, (u64, Arc<rustpython_parser::ast::Mod>)>::empty()
    &&& r.definitions_version.v == 0
    &&& r.cycle_cache.m() == Map::<(), (u64, Arc<Vec<FixtureCycle>>)>::empty()
    &&& r.available_fixtures_cache.m() == Map::<PV, (u64, Arc<Vec<FixtureDefinition>>)>::empty()
    &&& r.imported_fixtures_cache.m() == Map::<PV, (u64, u64, Arc<HashSet<String>>)>::empty()
    &&& r.site_packages_paths@ == Seq::<PathBuf>::empty()
    &&& r.editable_install_roots@ == Seq::<EditableInstall>::empty()
    &&& r.workspace_root is None
    &&& r.plugin_fixture_files.m() == Map::<PV, ()>::empty()
}
