// ---------------------------------------------------------------------------------------------
// Unit cli_tree: stand-ins and assumed specifications (trusted base A3 / T6) for what print_fixtures_tree /
// print_tree_node / has_visible_fixtures (src/fixtures/cli.rs) touch outside the repo.  Every `external_body`,
// `assume_specification`, `axiom` below is an ASSUMPTION, listed with its statement in the unit's report (CT1..CT12).
// Needs path.rs, path_ext.rs, path_strip.rs, dashmap.rs, hashmap.rs, option_ext.rs, clitree_btree.rs.
//   CT1  crate `colored`: `x.cyan()/.dimmed()/.green()/.yellow()/.blue()/.bold()` on `&str` / ColoredString record the
//        style (in application order) next to the text; what is written for a ColoredString is an uninterpreted
//        function `styled(text, styles)` (ANSI escapes / NO_COLOR / tty detection are not modelled)
//   CT2  `format!` with the format strings of prelude/clitree_fmt_macro.rs (a local `macro_rules! format` table; an
//        unknown format string does not compile = UNDECIDED): concatenation of what Display writes (`disp_v`)
//   CT3  Display of &str / String = the text; of usize = `dec_v(n)` (decimal digits, uninterpreted, injective not
//        assumed); of ColoredString = styled(..); `ToString::to_string` of `&String` / ColoredString = Display
//   CT4  `slice.iter().enumerate()` (T5 rename -> vp_enumerate): the elements paired with 0, 1, 2, ...
//   CT5  `it.filter(p).cloned()` over a `vec::IntoIter<&PathBuf>` (T5 rename -> vp_cloned): element-wise clones
//   CT6  `<Path as PartialEq>::eq`: equal iff the component sequences are equal
//   CT7  `<[T]>::sort()` (T: Ord): a permutation of the input, ordered by `ord_v::<T>`; for PathBuf ord_v is path_ord
//   CT8  Mutex::lock on the two Mutex-wrapped fields: hands out the protected value (sequential reading, as unit classify)
//   CT9  `Path::join(String)`: the components of the path written in the string (`str_path`, uninterpreted) are appended
//   CT10 the @wrapexpr helpers of the unit (file-name text, empty-path test, split('.'), replace('-', "_"), the
//        values_mut sort loop)
pub mod ct_ax {
    use super::*;
    /// (P4') a `&PathBuf` argument passed as `AsRef<Path>` denotes its own components
    pub broadcast axiom fn axiom_pathbuf_ref_as_path_ct<'a>(p: &'a PathBuf)
        ensures #[trigger] as_path_view::<&'a PathBuf>(p) == pbv(p);
    /// CT9
    pub broadcast axiom fn axiom_string_as_path(s: String)
        ensures #[trigger] as_path_view::<String>(s) == str_path(s@);
    // CT3
    pub broadcast axiom fn axiom_disp_str_ref<'a>(s: &&'a str) ensures #[trigger] disp_v::<&'a str>(s) == (*s)@;
    pub broadcast axiom fn axiom_disp_string_ct(s: &String) ensures #[trigger] disp_v::<String>(s) == s@;
    pub broadcast axiom fn axiom_disp_usize(n: &usize) ensures #[trigger] disp_v::<usize>(n) == dec_v(*n);
    pub broadcast axiom fn axiom_disp_colored(c: &ColoredString) ensures #[trigger] disp_v::<ColoredString>(c) == styled(c.v@);
    pub broadcast axiom fn axiom_refstring_to_string<'a>(t: &&'a String, res: String)
        ensures #[trigger] vstd::string::to_string_from_display_ensures::<&'a String>(t, res) <==> ((*t)@ == res@);
    pub broadcast axiom fn axiom_colored_to_string(t: &ColoredString, res: String)
        ensures #[trigger] vstd::string::to_string_from_display_ensures::<ColoredString>(t, res) <==> (styled(t.v@) == res@);
    /// CT7
    pub broadcast axiom fn axiom_ord_v_pathbuf(a: PathBuf, b: PathBuf)
        ensures #[trigger] ord_v::<PathBuf>(a, b) == path_ord(pbv(&a), pbv(&b));
}
pub use ct_ax::*;

// ---- CT12: HashMap::remove (prelude/hashmap.rs offers new/insert/get/contains_key/len/entry; hashmap_ext.rs keys) ----------
impl<K: KeyView, V> HashMap<K, V> {
    #[verifier::external_body]
    pub fn remove<Q: KeyView<KV = K::KV> + ?Sized>(&mut self, k: &Q) -> (r: Option<V>)
        ensures final(self).m() == old(self).m().remove(k.kview()),
                r == (if old(self).m().contains_key(k.kview()) { Some(old(self).m()[k.kview()]) } else { None::<V> })
    { unimplemented!() }
}

// ---- CT6 ---------------------------------------------------------------------------------------------------------------
pub assume_specification[ <Path as PartialEq>::eq ](a: &Path, b: &Path) -> (r: bool)
    ensures r == (pv(a) == pv(b));
/// the components of the path written in a string
pub uninterp spec fn str_path(s: Seq<char>) -> PV;

// ---- CT7 ---------------------------------------------------------------------------------------------------------------
pub uninterp spec fn ord_v<T>(a: T, b: T) -> core::cmp::Ordering;
pub open spec fn ord_v_fn<T>() -> spec_fn(T, T) -> core::cmp::Ordering { |a: T, b: T| ord_v(a, b) }
pub assume_specification<T: Ord>[ <[T]>::sort ](v: &mut [T])
    ensures final(v)@.to_multiset() == old(v)@.to_multiset(), sorted_by_cmp(final(v)@, ord_v_fn::<T>());

// ---- CT8 ---------------------------------------------------------------------------------------------------------------
#[derive(Debug)]
pub struct PoisonNever { _p: () }
pub trait VpLock: Sized { fn lock(&self) -> (r: Result<&Self, PoisonNever>) ensures r is Ok, r->Ok_0 == self; }
impl VpLock for Vec<EditableInstall> {
    #[verifier::external_body]
    fn lock(&self) -> (r: Result<&Self, PoisonNever>) { Ok(self) }
}
impl VpLock for Option<PathBuf> {
    #[verifier::external_body]
    fn lock(&self) -> (r: Result<&Self, PoisonNever>) { Ok(self) }
}

// ---- CT4 ---------------------------------------------------------------------------------------------------------------
pub trait VpEnumerate<'a, T: 'a>: Sized { fn vp_enumerate(self) -> (r: std::vec::IntoIter<(usize, &'a T)>); }
impl<'a, T: 'a> VpEnumerate<'a, T> for core::slice::Iter<'a, T> {
    #[verifier::external_body]
    fn vp_enumerate(self) -> (r: std::vec::IntoIter<(usize, &'a T)>)
        ensures r.obeys_prophetic_iter_laws(), r.decrease() is Some, r.remaining().len() == self.remaining().len(),
            forall|i: int| 0 <= i < r.remaining().len() ==> (#[trigger] r.remaining()[i]).0 == i && r.remaining()[i].1 == self.remaining()[i],
    { self.enumerate().collect::<Vec<_>>().into_iter() }
}

// ---- CT4b: `it.any(f)` (T5 rename -> vp_any) for an f that is only callable on the ELEMENTS (a closure that recurses into the
// element carries a termination precondition; vstd's `any` asks for call_requires on every value of the type).  The
// external body IS the call to the real method.  ASSUMED: true iff f returned true on some element (position: skolem
// function vp_any_hit); false iff f returned false on every element.
pub uninterp spec fn vp_any_hit<T, F>(s: Seq<T>, f: F) -> int;
pub trait VpAny: Sized + Iterator {
    fn vp_any<F: FnMut(Self::Item) -> bool>(self, f: F) -> (r: bool)
        requires forall|j: int| 0 <= j < self.remaining().len() ==> call_requires(f, (#[trigger] self.remaining()[j],));
}
impl<'a, T: 'a> VpAny for core::slice::Iter<'a, T> {
    #[verifier::external_body]
    fn vp_any<F: FnMut(&'a T) -> bool>(self, f: F) -> (r: bool)
        ensures ({
            let s = self.remaining();
            if r { let i = vp_any_hit(s, f); 0 <= i < s.len() && call_ensures(f, (s[i],), true) }
            else { forall|j: int| 0 <= j < s.len() ==> call_ensures(f, (#[trigger] s[j],), false) }
        }),
    { let mut it = self; it.any(f) }
}
impl<T> VpAny for std::vec::IntoIter<T> {
    #[verifier::external_body]
    fn vp_any<F: FnMut(T) -> bool>(self, f: F) -> (r: bool)
        ensures ({
            let s = self.remaining();
            if r { let i = vp_any_hit(s, f); 0 <= i < s.len() && call_ensures(f, (s[i],), true) }
            else { forall|j: int| 0 <= j < s.len() ==> call_ensures(f, (#[trigger] s[j],), false) }
        }),
    { let mut it = self; it.any(f) }
}

// ---- CT5 ---------------------------------------------------------------------------------------------------------------
pub open spec fn ref_pbvs<'a>(s: Seq<&'a PathBuf>) -> Seq<PV> { s.map_values(|x: &'a PathBuf| pbv(x)) }
pub trait VpCloned<'a>: Sized + Iterator<Item = &'a PathBuf> {
    fn vp_cloned(self) -> (r: std::vec::IntoIter<PathBuf>);
}
/// `inner.filter(p).cloned()` driven to its end: the clones of the elements of `inner` the closure accepts, in order
/// (stated for every predicate `keep` the closure is shown to compute)
impl<'a, P: FnMut(&&'a PathBuf) -> bool> VpCloned<'a> for core::iter::Filter<std::vec::IntoIter<&'a PathBuf>, P> {
    #[verifier::external_body]
    fn vp_cloned(self) -> (r: std::vec::IntoIter<PathBuf>)
        ensures r.obeys_prophetic_iter_laws(), r.decrease() is Some,
            forall|keep: spec_fn(&'a PathBuf) -> bool| (forall|x: &&'a PathBuf, b: bool| call_ensures(filter_fun(self), (x,), b) ==> b == keep(*x))
                ==> pbvs(r.remaining()) == #[trigger] ref_pbvs(filter_iter(self).remaining().filter(keep)),
    { self.cloned().collect::<Vec<PathBuf>>().into_iter() }
}

// ---- CT1: colored ------------------------------------------------------------------------------------------------------
pub enum Style { Cyan, Dimmed, Green, Yellow, Blue, Bold }
/// a text with the styles applied to it, in application order
pub struct CStr { pub text: Seq<char>, pub styles: Seq<Style> }
pub open spec fn plain(t: Seq<char>) -> CStr { CStr { text: t, styles: Seq::empty() } }
pub open spec fn with_style(c: CStr, s: Style) -> CStr { CStr { text: c.text, styles: c.styles.push(s) } }
/// what `Display` writes for a ColoredString
pub uninterp spec fn styled(c: CStr) -> Seq<char>;
pub struct ColoredString { pub v: Ghost<CStr> }
#[verifier::external]
impl core::fmt::Display for ColoredString { fn fmt(&self, f: &mut core::fmt::Formatter<'_>) -> core::fmt::Result { unimplemented!() } }
pub trait Colorize: Sized {
    spec fn cview(&self) -> CStr;
    fn cyan(self) -> (r: ColoredString) ensures r.v@ == with_style(self.cview(), Style::Cyan);
    fn dimmed(self) -> (r: ColoredString) ensures r.v@ == with_style(self.cview(), Style::Dimmed);
    fn green(self) -> (r: ColoredString) ensures r.v@ == with_style(self.cview(), Style::Green);
    fn yellow(self) -> (r: ColoredString) ensures r.v@ == with_style(self.cview(), Style::Yellow);
    fn blue(self) -> (r: ColoredString) ensures r.v@ == with_style(self.cview(), Style::Blue);
    fn bold(self) -> (r: ColoredString) ensures r.v@ == with_style(self.cview(), Style::Bold);
}
impl<'a> Colorize for &'a str {
    open spec fn cview(&self) -> CStr { plain(self@) }
    #[verifier::external_body] fn cyan(self) -> (r: ColoredString) { unimplemented!() }
    #[verifier::external_body] fn dimmed(self) -> (r: ColoredString) { unimplemented!() }
    #[verifier::external_body] fn green(self) -> (r: ColoredString) { unimplemented!() }
    #[verifier::external_body] fn yellow(self) -> (r: ColoredString) { unimplemented!() }
    #[verifier::external_body] fn blue(self) -> (r: ColoredString) { unimplemented!() }
    #[verifier::external_body] fn bold(self) -> (r: ColoredString) { unimplemented!() }
}
impl Colorize for ColoredString {
    open spec fn cview(&self) -> CStr { self.v@ }
    #[verifier::external_body] fn cyan(self) -> (r: ColoredString) { unimplemented!() }
    #[verifier::external_body] fn dimmed(self) -> (r: ColoredString) { unimplemented!() }
    #[verifier::external_body] fn green(self) -> (r: ColoredString) { unimplemented!() }
    #[verifier::external_body] fn yellow(self) -> (r: ColoredString) { unimplemented!() }
    #[verifier::external_body] fn blue(self) -> (r: ColoredString) { unimplemented!() }
    #[verifier::external_body] fn bold(self) -> (r: ColoredString) { unimplemented!() }
}

// ---- CT2 / CT3: format! -----------------------------------------------------------------------------------------------
/// what `Display` writes for a value
pub uninterp spec fn disp_v<T>(t: &T) -> Seq<char>;
/// the decimal digits of n
pub uninterp spec fn dec_v(n: usize) -> Seq<char>;
#[verifier::external_body]
pub fn vp_fmt_cat<A: core::fmt::Display, B: core::fmt::Display>(a: &A, b: &B) -> (r: String)
    ensures r@ == disp_v(a) + disp_v(b)
{ std::format!("{}{}", a, b) }
#[verifier::external_body]
pub fn vp_fmt_comma<A: core::fmt::Display, B: core::fmt::Display>(a: &A, b: &B) -> (r: String)
    ensures r@ == disp_v(a) + ", "@ + disp_v(b)
{ std::format!("{}, {}", a, b) }
#[verifier::external_body]
pub fn vp_fmt_one<A: core::fmt::Display>(a: &A) -> (r: String)
    ensures r@ == disp_v(a)
{ std::format!("{}", a) }
#[verifier::external_body]
pub fn vp_fmt_used<A: core::fmt::Display>(a: &A) -> (r: String)
    ensures r@ == "used "@ + disp_v(a) + " times"@
{ std::format!("used {} times", a) }
#[verifier::external_body]
pub fn vp_fmt_dir<A: core::fmt::Display>(a: &A) -> (r: String)
    ensures r@ == disp_v(a) + "/"@
{ std::format!("{}/", a) }
#[verifier::external_body]
pub fn vp_fmt_dir_editable<A: core::fmt::Display>(a: &A) -> (r: String)
    ensures r@ == disp_v(a) + "/ (editable install)"@
{ std::format!("{}/ (editable install)", a) }

// ---- views of an editable install ---------------------------------------------------------------------------------------
pub struct InstV { pub src: PV, pub sp: PV, pub raw: Seq<char> }
pub open spec fn instv(e: EditableInstall) -> InstV { InstV { src: pbv(&e.source_root), sp: pbv(&e.site_packages), raw: e.raw_package_name@ } }
pub open spec fn instvs(s: Seq<EditableInstall>) -> Seq<InstV> { s.map_values(|e: EditableInstall| instv(e)) }
pub open spec fn pbvs(s: Seq<PathBuf>) -> Seq<PV> { s.map_values(|p: PathBuf| pbv(&p)) }
pub open spec fn strvs<'a>(s: Seq<&'a str>) -> Seq<Seq<char>> { s.map_values(|p: &'a str| p@) }

/// the last component as text, when it is a normal UTF-8 component (`path.file_name().and_then(|n| n.to_str())`)
pub uninterp spec fn comp_is_normal(c: Seq<char>) -> bool;
pub open spec fn file_name_v(p: PV) -> Option<Seq<char>> {
    if p.len() > 0 && comp_is_normal(p.last()) { Some(p.last()) } else { None }
}
pub open spec fn name_or_q(p: PV) -> Seq<char> { match file_name_v(p) { Some(s) => s, None => "?"@ } }
/// `raw.split('.')`: the pieces between the dots (at least one)
pub uninterp spec fn split_dot(s: Seq<char>) -> Seq<Seq<char>>;
/// `part.replace('-', "_")`
pub uninterp spec fn dash_us(s: Seq<char>) -> Seq<char>;
