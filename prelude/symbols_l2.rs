// ---------------------------------------------------------------------------------------------
// L2 for textDocument/documentSymbol and workspace/symbol (C15), over prelude/symbols_spec.rs.

// ---- rearrangements ---------------------------------------------------------------------------------------------
pub proof fn lemma_rearranges_same_elements<A>(a: Seq<A>, b: Seq<A>, x: A)
    requires rearranges(a, b)
    ensures b.contains(x) <==> a.contains(x)
{
    let p = choose|p: Seq<int>| #[trigger] is_perm_idx(p, a.len() as int) && b.len() == a.len() && forall|i: int| 0 <= i < b.len() ==> #[trigger] b[i] == a[p[i]];
    if b.contains(x) { let i = choose|i: int| 0 <= i < b.len() && b[i] == x; assert(a[p[i]] == x); }
    if a.contains(x) {
        let q = choose|q: int| 0 <= q < a.len() && a[q] == x;
        assert(is_index_perm(p, a.len() as int));
        lemma_index_perm_onto(p, a.len() as int, q);
        let i = choose|i: int| 0 <= i < a.len() && #[trigger] p[i] == q;
        assert(b[i] == x);
    }
}
pub proof fn lemma_rearranges_no_duplicates<A>(a: Seq<A>, b: Seq<A>)
    requires rearranges(a, b), a.no_duplicates()
    ensures b.no_duplicates()
{
    let p = choose|p: Seq<int>| #[trigger] is_perm_idx(p, a.len() as int) && b.len() == a.len() && forall|i: int| 0 <= i < b.len() ==> #[trigger] b[i] == a[p[i]];
    assert forall|i: int, j: int| 0 <= i < j < b.len() implies b[i] != b[j] by {
        assert(b[i] == a[p[i]] && b[j] == a[p[j]]);
        assert(p[i] != p[j]);
    }
}

// ---- the definitions behind the symbols --------------------------------------------------------------------------
/// the definitions of file p that get a symbol, in the order of syms_of_keys
pub open spec fn sym_defs_of(p: PV, ds: Seq<DefV>) -> Seq<DefV>
    decreases ds.len()
{
    if ds.len() == 0 { Seq::empty() } else {
        let rest = sym_defs_of(p, ds.drop_last());
        if sym_wanted(p, ds.last()) { rest.push(ds.last()) } else { rest }
    }
}
pub open spec fn sym_defs_of_keys(defs: Map<Seq<char>, Seq<DefV>>, p: PV, ks: Seq<Seq<char>>) -> Seq<DefV>
    decreases ks.len()
{
    if ks.len() == 0 { Seq::empty() } else { sym_defs_of_keys(defs, p, ks.drop_last()) + sym_defs_of(p, bucket(defs, ks.last())) }
}
pub open spec fn sym_for_fn() -> spec_fn(DefV) -> SymV { |d: DefV| sym_for(d) }
pub proof fn lemma_syms_of_defs_map(p: PV, ds: Seq<DefV>)
    ensures syms_of_defs(p, ds) =~= sym_defs_of(p, ds).map_values(sym_for_fn()),
        forall|k: int| 0 <= k < sym_defs_of(p, ds).len() ==> sym_wanted(p, #[trigger] sym_defs_of(p, ds)[k]) && ds.contains(sym_defs_of(p, ds)[k]),
        forall|i: int| 0 <= i < ds.len() && sym_wanted(p, #[trigger] ds[i]) ==> sym_defs_of(p, ds).contains(ds[i]),
    decreases ds.len()
{
    if ds.len() > 0 {
        let t = ds.drop_last();
        lemma_syms_of_defs_map(p, t);
        let sub = sym_defs_of(p, t);
        let all = sym_defs_of(p, ds);
        assert forall|k: int| 0 <= k < all.len() implies sym_wanted(p, #[trigger] all[k]) && ds.contains(all[k]) by {
            if k < sub.len() { assert(all[k] == sub[k]); let i = choose|i: int| 0 <= i < t.len() && t[i] == sub[k]; assert(ds[i] == sub[k]); }
            else { assert(all[k] == ds[ds.len() - 1]); }
        }
        assert forall|i: int| 0 <= i < ds.len() && sym_wanted(p, #[trigger] ds[i]) implies all.contains(ds[i]) by {
            if i < t.len() { assert(t[i] == ds[i]); let k = choose|k: int| 0 <= k < sub.len() && sub[k] == t[i]; assert(all[k] == ds[i]); }
            else { assert(all[all.len() - 1] == ds[i]); }
        }
        if sym_wanted(p, ds.last()) {
            assert(sub.push(ds.last()).map_values(sym_for_fn()) =~= sub.map_values(sym_for_fn()).push(sym_for(ds.last())));
        }
    }
}
pub proof fn lemma_syms_of_keys_map(defs: Map<Seq<char>, Seq<DefV>>, p: PV, ks: Seq<Seq<char>>)
    ensures syms_of_keys(defs, p, ks) =~= sym_defs_of_keys(defs, p, ks).map_values(sym_for_fn()),
        forall|k: int| 0 <= k < sym_defs_of_keys(defs, p, ks).len() ==> sym_wanted(p, #[trigger] sym_defs_of_keys(defs, p, ks)[k])
            && exists|n: Seq<char>| ks.contains(n) && #[trigger] bucket(defs, n).contains(sym_defs_of_keys(defs, p, ks)[k]),
    decreases ks.len()
{
    if ks.len() > 0 {
        let t = ks.drop_last();
        lemma_syms_of_keys_map(defs, p, t);
        lemma_syms_of_defs_map(p, bucket(defs, ks.last()));
        let a = sym_defs_of_keys(defs, p, t);
        let b = sym_defs_of(p, bucket(defs, ks.last()));
        assert((a + b).map_values(sym_for_fn()) =~= a.map_values(sym_for_fn()) + b.map_values(sym_for_fn()));
        let all = sym_defs_of_keys(defs, p, ks);
        assert forall|k: int| 0 <= k < all.len() implies sym_wanted(p, #[trigger] all[k])
            && exists|n: Seq<char>| ks.contains(n) && #[trigger] bucket(defs, n).contains(all[k]) by {
            if k < a.len() {
                assert(all[k] == a[k]);
                let n = choose|n: Seq<char>| t.contains(n) && #[trigger] bucket(defs, n).contains(a[k]);
                let i = choose|i: int| 0 <= i < t.len() && t[i] == n; assert(ks[i] == n);
                assert(ks.contains(n) && bucket(defs, n).contains(all[k]));
            } else {
                assert(all[k] == b[k - a.len()]);
                assert(ks[ks.len() - 1] == ks.last());
                assert(ks.contains(ks.last()) && bucket(defs, ks.last()).contains(all[k]));
            }
        }
    }
}

//@tags C15
/// C15 — "a symbol's selection range inside its full range" (TRUE since the fix of F-15b): for every fixture symbol,
/// both ranges are well-formed and the selection range (= the name span on the definition line, columns unchanged)
/// lies inside the full range — multi-line fixture: (L,0)-(E,0) with E > L; one-line fixture: (L,0)-(L,end_char).
/// Hypotheses, explicit: start_char <= end_char (unit visit), no truncation.
pub proof fn lemma_C15_symbol_selection_range_inside_range(d: DefV)
    requires 1 <= d.line, line_fits(d.line), line_fits(d.end_line), col_fits(d.start_char), col_fits(d.end_char), d.start_char <= d.end_char
    ensures ({
        let s = sym_for(d);
        &&& range_wf(s.range) && range_wf(s.selection_range) && range_inside(s.selection_range, s.range)
        &&& s.selection_range.start.line as int == d.line - 1 && s.selection_range.end.line == s.selection_range.start.line
        &&& s.selection_range.start.character as int == d.start_char && s.selection_range.end.character as int == d.end_char
        &&& s.range.start.line as int == d.line - 1 && s.range.start.character == 0
        &&& d.end_line > d.line ==> s.range.end.line as int == d.end_line - 1 && s.range.end.character == 0
    })
{}
//@tags C15
/// what the answer of documentSymbol consists of: exactly one symbol per definition REGISTERED for the file that is
/// not third party (whatever the hash order of the names), sorted by start line; nothing else
pub proof fn lemma_C15_document_symbols_are_the_files_fixtures(defs: Map<Seq<char>, Seq<DefV>>, uri: Uri, r: jsonrpc::Result<Option<DocumentSymbolResponse>>, n: Seq<char>, i: int, s: SymV)
    requires docsym_post(defs, uri, r), uri_path(uri) is Some,
    ensures
        // completeness
        (defs.contains_key(n) && 0 <= i < defs[n].len() && sym_wanted(uri_path(uri)->0, defs[n][i]))
            ==> docsym_list(r) is Some && (docsym_list(r)->0).contains(sym_for(defs[n][i])),
        // soundness: third-party fixtures and fixtures of other files never appear
        (docsym_list(r) is Some && (docsym_list(r)->0).contains(s))
            ==> exists|m: Seq<char>, j: int| defs.contains_key(m) && 0 <= j < defs[m].len() && s == sym_for(#[trigger] defs[m][j])
                && defs[m][j].file == uri_path(uri)->0 && !defs[m][j].is_third_party,
        docsym_list(r) is Some ==> sorted_by_start_line(docsym_list(r)->0) && (docsym_list(r)->0).len() > 0,
{
    let p = uri_path(uri)->0;
    let ks = choose|ks: Seq<Seq<char>>| enumerates_keys(ks, defs) && docsym_ok(#[trigger] syms_of_keys(defs, p, ks), r);
    let all = syms_of_keys(defs, p, ks);
    let dl = sym_defs_of_keys(defs, p, ks);
    lemma_syms_of_keys_map(defs, p, ks);
    if defs.contains_key(n) && 0 <= i < defs[n].len() && sym_wanted(p, defs[n][i]) {
        lemma_sym_defs_has(defs, p, ks, n, i);
        let k = choose|k: int| 0 <= k < dl.len() && dl[k] == defs[n][i];
        assert(all[k] == sym_for(defs[n][i]));
        assert(all.len() > 0);
        lemma_rearranges_same_elements(all, docsym_list(r)->0, sym_for(defs[n][i]));
    }
    if docsym_list(r) is Some && (docsym_list(r)->0).contains(s) {
        lemma_rearranges_same_elements(all, docsym_list(r)->0, s);
        let k = choose|k: int| 0 <= k < all.len() && all[k] == s;
        let m = choose|m: Seq<char>| ks.contains(m) && #[trigger] bucket(defs, m).contains(dl[k]);
        let j = choose|j: int| 0 <= j < bucket(defs, m).len() && bucket(defs, m)[j] == dl[k];
        assert(defs.contains_key(m) && s == sym_for(defs[m][j]));
    }
}
pub proof fn lemma_sym_defs_has(defs: Map<Seq<char>, Seq<DefV>>, p: PV, ks: Seq<Seq<char>>, n: Seq<char>, i: int)
    requires ks.contains(n) || enumerates_keys(ks, defs), defs.contains_key(n), 0 <= i < defs[n].len(), sym_wanted(p, defs[n][i])
    ensures sym_defs_of_keys(defs, p, ks).contains(defs[n][i])
    decreases ks.len()
{
    assert(ks.contains(n));
    let all = sym_defs_of_keys(defs, p, ks);
    let head = sym_defs_of_keys(defs, p, ks.drop_last());
    let tail = sym_defs_of(p, bucket(defs, ks.last()));
    if ks.last() == n {
        lemma_syms_of_defs_map(p, defs[n]);
        let k = choose|k: int| 0 <= k < tail.len() && tail[k] == defs[n][i];
        assert(all[head.len() + k] == defs[n][i]);
    } else {
        let j = choose|j: int| 0 <= j < ks.len() && ks[j] == n;
        assert(ks.drop_last()[j] == n);
        lemma_sym_defs_has(defs, p, ks.drop_last(), n, i);
        let k = choose|k: int| 0 <= k < head.len() && head[k] == defs[n][i];
        assert(all[k] == defs[n][i]);
    }
}
//@tags C15
/// "Result lists contain no duplicate entries", documentSymbol: IF the definitions that get a symbol sit on pairwise
/// different lines (what W4 `unique_at_line` + "no definition is registered twice" mean for ONE file) and nothing is
/// truncated, the symbols are pairwise different — and so is any rearrangement of them (the sorted answer)
pub open spec fn pairwise_different_lines(dl: Seq<DefV>) -> bool {
    forall|a: int, b: int| 0 <= a < b < dl.len() ==> (#[trigger] dl[a]).line != (#[trigger] dl[b]).line
}
pub proof fn lemma_C15_document_symbols_no_duplicates(defs: Map<Seq<char>, Seq<DefV>>, p: PV, ks: Seq<Seq<char>>, answer: Seq<SymV>)
    requires rearranges(syms_of_keys(defs, p, ks), answer), pairwise_different_lines(sym_defs_of_keys(defs, p, ks)),
        forall|k: int| 0 <= k < sym_defs_of_keys(defs, p, ks).len() ==> 1 <= (#[trigger] sym_defs_of_keys(defs, p, ks)[k]).line && line_fits(sym_defs_of_keys(defs, p, ks)[k].line),
    ensures answer.no_duplicates()
{
    let dl = sym_defs_of_keys(defs, p, ks);
    let all = syms_of_keys(defs, p, ks);
    lemma_syms_of_keys_map(defs, p, ks);
    assert forall|a: int, b: int| 0 <= a < b < all.len() implies all[a] != all[b] by {
        assert(all[a] == sym_for(dl[a]) && all[b] == sym_for(dl[b]));
        assert(dl[a].line != dl[b].line);
        assert(all[a].selection_range.start.line != all[b].selection_range.start.line);
    }
    lemma_rearranges_no_duplicates(all, answer);
}

//@tags C15
/// workspace/symbol: every symbol points at the NAME span of its definition (columns unchanged, well-formed iff
/// start_char <= end_char) in the document path_uri gives for the definition's file; third-party fixtures never match
pub proof fn lemma_C15_workspace_symbol_location_is_name_span(uc: UriCache, q: Seq<char>, d: DefV)
    requires ws_for(uc, d) is Some, 1 <= d.line, line_fits(d.line), col_fits(d.start_char), col_fits(d.end_char)
    ensures ({
        let s = ws_for(uc, d)->0;
        &&& s.name == d.name && s.location.uri == path_uri(uc, d.file)->0
        &&& s.location.range.start.line as int == d.line - 1 && s.location.range.end.line == s.location.range.start.line
        &&& s.location.range.start.character as int == d.start_char && s.location.range.end.character as int == d.end_char
        &&& range_wf(s.location.range) <==> d.start_char <= d.end_char
        &&& ws_matches(q, d) ==> !d.is_third_party
    })
{}
pub proof fn lemma_ws_of_defs_sound(uc: UriCache, q: Seq<char>, ds: Seq<DefV>, k: int)
    requires 0 <= k < ws_of_defs(uc, q, ds).len()
    ensures exists|i: int| 0 <= i < ds.len() && ws_matches(q, #[trigger] ds[i]) && ws_for(uc, ds[i]) == Some(ws_of_defs(uc, q, ds)[k])
    decreases ds.len()
{
    let t = ds.drop_last();
    let sub = ws_of_defs(uc, q, t);
    if k < sub.len() {
        lemma_ws_of_defs_sound(uc, q, t, k);
        let i = choose|i: int| 0 <= i < t.len() && ws_matches(q, #[trigger] t[i]) && ws_for(uc, t[i]) == Some(sub[k]);
        assert(ds[i] == t[i]);
    } else {
        assert(ds[ds.len() - 1] == ds.last());
    }
}
//@tags C15
/// workspace/symbol answers contain only matching, non-third-party fixtures that are registered, sorted by name
pub proof fn lemma_C15_workspace_symbols_sound(defs: Map<Seq<char>, Seq<DefV>>, uc: UriCache, q: Seq<char>, ks: Seq<Seq<char>>, k: int)
    requires 0 <= k < ws_of_keys(defs, uc, q, ks).len()
    ensures exists|n: Seq<char>, i: int| ks.contains(n) && 0 <= i < bucket(defs, n).len() && ws_matches(q, #[trigger] bucket(defs, n)[i])
        && !bucket(defs, n)[i].is_third_party && ws_for(uc, bucket(defs, n)[i]) == Some(ws_of_keys(defs, uc, q, ks)[k])
    decreases ks.len()
{
    let t = ks.drop_last();
    let a = ws_of_keys(defs, uc, q, t);
    let b = ws_of_defs(uc, q, bucket(defs, ks.last()));
    if k < a.len() {
        lemma_C15_workspace_symbols_sound(defs, uc, q, t, k);
        let (n, i) = choose|n: Seq<char>, i: int| t.contains(n) && 0 <= i < bucket(defs, n).len() && ws_matches(q, #[trigger] bucket(defs, n)[i])
            && !bucket(defs, n)[i].is_third_party && ws_for(uc, bucket(defs, n)[i]) == Some(a[k]);
        let j = choose|j: int| 0 <= j < t.len() && t[j] == n; assert(ks[j] == n);
        assert(ks.contains(n) && ws_for(uc, bucket(defs, n)[i]) == Some(ws_of_keys(defs, uc, q, ks)[k]));
    } else {
        lemma_ws_of_defs_sound(uc, q, bucket(defs, ks.last()), k - a.len());
        let i = choose|i: int| 0 <= i < bucket(defs, ks.last()).len() && ws_matches(q, #[trigger] bucket(defs, ks.last())[i])
            && ws_for(uc, bucket(defs, ks.last())[i]) == Some(b[k - a.len()]);
        assert(ks[ks.len() - 1] == ks.last());
        assert(ks.contains(ks.last()));
    }
}

// ---- vacuity guards: each of these must FAIL -------------------------------------------------------------------
/// the full range ends on the line AFTER the fixture's last line
proof fn canary_symbol_range_ends_after_last_line(d: DefV)
    requires 1 <= d.line < d.end_line, line_fits(d.line), line_fits(d.end_line)
    ensures sym_for(d).range.end.line as int == d.end_line
{}
/// the selection range is well-formed without the span hypothesis (containment itself does not need it)
proof fn canary_symbol_selection_wf_without_span_wf(d: DefV)
    requires 1 <= d.line, line_fits(d.line), line_fits(d.end_line), col_fits(d.start_char), col_fits(d.end_char)
    ensures range_wf(sym_for(d).selection_range)
{}
/// the old behaviour (F-15b): a one-line fixture's range is the empty range at column 0
proof fn canary_symbol_one_line_range_is_point(d: DefV)
    requires 1 <= d.line, d.end_line == d.line, line_fits(d.line), col_fits(d.end_char)
    ensures sym_for(d).range == point_range(lsp_line(d.line), 0)
{}
/// third-party fixtures get document symbols
proof fn canary_document_symbols_include_third_party(p: PV, d: DefV)
    requires d.file == p
    ensures syms_of_defs(p, seq![d]).len() == 1
{
    assert(seq![d].drop_last() =~= Seq::<DefV>::empty());
}
/// workspace symbols include third-party fixtures for the empty query
proof fn canary_workspace_symbols_include_third_party(uc: UriCache, d: DefV)
    requires ws_for(uc, d) is Some
    ensures ws_of_defs(uc, Seq::empty(), seq![d]).len() == 1
{
    assert(seq![d].drop_last() =~= Seq::<DefV>::empty());
}
/// document symbols have no duplicates without the pairwise-different-lines hypothesis
proof fn canary_document_symbols_no_duplicates_unconditionally(defs: Map<Seq<char>, Seq<DefV>>, p: PV, ks: Seq<Seq<char>>)
    ensures syms_of_keys(defs, p, ks).no_duplicates()
{
    lemma_syms_of_keys_map(defs, p, ks);
}
