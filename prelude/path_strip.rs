// ---------------------------------------------------------------------------------------------
// std::path::Path::strip_prefix and Result::unwrap_or: assumed specifications (trusted base A3), the same statements
// as P5 / R1 of prelude/scansel_shims.rs, for units that need nothing else from that file.
#[verifier::external_type_specification] #[verifier::external_body] pub struct ExStripPrefixError(std::path::StripPrefixError);
/// `path.strip_prefix(base)`: Ok(the components after base's) iff base's components are a prefix (std compares whole
/// components)
#[verifier::allow(undeclared_external_trait)]
pub assume_specification<'a, P: AsRef<Path>>[ Path::strip_prefix::<P> ](p: &'a Path, base: P) -> (r: Result<&'a Path, std::path::StripPrefixError>)
    ensures match r {
        Ok(s) => pv_is_prefix(as_path_view(base), pv(p)) && pv(s) == pv(p).skip(as_path_view(base).len() as int),
        Err(_) => !pv_is_prefix(as_path_view(base), pv(p)) };
/// `r.unwrap_or(d)`
pub assume_specification<T, E>[ Result::<T, E>::unwrap_or ](r: Result<T, E>, d: T) -> (o: T)
    where E: core::marker::Destruct, T: core::marker::Destruct
    ensures o == (match r { Ok(t) => t, Err(_) => d });
