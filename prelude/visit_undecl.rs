// ---------------------------------------------------------------------------------------------
// WHAT visit_stmt (src/fixtures/analyzer.rs) makes the undeclared-fixture scanner record for ONE statement of a file:
// the findings pushed onto undeclared_fixtures[file], in order, as a function of the statement, the text, the line
// index, the definitions map the visitor STARTS from and the file's module-level names (`imports[file]`).
// Mirrors the visitor's recursion and the ORDER of its writes:
//   * def / async def:  if it carries a fixture decorator its definition is recorded FIRST (record_fixture_definition),
//     then its body is scanned with declared = {self, request, its own name, its parameters}; if its name starts
//     with `test` its body is scanned (again, when it is both) with declared = {self, request, its parameters}.
//     Both scans read the definitions map AFTER the function's own definition (if any) was recorded.
//   * class:            the members in order; the scan of a later member reads the definitions the earlier members
//     recorded (body_defs of the prefix pushed onto the map the class started from)
//   * everything else (assignment-style fixtures, pytestmark assignments, any other statement): no scan.
// scan_fn is the scanner's own specification (prelude/undecl_spec.rs, PROVED for the real scanner in unit
// undeclared_scan); availability is read from the definitions map only (op_is_available, unit undeclared_avail).
// Pure specification + fold lemmas, no assumption.
// Needs prelude/visit_spec.rs (FnV, fn_view, first_fix, func_defs, visit_defs / body_defs, declared_*),
// prelude/analyze_spec.rs (push_defs), prelude/undecl_avail_spec.rs + undecl_spec.rs (UndV, scan_fn, push_undecl, undecl_view).

/// the FIXTURE scan of one function (empty unless it carries a fixture decorator): declared = {self, request, the
/// function's own name, its parameters}; the definitions map read is defs0 WITH the function's own definition pushed
/// (record_fixture_definition runs before the scan).  Opaque: the callers reason with the lemmas below.
#[verifier::opaque]
pub open spec fn fix_scan(v: FnV, file: PV, src: Seq<char>, li: Seq<usize>, defs0: Map<Seq<char>, Seq<DefV>>, imps: Set<Seq<char>>) -> Seq<UndV> {
    if first_fix(v.decos, 0) is Some {
        scan_fn(v.body, file, li, declared_fixture(v.name, v.args), v.name, vline(li, r_start(v.range)), push_defs(defs0, func_defs(v, file, src, li)), imps)
    } else { Seq::<UndV>::empty() }
}
/// the TEST scan of one function (empty unless its name starts with `test`): declared = {self, request, its parameters};
/// the same definitions map (a fixture-decorated `test_x` is scanned twice, the second time with its own definition
/// already recorded)
#[verifier::opaque]
pub open spec fn test_scan(v: FnV, file: PV, src: Seq<char>, li: Seq<usize>, defs0: Map<Seq<char>, Seq<DefV>>, imps: Set<Seq<char>>) -> Seq<UndV> {
    if is_test_name(v.name) {
        scan_fn(v.body, file, li, declared_test(v.args), v.name, vline(li, r_start(v.range)), push_defs(defs0, func_defs(v, file, src, li)), imps)
    } else { Seq::<UndV>::empty() }
}
/// the scans of one function, in order (fixture scan, then test scan); `defs0` = definitions map before the statement
pub open spec fn func_undecl(v: FnV, file: PV, src: Seq<char>, li: Seq<usize>, defs0: Map<Seq<char>, Seq<DefV>>, imps: Set<Seq<char>>) -> Seq<UndV> {
    fix_scan(v, file, src, li, defs0, imps) + test_scan(v, file, src, li, defs0, imps)
}
/// findings visit_stmt records for one statement
pub open spec fn visit_undecl(s: Stmt, file: PV, src: Seq<char>, li: Seq<usize>, defs0: Map<Seq<char>, Seq<DefV>>, imps: Set<Seq<char>>) -> Seq<UndV>
    decreases s, 0int
{
    match s {
        Stmt::ClassDef(c) => body_undecl(c.body@, c.body@.len() as int, file, src, li, defs0, imps),
        Stmt::FunctionDef(_) => func_undecl(fn_view(s)->0, file, src, li, defs0, imps),
        Stmt::AsyncFunctionDef(_) => func_undecl(fn_view(s)->0, file, src, li, defs0, imps),
        _ => Seq::empty(),
    }
}
/// ... for the first n statements of a class body: statement k is visited on the map the first k statements left
pub open spec fn body_undecl(b: Seq<Stmt>, n: int, file: PV, src: Seq<char>, li: Seq<usize>, defs0: Map<Seq<char>, Seq<DefV>>, imps: Set<Seq<char>>) -> Seq<UndV>
    decreases b, n
{
    if n <= 0 || n > b.len() { Seq::empty() } else {
        body_undecl(b, n - 1, file, src, li, defs0, imps)
            + visit_undecl(b[n - 1], file, src, li, push_defs(defs0, body_defs(b, n - 1, file, src, li)), imps)
    }
}

// ---- "undeclared_fixtures moved from m0 to m1 by pushing xs onto the list of f" (on the views; the frame for the
// other files' stored lists is undecl_frame of prelude/visit_dbspecs_v2.rs) ---------------------------------------
#[verifier::opaque]
pub open spec fn uv_rel(m0: Map<PV, Vec<UndeclaredFixture>>, m1: Map<PV, Vec<UndeclaredFixture>>, f: PV, xs: Seq<UndV>) -> bool {
    undecl_view(m1) == push_undecl(undecl_view(m0), f, xs)
}
pub proof fn lemma_uv_refl(m0: Map<PV, Vec<UndeclaredFixture>>, f: PV)
    ensures uv_rel(m0, m0, f, Seq::empty()),
{
    reveal(uv_rel);
}
/// one more batch of findings (a scan, or a recursive visit): its proved postcondition is the second hypothesis
pub proof fn lemma_uv_step(m0: Map<PV, Vec<UndeclaredFixture>>, m1: Map<PV, Vec<UndeclaredFixture>>, m2: Map<PV, Vec<UndeclaredFixture>>, f: PV, xs: Seq<UndV>, ys: Seq<UndV>)
    requires uv_rel(m0, m1, f, xs), undecl_view(m2) == push_undecl(undecl_view(m1), f, ys),
    ensures uv_rel(m0, m2, f, xs + ys),
{
    reveal(uv_rel);
    lemma_push_undecl_concat(undecl_view(m0), f, xs, ys);
}
pub proof fn lemma_uv_trans(m0: Map<PV, Vec<UndeclaredFixture>>, m1: Map<PV, Vec<UndeclaredFixture>>, m2: Map<PV, Vec<UndeclaredFixture>>, f: PV, xs: Seq<UndV>, ys: Seq<UndV>)
    requires uv_rel(m0, m1, f, xs), uv_rel(m1, m2, f, ys),
    ensures uv_rel(m0, m2, f, xs + ys),
{
    reveal(uv_rel);
    lemma_push_undecl_concat(undecl_view(m0), f, xs, ys);
}
pub proof fn lemma_uv_open(m0: Map<PV, Vec<UndeclaredFixture>>, m1: Map<PV, Vec<UndeclaredFixture>>, f: PV, xs: Seq<UndV>)
    requires uv_rel(m0, m1, f, xs),
    ensures undecl_view(m1) == push_undecl(undecl_view(m0), f, xs),
{
    reveal(uv_rel);
}

pub proof fn lemma_fix_scan_none(v: FnV, file: PV, src: Seq<char>, li: Seq<usize>, defs0: Map<Seq<char>, Seq<DefV>>, imps: Set<Seq<char>>)
    requires first_fix(v.decos, 0) is None,
    ensures fix_scan(v, file, src, li, defs0, imps) == Seq::<UndV>::empty(),
{
    reveal(fix_scan);
}
pub proof fn lemma_test_scan_none(v: FnV, file: PV, src: Seq<char>, li: Seq<usize>, defs0: Map<Seq<char>, Seq<DefV>>, imps: Set<Seq<char>>)
    requires !is_test_name(v.name),
    ensures test_scan(v, file, src, li, defs0, imps) == Seq::<UndV>::empty(),
{
    reveal(test_scan);
}
/// the fixture scan site of visit_stmt: the second hypothesis is, term for term, the postcondition PROVED for
/// scan_function_body_for_undeclared_fixtures (unit undeclared_scan); the third line says what the visitor passed
pub proof fn lemma_uv_fix_scan(m0: Map<PV, Vec<UndeclaredFixture>>, m1: Map<PV, Vec<UndeclaredFixture>>, m2: Map<PV, Vec<UndeclaredFixture>>, f: PV, xs: Seq<UndV>,
        v: FnV, src: Seq<char>, li: Seq<usize>, defs0: Map<Seq<char>, Seq<DefV>>, imps: Set<Seq<char>>,
        body: Seq<Stmt>, declared: Set<Seq<char>>, fname: Seq<char>, fline: usize, defs1: Map<Seq<char>, Seq<DefV>>, imps1: Set<Seq<char>>)
    requires uv_rel(m0, m1, f, xs),
        undecl_view(m2) == push_undecl(undecl_view(m1), f, scan_fn(body, f, li, declared, fname, fline, defs1, imps1)),
        first_fix(v.decos, 0) is Some, body == v.body, declared == declared_fixture(v.name, v.args), fname == v.name,
        fline == vline(li, r_start(v.range)), defs1 == push_defs(defs0, func_defs(v, f, src, li)), imps1 == imps,
    ensures uv_rel(m0, m2, f, xs + fix_scan(v, f, src, li, defs0, imps)),
{
    reveal(fix_scan);
    lemma_uv_step(m0, m1, m2, f, xs, fix_scan(v, f, src, li, defs0, imps));
}
/// the test scan site
pub proof fn lemma_uv_test_scan(m0: Map<PV, Vec<UndeclaredFixture>>, m1: Map<PV, Vec<UndeclaredFixture>>, m2: Map<PV, Vec<UndeclaredFixture>>, f: PV, xs: Seq<UndV>,
        v: FnV, src: Seq<char>, li: Seq<usize>, defs0: Map<Seq<char>, Seq<DefV>>, imps: Set<Seq<char>>,
        body: Seq<Stmt>, declared: Set<Seq<char>>, fname: Seq<char>, fline: usize, defs1: Map<Seq<char>, Seq<DefV>>, imps1: Set<Seq<char>>)
    requires uv_rel(m0, m1, f, xs),
        undecl_view(m2) == push_undecl(undecl_view(m1), f, scan_fn(body, f, li, declared, fname, fline, defs1, imps1)),
        is_test_name(v.name), body == v.body, declared == declared_test(v.args), fname == v.name,
        fline == vline(li, r_start(v.range)), defs1 == push_defs(defs0, func_defs(v, f, src, li)), imps1 == imps,
    ensures uv_rel(m0, m2, f, xs + test_scan(v, f, src, li, defs0, imps)),
{
    reveal(test_scan);
    lemma_uv_step(m0, m1, m2, f, xs, test_scan(v, f, src, li, defs0, imps));
}

// ---- L2 over visit_undecl -----------------------------------------------------------------------------------------
/// a statement that is neither a class nor a (sync / async) function records no finding
pub proof fn lemma_visit_undecl_other(s: Stmt, file: PV, src: Seq<char>, li: Seq<usize>, defs0: Map<Seq<char>, Seq<DefV>>, imps: Set<Seq<char>>)
    requires fn_view(s) is None, (match s { Stmt::ClassDef(_) => false, _ => true }),
    ensures visit_undecl(s, file, src, li, defs0, imps).len() == 0,
{}
/// sync and async functions are scanned alike: the findings depend on the statement through fn_view only
pub proof fn lemma_visit_undecl_async_same(a: Stmt, b: Stmt, file: PV, src: Seq<char>, li: Seq<usize>, defs0: Map<Seq<char>, Seq<DefV>>, imps: Set<Seq<char>>)
    requires fn_view(a) is Some, fn_view(a) == fn_view(b),
    ensures visit_undecl(a, file, src, li, defs0, imps) == visit_undecl(b, file, src, li, defs0, imps),
{}
/// a fixture's own definition is in the map its body is scanned against (recorded BEFORE the scan): the scan reads
/// push_defs(defs0, [its definition]), so bucket(.., its fixture name) is non-empty
pub proof fn lemma_fixture_scanned_after_own_definition(v: FnV, file: PV, src: Seq<char>, li: Seq<usize>, defs0: Map<Seq<char>, Seq<DefV>>, imps: Set<Seq<char>>)
    requires first_fix(v.decos, 0) is Some, !is_test_name(v.name),
    ensures ({
        let d = fixture_def(v, v.decos[first_fix(v.decos, 0)->0], file, src, li);
        let d1 = defs0.insert(d.name, bucket(defs0, d.name).push(d));
        &&& func_undecl(v, file, src, li, defs0, imps)
                == scan_fn(v.body, file, li, declared_fixture(v.name, v.args), v.name, vline(li, r_start(v.range)), d1, imps)
        &&& bucket(d1, d.name).len() > 0 && bucket(d1, d.name).last() == d
    }),
{
    reveal(fix_scan); reveal(test_scan);
    let d = fixture_def(v, v.decos[first_fix(v.decos, 0)->0], file, src, li);
    let ds = seq![d];
    assert(func_defs(v, file, src, li) == ds);
    assert(ds.drop_last() =~= Seq::<DefV>::empty());
    assert(push_defs(defs0, ds.drop_last()) == defs0);
    assert(push_defs(defs0, ds) == defs0.insert(d.name, bucket(defs0, d.name).push(d)));
    let x = scan_fn(v.body, file, li, declared_fixture(v.name, v.args), v.name, vline(li, r_start(v.range)), push_defs(defs0, ds), imps);
    assert(x + Seq::<UndV>::empty() =~= x);
}
/// a function that is neither a fixture nor a test is not scanned at all
pub proof fn lemma_plain_function_not_scanned(v: FnV, file: PV, src: Seq<char>, li: Seq<usize>, defs0: Map<Seq<char>, Seq<DefV>>, imps: Set<Seq<char>>)
    requires first_fix(v.decos, 0) is None, !is_test_name(v.name),
    ensures func_undecl(v, file, src, li, defs0, imps).len() == 0,
{
    reveal(fix_scan); reveal(test_scan);
}
/// a fixture-decorated `test_x` is scanned TWICE (fixture scan, then test scan): that is what the code does
pub proof fn lemma_fixture_test_scanned_twice(v: FnV, file: PV, src: Seq<char>, li: Seq<usize>, defs0: Map<Seq<char>, Seq<DefV>>, imps: Set<Seq<char>>)
    requires first_fix(v.decos, 0) is Some, is_test_name(v.name),
    ensures ({
        let d1 = push_defs(defs0, func_defs(v, file, src, li));
        let fline = vline(li, r_start(v.range));
        func_undecl(v, file, src, li, defs0, imps)
            == scan_fn(v.body, file, li, declared_fixture(v.name, v.args), v.name, fline, d1, imps)
             + scan_fn(v.body, file, li, declared_test(v.args), v.name, fline, d1, imps)
    }),
{
    reveal(fix_scan); reveal(test_scan);
}

// ---- vacuity guards: each of these must FAIL ------------------------------------------------------------------------
/// "async functions are not scanned"
pub proof fn canary_async_function_not_scanned(s: Stmt, file: PV, src: Seq<char>, li: Seq<usize>, defs0: Map<Seq<char>, Seq<DefV>>, imps: Set<Seq<char>>)
    requires (match s { Stmt::AsyncFunctionDef(_) => true, _ => false }),
    ensures visit_undecl(s, file, src, li, defs0, imps).len() == 0,
{
    reveal(fix_scan); reveal(test_scan);
}
/// "a test function is scanned against the map the statement started from even when it is a fixture too" (the own
/// definition would be missing)
pub proof fn canary_scan_reads_start_map(v: FnV, file: PV, src: Seq<char>, li: Seq<usize>, defs0: Map<Seq<char>, Seq<DefV>>, imps: Set<Seq<char>>)
    requires first_fix(v.decos, 0) is Some, !is_test_name(v.name),
    ensures func_undecl(v, file, src, li, defs0, imps)
        == scan_fn(v.body, file, li, declared_fixture(v.name, v.args), v.name, vline(li, r_start(v.range)), defs0, imps),
{
    reveal(fix_scan); reveal(test_scan);
    let x = scan_fn(v.body, file, li, declared_fixture(v.name, v.args), v.name, vline(li, r_start(v.range)), push_defs(defs0, func_defs(v, file, src, li)), imps);
    assert(x + Seq::<UndV>::empty() =~= x);
}
/// "uv_rel says nothing" (any two maps are related)
pub proof fn canary_uv_rel_trivial(m0: Map<PV, Vec<UndeclaredFixture>>, m1: Map<PV, Vec<UndeclaredFixture>>, f: PV)
    ensures uv_rel(m0, m1, f, Seq::empty()),
{
    reveal(uv_rel);
}
/// "a test function's findings are recorded twice" (mutant m5's behaviour is NOT what the spec says)
pub proof fn canary_test_function_scanned_twice(v: FnV, file: PV, src: Seq<char>, li: Seq<usize>, defs0: Map<Seq<char>, Seq<DefV>>, imps: Set<Seq<char>>)
    requires first_fix(v.decos, 0) is None, is_test_name(v.name),
    ensures func_undecl(v, file, src, li, defs0, imps)
        == scan_fn(v.body, file, li, declared_test(v.args), v.name, vline(li, r_start(v.range)), defs0, imps)
         + scan_fn(v.body, file, li, declared_test(v.args), v.name, vline(li, r_start(v.range)), defs0, imps),
{
    reveal(fix_scan); reveal(test_scan);
}
