// ---------------------------------------------------------------------------------------------
// Unit cli_tree: L2 — what the operational specification of `fixtures list` (prelude/clitree_spec.rs,
// clitree_list_spec.rs) says in the terms of properties C20 / C04.  PROVED lemmas + vacuity guards (canary_*, must
// FAIL).  Needs cli_spec.rs, cli_l2.rs, clitree_list_spec.rs, clitree_list_l1.rs.

// ---- the lines printed under one file ------------------------------------------------------------------------------------
pub proof fn lemma_str_less_ne(a: Seq<char>, b: Seq<char>)
    requires str_ord(a, b) is Less
    ensures a != b
{
    axiom_str_ord_total();
    assert((str_ord_fn()(a, b) is Equal) <==> a == b);
}
/// membership in the filter of a sequence
pub proof fn lemma_filter_contains<A>(s: Seq<A>, p: spec_fn(A) -> bool, x: A)
    ensures s.filter(p).contains(x) <==> (s.contains(x) && p(x))
    decreases s.len()
{
    reveal(Seq::filter);
    if s.len() > 0 {
        let t = s.drop_last();
        lemma_filter_contains(t, p, x);
        if s.filter(p).contains(x) {
            let i = choose|i: int| 0 <= i < s.filter(p).len() && s.filter(p)[i] == x;
            lemma_filter_sat(s, p, i);
        }
        if s.contains(x) && p(x) {
            let k = choose|k: int| 0 <= k < s.len() && s[k] == x;
            if k < t.len() {
                assert(t[k] == x); assert(t.contains(x));
                let i = choose|i: int| 0 <= i < t.filter(p).len() && t.filter(p)[i] == x;
                assert(s.filter(p)[i] == x);
            } else {
                assert(s.last() == x);
                assert(s.filter(p) == t.filter(p).push(x));
                assert(s.filter(p)[t.filter(p).len() as int] == x);
            }
        }
    } else {
        assert(s.filter(p) =~= Seq::<A>::empty());
    }
}
/// the filter of a strictly ascending sequence of names is strictly ascending
pub proof fn lemma_filter_ascending_str(s: Seq<Seq<char>>, p: spec_fn(Seq<char>) -> bool)
    requires forall|i: int, j: int| 0 <= i < j < s.len() ==> str_ord(#[trigger] s[i], #[trigger] s[j]) is Less,
    ensures forall|i: int, j: int| 0 <= i < j < s.filter(p).len() ==> str_ord(#[trigger] s.filter(p)[i], #[trigger] s.filter(p)[j]) is Less,
    decreases s.len()
{
    reveal(Seq::filter);
    if s.len() > 0 {
        let t = s.drop_last();
        assert forall|i: int, j: int| 0 <= i < j < t.len() implies str_ord(#[trigger] t[i], #[trigger] t[j]) is Less by { assert(t[i] == s[i] && t[j] == s[j]); }
        lemma_filter_ascending_str(t, p);
        let f = s.filter(p);
        assert forall|i: int, j: int| 0 <= i < j < f.len() implies str_ord(#[trigger] f[i], #[trigger] f[j]) is Less by {
            if j < t.filter(p).len() { } else {
                lemma_filter_sat(t, p, i);
                let k = choose|k: int| 0 <= k < t.len() && t[k] == t.filter(p)[i];
                assert(str_ord(s[k], s[s.len() - 1]) is Less);
            }
        }
    }
}
//@tags C20 C04
/// C20 (`fixtures list`, one file): under file f the names printed are EXACTLY the names registered for f that pass the
/// flag filter, each ONCE, in ascending name order (a function of the set: no hash order left); the j-th line shows the
/// count looked up for (f, name) and the `unused` text exactly when that count is 0 and (f, name) is not an autouse key
pub proof fn lemma_C20_file_lines(ctx: Ctx, f: PV)
    requires ctx.ff.contains_key(f)
    ensures
        forall|n: Seq<char>| #[trigger] kept(ctx, f).contains(n) <==> (ctx.ff[f].contains(n) && keep(ctx, f, n)),
        kept(ctx, f).no_duplicates(),
        forall|i: int, j: int| 0 <= i < j < kept(ctx, f).len() ==> str_ord(#[trigger] kept(ctx, f)[i], #[trigger] kept(ctx, f)[j]) is Less,
        forall|j: int, pre: Seq<char>| 0 <= j < kept(ctx, f).len() ==> #[trigger] fixture_ev(ctx, f, pre, kept(ctx, f), j) == (Ev::Fixture {
            prefix: pre, connector: item_connector(j == kept(ctx, f).len() - 1),
            display: fix_display(kept(ctx, f)[j], cnt_of(ctx.cm, f, kept(ctx, f)[j]), ctx.au.contains((f, kept(ctx, f)[j]))),
            info: fix_info(cnt_of(ctx.cm, f, kept(ctx, f)[j]), ctx.au.contains((f, kept(ctx, f)[j]))) }),
        forall|c: usize, a: bool| (#[trigger] fix_info(c, a) == unused_text()) <== (c == 0 && !a),
{
    let s = sorted_strs(ctx.ff[f]);
    let p = keep_fn(ctx, f);
    axiom_sorted_strs(ctx.ff[f]);
    lemma_filter_ascending_str(s, p);
    assert forall|n: Seq<char>| #[trigger] kept(ctx, f).contains(n) <==> (ctx.ff[f].contains(n) && keep(ctx, f, n)) by {
        lemma_filter_contains(s, p, n);
        if s.contains(n) { let i = choose|i: int| 0 <= i < s.len() && s[i] == n; assert(ctx.ff[f].contains(s[i])); }
        if ctx.ff[f].contains(n) { let i = choose|i: int| 0 <= i < s.len() && #[trigger] s[i] == n; assert(s.contains(n)); }
    }
    let k = kept(ctx, f);
    assert forall|i: int, j: int| 0 <= i < k.len() && 0 <= j < k.len() && i != j implies k[i] != k[j] by {
        if i < j { lemma_str_less_ne(k[i], k[j]); } else { lemma_str_less_ne(k[j], k[i]); }
    }
}
//@tags C20
/// C20 "its filters partition the fixtures": without flags every name of the file is listed; with --skip-unused and with
/// --only-unused each name is listed by exactly one of the two; when both flags are given --only-unused wins
pub proof fn lemma_C20_filters_partition(ctx: Ctx, f: PV, n: Seq<char>)
    ensures
        keep(Ctx { skip: false, only: false, ..ctx }, f, n),
        keep(Ctx { skip: true, only: false, ..ctx }, f, n) != keep(Ctx { skip: false, only: true, ..ctx }, f, n),
        keep(Ctx { skip: true, only: true, ..ctx }, f, n) == keep(Ctx { skip: false, only: true, ..ctx }, f, n),
        keep(Ctx { skip: false, only: true, ..ctx }, f, n) <==> (cnt_of(ctx.cm, f, n) == 0 && !ctx.au.contains((f, n))),
{}

// ---- the counts shown are the counts of compute_definition_usage_counts = the server's reference counts ----------------
/// no file is re-labelled: no install outside the workspace has a listed file below its source root
pub open spec fn no_relabel(li: ListIn) -> bool {
    forall|i: int, k: int| 0 <= i < li.insts.len() && 0 <= k < op_keys0(li).len() ==> overlaps(#[trigger] li.insts[i], li.ws) || !pv_is_prefix(li.insts[i].src, #[trigger] op_keys0(li)[k])
}
pub proof fn lemma_filter_none<A>(s: Seq<A>, p: spec_fn(A) -> bool)
    requires forall|i: int| 0 <= i < s.len() ==> !p(#[trigger] s[i]),
    ensures s.filter(p) =~= Seq::<A>::empty(),
    decreases s.len()
{
    reveal(Seq::filter);
    if s.len() > 0 {
        let t = s.drop_last();
        assert forall|i: int| 0 <= i < t.len() implies !p(#[trigger] t[i]) by { assert(t[i] == s[i]); }
        lemma_filter_none(t, p);
        assert(!p(s[s.len() - 1]));
    }
}
pub proof fn lemma_no_relabel_upto(li: ListIn, n: int)
    requires no_relabel(li), 0 <= n <= li.insts.len()
    ensures op_remapped(li.insts, li.ws, op_keys0(li), n) =~= Seq::<(PV, PV)>::empty(), op_dirs(li.insts, li.ws, op_keys0(li), n) =~= Set::<PV>::empty()
    decreases n
{
    if n > 0 {
        lemma_no_relabel_upto(li, n - 1);
        let i = li.insts[n - 1];
        if !overlaps(i, li.ws) {
            assert forall|k: int| 0 <= k < op_keys0(li).len() implies !under_fn(i.src)(#[trigger] op_keys0(li)[k]) by { }
            lemma_filter_none(op_keys0(li), under_fn(i.src));
        }
    }
}
//@tags C20 C04
/// C20 / C04 — when no file is re-labelled (no editable install outside the workspace: every ordinary project), whatever
/// order the hash tables are enumerated in: the tables handed to the printer are the ones built from the definitions, and
/// the count looked up for a listed (file, name) is the count compute_definition_usage_counts returns for that key
/// (unit cli_unused: == total_hits == the number of recorded usages named `name` that resolve to a definition in `file`)
pub proof fn lemma_C20_counts_shown_are_usage_counts(li: ListIn, kss: Seq<Seq<CKey>>, akss: Seq<Seq<CKey>>, defs: Map<Seq<char>, Seq<DefV>>, uses: Map<PV, Seq<UseV>>,
        provf: spec_fn(Seq<char>) -> spec_fn(PV) -> bool, f: PV, n: Seq<char>)
    requires no_relabel(li), counts_post(li.cm0, defs, uses, provf), is_ff0(li.ff0, defs), is_au0(li.au0, defs),
    ensures
        op_rv(li).len() == 0, op_dirs_all(li) =~= Set::<PV>::empty(),
        op_ff(li) == li.ff0, op_cm(li, kss) == li.cm0, op_au(li, akss) == li.au0,
        cnt_of(op_cm(li, kss), f, n) as nat == total_hits(defs, uses, provf, (f, n)),
        in_ff(op_ff(li), f, n) <==> has_def_in(defs, (f, n)),
        op_au(li, akss).contains((f, n)) <==> au_def_in(defs, (f, n)),
{
    lemma_no_relabel_upto(li, li.insts.len() as int);
    assert(op_rv(li) =~= Seq::<(PV, PV)>::empty());
    assert(moves_of(op_rv(li), kss, 0) =~= Seq::<(CKey, CKey)>::empty());
    assert(moves_of(op_rv(li), akss, 0) =~= Seq::<(CKey, CKey)>::empty());
    assert(cval(li.cm0, (f, n)) == total_hits(defs, uses, provf, (f, n)));
    assert(in_ff(li.ff0, f, n) <==> has_def_in(defs, (f, n)));
}
//@tags C20 C04
/// ... composed with unit cli_unused's lemma_C20_b_counts_are_refs: for a definition d whose file defines the name once,
/// the count printed behind d's name under d's file is the number of references find-references returns for d
/// (hypotheses of that lemma: the mirror invariant usages <-> usage_by_fixture, every definition filed under its name)
pub proof fn lemma_C20_count_is_reference_count(li: ListIn, kss: Seq<Seq<CKey>>, akss: Seq<Seq<CKey>>, defs: Map<Seq<char>, Seq<DefV>>, uses: Map<PV, Seq<UseV>>,
        byfix: Map<Seq<char>, Seq<(PV, UseV)>>, provf: spec_fn(Seq<char>) -> spec_fn(PV) -> bool, d: DefV)
    requires no_relabel(li), counts_post(li.cm0, defs, uses, provf), is_ff0(li.ff0, defs), is_au0(li.au0, defs),
        mirror(uses, byfix), names_wf(defs), in_seq(bucket(defs, d.name), d),
        forall|j: int| 0 <= j < bucket(defs, d.name).len() && (#[trigger] bucket(defs, d.name)[j]).file == d.file ==> bucket(defs, d.name)[j] == d,
    ensures
        in_ff(op_ff(li), d.file, d.name),
        cnt_of(op_cm(li, kss), d.file, d.name) as nat == op_refs(defs, byfix, provf, d).len(),
{
    lemma_C20_counts_shown_are_usage_counts(li, kss, akss, defs, uses, provf, d.file, d.name);
    lemma_C20_b_counts_are_refs(defs, uses, byfix, provf, d);
    let i = choose|i: int| 0 <= i < bucket(defs, d.name).len() && bucket(defs, d.name)[i] == d;
    assert(bucket(defs, d.name)[i].file == d.file);
    assert(has_def_in(defs, (d.file, d.name)));
}
//@tags C20
/// C20 "repeated runs print identical output" (hash order): when no file is re-labelled, two runs on the same index append
/// the SAME event sequence, whatever orders the two hash tables were enumerated in
pub proof fn lemma_C20_list_reproducible(o: Seq<Ev>, o1: Seq<Ev>, o2: Seq<Ev>, li: ListIn, defs: Map<Seq<char>, Seq<DefV>>, uses: Map<PV, Seq<UseV>>,
        provf: spec_fn(Seq<char>) -> spec_fn(PV) -> bool)
    requires list_post(o, o1, li), list_post(o, o2, li), no_relabel(li), counts_post(li.cm0, defs, uses, provf), is_ff0(li.ff0, defs), is_au0(li.au0, defs),
    ensures o1 == o2
{
    let (k1, a1) = choose|kss: Seq<Seq<CKey>>, akss: Seq<Seq<CKey>>|
        valid_orders(kss, li.cm0.dom(), op_rv(li).len() as int) && valid_orders(akss, li.au0, op_rv(li).len() as int)
        && o1 == o + #[trigger] op_list_out(li, op_cm(li, kss), op_au(li, akss));
    let (k2, a2) = choose|kss: Seq<Seq<CKey>>, akss: Seq<Seq<CKey>>|
        valid_orders(kss, li.cm0.dom(), op_rv(li).len() as int) && valid_orders(akss, li.au0, op_rv(li).len() as int)
        && o2 == o + #[trigger] op_list_out(li, op_cm(li, kss), op_au(li, akss));
    let x: Seq<char> = Seq::empty();
    lemma_C20_counts_shown_are_usage_counts(li, k1, a1, defs, uses, provf, Seq::empty(), x);
    lemma_C20_counts_shown_are_usage_counts(li, k2, a2, defs, uses, provf, Seq::empty(), x);
}

// ---- `fixtures list --only-unused` versus `fixtures unused` --------------------------------------------------------------
//@tags C20
/// with --only-unused (no re-labelling) a name is listed under file f iff its (f, name) count is 0 and NO definition of the
/// name in f is autouse.  Against get_unused_fixtures (unit cli_unused, `listable`): every (f, name) `fixtures unused`
/// reports is listed by `fixtures list --only-unused` unless f ALSO holds an autouse definition of the name; conversely a
/// listed name is reported by `fixtures unused` iff one of its non-autouse definitions in f is not third-party
pub proof fn lemma_C20_only_unused_vs_unused_command(li: ListIn, kss: Seq<Seq<CKey>>, akss: Seq<Seq<CKey>>, defs: Map<Seq<char>, Seq<DefV>>, uses: Map<PV, Seq<UseV>>,
        provf: spec_fn(Seq<char>) -> spec_fn(PV) -> bool, f: PV, n: Seq<char>)
    requires no_relabel(li), counts_post(li.cm0, defs, uses, provf), is_ff0(li.ff0, defs), is_au0(li.au0, defs), li.only,
    ensures ({
        let ctx = op_ctx(li, op_cm(li, kss), op_au(li, akss));
        &&& (in_ff(ctx.ff, f, n) && keep(ctx, f, n)) <==> (has_def_in(defs, (f, n)) && total_hits(defs, uses, provf, (f, n)) == 0 && !au_def_in(defs, (f, n)))
        &&& listable(defs, uses, provf, f, n) && !au_def_in(defs, (f, n)) ==> in_ff(ctx.ff, f, n) && keep(ctx, f, n)
        &&& (in_ff(ctx.ff, f, n) && keep(ctx, f, n) && (forall|i: int| 0 <= i < bucket(defs, n).len() && (#[trigger] bucket(defs, n)[i]).file == f ==> !bucket(defs, n)[i].is_third_party))
                ==> listable(defs, uses, provf, f, n)
    }),
{
    lemma_C20_counts_shown_are_usage_counts(li, kss, akss, defs, uses, provf, f, n);
    let ctx = op_ctx(li, op_cm(li, kss), op_au(li, akss));
    if listable(defs, uses, provf, f, n) {
        let i = choose|i: int| 0 <= i < bucket(defs, n).len() && (#[trigger] bucket(defs, n)[i]).file == f
            && !bucket(defs, n)[i].is_third_party && !bucket(defs, n)[i].autouse && total_hits(defs, uses, provf, (f, n)) == 0;
        assert(has_def_in(defs, (f, n)));
    }
    if in_ff(ctx.ff, f, n) && keep(ctx, f, n) && (forall|i: int| 0 <= i < bucket(defs, n).len() && (#[trigger] bucket(defs, n)[i]).file == f ==> !bucket(defs, n)[i].is_third_party) {
        let i = choose|i: int| 0 <= i < bucket(defs, n).len() && (#[trigger] bucket(defs, n)[i]).file == f;
        if bucket(defs, n)[i].autouse { assert(au_def_upto(defs, (f, n), bucket(defs, n).len() as int)); }
        assert(listable(defs, uses, provf, f, n));
    }
}

// ---- the second copy of the editable-install test (cli.rs 120-150) against mod.rs is_editable_install_third_party --------
/// textual copy of units/classify.rs `op_editable_third_party` (PROVED there to be what mod.rs is_editable_install_third_party
/// returns): the decision of the FIRST install, in list order, whose source root is a prefix of the file
pub open spec fn op_editable_third_party(rs: Seq<PV>, ws: Option<PV>, file: PV) -> bool
    decreases rs.len()
{
    if rs.len() == 0 { false }
    else if pv_is_prefix(rs[0], file) {
        match ws { Some(w) => !(pv_is_prefix(w, rs[0]) || pv_is_prefix(rs[0], w)), None => true }
    } else { op_editable_third_party(rs.drop_first(), ws, file) }
}
pub open spec fn srcs(insts: Seq<InstV>) -> Seq<PV> { insts.map_values(|i: InstV| i.src) }
/// what cli.rs decides: file f is re-labelled iff SOME install that does not overlap the workspace has f below its source root
pub open spec fn relabelled(insts: Seq<InstV>, ws: Option<PV>, f: PV) -> bool {
    exists|i: int| 0 <= i < insts.len() && !overlaps(#[trigger] insts[i], ws) && pv_is_prefix(insts[i].src, f)
}
//@tags C20
/// the two copies AGREE in one direction: a file mod.rs classifies as third-party editable is re-labelled by cli.rs
pub proof fn lemma_C20_third_party_editable_is_relabelled(insts: Seq<InstV>, ws: Option<PV>, f: PV)
    requires op_editable_third_party(srcs(insts), ws, f)
    ensures relabelled(insts, ws, f)
    decreases insts.len()
{
    let rs = srcs(insts);
    if pv_is_prefix(rs[0], f) {
        assert(insts[0].src == rs[0]);
        assert(!overlaps(insts[0], ws));
    } else {
        assert(rs.drop_first() =~= srcs(insts.drop_first()));
        lemma_C20_third_party_editable_is_relabelled(insts.drop_first(), ws, f);
        let i = choose|i: int| 0 <= i < insts.drop_first().len() && !overlaps(#[trigger] insts.drop_first()[i], ws) && pv_is_prefix(insts.drop_first()[i].src, f);
        assert(insts[i + 1] == insts.drop_first()[i]);
    }
}
//@tags C20
/// ... and in the other direction ONLY when the installs whose source root contains f agree about overlapping the
/// workspace (e.g. at most one such install): the copies differ when an overlapping install precedes a non-overlapping one
pub proof fn lemma_C20_relabelled_is_third_party_if_unambiguous(insts: Seq<InstV>, ws: Option<PV>, f: PV)
    requires relabelled(insts, ws, f),
        forall|i: int| 0 <= i < insts.len() && pv_is_prefix((#[trigger] insts[i]).src, f) ==> !overlaps(insts[i], ws),
    ensures op_editable_third_party(srcs(insts), ws, f)
    decreases insts.len()
{
    let rs = srcs(insts);
    let i0 = choose|i: int| 0 <= i < insts.len() && !overlaps(#[trigger] insts[i], ws) && pv_is_prefix(insts[i].src, f);
    assert(insts[0].src == rs[0]);
    if pv_is_prefix(rs[0], f) {
        assert(!overlaps(insts[0], ws));
    } else {
        assert(rs.drop_first() =~= srcs(insts.drop_first()));
        assert(insts.drop_first()[i0 - 1] == insts[i0]);
        assert forall|i: int| 0 <= i < insts.drop_first().len() && pv_is_prefix((#[trigger] insts.drop_first()[i]).src, f) implies !overlaps(insts.drop_first()[i], ws) by {
            assert(insts.drop_first()[i] == insts[i + 1]);
        }
        lemma_C20_third_party_relabel_step(insts, ws, f);
    }
}
proof fn lemma_C20_third_party_relabel_step(insts: Seq<InstV>, ws: Option<PV>, f: PV)
    requires insts.len() > 0, !pv_is_prefix(insts[0].src, f), relabelled(insts, ws, f),
        forall|i: int| 0 <= i < insts.len() && pv_is_prefix((#[trigger] insts[i]).src, f) ==> !overlaps(insts[i], ws),
    ensures op_editable_third_party(srcs(insts), ws, f)
    decreases insts.len(), 0nat
{
    let t = insts.drop_first();
    let i0 = choose|i: int| 0 <= i < insts.len() && !overlaps(#[trigger] insts[i], ws) && pv_is_prefix(insts[i].src, f);
    assert(t[i0 - 1] == insts[i0]);
    assert(relabelled(t, ws, f));
    assert forall|i: int| 0 <= i < t.len() && pv_is_prefix((#[trigger] t[i]).src, f) implies !overlaps(t[i], ws) by { assert(t[i] == insts[i + 1]); }
    assert(srcs(insts).drop_first() =~= srcs(t));
    assert(srcs(insts)[0] == insts[0].src);
    lemma_C20_relabelled_is_third_party_if_unambiguous(t, ws, f);
}
/// the re-labelled files are the ORIGINAL components of `remapped`
pub proof fn lemma_remapped_origins(insts: Seq<InstV>, ws: Option<PV>, keys: Seq<PV>, n: int, f: PV)
    requires 0 <= n <= insts.len()
    ensures (exists|j: int| 0 <= j < op_remapped(insts, ws, keys, n).len() && (#[trigger] op_remapped(insts, ws, keys, n)[j]).0 == f)
        <==> (keys.contains(f) && relabelled(insts.take(n), ws, f))
    decreases n
{
    let r = op_remapped(insts, ws, keys, n);
    if n > 0 {
        lemma_remapped_origins(insts, ws, keys, n - 1, f);
        let r0 = op_remapped(insts, ws, keys, n - 1);
        let i = insts[n - 1];
        let add = if overlaps(i, ws) { Seq::<(PV, PV)>::empty() } else { inst_pairs(i, keys) };
        assert(r == r0 + add);
        lemma_filter_contains(keys, under_fn(i.src), f);
        let fk = keys.filter(under_fn(i.src));
        if exists|j: int| 0 <= j < r.len() && (#[trigger] r[j]).0 == f {
            let j = choose|j: int| 0 <= j < r.len() && (#[trigger] r[j]).0 == f;
            if j < r0.len() {
                assert(r0[j].0 == f);
                let k = choose|k: int| 0 <= k < insts.take(n - 1).len() && !overlaps(#[trigger] insts.take(n - 1)[k], ws) && pv_is_prefix(insts.take(n - 1)[k].src, f);
                assert(insts.take(n)[k] == insts.take(n - 1)[k]);
            } else {
                assert(add[j - r0.len()].0 == f);
                assert(fk[j - r0.len()] == f);
                assert(fk.contains(f));
                assert(insts.take(n)[n - 1] == i);
            }
        }
        if keys.contains(f) && relabelled(insts.take(n), ws, f) {
            let k = choose|k: int| 0 <= k < insts.take(n).len() && !overlaps(#[trigger] insts.take(n)[k], ws) && pv_is_prefix(insts.take(n)[k].src, f);
            if k < n - 1 {
                assert(insts.take(n - 1)[k] == insts.take(n)[k]);
                assert(relabelled(insts.take(n - 1), ws, f));
                let j = choose|j: int| 0 <= j < r0.len() && (#[trigger] r0[j]).0 == f;
                assert(r[j] == r0[j]);
            } else {
                assert(insts.take(n)[k] == i);
                assert(fk.contains(f));
                let m = choose|m: int| 0 <= m < fk.len() && fk[m] == f;
                assert(add[m].0 == f);
                assert(r[r0.len() + m] == add[m]);
            }
        }
    } else {
        assert(insts.take(0) =~= Seq::<InstV>::empty());
    }
}

// ---- structure of the tree: only what lies below the root is printed -----------------------------------------------------
//@tags C20
/// every top-level entry is a direct child of the scanned root and every child list holds direct children of its key: a file
/// that is not below `root` is never handed to print_tree_node (get_unused_fixtures has no such restriction)
pub proof fn lemma_C20_only_below_root(li: ListIn, i: int)
    requires 0 <= i < op_top(li).len()
    ensures op_top(li)[i].len() > 0, op_top(li)[i].drop_last() == li.root, tree_ok(op_tree(li), op_ps(li), op_ps(li).len() as int)
{
    lemma_filter_sat(op_ps(li), top_fn(li.root), i);
    axiom_sorted_paths(op_paths(li));
    lemma_tree_upto_ok(op_ps(li), li.root, op_ps(li).len() as int);
}

// ---- vacuity guards: each of these must FAIL ---------------------------------------------------------------------------------
/// cli.rs and mod.rs always agree about editable installs (they do NOT: overlapping install listed before a nested outside one)
proof fn canary_relabelled_is_always_third_party(insts: Seq<InstV>, ws: Option<PV>, f: PV)
    requires relabelled(insts, ws, f)
    ensures op_editable_third_party(srcs(insts), ws, f)
{}
/// `fixtures list --only-unused` and `fixtures unused` report the same (file, name) keys (they do NOT: third-party, mixed autouse)
proof fn canary_only_unused_is_unused_command(li: ListIn, kss: Seq<Seq<CKey>>, akss: Seq<Seq<CKey>>, defs: Map<Seq<char>, Seq<DefV>>, uses: Map<PV, Seq<UseV>>,
        provf: spec_fn(Seq<char>) -> spec_fn(PV) -> bool, f: PV, n: Seq<char>)
    requires no_relabel(li), counts_post(li.cm0, defs, uses, provf), is_ff0(li.ff0, defs), is_au0(li.au0, defs), li.only,
    ensures (in_ff(op_ff(li), f, n) && keep(op_ctx(li, op_cm(li, kss), op_au(li, akss)), f, n)) <==> listable(defs, uses, provf, f, n)
{
    lemma_C20_only_unused_vs_unused_command(li, kss, akss, defs, uses, provf, f, n);
}
/// an autouse fixture with no usage is shown as `unused`
proof fn canary_autouse_shown_unused()
    ensures fix_info(0, true) == unused_text()
{}
/// --skip-unused and --only-unused list the same names
proof fn canary_skip_is_only(ctx: Ctx, f: PV, n: Seq<char>)
    ensures keep(Ctx { skip: true, only: false, ..ctx }, f, n) == keep(Ctx { skip: false, only: true, ..ctx }, f, n)
{}
/// the count shown does not depend on the file (by-name total)
proof fn canary_count_by_name(cm: Map<CKey, usize>, f1: PV, f2: PV, n: Seq<char>)
    ensures cnt_of(cm, f1, n) == cnt_of(cm, f2, n)
{}
/// every file is re-labelled
proof fn canary_everything_relabelled(li: ListIn)
    ensures op_rv(li).len() == op_keys0(li).len()
{}
/// the axioms in scope are contradictory
proof fn canary_clitree_axioms_inconsistent()
    ensures false
{
    axiom_path_ord_total(); axiom_str_ord_total();
    axiom_sorted_paths(Set::<PV>::empty()); axiom_sorted_strs(Set::<Seq<char>>::empty());
}
