// ---------------------------------------------------------------------------------------------
// MECHANICAL COPY of the specification part of units/undeclared_avail.rs (lines 25-32: avail_ok, op_is_available)
// so that the contract imported by `//@stub undeclared_avail is_available_fixture` can be read in another unit.
// Needs prelude/path.rs (conftest_name, pv_has_parent), prelude/path_ext.rs (pv_is_prefix), prelude/types.rs (DefV).
// Regenerate, do not edit:   sed -n '25,32p' units/undeclared_avail.rs
/// what is_available_fixture accepts for one definition d seen from `file`
pub open spec fn avail_ok(file: PV) -> spec_fn(DefV) -> bool {
    |d: DefV| d.file == file
        || (d.file.len() > 0 && d.file.last() == conftest_name()
            && pv_is_prefix(if pv_has_parent(d.file) { d.file.drop_last() } else { Seq::<Seq<char>>::empty() }, file))
        || d.is_third_party || d.is_plugin
}
pub open spec fn op_is_available(ds: Seq<DefV>, file: PV) -> bool { exists|i: int| 0 <= i < ds.len() && avail_ok(file)(#[trigger] ds[i]) }
